"""C06 — compilation is deterministic: same source and constants, identical circuit."""
import json

from . import common, corpus, gen_datamove
from .common import Failure

PROP_MODULES = ["GarbleVerif.Props.C06", "GarbleVerif.ExtractedSites"]

HANDWRITTEN = [
    ("const-ref", "const A: u8 = 1u8;\nconst B: u8 = A;\npub fn main(x: u8) -> u8 { x + B }", {}),
    ("const-chain", "const A: u16 = 7u16;\nconst B: u16 = A;\nconst C: u16 = B;\nconst D: u16 = C;\npub fn main(x: u16) -> u16 { x + D + A }", {}),
    ("const-ext", "const N: usize = PARTY_0::N;\nconst M: usize = N;\nconst K: u8 = PARTY_1::K;\nconst L: u8 = K;\npub fn main(x: [u8; N]) -> u8 { x[0] + L }",
     {"PARTY_0": {"N": {"NumUnsigned": [3, "Usize"]}}, "PARTY_1": {"K": {"NumUnsigned": [9, "U8"]}}}),
    ("const-minmax", "const A: usize = max(PARTY_0::A, PARTY_1::A);\nconst B: usize = min(A, PARTY_1::A) + 1usize;\npub fn main(x: [u8; A], y: [u8; B]) -> u8 { x[0] + y[0] }",
     {"PARTY_0": {"A": {"NumUnsigned": [2, "Usize"]}}, "PARTY_1": {"A": {"NumUnsigned": [4, "Usize"]}}}),
    ("many-panics", "pub fn main(a:u8,b:u8,c:bool,d:u8,e:bool)->u8 { let x = if c { let p=a*d; let q=a+b; let r=a-b; let s=b+d; p } else { let p=a/d; let q=a+b; let r=a-b; let s=b+d; p }; let y = if e { a+b } else { a-b }; x+y }", {}),
    ("many-vars", "pub fn main(c: bool, a: u8, b: u8) -> u8 { let mut v1 = a; let mut v2 = b; let mut v3 = 0u8; let mut v4 = 1u8; if c { v1 = b; v2 = a; v3 = a + b; v4 = a - b; } else { v3 = 1u8; } v1 + v2 + v3 + v4 }", {}),
    ("structs-enums", "struct S { b: u8, a: u16 }\nstruct T { s: S, k: bool }\nenum E { A, B(u8), C(S) }\npub fn main(t: T, e: E) -> u16 { match e { E::A => t.s.a, E::B(x) => x as u16, E::C(s) => s.a + (t.s.b as u16) } }", {}),
    ("fns", "fn f(x: u8) -> u8 { g(x) + 1u8 }\nfn g(x: u8) -> u8 { x * 2u8 }\nfn h(x: u8) -> u8 { f(x) + g(x) }\npub fn main(x: u8) -> u8 { h(x) + f(x) }", {}),
]


# large circuits (more than 2^17 gates): compiled fewer times
BIG = [
    ("big-products", "pub fn main(a: u64, b: u64, c: u64, d: u64) -> u64 { let p1 = a * b; let p2 = a * c; let p3 = a * d; let p4 = b * c; "
                     "let p5 = b * d; let q1 = a * b; let q2 = b * c; let q3 = a * d; p1 ^ p2 ^ p3 ^ p4 ^ p5 ^ q1 ^ q2 ^ q3 }", {}),
    ("big-divisions", "pub fn main(a: u64, b: u64, c: u64) -> u64 { let p1 = a * b; let d1 = a / c; let p2 = b * c; let d2 = b / c; let p3 = a * c; "
                      "let r1 = a % b; let q1 = a * b; let q2 = a / c; p1 ^ d1 ^ p2 ^ d2 ^ p3 ^ r1 ^ q1 ^ q2 }", {}),
]


def run(ctx):
    quick = ctx.tier == "quick"
    ctx.audit(PROP_MODULES)
    failures = ctx.proof_failures()
    ok, log = ctx.build_harness()
    if not ok:
        failures.append(Failure("model", "harness-build-failed", "cargo build of the harness failed: " + log[-400:]))
        return common.finish(ctx, failures, {"evaluations": 0, "distinct_nontrivial": 0, "samples": []}, [], "proof")
    progs = [(n, s, c) for n, s, c in HANDWRITTEN]
    progs += [(n, s, {}) for n, s in corpus.programs()]
    for i in range(150 if quick else 3000):
        progs.append((f"datamove#{i}", gen_datamove.program(ctx.rng), {}))
    nrep = 12 if quick else 60
    nbig = len(BIG)
    progs = list(BIG) + progs
    cases = [{"id": i, "op": "compile_repeat", "src": s, "consts": c, "n": (4 if quick else 10) if i < nbig else nrep} for i, (_, s, c) in enumerate(progs)]
    inproc, _, _ = ctx.run_impl(cases, timeout=3000)
    # fresh processes: new RandomState seeds
    nproc = 3 if quick else 8
    single = [{"id": i, "op": "compile_repeat", "src": s, "consts": c, "n": 1} for i, (_, s, c) in enumerate(progs)]
    cross = [ctx.run_impl(single, timeout=3000)[0] for _ in range(nproc)]
    ncompiled = 0
    distinct = set()
    for i, (name, src, consts) in enumerate(progs):
        r = inproc.get(i)
        outcomes = {}
        if r:
            for k, v in r["outcomes"]:
                outcomes[k] = outcomes.get(k, 0) + v
        for cr in cross:
            rr = cr.get(i)
            if rr:
                for k, v in rr["outcomes"]:
                    outcomes[k] = outcomes.get(k, 0) + v
        if any(k.startswith("circuit:") for k in outcomes):
            ncompiled += 1
            distinct.add(src)
        if len(outcomes) > 1:
            kinds = sorted({"panic" if k.startswith("panic@") else k.split(":")[0] for k in outcomes})
            site = next((k[6:].split(": ")[0].replace("/repo/", "") for k in outcomes if k.startswith("panic@")), "")
            failures.append(Failure("oracle", "nondeterministic:" + "+".join(kinds) + (f"@{site}" if site else ""),
                                    f"{nrep} compilations in one process and {nproc} fresh processes give {len(outcomes)} different outcomes: {outcomes}",
                                    {"op": "compile_repeat", "src": src, "consts": consts, "n": 40}, "one outcome", outcomes))
    seen, uniq = set(), []
    for f in failures:
        if f.signature not in seen:
            seen.add(f.signature); uniq.append(f)
    coverage = {
        "evaluations": len(progs) * (nrep + nproc),
        "distinct_nontrivial": len(distinct),
        "rule": "every program (hand-written const/panic/struct/function shapes, two programs of more than 2^17 gates, the repository corpus, generated data-movement "
                "programs) is compiled repeatedly in one process and once in each of several fresh processes (std RandomState "
                "differs per map and per process); all outcomes (the SSA circuit together with its register form, an error or a panic) must be identical; non-trivial = distinct "
                "programs that compile",
        "programs": ncompiled,
        "distribution": {"programs": len(progs), "in_process_repetitions": nrep, "fresh_processes": nproc},
        "samples": [{"src": progs[0][1]}, {"src": progs[-1][1]}],
    }
    assumptions = ["the regex-level site extractor sees every HashMap/HashSet iteration (names `fields`/`field_types` are excluded as "
                   "ambiguous; struct_def.fields is a Vec)", "RandomState cannot be seeded from outside: replays are 'N compilations, >= 2 outcomes'"]
    return common.finish(ctx, uniq, coverage, assumptions, "proof", search=None)
