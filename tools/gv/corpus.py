"""Program corpus: the repo's examples, the sources embedded in its tests, and /verif/corpus/programs."""
import glob
import os
import re

from . import common

_cache = None


def _from_tests():
    out = []
    for path in sorted(glob.glob(os.path.join(common.REPO, "tests", "*.rs"))):
        src = open(path).read()
        for m in re.finditer(r'let\s+prg\s*=\s*(format!\(\s*)?"((?:[^"\\]|\\.)*)"', src, re.S):
            text = m.group(2)
            if m.group(1):
                t2 = text.replace("{{", "\x00").replace("}}", "\x01")
                if "{" in t2 or "}" in t2:
                    continue  # has placeholders
                text = t2.replace("\x00", "{").replace("\x01", "}")
            text = text.replace('\\"', '"').replace("\\n", "\n")
            if "fn " in text:
                out.append((os.path.basename(path), text))
    return out


def programs():
    """[(name, source)] — deduplicated."""
    global _cache
    if _cache is not None:
        return _cache
    res = []
    seen = set()
    for path in sorted(glob.glob(os.path.join(common.REPO, "garble_examples", "*.garble.rs"))):
        res.append((os.path.basename(path), open(path).read()))
    for path in sorted(glob.glob(os.path.join(common.VERIF, "corpus", "programs", "*.garble.rs"))):
        res.append(("corpus/" + os.path.basename(path), open(path).read()))
    for i, (f, t) in enumerate(_from_tests()):
        res.append((f"{f}#{i}", t))
    out = []
    for n, t in res:
        if t in seen:
            continue
        seen.add(t)
        out.append((n, t))
    _cache = out
    return out
