"""Random types (with struct/enum definitions), values and literal spellings — shared by C09 and the
language-level checks. Types are dicts in the harness's expanded JSON format:
  {"k":"bool"} {"k":"int","t":"u8"} {"k":"array","elem":T,"n":N} {"k":"tuple","ts":[T]}
  {"k":"struct","name":S,"fields":[[f,T]]}   (fields sorted by name, as the parser does)
  {"k":"enum","name":E,"variants":[[v,isUnit,[T]]]}
Values are Python objects: bool, int, list (array), tuple, ("struct", {f: v}), ("enum", variant, [v] | None)."""

INTS = {"u8": (False, 8), "u16": (False, 16), "u32": (False, 32), "u64": (False, 64), "usize": (False, 32),
        "i8": (True, 8), "i16": (True, 16), "i32": (True, 32), "i64": (True, 64)}
SERDE = {"u8": "U8", "u16": "U16", "u32": "U32", "u64": "U64", "usize": "Usize", "i8": "I8", "i16": "I16", "i32": "I32", "i64": "I64"}
FIELD_NAMES = ["b", "a", "zz", "c", "x1", "aa", "k", "m"]


def int_range(t):
    s, w = INTS[t]
    return (-(1 << (w - 1)), (1 << (w - 1)) - 1) if s else (0, (1 << w) - 1)


class TypeGen:
    def __init__(self, rng, allow_zero_sized=True):
        self.rng = rng
        self.structs = {}
        self.enums = {}
        self.zero = allow_zero_sized

    def ty_plain(self, depth, structs=False, enums=False):
        """Booleans, integers, arrays and tuples (at least two components) of them, optionally structs and enums"""
        r = self.rng.random()
        if enums and depth > 0 and r > 0.88:
            if self.enums and self.rng.random() < 0.4:
                return self.enums[self.rng.choice(sorted(self.enums))]
            variants = []
            for i in range(self.rng.choice([2, 3, 4, 5])):
                if self.rng.random() < 0.4:
                    variants.append([f"V{i}", True, []])
                else:
                    variants.append([f"V{i}", False, [self.ty_plain(depth - 1, structs, False) for _ in range(self.rng.choice([0, 1, 2]))]])
            name = f"E{len(self.enums)}"
            t = {"k": "enum", "name": name, "variants": variants}
            self.enums[name] = t
            return t
        if depth <= 0 or r < 0.4:
            if self.rng.random() < 0.2:
                return {"k": "bool"}
            return {"k": "int", "t": self.rng.choice(list(INTS))}
        if r < 0.65:
            return {"k": "array", "elem": self.ty_plain(depth - 1, structs, enums), "n": self.rng.choice([1, 2, 3])}
        if structs and r > 0.85:
            if self.structs and self.rng.random() < 0.4:
                return self.structs[self.rng.choice(sorted(self.structs))]
            names = sorted(self.rng.sample(FIELD_NAMES, self.rng.choice([1, 2, 3])))
            fields = [[f, self.ty_plain(depth - 1, structs, enums)] for f in names]
            name = f"S{len(self.structs)}"
            t = {"k": "struct", "name": name, "fields": fields}
            self.structs[name] = t
            return t
        return {"k": "tuple", "ts": [self.ty_plain(depth - 1, structs, enums) for _ in range(self.rng.choice([2, 2, 3]))]}

    def ty(self, depth):
        r = self.rng.random()
        if depth <= 0 or r < 0.35:
            if self.rng.random() < 0.2:
                return {"k": "bool"}
            return {"k": "int", "t": self.rng.choice(list(INTS))}
        if r < 0.5:
            n = self.rng.choice([0, 1, 2, 3] if self.zero else [1, 2, 3])
            return {"k": "array", "elem": self.ty(depth - 1), "n": n}
        if r < 0.65:
            k = self.rng.choice([0, 2, 2, 3] if self.zero else [2, 3])  # 1-tuples have no type syntax
            return {"k": "tuple", "ts": [self.ty(depth - 1) for _ in range(k)]}
        if r < 0.82:
            if self.structs and self.rng.random() < 0.3:
                return self.structs[self.rng.choice(sorted(self.structs))]
            k = self.rng.choice([1, 2, 3])
            names = sorted(self.rng.sample(FIELD_NAMES, k))
            fields = [[f, self.ty(depth - 1)] for f in names]
            name = f"S{len(self.structs)}"
            t = {"k": "struct", "name": name, "fields": fields}
            self.structs[name] = t
            return t
        if self.enums and self.rng.random() < 0.3:
            return self.enums[self.rng.choice(sorted(self.enums))]
        k = self.rng.choice([1, 2, 3, 4, 5] if self.zero else [2, 3, 4, 5])     # one unit variant = a type of 0 bits
        variants = []
        for i in range(k):
            if self.rng.random() < 0.4:
                variants.append([f"V{i}", True, []])
            else:
                variants.append([f"V{i}", False, [self.ty(depth - 1) for _ in range(self.rng.choice([0, 1, 2]))]])
        name = f"E{len(self.enums)}"
        t = {"k": "enum", "name": name, "variants": variants}
        self.enums[name] = t
        return t

    def defs_src(self):
        out = []
        for name, t in sorted(self.structs.items()):
            # definitions are written in a shuffled order: the parser sorts them
            fs = list(t["fields"])
            self.rng.shuffle(fs)
            out.append(f"struct {name} {{ {', '.join(f'{f}: {ty_str(ft)}' for f, ft in fs)} }}")
        for name, t in sorted(self.enums.items()):
            vs = []
            for v, unit, ts in t["variants"]:
                vs.append(v if unit else f"{v}({', '.join(ty_str(x) for x in ts)})")
            out.append(f"enum {name} {{ {', '.join(vs)} }}")
        return "\n".join(out) + ("\n" if out else "")


def ty_str(t):
    k = t["k"]
    if k == "bool":
        return "bool"
    if k == "int":
        return t["t"]
    if k == "array":
        return f"[{ty_str(t['elem'])}; {t['n']}]"
    if k == "tuple":
        if len(t["ts"]) == 1:
            return f"({ty_str(t['ts'][0])},)"
        return "(" + ", ".join(ty_str(x) for x in t["ts"]) + ")"
    return t["name"]


def size_of(t):
    k = t["k"]
    if k == "bool":
        return 1
    if k == "int":
        return INTS[t["t"]][1]
    if k == "array":
        return size_of(t["elem"]) * t["n"]
    if k == "tuple":
        return sum(size_of(x) for x in t["ts"])
    if k == "struct":
        return sum(size_of(x) for _, x in t["fields"])
    nv = len(t["variants"])
    tag = 0
    while (1 << tag) < nv:
        tag += 1
    return tag + max([sum(size_of(x) for x in ts) for _, _, ts in t["variants"]] or [0])


def tag_size(t):
    tag = 0
    while (1 << tag) < len(t["variants"]):
        tag += 1
    return tag


def rand_value(rng, t, boundary=0.5):
    k = t["k"]
    if k == "bool":
        return rng.random() < 0.5
    if k == "int":
        lo, hi = int_range(t["t"])
        if rng.random() < boundary:
            return rng.choice([lo, hi, 0, 1, lo + 1, hi - 1, hi // 2])
        return rng.randint(lo, hi)
    if k == "array":
        if rng.random() < 0.2 and t["n"] > 0:
            v = rand_value(rng, t["elem"], boundary)
            return [v] * t["n"]
        return [rand_value(rng, t["elem"], boundary) for _ in range(t["n"])]
    if k == "tuple":
        return tuple(rand_value(rng, x, boundary) for x in t["ts"])
    if k == "struct":
        return ("struct", {f: rand_value(rng, x, boundary) for f, x in t["fields"]})
    v, unit, ts = rng.choice(t["variants"])
    return ("enum", v, None if unit else [rand_value(rng, x, boundary) for x in ts])


def encode(t, v):
    """The documented bit layout (independent Python implementation)."""
    k = t["k"]
    if k == "bool":
        return "1" if v else "0"
    if k == "int":
        w = INTS[t["t"]][1]
        return format(v & ((1 << w) - 1), f"0{w}b")
    if k == "array":
        return "".join(encode(t["elem"], x) for x in v)
    if k == "tuple":
        return "".join(encode(x, y) for x, y in zip(t["ts"], v))
    if k == "struct":
        return "".join(encode(ft, v[1][f]) for f, ft in t["fields"])
    idx = next(i for i, (n, _, _) in enumerate(t["variants"]) if n == v[1])
    ts = t["variants"][idx][2]
    payload = "".join(encode(x, y) for x, y in zip(ts, v[2] or []))
    tag = tag_size(t)
    return (format(idx, f"0{tag}b") if tag else "") + payload + "0" * (size_of(t) - tag - len(payload))


def canon_lit(t, v):
    """serde JSON of the canonical `Literal` (what the decoder produces)."""
    k = t["k"]
    if k == "bool":
        return "True" if v else "False"
    if k == "int":
        return {"NumSigned" if INTS[t["t"]][0] else "NumUnsigned": [v, SERDE[t["t"]]]}
    if k == "array":
        return {"Array": [canon_lit(t["elem"], x) for x in v]}
    if k == "tuple":
        return {"Tuple": [canon_lit(x, y) for x, y in zip(t["ts"], v)]}
    if k == "struct":
        return {"Struct": [t["name"], [[f, canon_lit(ft, v[1][f])] for f, ft in t["fields"]]]}
    idx = next(i for i, (n, _, _) in enumerate(t["variants"]) if n == v[1])
    _, unit, ts = t["variants"][idx]
    return {"Enum": [t["name"], v[1], "Unit" if unit else {"Tuple": [canon_lit(x, y) for x, y in zip(ts, v[2])]}]}


def spelling(rng, t, v):
    """A valid but possibly non-canonical spelling of v: ArrayRepeat, Range, permuted struct fields."""
    k = t["k"]
    if k in ("bool", "int"):
        return canon_lit(t, v)
    if k == "array":
        e = t["elem"]
        if v and all(x == v[0] for x in v) and rng.random() < 0.6:
            return {"ArrayRepeat": [spelling(rng, e, v[0]), len(v)]}
        if e["k"] == "int" and not INTS[e["t"]][0] and all(v[i] + 1 == v[i + 1] for i in range(len(v) - 1)) and rng.random() < 0.8:
            lo = v[0] if v else rng.randrange(0, 5)
            return {"Range": [lo, lo + len(v), SERDE[e["t"]]]}
        return {"Array": [spelling(rng, e, x) for x in v]}
    if k == "tuple":
        return {"Tuple": [spelling(rng, x, y) for x, y in zip(t["ts"], v)]}
    if k == "struct":
        fs = [[f, spelling(rng, ft, v[1][f])] for f, ft in t["fields"]]
        rng.shuffle(fs)
        return {"Struct": [t["name"], fs]}
    idx = next(i for i, (n, _, _) in enumerate(t["variants"]) if n == v[1])
    _, unit, ts = t["variants"][idx]
    return {"Enum": [t["name"], v[1], "Unit" if unit else {"Tuple": [spelling(rng, x, y) for x, y in zip(ts, v[2])]}]}


def denote(t, lit):
    """Specification: the value a Literal JSON denotes at type t, or None if it is not a literal of t."""
    k = t["k"]
    if lit in ("True", "False"):
        return (lit == "True") if k == "bool" else None
    if not isinstance(lit, dict) or len(lit) != 1:
        return None
    tag, body = next(iter(lit.items()))
    if tag in ("NumUnsigned", "NumSigned"):
        if k != "int" or SERDE[t["t"]] != body[1] or INTS[t["t"]][0] != (tag == "NumSigned"):
            return None
        lo, hi = int_range(t["t"])
        return body[0] if lo <= body[0] <= hi else None
    if tag == "ArrayRepeat":
        if k != "array" or body[1] != t["n"]:
            return None
        e = denote(t["elem"], body[0])
        return None if e is None else [e] * t["n"]
    if tag == "Array":
        if k != "array" or len(body) != t["n"]:
            return None
        es = [denote(t["elem"], x) for x in body]
        return None if any(e is None for e in es) else es
    if tag == "Range":
        e = t.get("elem", {})
        if k != "array" or e.get("k") != "int" or INTS[e["t"]][0] or SERDE[e["t"]] != body[2]:
            return None
        lo, hi = body[0], body[1]
        if hi < lo or hi - lo != t["n"] or (hi > lo and hi - 1 > int_range(e["t"])[1]):
            return None
        return list(range(lo, hi))
    if tag == "Tuple":
        if k != "tuple" or len(body) != len(t["ts"]):
            return None
        es = [denote(x, y) for x, y in zip(t["ts"], body)]
        return None if any(e is None for e in es) else tuple(es)
    if tag == "Struct":
        if k != "struct" or body[0] != t["name"]:
            return None
        names = [f for f, _ in body[1]]
        if sorted(names) != sorted(f for f, _ in t["fields"]):
            return None
        d = {}
        for f, ft in t["fields"]:
            d[f] = denote(ft, next(l for n, l in body[1] if n == f))
            if d[f] is None:
                return None
        return ("struct", d)
    if tag == "Enum":
        if k != "enum" or body[0] != t["name"]:
            return None
        var = next((x for x in t["variants"] if x[0] == body[1]), None)
        if var is None:
            return None
        if var[1]:
            return ("enum", body[1], None) if body[2] == "Unit" else None
        if not isinstance(body[2], dict) or "Tuple" not in body[2] or len(body[2]["Tuple"]) != len(var[2]):
            return None
        es = [denote(x, y) for x, y in zip(var[2], body[2]["Tuple"])]
        return None if any(e is None for e in es) else ("enum", body[1], es)
    return None


def mutate(rng, t, lit):
    """One adversarial edit somewhere in a literal (returns (kind, literal))."""
    import copy
    lit = copy.deepcopy(lit)
    sites = []

    def walk(t, l, setter):
        sites.append((t, l, setter))
        if not isinstance(l, dict):
            return
        tag, body = next(iter(l.items()))
        k = t["k"]
        if tag == "Array" and k == "array":
            for i, x in enumerate(body):
                walk(t["elem"], x, lambda v, b=body, i=i: b.__setitem__(i, v))
        elif tag == "ArrayRepeat" and k == "array":
            walk(t["elem"], body[0], lambda v, b=body: b.__setitem__(0, v))
        elif tag == "Tuple" and k == "tuple":
            for i, (x, tt) in enumerate(zip(body, t["ts"])):
                walk(tt, x, lambda v, b=body, i=i: b.__setitem__(i, v))
        elif tag == "Struct" and k == "struct":
            for pair in body[1]:
                ft = next((x for f, x in t["fields"] if f == pair[0]), None)
                if ft:
                    walk(ft, pair[1], lambda v, p=pair: p.__setitem__(1, v))
        elif tag == "Enum" and k == "enum" and isinstance(body[2], dict):
            var = next((x for x in t["variants"] if x[0] == body[1]), None)
            if var:
                for i, (x, tt) in enumerate(zip(body[2]["Tuple"], var[2])):
                    walk(tt, x, lambda v, b=body[2]["Tuple"], i=i: b.__setitem__(i, v))

    holder = [lit]
    walk(t, lit, lambda v: holder.__setitem__(0, v))
    st, sl, setter = rng.choice(sites)
    k = st["k"]
    kind = "noop"
    if k == "int":
        lo, hi = int_range(st["t"])
        signed = INTS[st["t"]][0]
        choice = rng.choice(["above", "below", "tag", "sign", "huge"])
        if choice == "above" and hi + 1 < 2 ** 64 and (not signed or hi + 1 < 2 ** 63):
            setter({"NumSigned" if signed else "NumUnsigned": [hi + 1, SERDE[st["t"]]]}); kind = "int-above-max"
        elif choice == "below" and signed and lo - 1 >= -2 ** 63:
            setter({"NumSigned": [lo - 1, SERDE[st["t"]]]}); kind = "int-below-min"
        elif choice == "tag":
            other = rng.choice([x for x in INTS if INTS[x][0] == signed and x != st["t"]])
            setter({"NumSigned" if signed else "NumUnsigned": [0, SERDE[other]]}); kind = "int-wrong-tag"
        elif choice == "sign":
            setter({"NumUnsigned" if signed else "NumSigned": [1, SERDE[st["t"]] if False else ("U8" if signed else "I8")]}); kind = "int-wrong-signedness"
        else:
            setter({"NumSigned": [-2 ** 63, SERDE[st["t"]]]} if signed else {"NumUnsigned": [2 ** 64 - 1, SERDE[st["t"]]]}); kind = "int-extreme"
    elif k == "bool":
        setter({"NumUnsigned": [1, "U8"]}); kind = "bool-as-int"
    elif k == "array":
        tag, body = next(iter(sl.items())) if isinstance(sl, dict) else ("?", None)
        choice = rng.choice(["len", "repeat", "range", "tuple"])
        if choice == "len" and tag == "Array":
            if body and rng.random() < 0.5:
                body.pop(); kind = "array-too-short"
            else:
                body.append(body[0] if body else "True"); kind = "array-too-long"
        elif choice == "repeat":
            e = body[0] if tag in ("ArrayRepeat",) else (body[0] if tag == "Array" and body else "True")
            setter({"ArrayRepeat": [e, st["n"] + rng.choice([1, 2, 64])]}); kind = "repeat-wrong-size"
        elif choice == "range":
            e = st["elem"]
            tname = SERDE[e["t"]] if e["k"] == "int" else "U8"
            a = rng.choice([0, 1, 5, 250, 65530])
            form = rng.choice(["reversed", "wrong-size", "beyond-max", "wrong-elem-type"])
            if form == "reversed":
                setter({"Range": [a + st["n"] + 1, a, tname]})
            elif form == "wrong-size":
                setter({"Range": [a, a + st["n"] + 1, tname]})
            elif form == "beyond-max":
                m = int_range(e["t"])[1] if e["k"] == "int" and not INTS[e["t"]][0] else 255
                setter({"Range": [max(0, m - st["n"] + 2), max(0, m - st["n"] + 2) + st["n"], tname]})
            else:
                setter({"Range": [a, a + st["n"], "U16" if tname != "U16" else "U8"]})
            kind = "range-" + form
        else:
            setter({"Tuple": list(body) if isinstance(body, list) else []}); kind = "array-as-tuple"
    elif k == "tuple":
        body = sl["Tuple"] if isinstance(sl, dict) and "Tuple" in sl else None
        if body is not None and body and rng.random() < 0.5:
            body.pop(); kind = "tuple-too-short"
        elif body is not None:
            body.append("True"); kind = "tuple-too-long"
    elif k == "struct":
        body = sl["Struct"] if isinstance(sl, dict) and "Struct" in sl else None
        if body is not None:
            choice = rng.choice(["dup", "missing", "extra", "rename", "name"])
            if choice == "dup" and len(body[1]) >= 2:
                i, j = rng.sample(range(len(body[1])), 2)
                body[1][i] = [body[1][j][0], body[1][j][1]]; kind = "struct-duplicate-field"
            elif choice == "missing" and body[1]:
                body[1].pop(rng.randrange(len(body[1]))); kind = "struct-missing-field"
            elif choice == "extra":
                body[1].append(["qq", "True"]); kind = "struct-extra-field"
            elif choice == "rename" and body[1]:
                body[1][rng.randrange(len(body[1]))][0] = "qq"; kind = "struct-unknown-field"
            else:
                body[0] = body[0] + "x"; kind = "struct-wrong-name"
    elif k == "enum":
        body = sl["Enum"] if isinstance(sl, dict) and "Enum" in sl else None
        if body is not None:
            choice = rng.choice(["arity-", "arity+", "form", "variant", "name"])
            if choice == "arity-" and isinstance(body[2], dict) and body[2]["Tuple"]:
                body[2]["Tuple"].pop(); kind = "enum-too-few-fields"
            elif choice == "arity+" and isinstance(body[2], dict):
                body[2]["Tuple"].append({"NumUnsigned": [255, "U8"]}); kind = "enum-too-many-fields"
            elif choice == "form":
                body[2] = {"Tuple": []} if body[2] == "Unit" else "Unit"; kind = "enum-unit-vs-tuple"
            elif choice == "variant":
                body[1] = "Nope"; kind = "enum-unknown-variant"
            else:
                body[0] = body[0] + "x"; kind = "enum-wrong-name"
    return kind, holder[0]


def lit_text(t, v):
    """Source text of a value (fully suffixed)."""
    k = t["k"]
    if k == "bool":
        return "true" if v else "false"
    if k == "int":
        return f"{v}{t['t']}"
    if k == "array":
        return "[" + ", ".join(lit_text(t["elem"], x) for x in v) + "]"
    if k == "tuple":
        if len(v) == 1:
            return f"({lit_text(t['ts'][0], v[0])},)"
        return "(" + ", ".join(lit_text(x, y) for x, y in zip(t["ts"], v)) + ")"
    if k == "struct":
        return t["name"] + " { " + ", ".join(f"{f}: {lit_text(ft, v[1][f])}" for f, ft in t["fields"]) + " }"
    var = next(x for x in t["variants"] if x[0] == v[1])
    if var[1]:
        return f"{t['name']}::{v[1]}"
    return f"{t['name']}::{v[1]}(" + ", ".join(lit_text(x, y) for x, y in zip(var[2], v[2])) + ")"


def decode(t, bits):
    """inverse of encode (None if the bits are not the encoding of a value)"""
    k = t["k"]
    if len(bits) != size_of(t):
        return None
    if k == "bool":
        return bits == "1"
    if k == "int":
        sgn, w = INTS[t["t"]]
        v = int(bits, 2) if bits else 0
        return v - (1 << w) if sgn and v >= (1 << (w - 1)) else v
    if k == "array":
        w = size_of(t["elem"])
        return [decode(t["elem"], bits[i * w:(i + 1) * w]) for i in range(t["n"])]
    if k == "tuple":
        out, i = [], 0
        for x in t["ts"]:
            w = size_of(x)
            out.append(decode(x, bits[i:i + w]))
            i += w
        return tuple(out)
    if k == "struct":
        out, i = {}, 0
        for f, x in t["fields"]:
            w = size_of(x)
            out[f] = decode(x, bits[i:i + w])
            i += w
        return ("struct", out)
    tag = tag_size(t)
    idx = int(bits[:tag], 2) if tag else 0
    if idx >= len(t["variants"]):
        return None
    n, unit, ts = t["variants"][idx]
    if unit:
        return ("enum", n, None)
    out, i = [], tag
    for x in ts:
        w = size_of(x)
        out.append(decode(x, bits[i:i + w]))
        i += w
    return ("enum", n, out)
