"""Shared plumbing of the checks: builds, audit, model/impl runners, evidence, replays, findings."""
import fcntl
import hashlib
import json
import os
import random
import re
import subprocess
import sys
import time

VERIF = os.path.dirname(os.path.dirname(os.path.dirname(os.path.abspath(__file__))))
REPO = "/repo"
LEAN = os.path.join(VERIF, "lean")
HARNESS = os.path.join(VERIF, "harness")
DRIVER = os.path.join(LEAN, ".lake", "build", "bin", "gvdriver")
GVH = os.path.join(HARNESS, "target", "debug", "gvh")
EVIDENCE = os.path.join(VERIF, "evidence")
REPLAYS = os.path.join(VERIF, "replays")
WORK = os.path.join(VERIF, ".work")
ALLOWED_AXIOMS = {"propext", "Classical.choice", "Quot.sound"}
FORBIDDEN = re.compile(
    r"\bsorry\b|\badmit\b|^\s*axiom\s|native_decide|bv_decide|implemented_by|\bunsafe\s|maxHeartbeats\s+0"
)
TRUSTED_BASE = [
    "Lean 4.33.0 kernel (type checker) and its `decide`/`rfl` evaluation",
    "axioms allowed in property theorems: propext, Classical.choice, Quot.sound (audited with #print axioms on every run)",
    "hand-written Lean models under lean/GarbleVerif/Model (what they mirror: DESIGN.md §3)",
    "correspondence machinery: harness/ (Rust, calls /repo in-process), lean/Driver (JSON codec), tools/gv (generators, canonicalisation, diff)",
    "rustc/cargo, serde_json, catch_unwind",
]


def env_offline():
    e = dict(os.environ)
    e.update({"CARGO_NET_OFFLINE": "true", "GOPROXY": "off", "PIP_NO_INDEX": "1"})
    return e


class Lock:
    """Serialises builds when several checks run in parallel."""

    def __init__(self, name):
        os.makedirs(WORK, exist_ok=True)
        self.path = os.path.join(WORK, name + ".lock")

    def __enter__(self):
        self.f = open(self.path, "w")
        fcntl.flock(self.f, fcntl.LOCK_EX)
        return self

    def __exit__(self, *a):
        fcntl.flock(self.f, fcntl.LOCK_UN)
        self.f.close()


def run(cmd, cwd=None, timeout=None, input=None):
    p = subprocess.run(
        cmd, cwd=cwd, env=env_offline(), input=input, capture_output=True, text=True, timeout=timeout
    )
    return p.returncode, p.stdout, p.stderr


class Failure:
    """One thing that did not check.

    kind: 'oracle'  — the implementation breaks the property on `case` (a failing input)
          'model'   — model and implementation disagree on `case` (correspondence K)
          'proof'   — a proof obligation no longer checks (P)
    signature: stable identifier of the defect, matched against known_findings.json
    """

    def __init__(self, kind, signature, what, case=None, expected=None, actual=None, extra=None):
        self.kind = kind
        self.signature = signature
        self.what = what
        self.case = case
        self.expected = expected
        self.actual = actual
        self.extra = extra or {}

    def to_json(self):
        return {
            "kind": self.kind,
            "signature": self.signature,
            "what": self.what,
            "case": self.case,
            "expected": self.expected,
            "actual": self.actual,
            **({"extra": self.extra} if self.extra else {}),
        }


class Ctx:
    def __init__(self, prop, tier, seed):
        self.prop = prop
        self.tier = tier
        self.seed = seed
        self.rng = random.Random(seed * 1000003 + int(hashlib.sha256(prop.encode()).hexdigest()[:8], 16))
        self.t0 = time.time()
        self.proof = None
        self.notes = []
        os.makedirs(WORK, exist_ok=True)
        os.makedirs(EVIDENCE, exist_ok=True)
        os.makedirs(REPLAYS, exist_ok=True)

    # ------------------------------------------------------------------ builds
    def build_lean(self, modules):
        """lake build of the property modules + driver; returns (ok, log)."""
        from . import extract

        with Lock("lean"):
            extract.regenerate()
            targets = list(modules) + ["GarbleVerif.ExtractedChecks", "gvdriver"]
            rc, out, err = run(["lake", "build"] + targets, cwd=LEAN, timeout=3600)
        return rc == 0, (out + err)

    def build_harness(self):
        with Lock("cargo"):
            rc, out, err = run(["cargo", "build", "--offline"], cwd=HARNESS, timeout=3600)
        return rc == 0, (out + err)

    # ------------------------------------------------------------------ proof audit
    def audit(self, prop_modules):
        """Collect the theorems of the property modules, run `#print axioms` on each.

        Returns dict(obligations, discharged, theorems=[{name, axioms, ok}], forbidden=[...], build_ok, log)
        """
        thms = []
        for m in prop_modules:
            path = os.path.join(LEAN, m.replace(".", "/") + ".lean")
            src = open(path).read()
            stack = []
            for line in src.splitlines():
                mm = re.match(r"^namespace\s+(\S+)", line)
                if mm:
                    stack.append(mm.group(1))
                    continue
                mm = re.match(r"^end\s+(\S+)", line)
                if mm and stack and stack[-1] == mm.group(1):
                    stack.pop()
                    continue
                mm = re.match(r"^theorem\s+(\S+)", line)
                if mm:
                    thms.append((m, ".".join(stack + [mm.group(1)])))
        forbidden = scan_forbidden()
        ok, log = self.build_lean(prop_modules)
        res = {"build_ok": ok, "forbidden": forbidden, "theorems": [], "log": log[-4000:] if not ok else ""}
        if ok:
            audit_src = "".join(f"import {m}\n" for m in prop_modules)
            audit_src += "".join(f"#print axioms {n}\n" for _, n in thms)
            apath = os.path.join(WORK, f"Audit_{self.prop}.lean")
            open(apath, "w").write(audit_src)
            rc, out, err = run(["lake", "env", "lean", apath], cwd=LEAN, timeout=1800)
            text = out + err
            for _, n in thms:
                m = re.search(
                    r"'" + re.escape(n) + r"' (does not depend on any axioms|depends on axioms: \[([^\]]*)\])",
                    text,
                    re.S,
                )
                if not m:
                    res["theorems"].append({"name": n, "axioms": None, "ok": False})
                    continue
                axs = [a.strip() for a in (m.group(2) or "").replace("\n", " ").split(",") if a.strip()]
                res["theorems"].append({"name": n, "axioms": axs, "ok": set(axs) <= ALLOWED_AXIOMS})
        else:
            for _, n in thms:
                res["theorems"].append({"name": n, "axioms": None, "ok": False})
        res["obligations"] = len(thms)
        res["discharged"] = sum(1 for t in res["theorems"] if t["ok"]) if not forbidden else 0
        # thorough tier: the compiled property modules are re-checked by the toolchain's independent kernel checker
        res["leanchecker"] = None
        if ok and self.tier == "thorough":
            bad = []
            for m in prop_modules:
                rc, out, err = run(["lake", "env", "leanchecker", m], cwd=LEAN, timeout=1800)
                if rc != 0:
                    bad.append(f"{m}: {(out + err)[-300:]}")
            res["leanchecker"] = bad
        self.proof = res
        return res

    def proof_failures(self):
        fs = []
        p = self.proof
        if p is None:
            return fs
        if p["forbidden"]:
            fs.append(Failure("proof", "forbidden-construct", "forbidden construct in Lean sources: %s" % p["forbidden"][:3]))
        if not p["build_ok"]:
            m = re.findall(r"error: (\S+\.lean:\d+:\d+:[^\n]*)", p["log"])
            fs.append(
                Failure("proof", "lake-build-failed", "lake build of the property modules failed: %s" % (m[:3] or p["log"][-300:]))
            )
        else:
            for t in p["theorems"]:
                if not t["ok"]:
                    fs.append(Failure("proof", "axioms:" + t["name"], f"theorem {t['name']} not accepted / axioms {t['axioms']}"))
            for b in p.get("leanchecker") or []:
                fs.append(Failure("proof", "leanchecker", f"leanchecker rejects a compiled property module: {b}"))
        return fs

    # ------------------------------------------------------------------ runners
    def run_impl(self, cases, timeout=600):
        return run_lines(GVH, cases, timeout)

    def run_model(self, cases, timeout=600):
        return run_lines(DRIVER, cases, timeout)


def scan_forbidden():
    hits = []
    for root, _, files in os.walk(LEAN):
        if ".lake" in root:
            continue
        for f in files:
            if not f.endswith(".lean"):
                continue
            path = os.path.join(root, f)
            in_block = 0
            for ln, line in enumerate(open(path), 1):
                # strip comments (block comments tracked coarsely, line comments exactly)
                text = line
                if in_block:
                    if "-/" in text:
                        in_block = 0
                        text = text.split("-/", 1)[1]
                    else:
                        continue
                if "/-" in text:
                    before, _, after = text.partition("/-")
                    if "-/" in after:
                        text = before + after.split("-/", 1)[1]
                    else:
                        in_block = 1
                        text = before
                text = text.split("--", 1)[0]
                if FORBIDDEN.search(text):
                    hits.append(f"{os.path.relpath(path, LEAN)}:{ln}")
    return hits


def run_lines(exe, cases, timeout=600):
    """Feed cases (list of dicts with 'id') to a line-protocol executable; returns {id: result}."""
    data = "".join(json.dumps(c, separators=(",", ":")) + "\n" for c in cases)
    p = subprocess.run([exe], input=data, capture_output=True, text=True, timeout=timeout, env=env_offline())
    res = {}
    for line in p.stdout.splitlines():
        try:
            o = json.loads(line)
        except Exception:
            continue
        if "id" in o:
            res[o["id"]] = o
    return res, p.returncode, p.stderr[-2000:]


# ---------------------------------------------------------------------- findings / verdict
def load_known():
    path = os.path.join(VERIF, "known_findings.json")
    if not os.path.exists(path):
        return []
    return json.load(open(path)).get("findings", [])


def finish(ctx, failures, coverage, assumptions, level="proof", search=None):
    """Print verdict lines, write evidence and replays, return the exit code.

    failures: list of Failure. `search(failure)` (optional) tries to turn a model/proof failure into a
    concrete failing input and returns a Failure of kind 'oracle' or None.
    """
    known = [k for k in load_known() if k.get("property") == ctx.prop and k.get("status") == "open"]
    violations = []
    reported_known = set()
    oracle = [f for f in failures if f.kind == "oracle"]
    other = [f for f in failures if f.kind != "oracle"]
    unexplained_oracle = []
    for f in oracle:
        k = next((k for k in known if re.fullmatch(k["signature"], f.signature)), None)
        if k is not None:
            if k["signature"] not in reported_known:
                reported_known.add(k["signature"])
                print(f"KNOWN-FINDING: property={ctx.prop} {k['what']}")
        else:
            unexplained_oracle.append(f)
    # model / proof failures: explained if every one of them is attributable to a known finding
    unexplained_other = []
    for f in other:
        k = next((k for k in known if re.fullmatch(k["signature"], f.signature)), None)
        if k is not None:
            if k["signature"] not in reported_known:
                reported_known.add(k["signature"])
                print(f"KNOWN-FINDING: property={ctx.prop} {k['what']}")
        else:
            unexplained_other.append(f)
    seen = set()
    for f in unexplained_oracle:
        if f.signature in seen:
            continue
        seen.add(f.signature)
        violations.append((f, False))
    if unexplained_other and not unexplained_oracle:
        # a proof or correspondence broke and the oracle saw nothing: directed search
        found = None
        if search is not None:
            for f in unexplained_other:
                try:
                    found = search(f)
                except Exception as e:  # the search must never mask the violation
                    ctx.notes.append(f"search error: {e!r}")
                    found = None
                if found is not None:
                    break
        if found is not None:
            violations.append((found, False))
        else:
            for f in unexplained_other:
                if f.signature in seen:
                    continue
                seen.add(f.signature)
                violations.append((f, True))
    elif unexplained_other:
        # both: report the oracle failures (they are the replay); attach the others to the evidence
        ctx.notes.append("also: %d model/proof failures, e.g. %s" % (len(unexplained_other), unexplained_other[0].what))
    rc = 0
    for f, nofound in violations[:20]:
        h = hashlib.sha256(json.dumps(f.to_json(), sort_keys=True).encode()).hexdigest()[:12]
        path = os.path.join(REPLAYS, f"{ctx.prop}-{h}.json")
        with open(path, "w") as fh:
            json.dump(
                {
                    "property": ctx.prop,
                    "seed": ctx.seed,
                    "tier": ctx.tier,
                    **f.to_json(),
                    "replay_cmd": f"./check {ctx.prop} --replay {os.path.relpath(path, VERIF)}",
                },
                fh,
                indent=1,
            )
        tail = " no-failing-input-found" if nofound else ""
        print(f"VIOLATION property={ctx.prop} replay={path}{tail}")
        rc = 1
    write_evidence(ctx, coverage, assumptions, level, len(violations))
    return rc


def write_evidence(ctx, coverage, assumptions, level, nviol):
    p = ctx.proof or {}
    cov = dict(coverage)
    if level == "proof":
        cov.setdefault("obligations", max(1, p.get("obligations", 0)))
        cov.setdefault("discharged", p.get("discharged", 0))
        cov.setdefault(
            "checker_cmd",
            "cd lean && lake build <property modules> && lake env lean .work/Audit_%s.lean  (#print axioms)" % ctx.prop,
        )
        cov.setdefault("trusted_base", TRUSTED_BASE)
        cov["theorems"] = [
            {"name": t["name"], "axioms": t["axioms"], "accepted": t["ok"]} for t in p.get("theorems", [])
        ]
        if p.get("leanchecker") is not None:
            cov["leanchecker"] = "all property modules re-checked by leanchecker" if not p["leanchecker"] else p["leanchecker"]
    if ctx.notes:
        cov["notes"] = ctx.notes
    ev = {
        "property_id": ctx.prop,
        "tier": ctx.tier,
        "seed": ctx.seed,
        "level": level,
        "coverage": cov,
        "assumptions": assumptions,
        "wall_s": round(time.time() - ctx.t0, 2),
        "violations": nviol,
    }
    with open(os.path.join(EVIDENCE, f"{ctx.prop}.json"), "w") as fh:
        json.dump(ev, fh, indent=1)


def generic_replay(ctx, mod, path):
    """Re-runs the case stored in a replay file through implementation, model and the property's judge."""
    d = json.load(open(path))
    case = d.get("case")
    if not case or "op" not in case:
        print("replay file has no executable case:", d.get("what"))
        return 1
    ctx.build_harness()
    ctx.build_lean(getattr(mod, "PROP_MODULES", []))
    case = dict(case)
    case["id"] = 0
    impl, _, _ = ctx.run_impl([case])
    model, _, _ = ctx.run_model([case])
    fs = mod.judge(case, impl.get(0), model.get(0)) if hasattr(mod, "judge") else []
    for f in fs:
        print(f"{f.kind}: {f.signature}: {f.what}")
    print("implementation:", json.dumps(impl.get(0))[:600])
    print("model:         ", json.dumps(model.get(0))[:600])
    if any(f.kind == "oracle" for f in fs):
        print(f"VIOLATION property={ctx.prop} replay={path}")
        return 1
    return 0


def run_lines_guarded(exe, cases, per_case_timeout=10.0):
    """Like run_lines, but one case at a time with a deadline: a case on which the executable hangs or dies
    is reported as {"hang": True} / {"died": rc} and the executable is restarted."""
    import select

    res = {}
    proc = None
    hangs = 0
    retries = 0

    def start():
        return subprocess.Popen([exe], stdin=subprocess.PIPE, stdout=subprocess.PIPE, stderr=subprocess.DEVNULL,
                                text=True, bufsize=1, env=env_offline())

    for c in cases:
        if hangs >= 40:
            # the executable hangs on one input after the other: that is reported; the remaining cases are not run
            res[c["id"]] = {"not_run": "40 inputs made the executable hang"}
            continue
        if hangs == 8:
            # hangs are established (and will be reported): do not spend the full deadline on every further one
            per_case_timeout = min(per_case_timeout, 1.5)
        if proc is None or proc.poll() is not None:
            proc = start()
        try:
            proc.stdin.write(json.dumps(c, separators=(",", ":")) + "\n")
            proc.stdin.flush()
        except BrokenPipeError:
            res[c["id"]] = {"died": proc.poll()}
            proc = None
            continue
        ready, _, _ = select.select([proc.stdout], [], [], per_case_timeout)
        if not ready and retries < 6:
            # before calling it a hang: the same case once more, alone, with a deadline six times as long (a loaded
            # machine must not turn a slow case into a violation)
            retries += 1
            proc.kill()
            proc.wait()
            proc = start()
            try:
                proc.stdin.write(json.dumps(c, separators=(",", ":")) + "\n")
                proc.stdin.flush()
                ready, _, _ = select.select([proc.stdout], [], [], max(6 * per_case_timeout, 30.0))
            except BrokenPipeError:
                ready = False
        if not ready:
            proc.kill()
            proc.wait()
            proc = None
            res[c["id"]] = {"hang": True}
            hangs += 1
            continue
        line = proc.stdout.readline()
        if not line:
            res[c["id"]] = {"died": proc.wait()}
            proc = None
            continue
        try:
            res[c["id"]] = json.loads(line)
        except Exception:
            res[c["id"]] = {"garbled": line[:200]}
    if proc is not None and proc.poll() is None:
        try:
            proc.stdin.close()
            proc.wait(timeout=5)
        except Exception:
            proc.kill()
    return res
