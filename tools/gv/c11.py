"""C11 — Bristol export/import preserves the function; malformed files are rejected."""
import json

from . import common, corpus, gen_circ
from .common import Failure

PROP_MODULES = ["GarbleVerif.Props.C11"]


def export_case(rng, cid):
    c = gen_circ.valid_ssa(rng, max_gates=rng.choice([2, 6, 15, 40]))
    n = sum(c["input_gates"])
    nw = n + len(c["gates"])
    if nw == n:
        c["gates"].append(["X", 0, 0]); nw += 1
    panic = [rng.randrange(0, nw) for _ in range(161)]
    k = rng.choice([0, 1, 2, 5, 9])
    outs = []
    for _ in range(k):
        r = rng.random()
        if r < 0.25 and outs:
            outs.append(rng.choice(outs))          # repeated output
        elif r < 0.3:
            outs.append(rng.randrange(0, n))       # an input wire: must be refused
        else:
            outs.append(rng.randrange(n, nw))
    c["output_gates"] = panic + outs
    return {"id": cid, "op": "bristol_export", "circuit": c, "inputs": gen_circ.assignments(rng, c["input_gates"], 6, 16)}


def toks_text(lines):
    return "\n".join(" ".join(str(t.get("n", t.get("w"))) for t in l) for l in lines) + "\n"


def mutate_text(rng, lines):
    """lines: token lists (dicts). Returns a text file."""
    ls = [[(t.get("n") if "n" in t else t.get("w")) for t in l] for l in lines]
    kind = rng.choice(["count", "huge", "drop-line", "swap", "gate-name", "arity", "tokens", "dup-line", "garbage", "wire", "none"])
    if kind == "count" and ls:
        i = rng.randrange(min(3, len(ls)))
        if ls[i]:
            j = rng.randrange(len(ls[i]))
            if isinstance(ls[i][j], int):
                ls[i][j] = max(0, ls[i][j] + rng.choice([-1, 1, -2, 5]))
    elif kind == "huge" and ls:
        i = rng.randrange(len(ls))
        if ls[i]:
            j = rng.randrange(len(ls[i]))
            ls[i][j] = rng.choice([2 ** 64 - 1, 2 ** 64, 2 ** 63, 2 ** 32, 10 ** 30, 2 ** 64 - 4])
    elif kind == "drop-line" and ls:
        ls.pop(rng.randrange(len(ls)))
    elif kind == "swap" and len(ls) > 5:
        i, j = rng.sample(range(4, len(ls)), 2)
        ls[i], ls[j] = ls[j], ls[i]
    elif kind == "gate-name" and len(ls) > 4:
        i = rng.randrange(4, len(ls))
        if ls[i]:
            ls[i][-1] = rng.choice(["EQ", "EQW", "MAND", "xor", "", "7"])
    elif kind == "arity" and len(ls) > 4:
        i = rng.randrange(4, len(ls))
        if ls[i]:
            ls[i][0] = rng.choice([0, 1, 2, 3, 2 ** 64 - 1])
    elif kind == "tokens" and ls:
        i = rng.randrange(len(ls))
        if rng.random() < 0.5 and ls[i]:
            ls[i].pop(rng.randrange(len(ls[i])))
        else:
            ls[i].insert(rng.randrange(len(ls[i]) + 1), rng.choice([0, 1, "x", -1, "+3"]))
    elif kind == "dup-line" and ls:
        i = rng.randrange(len(ls))
        ls.insert(i, list(ls[i]))
    elif kind == "garbage":
        ls = [[rng.choice([0, 1, 2, 3, 2 ** 64 - 1, "XOR", "AND", "INV", "q", -5]) for _ in range(rng.randrange(0, 7))] for _ in range(rng.randrange(0, 8))]
    elif kind == "wire" and len(ls) > 4:
        i = rng.randrange(4, len(ls))
        if len(ls[i]) > 3:
            ls[i][rng.randrange(2, len(ls[i]) - 1)] = rng.choice([0, 1, 10 ** 6, 2 ** 64 - 1])
    return kind, "\n".join(" ".join(str(t) for t in l) for l in ls) + "\n"


def wellformed(lines, ninputs_expected, nouts):
    """The exported text is well-formed Bristol. Returns a problem string or None."""
    L = [[(t.get("n") if "n" in t else t.get("w")) for t in l] for l in lines]
    if len(L) < 4 or len(L[0]) != 2:
        return "header"
    ngates, nwires = L[0]
    gate_lines = [l for l in L[4:] if l]
    if L[3] != []:
        return "no blank line after the header"
    if len(gate_lines) != ngates:
        return f"declared {ngates} gates, file has {len(gate_lines)}"
    nin = sum(L[1][1:])
    if L[1][0] != len(L[1]) - 1 or nin != ninputs_expected:
        return "input line"
    if nwires != nin + ngates:
        return f"declared {nwires} wires, inputs+gates = {nin + ngates}"
    if L[2] != [1, nouts]:
        return "output line"
    assigned = [i < nin for i in range(nwires)]
    for l in gate_lines:
        k = l[0]
        ins, out, name = l[2:2 + k], l[2 + k], l[-1]
        if l[1] != 1 or len(l) != k + 4 or name not in ("XOR", "AND", "INV") or k != (1 if name == "INV" else 2):
            return f"malformed gate line {l}"
        for w in ins:
            if not (0 <= w < nwires) or not assigned[w]:
                return f"wire {w} used before it is assigned"
        if not (0 <= out < nwires) or assigned[out]:
            return f"wire {out} assigned twice or is an input"
        assigned[out] = True
    if not all(assigned):
        return "a declared wire is never assigned"
    return None


def judge(case, impl, model):
    fs = []
    if impl is None:
        return [Failure("model", "bristol:harness-no-result", "no result", case, None, None)]
    if case["op"] == "bristol_export":
        c = case["circuit"]
        n = sum(c["input_gates"])
        outs = c["output_gates"][161:]
        has_input_out = any(o < n for o in outs)
        if impl["export"] == "panic":
            fs.append(Failure("oracle", "export:panics", f"format_as_bristol panics: {impl.get('detail')}", case, "file or error", impl))
        elif has_input_out:
            if impl["export"] != "OutputWireIsInput":
                fs.append(Failure("oracle", "export:input-as-output-not-refused", "an output that is an input wire is not refused", case, "OutputWireIsInput", impl["export"]))
        elif impl["export"] != "ok":
            fs.append(Failure("oracle", "export:refused", f"export refused: {impl['export']}", case, "ok", impl["export"]))
        else:
            p = wellformed(impl["lines"], n, len(outs))
            if p:
                fs.append(Failure("oracle", "export:not-wellformed", f"exported file is not well-formed Bristol: {p}", case, None, p))
            imp = impl["imported"]
            if imp["result"] != "ok":
                fs.append(Failure("oracle", "roundtrip:import-fails", f"importing the exported file fails: {imp}", case, "ok", imp))
            elif impl["back_outs"] != impl["orig_outs"]:
                fs.append(Failure("oracle", "roundtrip:function-differs", "re-imported circuit computes different outputs", case, impl["orig_outs"][:3], impl["back_outs"][:3]))
        if model is not None:
            if model.get("export") != impl["export"] and not (model.get("export") == "panic" and impl["export"] == "panic"):
                fs.append(Failure("model", "export:verdict-differs", f"model {model.get('export')} vs implementation {impl['export']}", case, model.get("export"), impl["export"]))
            elif impl["export"] == "ok":
                if model["lines"] != impl["lines"]:
                    fs.append(Failure("model", "export:lines-differ", "exported tokens differ", case, None, None))
                if model["imported"] != impl["imported"]:
                    fs.append(Failure("model", "roundtrip:imported-circuit-differs", "import(export c): model vs implementation", case, model["imported"], impl["imported"]))
    else:
        imp = impl["imported"]
        if imp["result"] == "panic":
            site = imp.get("detail", "").split(": ")[0].replace("/repo/", "")
            fs.append(Failure("oracle", f"import:panics@{site}", f"bristol_to_garble panics: {imp.get('detail')}", case, "circuit or error", imp))
        if model is not None and imp["result"] != "panic":
            mi = model["imported"]
            if mi != imp:
                fs.append(Failure("model", "import:verdict-differs", f"model {json.dumps(mi)[:150]} vs implementation {json.dumps(imp)[:150]}", case, mi, imp))
    return fs


def run(ctx):
    quick = ctx.tier == "quick"
    ctx.audit(PROP_MODULES)
    failures = ctx.proof_failures()
    ok, log = ctx.build_harness()
    if not ok:
        failures.append(Failure("model", "harness-build-failed", "cargo build of the harness failed: " + log[-400:]))
        return common.finish(ctx, failures, {"evaluations": 0, "distinct_nontrivial": 0, "samples": []}, [], "proof")
    cases = [export_case(ctx.rng, i) for i in range(1200 if quick else 20000)]
    progs = corpus.programs()
    cres, _, _ = ctx.run_impl([{"id": i, "op": "compile", "src": src} for i, (_, src) in enumerate(progs)])
    ncomp = 0
    for i, (name, src) in enumerate(progs):
        r = cres.get(i)
        if r and r.get("ok") and len(r["ssa"]["gates"]) < (4000 if quick else 40000):
            ncomp += 1
            cases.append({"id": len(cases), "op": "bristol_export", "circuit": r["ssa"], "origin": name,
                          "inputs": [[gen_circ.bits(ctx.rng, s) for s in r["ssa"]["input_gates"]] for _ in range(3)]})
    impl, _, _ = ctx.run_impl(cases, timeout=3000)
    model, _, _ = ctx.run_model(cases, timeout=3000)
    # import stream: mutations of valid exports and garbage
    icases = []
    exported = [impl[c["id"]]["lines"] for c in cases if impl.get(c["id"], {}).get("export") == "ok" and len(impl[c["id"]]["lines"]) < 80]
    kinds = {}
    for _ in range(3000 if quick else 60000):
        kind, text = mutate_text(ctx.rng, ctx.rng.choice(exported)) if exported else ("garbage", "1 1\n")
        kinds[kind] = kinds.get(kind, 0) + 1
        icases.append({"id": len(cases) + len(icases), "op": "bristol_import", "text": text, "kind": kind})
    iimpl, _, _ = ctx.run_impl(icases, timeout=3000)
    mcases = [{"id": c["id"], "op": "bristol_import", "lines": iimpl[c["id"]]["lines"]} for c in icases if c["id"] in iimpl]
    imodel, _, _ = ctx.run_model(mcases, timeout=3000)
    verdicts = {}
    distinct = set()
    for c in cases:
        failures += judge(c, impl.get(c["id"]), model.get(c["id"]))
        if impl.get(c["id"], {}).get("export") == "ok":
            distinct.add(json.dumps(c["circuit"], sort_keys=True))
    for c in icases:
        r = iimpl.get(c["id"])
        failures += judge(c, r, imodel.get(c["id"]))
        if r:
            v = r["imported"].get("error", r["imported"]["result"]).split(":")[0]
            verdicts[v] = verdicts.get(v, 0) + 1
    seen, uniq = set(), []
    for f in failures:
        if f.signature not in seen:
            seen.add(f.signature); uniq.append(f)
    coverage = {
        "evaluations": len(cases) + len(icases),
        "distinct_nontrivial": len(distinct),
        "rule": "export: random valid SSA circuits with 161 leading outputs and 0-9 further outputs (repeated outputs, outputs feeding later "
                "gates, constant outputs, an input wire as output -> must be refused) and compiler output of the corpus: the exported "
                "tokens must equal the model's, be well-formed Bristol (counts, single assignment before use, outputs last in order) and "
                "re-import to a circuit with the same non-panic outputs on all/random inputs; import: one random edit of a valid export "
                "(counts +-1, huge numbers, missing/duplicated/swapped lines, unknown gate, wrong arity, extra/missing tokens, wire "
                "numbers) or random token lines: verdict and circuit must equal the model's and the importer must never panic; "
                "non-trivial = distinct circuits exported successfully",
        "traces_validated_against_impl": len(cases) + len(mcases),
        "programs": ncomp,
        "distribution": {"import_mutation_kinds": kinds, "import_verdicts": verdicts},
        "samples": [{k: v for k, v in cases[0].items() if k != "inputs"}, icases[0]],
    }
    assumptions = ["decimal printing / parsing of numbers is trusted glue (tokenisation is done by the harness with the same usize parser)",
                   "exported circuits have at least 161 outputs (compiler output always has the panic record)"]
    return common.finish(ctx, uniq, coverage, assumptions, "proof", search=None)
