"""C07 — the front end is total: any input text gives Ok or errors, never a crash or hang."""
import json
import re

from . import common, corpus
from .common import Failure

PROP_MODULES = ["GarbleVerif.Props.C07"]

TOKEN_RE = re.compile(r"//[^\n]*|/\*|\*/|[A-Za-z_][A-Za-z_0-9]*|-?\d+[A-Za-z_0-9]*|\.\.=|\.\.|<<=|>>=|&&|\|\||==|!=|<=|>=|=>|->|::|<<|>>|[-+*/%^&|]=|\s+|.", re.S)
ALPHABET = ["pub", "fn", "main", "(", ")", "{", "}", "[", "]", "->", ":", ",", ";", "let", "mut", "if", "else", "match", "=>", "for", "in",
            "struct", "enum", "const", "as", "x", "y", "S", "E", "u8", "i32", "bool", "usize", "true", "false", "0", "1", "255u8", "300u8", "-1",
            "-128i8", "18446744073709551615", "99999999999999999999", "1u64", "..", "..=", "=", "==", "+", "-", "*", "/", "%", "&", "|", "^", "!",
            "<", ">", "<<", ">>", "&&", "||", ".", "::", "_", "/*", "*/", "//", "\n", " ", "join", "PARTY_0", "max", "min", "+=", "'", "\"", "#", "é"]

NUMBERS = ["0", "1", "2", "255", "256", "-1", "-128", "127", "128", "0u8", "255u8", "256u8", "-128i8", "-129i8", "127i8", "128i8", "65535u16", "65536",
           "4294967295", "4294967296", "18446744073709551615", "18446744073709551616", "-9223372036854775808", "-9223372036854775809",
           "9223372036854775807i64", "1usize", "0usize", "3i32", "1u64", "1i64", "7u3", "1_000", "0x10"]
TYPES = ["u8", "u16", "u32", "u64", "usize", "i8", "i16", "i32", "i64", "bool"]
OPERATORS = ["+", "-", "*", "/", "%", "&", "|", "^", "<<", ">>", "==", "!=", "<", ">", "<=", ">=", "&&", "||", "=", "+=", "-=", "..", "..="]
KEYWORDS = {"pub", "fn", "let", "mut", "if", "else", "match", "for", "in", "struct", "enum", "const", "as", "true", "false"}

NASTY = [
    "pub fn main(x: u8) -> u8 { x } /* abc",
    "/*",
    "/* /* */",
    "pub fn main(x: u8) -> u8 { match x { 0 => {}",
    "pub fn main(x: u8) -> u8 { match x { 0 => 1u8,",
    "pub fn main(x: bool) -> u8 { if x {",
    "pub fn main(x: bool) -> u8 { if x { 1u8 } else {",
    "pub fn main(x: u8) -> u8 { match x { 0..0 => 1u8, _ => 2u8 } }",
    "pub fn main(x: u8) -> u8 { match x { 5u8..0u8 => 1u8, _ => 2u8 } }",
    "pub fn main(x: i64) -> u8 { match x { -9223372036854775808i64..-9223372036854775808i64 => 1u8, _ => 2u8 } }",
    "pub fn main(x: u64) -> u8 { match x { 0 => 1u8, _ => 2u8 } }",
    "pub fn main(x: u64) -> u8 { match x { 0u64..18446744073709551615u64 => 1u8, 18446744073709551615u64 => 2u8 } }",
    "struct S { a: u8, b: u8 }\npub fn main(x: u8) -> S { S { a: x, a: x } }",
    "enum E { A(E), B }\npub fn main(e: E) -> u8 { 0u8 }",
    "struct S { a: S }\npub fn main(e: S) -> u8 { 0u8 }",
    "struct S { a: T }\nstruct T { b: S }\npub fn main(e: S) -> u8 { 0u8 }",
    "pub fn main(x: ()) -> bool { true }",
    "pub fn main(x: [u8; 0]) -> bool { true }",
    "pub fn main(x: u8) -> [u8; 4294967296] { [x; 4294967296] }",
    "pub fn main(x: [u8; 4294967296]) -> u8 { x[0] }",
    "pub fn main(x: u8) -> u8 { let a = [x; 18446744073709551615]; x }",
    "pub fn main(x: u8) -> u8 { " + "(" * 2000 + "x" + ")" * 2000 + " }",
    "pub fn main(x: u8) -> u8 { " + "!" * 2000 + "x }",
    "pub fn main(x: u8) -> u8 { " + "(" * 2000,
    "pub fn main(x: u8) -> u8 { let a = 10..5; x }",
    "pub fn main(x: u8) -> u8 { let a = 0u8..300u8; x }",
    "pub fn main(x: u8) -> u8 { " + "(" * 64 + "x" + ")" * 64 + " }",
    "pub fn main(x: u8) -> u8 { " + "{" * 64 + "x" + "}" * 64 + " }",
    "pub fn main(x: u8) -> u8 { x as }",
    "pub fn main(x: u8) -> u8 { x. }",
    "pub fn main(x: u8) -> u8 { x.0.0 }",
    "pub fn main(x: (u8, u8)) -> u8 { x.5 }",
    "pub fn main(x: [u8; 2]) -> u8 { x[2] }",
    "pub fn main(x: u8) -> u8 { f(x) }",
    "fn main(x: u8) -> u8 { x }",
    "pub fn main() -> u8 { 1u8 }",
    "const N: usize = PARTY_0::N;\npub fn main(x: [u8; N]) -> u8 { x[0] }",
    "const N: u8 = -1i8;\npub fn main(x: u8) -> u8 { x }",
    "const N: usize = max();\npub fn main(x: u8) -> u8 { x }",
    "pub fn main(x: u8) -> u8 { for i in x { } x }",
    "pub fn main(x: [(u8, u8); 2], y: [(u16, u8); 2]) -> u8 { for joined in join(x, y) { } 0u8 }",
    "pub fn main(x: [u8; 2], y: [u8; 3]) -> [(bool, u8); const { 2 + 3 - 1usize }] { join(x, y) }",
    # empty groups: what is left when the content of a bracket pair is removed
    "pub fn main(x: u8) -> u8 { match x {} }",
    "pub fn main(x: bool) -> u8 { let z = match x { }; 1u8 }",
    "pub fn main(x: u8) -> u8 { }",
    "pub fn main(x: u8) -> u8 { if x == 1u8 { } else { } }",
    "pub fn main(x: u8) -> u8 { let a = []; x }",
    "pub fn main(x: u8) -> u8 { let a = [x; ]; x }",
    "pub fn main(x: u8) -> u8 { let a = (); x }",
    "pub fn main(x: u8) -> u8 { f() }\nfn f() -> u8 { 1u8 }",
    "struct S {}\npub fn main(x: u8) -> S { S {} }",
    "enum E {}\npub fn main(x: E) -> u8 { match x {} }",
    "enum E { A() }\npub fn main(x: u8) -> E { E::A() }",
    "pub fn main(x: u8) -> u8 { for i in [] { } x }",
    "pub fn main(x: [u8; 2]) -> u8 { x[] }",
    "pub fn main(x: (u8, u8)) -> u8 { let () = x; 1u8 }",
    "pub fn main(x: u8) -> u8 { match x { _ => {} } }",
    "pub fn main(x: u8) -> u8 { match x { , } }",
    "pub fn main(x: u8) -> u8 { match x { 1u8 => 2u8,, _ => 3u8 } }",
    "pub fn main() -> u8 { 1u8 }",
    "pub fn main(x: u8) { x }",
    "pub fn main(x: u8) -> { x }",
    "const N: usize = ;\npub fn main(x: u8) -> u8 { x }",
    # regression corpus (past model / implementation disagreements)
    "a\r", "a\r\nb\r", "pub fn main(x: u8) -> u8 {\r\n  x +\r",
    "pub fn main(x: u8) -> u8 { let a = 2; x >> a }",
    "pub fn main(x: [u8; N]) -> u8 { x[0] }",
    "pub fn main(i: usize, arr: [i32; const { N + 3 } ]) -> i32 { arr[i] }",
]


def tokens_of(src):
    return [m.group(0) for m in TOKEN_RE.finditer(src)]


def groups(toks):
    """index pairs of matching brackets"""
    out, stack = [], []
    for i, t in enumerate(toks):
        if t in ("(", "[", "{"):
            stack.append(i)
        elif t in (")", "]", "}") and stack:
            out.append((stack.pop(), i))
    return out


def perturb(rng, src, n):
    toks = tokens_of(src)
    sig = [i for i, t in enumerate(toks) if not t.isspace()]
    out = []
    if not sig:
        return out
    for _ in range(n):
        kind = rng.choice(["prefix", "delete", "dup", "swap", "subst", "insert", "charprefix", "subst-class", "subst-class", "subst-class",
                           "empty-group", "empty-group", "delete-group", "delete-item", "dup-item"])
        t = list(toks)
        if kind == "prefix":
            k = rng.choice(sig)
            out.append((kind, "".join(t[:k + rng.choice([0, 1])])))
        elif kind == "charprefix":
            out.append((kind, src[:rng.randrange(len(src) + 1)]))
        elif kind == "delete":
            del t[rng.choice(sig)]
            out.append((kind, "".join(t)))
        elif kind == "dup":
            k = rng.choice(sig)
            t.insert(k, t[k])
            out.append((kind, "".join(t)))
        elif kind == "swap" and len(sig) >= 2:
            i, j = rng.sample(sig, 2)
            t[i], t[j] = t[j], t[i]
            out.append((kind, "".join(t)))
        elif kind in ("empty-group", "delete-group", "delete-item", "dup-item"):
            g = groups(t)
            if not g:
                continue
            i, j = rng.choice(g)                      # t[i] opens, t[j] closes
            if kind == "empty-group":
                t[i + 1:j] = [" "]
            elif kind == "delete-group":
                del t[i:j + 1]
            else:
                # the comma-separated items directly inside the group
                cuts, depth = [i], 0
                for k in range(i + 1, j):
                    if t[k] in "([{":
                        depth += 1
                    elif t[k] in ")]}":
                        depth -= 1
                    elif t[k] == "," and depth == 0:
                        cuts.append(k)
                cuts.append(j)
                n = rng.randrange(len(cuts) - 1)
                a, b = cuts[n] + 1, cuts[n + 1]
                if kind == "delete-item":
                    del t[a:b + (1 if b < j else 0)]
                else:
                    t[a:a] = t[a:b] + [","]
            out.append((kind, "".join(t)))
        elif kind == "subst-class":
            # replace a token by another of the same class, so that most results still parse
            k = rng.choice(sig)
            old = t[k]
            if re.fullmatch(r"-?\d+\w*", old):
                t[k] = rng.choice(NUMBERS)
            elif old in TYPES:
                t[k] = rng.choice(TYPES)
            elif old in OPERATORS:
                t[k] = rng.choice(OPERATORS)
            elif re.fullmatch(r"[A-Za-z_]\w*", old) and old not in KEYWORDS:
                idents = [x for x in toks if re.fullmatch(r"[A-Za-z_]\w*", x) and x not in KEYWORDS and x not in TYPES]
                t[k] = rng.choice(idents)
            else:
                t[k] = rng.choice(ALPHABET)
            out.append((kind, "".join(t)))
        elif kind == "subst":
            t[rng.choice(sig)] = rng.choice(ALPHABET)
            out.append((kind, "".join(t)))
        else:
            t.insert(rng.choice(sig), rng.choice(ALPHABET) + " ")
            out.append((kind, "".join(t)))
    return out


def soup(rng):
    n = rng.choice([1, 3, 8, 20, 50])
    return " ".join(rng.choice(ALPHABET) for _ in range(n))


def noise(rng):
    n = rng.choice([1, 5, 20, 80])
    return "".join(chr(rng.choice([rng.randrange(32, 127), rng.randrange(1, 32), rng.randrange(160, 0x2000), 10, 32, 47, 42])) for _ in range(n))


CONST_TYS = ["bool", "u8", "u16", "u32", "u64", "usize", "i8", "i16", "i32", "i64"]


def const_decls(rng):
    """a program around 1-4 constant declarations: expressions over literals, earlier constants, min / max of 0-3
    arguments, + and -, mostly of the declared type (Booleans included) and now and then of another type, a later or
    unknown constant or an external value; most without external values, so that the compiler gets as far as
    evaluating them"""
    n = rng.randrange(1, 5)
    names = [f"C{i}" for i in range(n)]
    tys = [rng.choice(CONST_TYS) for _ in names]
    with_ext = rng.random() < 0.25

    def lit(t):
        if rng.random() < 0.1:
            t = rng.choice(CONST_TYS)
        if t == "bool":
            return rng.choice(["true", "false"])
        bits = int(t[1:]) if t[1:].isdigit() else 32
        hi = (1 << (bits - 1)) - 1 if t.startswith("i") else (1 << bits) - 1
        v = rng.choice([0, 1, 2, 7, 100, hi, hi - 1, hi // 2])
        if t.startswith("i") and rng.random() < 0.4:
            v = -v - rng.choice([0, 1])
        return f"{v}{t}" if rng.random() < 0.9 else str(v)

    def expr(d, t, k):
        r = rng.random()
        if d <= 0 or r < 0.35:
            r2 = rng.random()
            same = [c for c, ct in list(zip(names, tys))[:k] if ct == t]
            if r2 < 0.5 or (r2 < 0.8 and not same):
                return lit(t)
            if r2 < 0.8:
                return rng.choice(same)
            if r2 < 0.9 or not with_ext:
                return rng.choice(names + ["NOPE"])
            return f"PARTY_{rng.randrange(0, 2)}::X{rng.randrange(0, 3)}"
        if r < 0.65:
            return f"{rng.choice(['min', 'max'])}(" + ", ".join(expr(d - 1, t, k) for _ in range(rng.choice([0, 1, 2, 2, 3]))) + ")"
        return f"{expr(d - 1, t, k)} {rng.choice(['+', '-'])} {expr(d - 1, t, k)}"
    text = "".join(f"const {c}: {t} = {expr(2, t, k)};\n" for k, (c, t) in enumerate(zip(names, tys)))
    k = rng.randrange(n)
    use = rng.choice(["ret", "ret", "size", "op"])
    if use == "size" and tys[k] == "usize" and (re.search(r"\d{5,}", text) or "-" in text):
        use = "ret"          # a huge array: resource exhaustion is the recorded finding huge-declared-size
    if use == "ret":
        text += f"pub fn main(x: u8) -> {tys[k]} {{ {names[k]} }}\n"
    elif use == "size":
        text += f"pub fn main(x: [u8; {names[k]}]) -> u8 {{ x[0usize] }}\n"
    else:
        text += f"pub fn main(x: {tys[k]}) -> bool {{ x == {names[k]} }}\n"
    return text


def meta_ok(m, nlines):
    s, e = (m[0], m[1]), (m[2], m[3])
    return s <= e and m[0] <= nlines and m[2] <= nlines


def judge(case, impl, model=None):
    fs = []
    src = case.get("src", "")
    sub = {"op": case["op"], "src": src, **({"text": case["text"]} if "text" in case else {})}
    if impl is None or impl.get("hang"):
        return [Failure("oracle", "hang:" + classify_hang(case), f"the front end does not return within the deadline ({case.get('kind')})", sub, "ok or errors", "hang")]
    if "died" in impl:
        return [Failure("oracle", "abort:" + classify_abort(case), f"the process died (rc {impl['died']}): stack overflow or allocation failure ({case.get('kind')})", sub, "ok or errors", impl)]
    out = impl.get("outcome", "?")
    if out.startswith("panic@"):
        site = out[6:].split(": ")[0].replace("/repo/", "")
        if HUGE.search(case.get("text", src)) and ("overflow" in out or "capacity" in out or "alloc" in out):
            site = "size-computation:huge-declared-size"
        fs.append(Failure("oracle", f"panic@{site}", f"panic in the front end: {out[:200]}", sub, "ok or errors", out))
    elif out in ("scan", "parse", "type", "compile"):
        text = case.get("text", src)
        nlines = text.count("\n") + 1
        if impl.get("n_errors", 0) < 1:
            fs.append(Failure("oracle", "empty-error-list:" + out, "an error result with an empty error list", sub, ">= 1 error", impl))
        for m in impl.get("metas", []):
            if not meta_ok(m, nlines):
                fs.append(Failure("oracle", "bad-location:" + out, f"error location {m} is not well-formed for a text of {nlines} lines", sub, "start <= end on existing lines", m))
                break
        if impl.get("render", "ok:").startswith("panic@"):
            site = impl["render"][6:].split(": ")[0].replace("/repo/", "")
            fs.append(Failure("oracle", f"render-panics@{site}", f"rendering the error against the source fails: {impl['render'][:200]}", sub, "a message", impl["render"]))
    elif out == "err":
        if impl.get("render", "ok:").startswith("panic@"):
            fs.append(Failure("oracle", "render-panics:parse_arg", f"rendering fails: {impl['render'][:200]}", sub, "a message", impl["render"]))
    return fs


# a number of 5+ digits (or a subtraction, which may wrap) in a size position: `[x; N]`, `[T; N]`, `a..N`, a const
HUGE = re.compile(r";\s*\d{5,}|\.\.=?\s*\d{5,}|const\s+\w+\s*:\s*\w+\s*=\s*\d{5,}|const\s*\{[^}]*(-|\d{5,})|const\s+\w+\s*:\s*usize\s*=[^;]*-")


def nesting_depth(s):
    """longest run of nested brackets, or of chained unary / binary operators"""
    depth = best = 0
    for ch in s:
        if ch in "([{":
            depth += 1
            best = max(best, depth)
        elif ch in ")]}":
            depth = max(0, depth - 1)
    toks = [t for t in tokens_of(s) if not t.isspace()]
    ops = sum(1 for t in toks if t in ("!", "-", "+", "*", "/", "%", "&", "|", "^", "&&", "||", "<<", ">>", "==", "!=", "<", ">", "<=", ">="))
    return max(best, ops)


def classify_hang(case):
    s = case.get("text", case.get("src", ""))
    if HUGE.search(s):
        return "huge-declared-size"
    return "other"


def classify_abort(case):
    s = case.get("text", case.get("src", ""))
    if HUGE.search(s):
        return "huge-declared-size"
    if nesting_depth(s) >= 1000:
        return "nesting-depth>=1000"
    return "other"


def run(ctx):
    quick = ctx.tier == "quick"
    ctx.audit(PROP_MODULES)
    failures = ctx.proof_failures()
    ok, log = ctx.build_harness()
    if not ok:
        failures.append(Failure("model", "harness-build-failed", "cargo build of the harness failed: " + log[-400:]))
        return common.finish(ctx, failures, {"evaluations": 0, "distinct_nontrivial": 0, "samples": []}, [], "proof")
    cases = []
    for s in NASTY:
        cases.append({"id": len(cases), "op": "frontend", "src": s, "kind": "handwritten"})
    progs = [s for _, s in corpus.programs() if len(s) < 4000]
    per = 150 if quick else 1500
    for s in progs:
        cases.append({"id": len(cases), "op": "frontend", "src": s, "kind": "corpus"})
        for kind, t in perturb(ctx.rng, s, per):
            cases.append({"id": len(cases), "op": "frontend", "src": t, "kind": kind})
    for _ in range(8000 if quick else 100000):
        cases.append({"id": len(cases), "op": "frontend", "src": soup(ctx.rng), "kind": "soup"})
    for _ in range(3000 if quick else 40000):
        cases.append({"id": len(cases), "op": "frontend", "src": noise(ctx.rng), "kind": "noise"})
    for _ in range(1500 if quick else 25000):
        cases.append({"id": len(cases), "op": "frontend", "src": const_decls(ctx.rng), "kind": "const-decls"})
    # literal strings given to the argument parser
    lit_prog = "struct S { a: u8, b: (bool, i16) }\nenum E { A, B(u8, S) }\npub fn main(x: [E; 2]) -> u8 { 0u8 }"
    lit_ok = "[E::A, E::B(3, S {a: 1, b: (true, -5)})]"
    for kind, t in [("valid", lit_ok)] + perturb(ctx.rng, lit_ok, 1500 if quick else 20000):
        cases.append({"id": len(cases), "op": "parse_arg", "src": lit_prog, "text": t, "kind": "literal-" + kind})
    # texts with a 7-digit number are kept only among the hand-written ones: a declared size that large makes the
    # compiler allocate for minutes (known finding huge-declared-size), which would eat the deadline budget
    cases = [c for c in cases if c["kind"] == "handwritten" or not HUGE.search(c.get("text", c["src"]))]
    for i, c in enumerate(cases):
        c["id"] = i
    res = common.run_lines_guarded(common.GVH, cases, per_case_timeout=5.0 if quick else 20.0)
    outcomes = {}
    kinds = {}
    distinct = set()
    for c in cases:
        r = res.get(c["id"])
        if (r or {}).get("not_run"):
            outcomes["not-run"] = outcomes.get("not-run", 0) + 1
            continue
        failures += judge(c, r)
        o = "hang" if (r or {}).get("hang") else ("died" if "died" in (r or {}) else (r or {}).get("outcome", "?").split("@")[0])
        outcomes[o] = outcomes.get(o, 0) + 1
        kinds[c["kind"]] = kinds.get(c["kind"], 0) + 1
        if o in ("scan", "parse", "type", "compile", "err"):
            distinct.add(c.get("text", c["src"]))

    # ---- correspondence with the Lean model of scan.rs and prettify_meta
    texts = {}
    for c in cases:
        t = c.get("text", c["src"])
        if t not in texts:
            texts[t] = c
    scases = [{"id": i, "op": "scan", "src": t} for i, t in enumerate(texts)]
    simpl = common.run_lines_guarded(common.GVH, scases, per_case_timeout=5.0)
    smodel, _, _ = ctx.run_model(scases, timeout=3000)
    scan_stats = {"ok": 0, "errors": 0, "tokens": 0}
    for c in scases:
        if (simpl.get(c["id"]) or {}).get("not_run"):
            continue
        failures += judge_scan(c, simpl.get(c["id"]), smodel.get(c["id"]))
        r = simpl.get(c["id"]) or {}
        if r.get("ok"):
            scan_stats["ok"] += 1
            scan_stats["tokens"] += len(r.get("tokens", []))
        elif "errors" in r:
            scan_stats["errors"] += 1
    rcases = []
    for c in cases:
        r = res.get(c["id"]) or {}
        src = c.get("text", c["src"])
        if c["op"] != "frontend" or not src:
            continue
        metas = [m for m in r.get("metas", [])][:4]
        nlines = src.count("\n")
        if metas or ctx.rng.random() < 0.05:
            l0 = ctx.rng.randrange(0, nlines + 1)
            l1 = ctx.rng.randrange(l0, nlines + 1)
            metas.append([l0, ctx.rng.randrange(0, 12), l1, ctx.rng.randrange(0, 12)])      # inside the text
            if ctx.rng.random() < 0.2:
                metas.append([l0, ctx.rng.randrange(0, 5), nlines + ctx.rng.randrange(1, 4), ctx.rng.randrange(0, 3)])   # past its end
            rcases.append({"id": len(rcases), "op": "render", "src": src, "metas": metas})
    rimpl = common.run_lines_guarded(common.GVH, rcases, per_case_timeout=5.0)
    rmodel, _, _ = ctx.run_model(rcases, timeout=3000)
    render_stats = {"locations": 0, "rendered": 0, "out-of-range": 0}
    for c in rcases:
        if (rimpl.get(c["id"]) or {}).get("not_run"):
            continue
        failures += judge_render(c, rimpl.get(c["id"]), rmodel.get(c["id"]), render_stats)

    seen, uniq = set(), []
    for f in failures:
        if f.signature not in seen:
            seen.add(f.signature); uniq.append(f)
    coverage = {
        "evaluations": len(cases) + len(scases) + len(rcases),
        "distinct_nontrivial": len(distinct),
        "rule": "hand-written end-of-input / boundary texts; every corpus program and random perturbations of it (prefix at a token or "
                "character boundary, token deletion / duplication / swap / substitution (free and class-preserving) / insertion); random "
                "token soup over the language's alphabet; random characters; programs around constant declarations whose expressions mix types freely (literals of any type, external "
                "values, earlier / later / unknown constants, min / max, + / -); perturbed literal strings through parse_arg. Each text goes "
                "through scan, parse, type check and compile in a worker with a per-case deadline; the outcome must be ok or a non-empty "
                "error list whose locations are well-formed and renderable. Every distinct text is also scanned by the Lean scanner model "
                "(tokens, errors and locations compared exactly) and the reported and random locations are rendered by both "
                "prettify_meta and its model. non-trivial = distinct texts that are rejected with errors",
        "distribution": {"outcomes": outcomes, "kinds": kinds, "scan_correspondence": scan_stats, "render_correspondence": render_stats},
        "samples": [{"src": cases[len(NASTY) + 3]["src"][:300]}, {"src": cases[-1].get("text")}],
        "not_modelled": "parse.rs, check.rs and compile.rs are not modelled in Lean; for them the property is explored only",
    }
    assumptions = ["nesting depth <= 64 and declared sizes < 10^5 in generated texts; resource exhaustion beyond that is a recorded finding",
                   "per-case deadline 5 s (quick) / 20 s (thorough)"]
    return common.finish(ctx, uniq, coverage, assumptions, "proof", search=None)


def judge_scan(case, impl, model):
    fs = []
    src = case["src"]
    sub = {"op": "scan", "src": src}
    if impl is None or impl.get("hang"):
        return [Failure("oracle", "scan:hang", "the scanner does not return", sub, "tokens or errors", "hang")]
    if "died" in impl or "panic" in impl:
        return [Failure("oracle", "scan:panics", f"the scanner panics: {impl}", sub, "tokens or errors", impl)]
    nl = src.count("\n")
    items = impl.get("tokens") if impl.get("ok") else impl.get("errors")
    if not impl.get("ok") and not items:
        fs.append(Failure("oracle", "scan:empty-error-list", "scan fails without an error", sub, ">= 1 error", impl))
    for name, m in items or []:
        if not ((m[0], m[1]) <= (m[2], m[3]) and m[2] <= nl):
            fs.append(Failure("oracle", "scan:bad-location", f"location {m} of {name} is not well-formed (text has {nl} newlines)", sub, "start <= end, line <= newlines", m))
            break
    if model is None:
        fs.append(Failure("model", "scan:model-no-result", "the model driver gave no result", sub, None, None))
    else:
        a = {k: v for k, v in impl.items() if k != "id"}
        b = {k: v for k, v in model.items() if k != "id"}
        if a != b:
            fs.append(Failure("model", "scan:model-differs", "scanner model and scan.rs disagree", sub, json.dumps(b)[:600], json.dumps(a)[:600]))
    return fs


def judge_render(case, impl, model, stats):
    fs = []
    src = case["src"]
    sub = {"op": "render", "src": src, "metas": case["metas"]}
    if impl is None or impl.get("hang") or "died" in impl:
        return [Failure("oracle", "render:hang-or-abort", "rendering does not return", sub, "text", impl)]
    nl = src.count("\n")
    for m, r in zip(case["metas"], impl.get("renders", [])):
        stats["locations"] += 1
        if r is None:
            stats["out-of-range"] += 1
            if m[2] <= nl:
                fs.append(Failure("oracle", "render:panics-on-location-inside-text", f"prettify panics on location {m} although the text has {nl} newlines", sub, "text", None))
        else:
            stats["rendered"] += 1
    if model is None:
        fs.append(Failure("model", "render:model-no-result", "the model driver gave no result", sub, None, None))
    elif model.get("renders") != impl.get("renders"):
        fs.append(Failure("model", "render:model-differs", "prettify_meta model and lib.rs disagree", sub, json.dumps(model.get("renders"))[:600], json.dumps(impl.get("renders"))[:600]))
    return fs
