"""C13 — join / join_iter compute exactly the sorted-merge join and hide match positions."""
import json
import random

from . import c01, common, gen_prog, gen_types as T
from .common import Failure

PROP_MODULES = ["GarbleVerif.Props.C13"]
UNS = ["u8", "u16", "u32", "u64", "usize"]


def key_values(rng, key, count):
    """`count` distinct key values in ascending order (ascending = ascending bit pattern)"""
    def one():
        if key["k"] == "int":
            lo, hi = T.int_range(key["t"])
            return rng.choice([0, 1, 2, 3, 4, 5, 7, 8, 100, hi, hi - 1, rng.randint(lo, hi)])
        if key["k"] == "tuple":
            return tuple(rng.choice([0, 1, 2, T.int_range(x["t"])[1]]) for x in key["ts"])
        return [rng.choice([0, 1, 2, 255]) for _ in range(key["n"])]
    if key["k"] == "int" and rng.random() < 0.2:
        # keys that differ in their most significant bit only, with nothing in between (and one key above both)
        lo, hi = T.int_range(key["t"])
        half = (hi + 1) // 2
        k = rng.choice([0, 1, 2, 5, 100])
        return [k, half + k] + ([hi] if count > 2 else [])
    seen = {}
    for _ in range(200):
        v = one()
        seen[T.encode(key, v)] = v
        if len(seen) >= count:
            break
    return [seen[k] for k in sorted(seen)]


def sorted_arrays(rng, key, ta, tb, n, m, repeat=False):
    """two arrays sorted by key with a random overlap; elements are tuples (key, …) or bare keys"""
    universe = key_values(rng, key, n + m)
    def pick(k):
        if repeat and rng.random() < 0.4:
            ks = sorted((rng.choice(universe) for _ in range(k)), key=lambda v: T.encode(key, v))
        else:
            if len(universe) < k:
                return None
            ks = sorted(rng.sample(universe, k), key=lambda v: T.encode(key, v))
        return ks
    ka, kb = pick(n), pick(m)
    if ka is None or kb is None:
        return None
    def elem(t, k):
        if t == key:
            return k
        return tuple([k] + [T.rand_value(rng, x, 0.3) for x in t["ts"][1:]])
    return [elem(ta, k) for k in ka], [elem(tb, k) for k in kb]


# ------------------------------------------------------------------ part A: for-join loops
def gen_loop_case(seed, cid):
    rng = random.Random(seed)
    g = gen_prog.ProgGen(rng, max_depth=3)
    p = g.join_program()
    ta, tb = p["params"][0][1], p["params"][1][1]
    args = []
    for _ in range(6):
        ab = sorted_arrays(rng, p["key"], ta["elem"], tb["elem"], ta["n"], tb["n"])
        if ab is None:
            continue
        rest = [c01.small_value(rng, t) if rng.random() < 0.5 else T.rand_value(rng, t, 0.4) for _, t in p["params"][2:]]
        args.append([ab[0], ab[1]] + rest)
    return {"id": cid, "seed": seed, "src": p["src"], "prog": p["prog"], "params": p["params"], "ret": p["ret"], "args": args,
            "stats": g.stats, "gen": {"kind": "join-loop"}}


# ------------------------------------------------------------------ part B: the `join` built-in
def gen_join_case(seed, cid):
    rng = random.Random(seed)
    tg = T.TypeGen(rng, allow_zero_sized=False)
    r = rng.random()
    if r < 0.6:
        key = {"k": "int", "t": rng.choice(UNS)}
    elif r < 0.8:
        key = {"k": "array", "elem": {"k": "int", "t": "u8"}, "n": rng.choice([1, 2, 3])}
    else:
        key = {"k": "tuple", "ts": [{"k": "int", "t": rng.choice(UNS)} for _ in range(2)]}
    assoc = rng.random() < 0.5
    if assoc:
        ea = {"k": "tuple", "ts": [key] + [tg.ty(1) for _ in range(rng.choice([1, 1, 2]))]}
        eb = {"k": "tuple", "ts": [key] + [tg.ty(1) for _ in range(rng.choice([1, 1, 2]))]}
        out_elem = {"k": "tuple", "ts": [{"k": "bool"}, ea, eb]}
    else:
        if key["k"] == "tuple":
            key = {"k": "int", "t": rng.choice(UNS)}          # a bare tuple element would be read as (key, data)
        ea = eb = key
        out_elem = {"k": "tuple", "ts": [{"k": "bool"}, key]}
    n, m = rng.choice([1, 1, 2, 3, 4, 5, 6, 7, 8]), rng.choice([1, 2, 3, 4, 5, 6, 7])
    ta, tb = {"k": "array", "elem": ea, "n": n}, {"k": "array", "elem": eb, "n": m}
    ret = {"k": "array", "elem": out_elem, "n": n + m - 1}
    ret_text = f"[{T.ty_str(out_elem)}; const {{ {n}usize + {m}usize - 1usize }}]"
    src = tg.defs_src() + f"pub fn main(a: {T.ty_str(ta)}, b: {T.ty_str(tb)}) -> {ret_text} {{ join(a, b) }}\n"
    args = []
    for i in range(8):
        ab = sorted_arrays(rng, key, ea, eb, n, m, repeat=(not assoc and i % 2 == 1))
        if ab is not None:
            args.append(list(ab))
    return {"id": cid, "seed": seed, "src": src, "params": [["a", ta], ["b", tb]], "ret": ret, "key": key, "assoc": assoc, "args": args}


def key_of(key, elem_t, e):
    return T.encode(key, e if elem_t == key else e[0])


def judge_join(c, r):
    fs = []
    sub = {"op": "c13-join", "seed": c["seed"], "src": c["src"]}
    if r is None or r.get("hang") or "died" in r:
        return [Failure("oracle", "c13:join:hangs-or-aborts", f"compiling / evaluating does not return: {r}", sub, None, r)]
    if not r.get("ok"):
        if r.get("stage") == "panic":
            return [Failure("oracle", "c13:join:compile-panics", f"compiling join() panics: {r.get('detail')}", sub, "circuit", r.get("detail"))]
        return [Failure("model", "c13:join:generated-program-rejected", f"rejected: {r.get('detail', '')[:300]}", sub, "accepted", r.get("detail"))]
    ta, tb = c["params"][0][1], c["params"][1][1]
    for a, out in zip(c["args"], r["outs"]):
        one = dict(sub, a=gen_prog.val_json(ta, a[0]), b=gen_prog.val_json(tb, a[1]))
        if out.startswith("panic@"):
            fs.append(Failure("oracle", "c13:join:eval-panics", f"evaluation panics: {out[:100]}", one, None, out)); break
        if out[0] != "0":
            fs.append(Failure("oracle", "c13:join:spurious-panic", "join() reports a panic", one, "no panic", out[:40])); break
        v = T.decode(c["ret"], out[161:])
        if v is None:
            fs.append(Failure("oracle", "c13:join:output-shape", f"the output has {len(out) - 161} bits, the type needs {T.size_of(c['ret'])}", one, T.size_of(c["ret"]), len(out) - 161)); break
        flags = [e[0] for e in v]
        if flags != sorted(flags) and flags != sorted(flags, reverse=True):
            fs.append(Failure("oracle", "c13:join:flags-not-sorted", f"the match flags are not sorted: {flags}", one, "sorted", flags)); break
        ew = T.size_of(c["ret"]["elem"])
        bits = out[161:]
        for i, e in enumerate(v):
            if not e[0] and "1" in bits[i * ew:(i + 1) * ew]:
                fs.append(Failure("oracle", "c13:join:unflagged-entry-not-zero", f"entry {i} is not flagged but not all zero", one, "0" * ew, bits[i * ew:(i + 1) * ew])); break
        else:
            ka = {}
            for e in a[0]:
                ka.setdefault(key_of(c["key"], ta["elem"], e), []).append(e)
            kb = {}
            for e in a[1]:
                kb.setdefault(key_of(c["key"], tb["elem"], e), []).append(e)
            common_keys = sorted(set(ka) & set(kb))
            got = [e for e in v if e[0]]
            if c["assoc"]:
                want = sorted(json.dumps([gen_prog.val_json(ta["elem"], ka[k][0]), gen_prog.val_json(tb["elem"], kb[k][0])]) for k in common_keys)
                try:
                    have = sorted(json.dumps([gen_prog.val_json(ta["elem"], e[1]), gen_prog.val_json(tb["elem"], e[2])]) for e in got)
                except Exception:
                    # a flagged entry that does not even decode to values of the element types (e.g. an enum tag out of range)
                    fs.append(Failure("oracle", "c13:join:flagged-entry-not-a-value", "a flagged entry of join() is not the encoding of a pair of elements", one, want[:6], str(got)[:300]))
                    break
            else:
                want = sorted(common_keys)
                have = sorted(T.encode(c["key"], e[1]) for e in got)
            if want != have:
                fs.append(Failure("oracle", "c13:join:wrong-matches", f"flagged entries {have[:6]} but the common keys give {want[:6]}", one, want, have))
                break
            continue
        break
    return fs


def run(ctx):
    quick = ctx.tier == "quick"
    ctx.audit(PROP_MODULES)
    failures = ctx.proof_failures()
    ok, log = ctx.build_harness()
    if not ok:
        failures.append(Failure("model", "harness-build-failed", "cargo build of the harness failed: " + log[-400:]))
        return common.finish(ctx, failures, {"evaluations": 0, "distinct_nontrivial": 0, "samples": []}, [], "proof")
    # part A
    n = 600 if quick else 12000
    cases = [gen_loop_case(ctx.rng.randrange(1 << 48), i) for i in range(n)]
    cases = [c for c in cases if c["args"]]
    tally = {"rejected": 0, "stuck": 0, "panic": 0, "value": 0, "other-reason": 0, "strict_reason": True}
    model, _, _ = ctx.run_model([c01.model_case(c) for c in cases], timeout=3000)
    pairs = 0
    for ci, (kind, dedup) in enumerate([("ssa", True), ("reg", False)]):
        sel = cases if ci == 0 else cases[::3]
        impl = common.run_lines_guarded(common.GVH, [c01.impl_case(c, kind, dedup) for c in sel], per_case_timeout=30.0)
        for c in sel:
            r = impl.get(c["id"])
            if r is not None and (r.get("hang") or "died" in r):
                failures.append(Failure("oracle", "c13:loop:compile-hangs-or-aborts", f"does not return: {r}", {"op": "c13-loop", "seed": c["seed"], "src": c["src"]}, None, r))
                continue
            for f in c01.judge(c, r, model.get(c["id"]), f"{kind},dedup={dedup}", tally):
                f.signature = f.signature.replace("c01:", "c13:loop:", 1)
                f.case["op"] = "c13-loop"
                failures.append(f)
    del tally["strict_reason"]
    # part B
    jn = 500 if quick else 10000
    jcases = [gen_join_case(ctx.rng.randrange(1 << 48), len(cases) + i) for i in range(jn)]
    jcases = [c for c in jcases if c["args"]]
    jimpl = common.run_lines_guarded(common.GVH, [{"id": c["id"], "op": "compile_eval", "src": c["src"], "kind": "ssa", "dedup": True,
                                                  "inputs": [gen_prog.party_inputs(c["params"], a) for a in c["args"]]} for c in jcases], per_case_timeout=30.0)
    jstats = {"programs": len(jcases), "evaluations": 0, "with_matches": 0, "assoc": 0, "with_repeated_keys": 0}
    for c in jcases:
        r = jimpl.get(c["id"])
        failures += judge_join(c, r)
        if r and r.get("ok"):
            jstats["evaluations"] += len(r["outs"])
            jstats["assoc"] += c["assoc"]
            for a, out in zip(c["args"], r["outs"]):
                if not out.startswith("panic") and "1" in out[161:]:
                    jstats["with_matches"] += 1
                ks = [key_of(c["key"], c["params"][0][1]["elem"], e) for e in a[0]]
                jstats["with_repeated_keys"] += len(set(ks)) < len(ks)
    seen, uniq = set(), []
    for f in failures:
        if f.signature not in seen:
            seen.add(f.signature); uniq.append(f)
    coverage = {
        "evaluations": tally["value"] + tally["panic"] + jstats["evaluations"],
        "distinct_nontrivial": tally["value"] + jstats["with_matches"],
        "rule": "part A: generated programs around one `for .. in join_iter(a, b)` loop (keys: every unsigned type, pairs of them, "
                "[u8; k]; 1..6 elements per array, random associated data, destructuring loop patterns, bodies that assign, "
                "overflow and index) returning every visible variable, on arrays sorted strictly ascending by key with random "
                "overlap; circuit (SSA / register) against the Lean semantics (Src.joinPairs: the body once per equal-key pair, "
                "ascending, effects and panics for those pairs only). part B: `join(a, b)` with and without associated data for "
                "array lengths 1..8 (also with repeated keys for the plain intersection): the output must have n+m-1 entries, "
                "flags sorted, unflagged entries all zero, flagged entries exactly the common keys, each once. non-trivial = "
                "runs with a value / with at least one match",
        "distribution": {"loop_runs": tally, "join": jstats},
        "samples": [{"src": cases[0]["src"]}, {"src": jcases[0]["src"]}],
    }
    return common.finish(ctx, uniq, coverage, ["arrays of at most 8 elements"], "proof", search=None)


def replay(ctx, path):
    d = json.load(open(path))
    case = d.get("case") or {}
    if "seed" not in case:
        print("replay file has no executable case:", d.get("what"))
        return 1
    ctx.build_harness()
    ctx.build_lean(PROP_MODULES)
    bad = False
    if case.get("op") == "c13-join":
        c = gen_join_case(case["seed"], 0)
        r = common.run_lines_guarded(common.GVH, [{"id": 0, "op": "compile_eval", "src": c["src"], "kind": "ssa", "dedup": True,
                                                  "inputs": [gen_prog.party_inputs(c["params"], a) for a in c["args"]]}], per_case_timeout=60.0).get(0)
        fs = judge_join(c, r)
    else:
        c = gen_loop_case(case["seed"], 0)
        model, _, _ = ctx.run_model([c01.model_case(c)])
        r = common.run_lines_guarded(common.GVH, [c01.impl_case(c, "ssa", True)], per_case_timeout=60.0).get(0)
        fs = c01.judge(c, r, model.get(0), "ssa,dedup=True", {"rejected": 0, "stuck": 0, "panic": 0, "value": 0, "other-reason": 0, "strict_reason": True})
    print(c["src"])
    for f in fs:
        print(f"{f.kind}: {f.signature}: {f.what}")
        bad = bad or f.kind == "oracle"
    if bad:
        print(f"VIOLATION property={ctx.prop} replay={path}")
        return 1
    return 0
