"""C12 — const parameters act as literal substitution; missing / mistyped ones are errors."""
import json
import random
import re

from . import c01, common, gen_prog, gen_types as T
from .common import Failure

PROP_MODULES = ["GarbleVerif.Props.C12"]
PARTIES = ["PARTY_0", "PARTY_1", "PARTY_2"]


def wrap(t, v):
    sgn, w = T.INTS[t]
    v &= (1 << w) - 1
    return v - (1 << w) if sgn and v >= (1 << (w - 1)) else v


class ConstGen:
    """const declarations whose value (with wrapping arithmetic in the constant's type) is prescribed"""

    def __init__(self, rng):
        self.rng = rng
        self.decls = []          # (name, type text, expr text, tree)
        self.supplied = {}       # party -> {name: (type, value)}
        self.n = 0
        self.by_value = {}       # (type, value) -> const name
        self.wrap_in_minmax = False
        self.usize_may_wrap = False     # usize constants that are array sizes never wrap; those used as values may

    def ext(self, t, v):
        self.n += 1
        party = self.rng.choice(PARTIES)
        name = f"X{self.n}"
        self.supplied.setdefault(party, {})[name] = (t, v)
        return f"{party}::{name}", ["ext", party, name]

    def lit(self, t, v):
        return (("true" if v else "false"), ["lit", v]) if t == "bool" else (f"{v}{t}", ["lit", v])

    def expr(self, t, v, d, nowrap=False):
        """(text, tree) of a const expression of type t that evaluates to v. Under `nowrap` no intermediate result
        leaves the range of t (the operands of min / max: there wrapping per operation and wrapping once at the end
        differ, see the recorded finding); usize constants never wrap (they are array sizes)."""
        r = self.rng.random()
        nowrap = nowrap or (t == "usize" and not self.usize_may_wrap)
        if t == "bool" or d <= 0 or r < 0.35:
            return self.ext(t, v) if self.rng.random() < 0.75 else self.lit(t, v)
        lo, hi = T.int_range(t)

        def operand(k):
            return self.lit(t, k) if self.rng.random() < 0.6 else self.expr(t, k, d - 1, nowrap)

        def paren(e):
            return ("(" + e[0] + ")", e[1]) if e[1][0] in ("add", "sub") else e
        if r < 0.5:
            if nowrap:
                k = self.rng.randint(max(lo, v - hi), min(hi, v - lo))
                if t == "usize":
                    k = min(k, 1000)
            else:
                k = max(lo, min(hi, self.rng.choice([1, 2, 5, hi, hi // 2, 200])))
            a = self.expr(t, wrap(t, v - k), d - 1, nowrap)
            b = paren(operand(k))
            return f"{a[0]} + {b[0]}", ["add", a[1], b[1]]
        if r < 0.65:
            if nowrap:
                k = self.rng.randint(max(lo, lo - v), min(hi, hi - v))
                if t == "usize":
                    k = min(k, 1000)
            else:
                k = max(lo, min(hi, self.rng.choice([1, 2, 5, hi, 77])))
            a = self.expr(t, wrap(t, v + k), d - 1, nowrap)
            b = paren(operand(k))
            return f"{a[0]} - {b[0]}", ["sub", a[1], b[1]]
        if r < 0.85:
            big = r < 0.75
            others = []
            for _ in range(self.rng.choice([1, 2, 3])):
                w = self.rng.randint(lo, v) if big else self.rng.randint(v, hi)
                if self.rng.random() < 0.4:
                    w = self.rng.choice([lo, v] if big else [hi, v])
                others.append(self.expr(t, w, d - 1, not self.wrap_in_minmax))
            # an earlier constant of the type as one of the other arguments (its value as the constant has it: reduced to
            # the type, negative if it is negative), when it does not change the result
            prev = [(vv, n) for (tt, vv), n in self.by_value.items() if tt == t and (vv <= v if big else vv >= v)]
            if prev and self.rng.random() < 0.5:
                n = self.rng.choice(prev)[1]
                others.append((n, ["ident", n]))
            args = others + [self.expr(t, v, d - 1, not self.wrap_in_minmax)]
            self.rng.shuffle(args)
            fn = "max" if big else "min"
            return f"{fn}(" + ", ".join(a[0] for a in args) + ")", [fn] + [a[1] for a in args]
        prev = [n for (tt, vv), n in self.by_value.items() if tt == t and vv == v]
        if prev:
            n = self.rng.choice(prev)
            return n, ["ident", n]
        return self.ext(t, v)

    def render(self, t, tree, subst):
        """text of a const expression tree; with `subst` external values and constants are replaced by their values"""
        k = tree[0]
        if k == "ext":
            return self.lit(t, self.supplied[tree[1]][tree[2]][1])[0] if subst else f"{tree[1]}::{tree[2]}"
        if k == "lit":
            return self.lit(t, tree[1])[0]
        if k == "ident":
            if not subst:
                return tree[1]
            return self.lit(t, next(vv for (tt, vv), n in self.by_value.items() if n == tree[1] and tt == t))[0]
        if k in ("add", "sub"):
            b = self.render(t, tree[2], subst)
            if tree[2][0] in ("add", "sub"):
                b = "(" + b + ")"
            return f"{self.render(t, tree[1], subst)} {'+' if k == 'add' else '-'} {b}"
        return f"{k}(" + ", ".join(self.render(t, a, subst) for a in tree[1:]) + ")"

    def const(self, t, v):
        """declares a constant of type t with value v, returns its name"""
        text, tree = self.expr(t, v, 2)
        name = f"C{len(self.decls)}"
        self.decls.append((name, t, text, tree))
        self.by_value[(t, v)] = name
        return name

    def decl_text(self):
        return "".join(f"const {n}: {t} = {e};\n" for n, t, e, _ in self.decls)

    def consts_json(self, drop=None, mistype=None):
        out = {}
        for party, cs in self.supplied.items():
            for name, (t, v) in cs.items():
                if drop and (party, name) in drop:
                    continue
                tt = t
                if mistype and (party, name) in mistype:
                    tt = mistype[(party, name)]
                lit = ("True" if v else "False") if tt == "bool" else ({"NumSigned" if T.INTS[tt][0] else "NumUnsigned": [v if tt == t else abs(v) % 100, T.SERDE[tt]]})
                out.setdefault(party, {})[name] = lit
        return out


UNS_SMALL = [1, 2, 3, 4, 5]


def INT(t):
    return {"k": "int", "t": t}


def ARR(elem, n):
    return {"k": "array", "elem": elem, "n": n}


def TUP(*ts):
    return {"k": "tuple", "ts": list(ts)}


def gen_size_case(seed, cid):
    """array sizes, trip counts and the number of parties come from constants"""
    rng = random.Random(seed)
    cg = ConstGen(rng)
    tg = T.TypeGen(rng, allow_zero_sized=False)
    n = rng.choice(UNS_SMALL)
    N = cg.const("usize", n)
    elem = tg.ty(rng.choice([0, 0, 1]))
    et = T.ty_str(elem)
    kind = rng.choice(["parties", "fold", "repeat", "repeat-untyped", "two-sizes", "nested", "const-expr-size", "const-expr-size"])
    defs = tg.defs_src()
    one_party = False
    if kind == "const-expr-size":
        # `[T; const { EXPR }]`: the size is a const expression that names external values directly, constants and
        # literals (the checker accepts `PARTY::X` there once some constant is declared as `PARTY::X`)
        def exts(tree):
            return [tree] if tree[0] == "ext" else [x for sub in tree[1:] if isinstance(sub, list) for x in exts(sub)]
        text, tree = cg.expr("usize", n, 2)
        for k, (_, party, name) in enumerate(exts(tree)):
            cg.decls.append((f"D{len(cg.decls)}", "usize", f"{party}::{name}", ["ext", party, name]))
        assert cg.render("usize", tree, False) == text, (text, tree)
        sz = f"const {{ {text} }}"
        # substituted program: the same const expression with every name replaced by its value (a single array
        # parameter written `[T; const { .. }]` is one party, unlike `[T; 4]`, with or without constants)
        szb = f"const {{ {cg.render('usize', tree, True)} }}"
        if rng.random() < 0.5:
            body = "let mut c = 0u16; for e in arr { c = c + 1u16; } (c, arr)"
            a = f"pub fn main(arr: [{et}; {sz}]) -> (u16, [{et}; {sz}]) {{ {body} }}\n"
            b = f"pub fn main(arr: [{et}; {szb}]) -> (u16, [{et}; {szb}]) {{ {body} }}\n"
            params = [["arr", {"k": "array", "elem": elem, "n": n}]]
            ret = TUP(INT("u16"), ARR(elem, n))
            one_party = True
        else:
            body = "let b: [{et}; {sz}] = arr; let mut c = 0u8; for e in b {{ c = c + 1u8; }} (b[i], c, arr)"
            a = f"pub fn main(arr: [{et}; {sz}], i: usize) -> ({et}, u8, [{et}; {sz}]) {{ " + body.format(et=et, sz=sz) + " }\n"
            b = f"pub fn main(arr: [{et}; {szb}], i: usize) -> ({et}, u8, [{et}; {szb}]) {{ " + body.format(et=et, sz=szb) + " }\n"
            params = [["arr", {"k": "array", "elem": elem, "n": n}], ["i", {"k": "int", "t": "usize"}]]
            ret = TUP(elem, INT("u8"), ARR(elem, n))
        kind += ":" + tree[0]
    if kind.startswith("const-expr-size"):
        pass
    elif kind == "parties":
        body = "let mut c = 0u16; for e in arr { c = c + 1u16; } (c, arr)"
        a = f"pub fn main(arr: [{et}; {N}]) -> (u16, [{et}; {N}]) {{ {body} }}\n"
        b = f"pub fn main(arr: [{et}; {n}]) -> (u16, [{et}; {n}]) {{ {body} }}\n"
        params = [["arr", {"k": "array", "elem": elem, "n": n}]]
        ret = TUP(INT("u16"), ARR(elem, n))
    elif kind == "fold":
        body = f"let mut acc = x; let mut last = arr[0usize]; for e in arr {{ acc = acc ^ 1u32; last = e; }} (acc, last, arr[{n - 1}usize])"
        a = f"pub fn main(arr: [{et}; {N}], x: u32) -> (u32, {et}, {et}) {{ {body} }}\n"
        b = f"pub fn main(arr: [{et}; {n}], x: u32) -> (u32, {et}, {et}) {{ {body} }}\n"
        params = [["arr", {"k": "array", "elem": elem, "n": n}], ["x", {"k": "int", "t": "u32"}]]
        ret = TUP(INT("u32"), elem, elem)
    elif kind == "nested":
        # a table whose two sizes are constants: `[[T; M]; N]`
        m = rng.choice(UNS_SMALL)
        M = cg.const("usize", m)
        body = "let mut c = 0u8; for row in t { for e in row { c = c + 1u8; } } (c, t[i][0usize], x)"
        a = f"pub fn main(t: [[{et}; {M}]; {N}], i: usize, x: u8) -> (u8, {et}, u8) {{ {body} }}\n"
        b = f"pub fn main(t: [[{et}; {m}]; {n}], i: usize, x: u8) -> (u8, {et}, u8) {{ {body} }}\n"
        params = [["t", ARR(ARR(elem, m), n)], ["i", {"k": "int", "t": "usize"}], ["x", INT("u8")]]
        ret = TUP(INT("u8"), elem, INT("u8"))
    elif kind == "repeat-untyped":
        # `[7; N]` with a number without a suffix where the type of the array is known from the context: the element
        # takes the element type of the context (an annotated let, the return value, a tuple field, an argument)
        it = rng.choice(["u8", "u16", "u64", "i8", "i16", "i64", "u32", "usize"])
        elem = {"k": "int", "t": it}
        lit = rng.choice([0, 1, 7, 100])
        shape = rng.choice(["let", "ret", "field", "nested"])
        if shape == "let":
            tpl = "pub fn main(x: {it}, i: usize) -> ([{it}; {N}], {it}) {{ let mut arr: [{it}; {N}] = [{lit}; {N}]; arr[0usize] = x; (arr, arr[i]) }}\n"
        elif shape == "ret":
            tpl = "pub fn main(x: {it}, i: usize) -> ([{it}; {N}], {it}) {{ let r: ([{it}; {N}], {it}) = ([{lit}; {N}], x); r }}\n"
        elif shape == "field":
            tpl = "pub fn main(x: {it}, i: usize) -> ([{it}; {N}], {it}) {{ ([{lit}; {N}], x) }}\n"
        else:
            tpl = "pub fn main(x: {it}, i: usize) -> ([{it}; {N}], {it}) {{ let a: [[{it}; {N}]; 2] = [[{lit}; {N}]; 2]; (a[1usize], x) }}\n"
        a = tpl.format(it=it, N=N, lit=lit)
        b = tpl.format(it=it, N=n, lit=lit)
        params = [["x", elem], ["i", {"k": "int", "t": "usize"}]]
        ret = TUP(ARR(elem, n), elem)
        kind += ":" + shape
    elif kind == "repeat":
        a = f"pub fn main(x: {et}, i: usize) -> ([{et}; {N}], {et}) {{ let arr = [x; {N}]; (arr, arr[i]) }}\n"
        b = f"pub fn main(x: {et}, i: usize) -> ([{et}; {n}], {et}) {{ let arr = [x; {n}]; (arr, arr[i]) }}\n"
        params = [["x", elem], ["i", {"k": "int", "t": "usize"}]]
        ret = TUP(ARR(elem, n), elem)
    else:
        m = rng.choice(UNS_SMALL)
        M = cg.const("usize", m)
        body = "let mut c = 0u8; for e in p { for f in q { c = c + 1u8; } } (c, p, q)"
        a = f"pub fn main(p: [{et}; {N}], q: [bool; {M}]) -> (u8, [{et}; {N}], [bool; {M}]) {{ {body} }}\n"
        b = f"pub fn main(p: [{et}; {n}], q: [bool; {m}]) -> (u8, [{et}; {n}], [bool; {m}]) {{ {body} }}\n"
        params = [["p", {"k": "array", "elem": elem, "n": n}], ["q", {"k": "array", "elem": {"k": "bool"}, "n": m}]]
        ret = TUP(INT("u8"), ARR(elem, n), ARR({"k": "bool"}, m))
    args = []
    for _ in range(4):
        vals = []
        for _, t in params:
            v = T.rand_value(rng, t, 0.4)
            if t == {"k": "int", "t": "usize"}:
                v = rng.choice([0, n - 1, n, rng.randrange(0, n + 2)])
            vals.append(v)
        args.append(vals)
    return {"id": cid, "seed": seed, "kind": "size:" + kind, "src_a": cg.decl_text() + defs + a, "src_b": defs + b, "params": params,
            "args": args, "cg": cg, "one_party": one_party, "ret": ret}


def gen_value_case(seed, cid, wrap_in_minmax=False):
    """constants of every type used as values: a generated program in which some literals are constants"""
    rng = random.Random(seed)
    g = gen_prog.ProgGen(rng, max_depth=2, features={"match", "loops", "structs", "assign", "shadow", "helpers"})
    cg = ConstGen(rng)
    cg.wrap_in_minmax = wrap_in_minmax
    cg.usize_may_wrap = True
    orig = g.val_expr

    used = {}

    def val_expr(ty, v):
        e = orig(ty, v)
        if ty["k"] in ("int", "bool") and rng.random() < 0.35:
            t = "bool" if ty["k"] == "bool" else ty["t"]
            name = cg.by_value.get((t, v)) if rng.random() < 0.5 else None
            name = name or cg.const(t, v)
            used[name] = (ty, v)
            # the text has both spellings; the tree keeps the literal (the generator looks at literals) with a marker
            # that is turned into a reference to the constant afterwards (the Lean models bind it to its value)
            return gen_prog.E(f"‹{name}|{e.text}›", list(e.ast) + [{"const": name}])
        return e
    g.val_expr = val_expr
    p = g.program()
    a = re.sub("‹(\\w+)\\|[^›]*›", r"\1", p["src"])
    b = re.sub("‹\\w+\\|([^›]*)›", r"\1", p["src"])
    # patterns and array sizes must stay literals: a constant there is not what this case tests
    args = [[c01.small_value(rng, t) if i % 2 == 0 else T.rand_value(rng, t, 0.4) for _, t in p["params"]] for i in range(4)]
    def refs(x):
        if isinstance(x, list):
            if len(x) == 4 and x[0] == "int" and isinstance(x[3], dict) and "const" in x[3]:
                return ["var", x[3]["const"]]
            if len(x) == 3 and x[0] == "bool" and isinstance(x[2], dict) and "const" in x[2]:
                return ["var", x[2]["const"]]
            return [refs(y) for y in x]
        return x
    p["prog"] = dict(p["prog"], fns=[dict(f, body=refs(f["body"])) for f in p["prog"]["fns"]])
    prog = dict(p["prog"], consts=[[n, gen_prog.val_json(ty, v)] for n, (ty, v) in sorted(used.items())],
                const_tys=[[n, ty] for n, (ty, v) in sorted(used.items())])
    return {"id": cid, "seed": seed, "kind": "value-wrap-under-minmax" if wrap_in_minmax else "value", "src_a": cg.decl_text() + a, "src_b": b, "params": p["params"], "args": args, "cg": cg,
            "prog": prog, "ret": p["ret"]}


def run(ctx):
    quick = ctx.tier == "quick"
    ctx.audit(PROP_MODULES)
    failures = ctx.proof_failures()
    ok, log = ctx.build_harness()
    if not ok:
        failures.append(Failure("model", "harness-build-failed", "cargo build of the harness failed: " + log[-400:]))
        return common.finish(ctx, failures, {"evaluations": 0, "distinct_nontrivial": 0, "samples": []}, [], "proof")
    n = 700 if quick else 15000
    cases = []
    for i in range(n):
        seed = ctx.rng.randrange(1 << 48)
        cases.append(gen_size_case(seed, i) if i % 3 == 0 else gen_value_case(seed, i, wrap_in_minmax=(i % 10 == 1)))
    cases = [c for c in cases if c["cg"].decls]
    # the recorded instance of wrapping under min / max (theorem C12_minmax_differs)
    cg = ConstGen(random.Random(0))
    cg.decls.append(("C", "u8", "max(PARTY_0::A + 200u8, 50u8)", ["max"]))
    cg.supplied = {"PARTY_0": {"A": ("u8", 100)}}
    cases.append({"id": len(cases) and max(c["id"] for c in cases) + 1, "seed": 0, "kind": "value-wrap-under-minmax",
                  "src_a": "const C: u8 = max(PARTY_0::A + 200u8, 50u8);\npub fn main(x: u8) -> u8 { x ^ C }\n",
                  "src_b": "pub fn main(x: u8) -> u8 { x ^ 50u8 }\n", "params": [["x", {"k": "int", "t": "u8"}]], "args": [[0], [255]], "cg": cg})

    # a negative constant referred to by a later constant under max / min
    for k, (xa, fn, other, want) in enumerate([(-3, "max", 0, 0), (-100, "min", -7, -100), (-1, "max", -128, -1)]):
        cg3 = ConstGen(random.Random(0))
        cg3.decls.append(("A", "i8", "PARTY_0::X", ["ext", "PARTY_0", "X"]))
        cg3.decls.append(("B", "i8", f"{fn}(A, {other}i8)", [fn]))
        cg3.supplied = {"PARTY_0": {"X": ("i8", xa)}}
        cases.append({"id": max(c["id"] for c in cases) + 1, "seed": 0, "kind": "value-signed-const-ref-under-minmax",
                      "src_a": f"const A: i8 = PARTY_0::X;\nconst B: i8 = {fn}(A, {other}i8);\npub fn main(x: i8) -> i8 {{ x ^ B }}\n",
                      "src_b": f"pub fn main(x: i8) -> i8 {{ x ^ {want}i8 }}\n", "params": [["x", {"k": "int", "t": "i8"}]], "args": [[0], [-1]], "cg": cg3})
    # a variable named like a constant: a local of the caller, a parameter of main, a parameter of a function in
    # between. The function that uses the constant must see the constant; main must see its parameter
    shadow = [
        ("caller-local", "fn f(a: u8) -> u8 { a + K }\npub fn main(x: u8) -> u8 { let K = 100u8; f(x) ^ K }\n"),
        ("main-parameter", "fn f(a: u8) -> u8 { a + K }\npub fn main(K: u8) -> u8 { f(K) }\n"),
        ("main-parameter-only", "fn f(a: u8) -> u8 { a ^ K }\npub fn main(K: u8) -> u8 { f(3u8) + K + K }\n"),
        ("parameter-in-between", "fn g(K: u8) -> u8 { f(K) }\nfn f(a: u8) -> u8 { a + K }\npub fn main(x: u8) -> u8 { g(x) }\n"),
        ("loop-variable", "fn f(a: u8) -> u8 { a + K }\npub fn main(x: u8) -> u8 { let mut s = 0u8; for K in [x, 3u8] { s = s ^ f(K); } s }\n"),
    ]
    for name, body in shadow:
        cg5 = ConstGen(random.Random(0))
        cg5.decls.append(("K", "u8", "PARTY_0::K", ["ext", "PARTY_0", "K"]))
        cg5.supplied = {"PARTY_0": {"K": ("u8", 1)}}
        cases.append({"id": max(c["id"] for c in cases) + 1, "seed": 0, "kind": "value-const-shadowed:" + name,
                      "src_a": "const K: u8 = PARTY_0::K;\n" + body,
                      "src_b": body.replace("a + K", "a + 1u8").replace("a ^ K", "a ^ 1u8"), "params": [["x", {"k": "int", "t": "u8"}]], "args": [[5], [40]], "cg": cg5})
    # the same for usize (32 bits): the sum wraps past 2^32, a later constant compares it
    cg4 = ConstGen(random.Random(0))
    cg4.decls.append(("A", "usize", "PARTY_0::X + 4294967290usize", ["add"]))
    cg4.decls.append(("LO", "usize", "min(A, 100usize)", ["min"]))
    cg4.decls.append(("HI", "usize", "max(A, 100usize)", ["max"]))
    cg4.supplied = {"PARTY_0": {"X": ("usize", 10)}}
    cases.append({"id": max(c["id"] for c in cases) + 1, "seed": 0, "kind": "value-usize-const-ref-wraps",
                  "src_a": "const A: usize = PARTY_0::X + 4294967290usize;\nconst LO: usize = min(A, 100usize);\nconst HI: usize = max(A, 100usize);\npub fn main(x: usize) -> usize { x ^ LO ^ (HI + HI) }\n",
                  "src_b": "pub fn main(x: usize) -> usize { x ^ 4usize ^ (100usize + 100usize) }\n", "params": [["x", {"k": "int", "t": "usize"}]], "args": [[0], [7]], "cg": cg4})
    # a constant whose own definition wraps, referred to by a later constant under max (repaired defect 7d34fdc)
    cg2 = ConstGen(random.Random(0))
    cg2.decls.append(("A", "u8", "PARTY_0::X + 200u8", ["add"]))
    cg2.decls.append(("C", "u8", "max(A, 50u8)", ["max"]))
    cg2.supplied = {"PARTY_0": {"X": ("u8", 100)}}
    cases.append({"id": max(c["id"] for c in cases) + 1, "seed": 0, "kind": "value-const-ref-wraps",
                  "src_a": "const A: u8 = PARTY_0::X + 200u8;\nconst C: u8 = max(A, 50u8);\npub fn main(x: u8) -> u8 { x ^ C }\n",
                  "src_b": "pub fn main(x: u8) -> u8 { x ^ 50u8 }\n", "params": [["x", {"k": "int", "t": "u8"}]], "args": [[0], [255]], "cg": cg2})

    def req(c, src, consts, idx):
        return {"id": c["id"] * 4 + idx, "op": "compile_eval", "src": src, "kind": "ssa", "dedup": True, "consts": consts,
                "inputs": [(["".join(gen_prog.party_inputs(c["params"], a))] if c.get("one_party") else gen_prog.party_inputs(c["params"], a)) for a in c["args"]]}
    reqs = []
    for c in cases:
        reqs.append(req(c, c["src_a"], c["cg"].consts_json(), 0))
        reqs.append(req(c, c["src_b"], {}, 1))
        # negative: leave out / mistype some of the supplied constants
        keys = [(p, nm) for p, cs in c["cg"].supplied.items() for nm in cs]
        if keys:
            drop = set(ctx.rng.sample(keys, ctx.rng.randrange(1, min(3, len(keys)) + 1)))
            c["dropped"] = sorted(drop)
            reqs.append(req(c, c["src_a"], c["cg"].consts_json(drop=drop), 2))
            k = ctx.rng.choice(keys)
            t = c["cg"].supplied[k[0]][k[1]][0]
            other = ctx.rng.choice([x for x in list(T.INTS) + ["bool"] if x != t])
            c["mistyped"] = (k, t, other)
            reqs.append(req(c, c["src_a"], c["cg"].consts_json(mistype={k: other}), 3))
    res = common.run_lines_guarded(common.GVH, reqs, per_case_timeout=10.0)
    # the compiler model with the constants as wires (theorem C12_program) against the circuit compiled with constants
    vcases = [c for c in cases if c["kind"] == "value" and "prog" in c]
    bit, _, _ = ctx.run_model([{"id": c["id"], "op": "bit_eval", "prog": c["prog"],
                                "inputs": [[gen_prog.val_json(t, v) for (_, t), v in zip(c["params"], a)] for a in c["args"]]} for c in vcases], timeout=3000)
    mtally = {"value": 0, "panic": 0, "outside-the-fragment": 0}
    tally = {"equivalent": 0, "both-rejected": 0, "missing-reported": 0, "mistyped-reported": 0, "evaluations": 0}
    kinds = {}
    shapes = {}
    for c in cases:
        kinds[c["kind"]] = kinds.get(c["kind"], 0) + 1
        for _, _, _, tree in c["cg"].decls:
            shapes[tree[0]] = shapes.get(tree[0], 0) + 1
        sub = {"op": "c12", "seed": c["seed"], "kind": c["kind"], "src": c["src_a"], "substituted": c["src_b"], "consts": c["cg"].consts_json()}
        ra, rb = res.get(c["id"] * 4), res.get(c["id"] * 4 + 1)
        bad = next((r for r in (ra, rb) if r is None or r.get("hang") or "died" in r), "ok")
        if bad != "ok":
            failures.append(Failure("oracle", "c12:hangs-or-aborts", f"compilation does not return: {bad}", sub, None, bad)); continue
        if not rb.get("ok"):
            failures.append(Failure("model", "c12:substituted-program-rejected", f"the program with literals is rejected: {rb.get('detail', '')[:200]}", sub, None, rb.get("detail"))); continue
        if not ra.get("ok"):
            if ra.get("stage") == "panic":
                site = ra.get("detail", "").split(": ")[0].replace("/repo/", "")
                failures.append(Failure("oracle", f"c12:compile-panics@{site}", f"compiling with constants panics: {ra.get('detail')}", sub, "circuit", ra.get("detail")))
            else:
                failures.append(Failure("oracle", f"c12:program-with-constants-rejected:{ra.get('stage')}", f"the program is accepted with literals but rejected with constants of the same values: {ra.get('detail', '')[:300]}", sub, "accepted", ra.get("detail")))
            continue
        if ra["input_gates"] != rb["input_gates"]:
            failures.append(Failure("oracle", "c12:parties-differ", f"input parties {ra['input_gates']} with constants, {rb['input_gates']} with literals", sub, rb["input_gates"], ra["input_gates"])); continue
        tally["evaluations"] += len(ra["outs"])
        def same(x, y):
            # (the location in a panic record differs: the two texts are different)
            if x.startswith("panic@") or y.startswith("panic@"):
                return x[:6] == y[:6]
            return x[0] == y[0] and (x[1:33] == y[1:33] if x[0] == "1" else x[161:] == y[161:])
        if ra["outs"] and all(x.startswith("panic@") for x in ra["outs"]) and c["kind"].startswith("size:"):
            failures.append(Failure("model", "c12:harness-inputs-do-not-fit", f"every evaluation aborts: {ra['outs'][0][:200]}", sub, None, ra["outs"][0])); continue
        diff = next(((a, x, y) for a, x, y in zip(c["args"], ra["outs"], rb["outs"]) if not same(x, y)), None)
        if diff:
            failures.append(Failure("oracle", "c12:not-equivalent-to-substitution:" + c["kind"], "the circuit compiled with constants and the one compiled from the substituted program give different outputs",
                                    dict(sub, args=[gen_prog.val_json(t, v) for (_, t), v in zip(c["params"], diff[0])]), diff[2][:1] + diff[2][161:][:80], diff[1][:1] + diff[1][161:][:80]))
            continue
        tally["equivalent"] += 1
        m = bit.get(c["id"]) if c["kind"] == "value" and "prog" in c else None
        if m is not None:
            if "outside" in m or any("outside" in x for x in m.get("results", [])):
                mtally["outside-the-fragment"] += 1
            else:
                for a, out, mm in zip(c["args"], ra["outs"], m["results"]):
                    if out.startswith("panic@"):
                        break
                    flag, reason, value = out[0], int(out[1:33], 2), out[161:]
                    if mm["panic"] is not None:
                        mtally["panic"] += 1
                        okm = flag == "1" and reason == c01.PANIC_CODES[mm["panic"]]
                    else:
                        mtally["value"] += 1
                        okm = flag == "0" and value == mm["bits"]
                    if not okm:
                        failures.append(Failure("model", "c12:compiler-model-with-constants-differs", "the circuit compiled with constants and the compiler model with the constants as wires (Bit.bitBody, theorem C12_program) disagree",
                                                dict(sub, args=[gen_prog.val_json(t, v) for (_, t), v in zip(c["params"], a)]), mm, out[:40] + "…" + value))
                        break
        # negative cases
        rm = res.get(c["id"] * 4 + 2)
        if rm is not None and "dropped" in c:
            names = [f"{p}::{n}" for p, n in c["dropped"]]
            if rm.get("ok") or rm.get("hang") or "died" in rm or rm.get("stage") == "panic":
                failures.append(Failure("oracle", "c12:missing-constant-not-an-error", f"constants {names} are not supplied but compilation gives {json.dumps(rm)[:200]}", dict(sub, dropped=names), "error", rm))
            elif not all(n in rm.get("detail", "") for n in names):
                failures.append(Failure("oracle", "c12:missing-constant-not-named", f"the error does not name every missing constant of {names}: {rm.get('detail', '')[:300]}", dict(sub, dropped=names), names, rm.get("detail")))
            else:
                tally["missing-reported"] += 1
        rt = res.get(c["id"] * 4 + 3)
        if rt is not None and "mistyped" in c:
            (p, nm), t, other = c["mistyped"]
            one = dict(sub, mistyped=f"{p}::{nm}: {t} supplied as {other}")
            if rt.get("ok") or rt.get("hang") or "died" in rt or rt.get("stage") == "panic":
                site = rt.get("detail", "").split(": ")[0].replace("/repo/", "") if rt.get("stage") == "panic" else "accepted"
                failures.append(Failure("oracle", f"c12:mistyped-constant-not-an-error:{site}", f"constant {p}::{nm} ({t}) is supplied as {other} but compilation gives {json.dumps(rt)[:200]}", one, "error", rt))
            elif nm not in rt.get("detail", ""):
                failures.append(Failure("oracle", "c12:mistyped-constant-not-named", f"the error does not name the mistyped constant {p}::{nm}: {rt.get('detail', '')[:300]}", one, nm, rt.get("detail")))
            else:
                tally["mistyped-reported"] += 1
    seen, uniq = set(), []
    # the literal API of the program compiled with constants: the text of an argument is parsed against the parameter
    # type with the sizes filled in, exactly as for the program with the sizes written out
    lit_cases = [c for c in cases if c["kind"].startswith("size:") and not c.get("one_party")]
    pg = gen_prog.ProgGen(random.Random(0), features={"structs"})
    lreqs = []
    for c in lit_cases:
        try:
            texts = [pg.val_expr(t, v).text for (_, t), v in zip(c["params"], c["args"][0])]
        except Exception:
            continue
        c["texts"] = texts
        lreqs.append({"id": 2 * c["id"], "op": "parse_args", "src": c["src_a"], "consts": c["cg"].consts_json(), "texts": texts})
        lreqs.append({"id": 2 * c["id"] + 1, "op": "parse_args", "src": c["src_b"], "consts": {}, "texts": texts})
    lres = common.run_lines_guarded(common.GVH, lreqs, per_case_timeout=10.0)
    tally["literal-arguments-agree"] = 0
    for c in lit_cases:
        if "texts" not in c:
            continue
        ra, rb = lres.get(2 * c["id"]) or {}, lres.get(2 * c["id"] + 1) or {}
        sub = {"op": "c12", "seed": c["seed"], "kind": c["kind"], "src": c["src_a"], "substituted": c["src_b"], "consts": c["cg"].consts_json(), "texts": c["texts"]}
        if not ra.get("ok") or not rb.get("ok"):
            continue
        if ra["args"] != rb["args"]:
            k = next(i for i, (x, y) in enumerate(zip(ra["args"], rb["args"])) if x != y)
            failures.append(Failure("oracle", "c12:literal-argument-differs:" + c["kind"].split(":")[1],
                                    f"argument {k} (`{c['texts'][k]}`) given as text: {ra['args'][k]} for the program compiled with constants, {rb['args'][k]} for the program with the sizes written out", sub, rb["args"][k], ra["args"][k]))
        else:
            tally["literal-arguments-agree"] += 1
    # constants that refer to a later constant, to themselves or to a name that is not declared: an error, never a panic
    # and never a circuit (a constant may only use constants declared before it)
    bad_refs = []
    for i in range(12 if quick else 200):
        t = ctx.rng.choice(["u8", "u16", "u32", "usize", "i8", "i32", "bool"])
        lit = "true" if t == "bool" else f"{ctx.rng.choice([0, 1, 2, 3])}{t}"
        shape = ctx.rng.choice(["later", "later-expr", "self", "self-expr", "unknown", "later-external"])
        if t == "bool" and shape.endswith("expr"):
            shape = "later"
        decl = {"later": f"const A: {t} = B;\nconst B: {t} = {lit};\n",
                "later-expr": f"const A: {t} = max(B, {lit}) + {lit};\nconst B: {t} = {lit};\n",
                "self": f"const A: {t} = A;\n",
                "self-expr": f"const A: {t} = A + {lit};\n",
                "unknown": f"const A: {t} = NOPE;\n",
                "later-external": f"const A: {t} = B;\nconst B: {t} = PARTY_0::X;\n"}[shape]
        use = f"pub fn main(x: [u8; A]) -> u8 {{ x[0usize] }}\n" if t == "usize" and ctx.rng.random() < 0.5 else f"pub fn main(x: {t}) -> bool {{ x == A }}\n"
        consts = {"PARTY_0": {"X": ("True" if t == "bool" else {"NumSigned" if T.INTS[t][0] else "NumUnsigned": [1, T.SERDE[t]]})}} if shape == "later-external" else {}
        bad_refs.append({"id": i, "op": "compile_eval", "src": decl + use, "kind": "ssa", "dedup": True, "consts": consts, "inputs": [], "shape": shape})
    bres = common.run_lines_guarded(common.GVH, [{k: v for k, v in q.items() if k != "shape"} for q in bad_refs], per_case_timeout=10.0)
    tally["bad-reference-rejected"] = 0
    for q in bad_refs:
        r = bres.get(q["id"]) or {}
        sub = {"op": "c12", "seed": 0, "kind": "bad-reference:" + q["shape"], "src": q["src"], "substituted": "", "consts": q["consts"]}
        if r.get("ok"):
            failures.append(Failure("oracle", "c12:bad-constant-reference-accepted:" + q["shape"], "a constant that refers to a later constant, to itself or to an unknown name is compiled", sub, "an error", "a circuit"))
        elif r.get("stage") == "panic" or r.get("hang") or "died" in r:
            site = str(r.get("detail", "")).split(": ")[0].replace("/repo/", "")
            failures.append(Failure("oracle", f"c12:bad-constant-reference-panics@{site}", f"a constant that refers to a later constant, to itself or to an unknown name makes the compiler panic: {r.get('detail')}", sub, "an error", r.get("detail")))
        else:
            tally["bad-reference-rejected"] += 1
    for f in failures:
        if f.signature not in seen:
            seen.add(f.signature); uniq.append(f)
    coverage = {
        "evaluations": tally["evaluations"],
        "distinct_nontrivial": tally["equivalent"],
        "rule": "programs with `const` declarations (external values of 3 parties, literals, +, -, min, max, references to earlier "
                "constants, nested 2 deep, every integer type and bool) built so that each constant has a prescribed value under "
                "wrapping arithmetic in its own type; (1) array sizes, loop trip counts, repeat sizes and the number of parties taken "
                "from usize constants, (2) generated programs in which literals are replaced by constants. Each is compiled with the "
                "constants supplied and, independently, from the text with the values substituted: same input parties, same outputs on "
                "4 argument tuples. Then some constants are left out / supplied with another type: compilation must return an error "
                "naming them; the arguments of the programs with constant sizes are also given as TEXT (parse_arg) to both programs: "
                "same verdict, same bits; constants that refer to a later constant, to themselves or to an unknown name must be rejected with an "
                "error (no circuit, no panic). non-trivial = program pairs found equivalent",
        "distribution": {"results": tally, "kinds": kinds, "const_expression_roots": shapes, "compiler_model_with_constants": mtally},
        "samples": [{"src": cases[0]["src_a"]}, {"src": cases[1]["src_a"]}],
    }
    return common.finish(ctx, uniq, coverage, ["usize constants between 1 and 5 for sizes"], "proof", search=None)


def replay(ctx, path):
    d = json.load(open(path))
    case = d.get("case") or {}
    if "src" not in case:
        print("replay file has no executable case:", d.get("what"))
        return 1
    ctx.build_harness()
    reqs = [{"id": 0, "op": "compile_eval", "src": case["src"], "consts": case.get("consts", {}), "inputs": []},
            {"id": 1, "op": "compile_eval", "src": case.get("substituted", ""), "consts": {}, "inputs": []}]
    res = common.run_lines_guarded(common.GVH, reqs, per_case_timeout=60.0)
    print(case["src"])
    print("with constants:", json.dumps(res.get(0))[:400])
    print("substituted:   ", json.dumps(res.get(1))[:400])
    print("(outputs are compared by the full check; run ./check C12 with VERIF_SEED to reproduce)")
    a, b = res.get(0) or {}, res.get(1) or {}
    if a.get("ok") != b.get("ok") or a.get("input_gates") != b.get("input_gates"):
        print(f"VIOLATION property={ctx.prop} replay={path}")
        return 1
    return 0
