"""C16 — a circuit that passes validation can be evaluated safely."""
import json

from . import common, corpus, gen_circ
from .common import Failure

PROP_MODULES = ["GarbleVerif.Props.C16"]


def gen_cases(ctx, n_ssa, n_reg):
    cases = []
    for f in sorted(__import__("glob").glob(common.VERIF + "/corpus/C16/*.json")):
        c = json.load(open(f))
        c["id"] = len(cases)
        c["origin"] = "corpus"
        cases.append(c)
    for _ in range(n_ssa):
        adv = ctx.rng.choice([0.0, 0.05, 0.15, 0.4])
        circ, ins = gen_circ.ssa_circuit(ctx.rng, adversarial=adv)
        cases.append({"id": len(cases), "op": "ssa_validate_eval", "circuit": circ, "inputs": ins})
    for _ in range(n_reg):
        adv = ctx.rng.choice([0.0, 0.05, 0.15, 0.4])
        circ, ins = gen_circ.reg_circuit(ctx.rng, adversarial=adv)
        cases.append({"id": len(cases), "op": "reg_validate_eval", "circuit": circ, "inputs": ins})
    return cases


def judge(case, impl, model):
    """Returns a list of Failures for one case."""
    fs = []
    kind = "ssa" if case["op"] == "ssa_validate_eval" else "reg"
    nout = len(case["circuit"]["output_gates" if kind == "ssa" else "output_regs"])
    if impl is None or "validate" not in impl:
        return [Failure("model", f"{kind}:harness-no-result", "harness produced no result", case, None, impl)]
    # O: the property on the implementation
    if impl["validate"] == "ok":
        if impl["eval"] == "panic":
            site = impl.get("detail", "").split(": ")[0].replace("/repo/", "")
            fs.append(Failure("oracle", f"{kind}:validate-ok-eval-panics@{site}",
                              f"{kind} circuit passes validate() but eval() panics at {impl.get('detail')}",
                              case, "eval returns one bit per output", impl))
        elif len(impl["eval"]) != nout:
            fs.append(Failure("oracle", f"{kind}:wrong-output-count", "eval returned a wrong number of bits", case, nout, impl))
        elif kind == "reg" and model is not None and model.get("eval") == impl["eval"] and model.get("eval_strict") == "panic":
            fs.append(Failure("oracle", "reg:validate-ok-reads-undefined-register",
                              "register circuit passes validate() but evaluation reads a register that no instruction has written",
                              case, "every register read has been written", impl))
    elif impl["validate"].startswith("panic@"):
        fs.append(Failure("oracle", f"{kind}:validate-panics@{impl['validate'][6:].split(': ')[0]}", "validate() panics", case, "ok or error", impl))
    # K: model vs implementation
    if model is None or "validate" not in model:
        fs.append(Failure("model", f"{kind}:driver-no-result", "driver produced no result", case, None, model))
    else:
        if model["validate"] != impl["validate"]:
            fs.append(Failure("model", f"{kind}:validate-differs", f"validate: model {model['validate']} vs implementation {impl['validate']}",
                              case, model["validate"], impl["validate"]))
        if model["eval"] != impl["eval"]:
            fs.append(Failure("model", f"{kind}:eval-differs", f"eval: model {model['eval']} vs implementation {impl['eval']}",
                              case, model["eval"], impl["eval"]))
    return fs


def run(ctx):
    quick = ctx.tier == "quick"
    ctx.audit(PROP_MODULES)
    failures = ctx.proof_failures()
    ok, log = ctx.build_harness()
    if not ok:
        failures.append(Failure("model", "harness-build-failed", "cargo build of the harness failed: " + log[-400:]))
        return common.finish(ctx, failures, {"evaluations": 0, "distinct_nontrivial": 0, "samples": []}, [], "proof")
    n = 4000 if quick else 60000
    cases = gen_cases(ctx, n, n)
    # compiler output and its conversion must validate (and go through the same judge)
    progs = corpus.programs()
    ccases = [{"id": i, "op": "compile", "src": src} for i, (_, src) in enumerate(progs)]
    cres, _, _ = ctx.run_impl(ccases)
    compiled = 0
    for i, (name, src) in enumerate(progs):
        r = cres.get(i)
        if not r or not r.get("ok"):
            continue
        compiled += 1
        for key, v in (("ssa", r["ssa_validate"]), ("reg", r["reg_validate"])):
            if v != "ok":
                failures.append(Failure("oracle", f"compiled:{key}-invalid:{v.split(':')[0]}",
                                        f"compiler output ({key}) of an accepted program fails validation: {v}",
                                        {"op": "compile", "src": src}, "ok", v))
        if r["ssa_validate"] == "ok" and r.get("reg"):
            sizes = r["ssa"]["input_gates"]
            for _ in range(2):
                ins = [gen_circ.bits(ctx.rng, s) for s in sizes]
                cases.append({"id": len(cases), "op": "ssa_validate_eval", "circuit": r["ssa"], "inputs": ins, "origin": name})
                cases.append({"id": len(cases), "op": "reg_validate_eval", "circuit": r["reg"], "inputs": ins, "origin": name})
    impl, rc1, err1 = ctx.run_impl(cases)
    model, rc2, err2 = ctx.run_model(cases)
    stats = {"ssa": 0, "reg": 0, "validate_ok": 0, "validate_err": {}, "eval_panic_when_invalid": 0}
    distinct = set()
    for c in cases:
        i, m = impl.get(c["id"]), model.get(c["id"])
        failures += judge(c, i, m)
        kind = "ssa" if c["op"] == "ssa_validate_eval" else "reg"
        stats[kind] += 1
        if i and i.get("validate") == "ok":
            stats["validate_ok"] += 1
            key = json.dumps(c["circuit"], sort_keys=True)
            ng = len(c["circuit"].get("gates", c["circuit"].get("insts", [])))
            if ng >= 1:
                distinct.add(key)
        elif i:
            tag = i.get("validate", "?").split(":")[0].split("@")[0]
            stats["validate_err"][tag] = stats["validate_err"].get(tag, 0) + 1
            if i.get("eval") == "panic":
                stats["eval_panic_when_invalid"] += 1
    coverage = {
        "evaluations": len(cases),
        "distinct_nontrivial": len(distinct),
        "rule": "random + adversarial circuit values (self/forward/out-of-range references, zero-sized parties, wrong Input "
                "instructions, max_reg_count too small) and compiler output of the program corpus with its register conversion; "
                "non-trivial = distinct circuit with >= 1 gate/instruction that passes validate()",
        "traces_validated_against_impl": len(cases),
        "programs": compiled,
        "distribution": stats,
        "samples": [cases[len(cases) // 3], cases[-1] if len(json.dumps(cases[-1])) < 3000 else cases[len(cases) // 2]],
    }
    assumptions = [
        "inputs have the declared number of parties and bits per party (the property's own hypothesis)",
        "circuit sizes fit in memory; usize overflow of party-size sums is not modelled (Nat)",
        "register numbers and Input party/index fit u32 (the Rust type); the JSON codec maps them 1:1",
    ]
    return common.finish(ctx, failures, coverage, assumptions, "proof", search=None)
