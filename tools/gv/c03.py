"""C03 — integer operators and casts are bit-exact at every width and overflow boundary."""
import json

from . import common
from .common import Failure

PROP_MODULES = ["GarbleVerif.Props.C03"]

TYPES = {"u8": (False, 8), "u16": (False, 16), "u32": (False, 32), "u64": (False, 64), "usize": (False, 32),
         "i8": (True, 8), "i16": (True, 16), "i32": (True, 32), "i64": (True, 64)}
OPS = {"add": "+", "sub": "-", "mul": "*", "div": "/", "mod": "%", "and": "&", "or": "|", "xor": "^",
       "shl": "<<", "shr": ">>", "lt": "<", "gt": ">", "le": "<=", "ge": ">=", "eq": "==", "ne": "!="}
ARITH = ["add", "sub", "mul", "div", "mod"]
PANIC_CODES = {1: "overflow", 2: "divByZero", 3: "outOfBounds"}


def rng_of(t):
    s, w = TYPES[t]
    return (-(1 << (w - 1)), (1 << (w - 1)) - 1) if s else (0, (1 << w) - 1)


def enc(v, w):
    return format(v & ((1 << w) - 1), f"0{w}b")


def dec(bits, signed):
    v = int(bits, 2) if bits else 0
    if signed and bits and bits[0] == "1":
        v -= 1 << len(bits)
    return v


def lit(v, t):
    return f"{v}{t}" if v >= 0 else f"({v}{t})"


def trunc_div(a, b):
    q = abs(a) // abs(b)
    return q if (a < 0) == (b < 0) else -q


def oracle(op, t, x, y):
    """Rust checked semantics: returns ('ok', value) | ('panic', kind) | ('either', value, kind)."""
    s, w = TYPES[t]
    lo, hi = rng_of(t)
    if op in ("add", "sub", "mul"):
        r = x + y if op == "add" else x - y if op == "sub" else x * y
        return ("ok", r) if lo <= r <= hi else ("panic", "overflow")
    if op in ("div", "mod"):
        if y == 0:
            return ("panic", "divByZero")
        if s and x == lo and y == -1:
            return ("panic", "overflow") if op == "div" else ("either", 0, "overflow")
        q = trunc_div(x, y)
        return ("ok", q if op == "div" else x - q * y)
    if op in ("and", "or", "xor"):
        m = (1 << w) - 1
        r = (x & m) & (y & m) if op == "and" else (x & m) | (y & m) if op == "or" else (x & m) ^ (y & m)
        return ("ok", dec(enc(r, w), s))
    if op in ("shl", "shr"):
        if y >= w:
            return ("panic", "overflow")
        if op == "shl":
            return ("ok", dec(enc(x << y, w), s))
        return ("ok", x >> y)  # python's >> is arithmetic on negative ints, logical on non-negative
    if op in ("lt", "gt", "le", "ge", "eq", "ne"):
        return ("ok", int({"lt": x < y, "gt": x > y, "le": x <= y, "ge": x >= y, "eq": x == y, "ne": x != y}[op]))
    raise ValueError(op)


def boundary_values(t):
    lo, hi = rng_of(t)
    s, w = TYPES[t]
    vs = {0, 1, 2, 3, hi, hi - 1, lo, lo + 1, hi // 2, hi // 2 + 1, 5, 7, 10, 100}
    for k in range(0, w):
        for d in (-1, 0, 1):
            v = (1 << k) + d
            if lo <= v <= hi:
                vs.add(v)
            if s and lo <= -v <= hi:
                vs.add(-v)
    return sorted(v for v in vs if lo <= v <= hi)


def pairs_for(ctx, op, t, quick):
    s, w = TYPES[t]
    lo, hi = rng_of(t)
    yt = "u8" if op in ("shl", "shr") else t
    ylo, yhi = rng_of(yt)
    if w == 8 and (op in ARITH or not quick):
        return [(x, y) for x in range(lo, hi + 1) for y in range(ylo, yhi + 1)]
    bx = boundary_values(t)
    by = boundary_values(yt) if yt == t else sorted({0, 1, 2, 3, 7, 8, 15, 16, 31, 32, 33, 63, 64, 65, 127, 128, 255, w - 1, w, w + 1})
    ps = set()
    for _ in range(1500 if quick else 20000):
        r = ctx.rng.random()
        x = ctx.rng.choice(bx) if r < 0.6 else ctx.rng.randint(lo, hi)
        y = ctx.rng.choice(by) if ctx.rng.random() < 0.6 else ctx.rng.randint(ylo, yhi)
        ps.add((x, y))
        if op in ("mul", "div", "mod") and y != 0 and ctx.rng.random() < 0.3:
            # operands whose product / quotient lands on a boundary
            target = ctx.rng.choice([hi, hi + 1, lo, lo - 1, (hi + 1) // 2])
            x2 = target // y if y else 0
            for xx in (x2 - 1, x2, x2 + 1):
                if lo <= xx <= hi:
                    ps.add((xx, y))
    return sorted(ps)


def decode_out(bits, rsigned, rbits):
    if bits.startswith("panic@") or len(bits) != 161 + rbits:
        return ("bad", bits[:80])
    if bits[0] == "1":
        return ("panic", PANIC_CODES.get(int(bits[1:33], 2), "?"))
    return ("ok", dec(bits[161:], rsigned))


def matches(exp, got):
    if exp[0] == "either":
        return got == ("ok", exp[1]) or got == ("panic", exp[2])
    return tuple(exp) == tuple(got)


def run(ctx):
    quick = ctx.tier == "quick"
    ctx.audit(PROP_MODULES)
    failures = ctx.proof_failures()
    ok, log = ctx.build_harness()
    if not ok:
        failures.append(Failure("model", "harness-build-failed", "cargo build of the harness failed: " + log[-400:]))
        return common.finish(ctx, failures, {"evaluations": 0, "distinct_nontrivial": 0, "samples": []}, [], "proof")
    icases, mcases, meta = [], [], {}
    types = list(TYPES) if not quick else ["u8", "i8", "u16", "i16", "u32", "i32", "u64", "i64", "usize"]
    for t in types:
        s, w = TYPES[t]
        for op in OPS:
            cmp = op in ("lt", "gt", "le", "ge", "eq", "ne")
            rt = "bool" if cmp else t
            yt = "u8" if op in ("shl", "shr") else t
            ps = pairs_for(ctx, op, t, quick)
            # --- var op var
            cid = len(icases)
            src = f"pub fn main(x: {t}, y: {yt}) -> {rt} {{ x {OPS[op]} y }}"
            icases.append({"id": cid, "op": "compile_eval", "src": src, "inputs": [[enc(x, w), enc(y, TYPES[yt][1])] for x, y in ps]})
            meta[cid] = dict(form="var-var", op=op, t=t, pairs=ps, rt=rt, src=src)
            if op not in ("le", "ge"):
                mcases.append({"id": cid, "op": "arith", "kind": "binop", "bop": op, "sx": s, "sy": TYPES[yt][0], "sr": s,
                               "pairs": [[enc(x, w), enc(y, TYPES[yt][1])] for x, y in ps]})
            # --- var op const / const op var (a handful of constants, all x)
            if w == 8 or not quick or op == "mul" or ctx.rng.random() < 0.35:
                consts = sorted(set(ctx.rng.sample(boundary_values(yt), min(4, len(boundary_values(yt)))) + ([2, 3] if yt == t else [1, 7]) + ([-1, -2, -3] if TYPES[yt][0] else [])))
                if op == "mul":
                    # literal factors at the ends of the type: the rewrite into repeated additions looks at the literal's
                    # magnitude (a literal just below 2^w must not be mistaken for a small negative one)
                    lo_t, hi_t = rng_of(yt)
                    consts = sorted(set(consts + [hi_t, hi_t - 1, hi_t - (w - 2), hi_t // 2 + 1, lo_t, lo_t + 1]))
                xs = sorted({x for x, _ in ps})[: 256 if quick else 4096]
                for c in consts:
                    if not (rng_of(yt)[0] <= c <= rng_of(yt)[1]):
                        continue
                    for form in ("var-const", "const-var"):
                        if form == "const-var" and yt != t:
                            continue
                        cid = len(icases)
                        expr = f"x {OPS[op]} {lit(c, yt)}" if form == "var-const" else f"{lit(c, t)} {OPS[op]} x"
                        src = f"pub fn main(x: {t}) -> {rt} {{ {expr} }}"
                        icases.append({"id": cid, "op": "compile_eval", "src": src, "inputs": [[enc(x, w)] for x in xs]})
                        pp = [(x, c) for x in xs] if form == "var-const" else [(c, x) for x in xs]
                        meta[cid] = dict(form=form, op=op, t=t, pairs=pp, rt=rt, src=src)
                        if op == "mul" and c != 0 and abs(c) < w:
                            mcases.append({"id": cid, "op": "arith", "kind": "constmul", "sx": s, "n": abs(c), "neg": c < 0,
                                           "vals": [enc(x, w) for x in xs]})
                        elif op not in ("le", "ge"):
                            mcases.append({"id": cid, "op": "arith", "kind": "binop", "bop": op, "sx": s, "sy": TYPES[yt][0], "sr": s,
                                           "pairs": [[enc(a, w), enc(b, TYPES[yt][1])] for a, b in pp]})
        # --- unary
        xs = list(range(*[rng_of(t)[0], rng_of(t)[1] + 1])) if w <= (8 if quick else 16) else sorted(set(boundary_values(t) + [ctx.rng.randint(*rng_of(t)) for _ in range(500)]))
        for uop in (["neg", "not"] if s else ["not"]):
            cid = len(icases)
            src = f"pub fn main(x: {t}) -> {t} {{ {'-' if uop == 'neg' else '!'}x }}"
            icases.append({"id": cid, "op": "compile_eval", "src": src, "inputs": [[enc(x, w)] for x in xs]})
            meta[cid] = dict(form="unary", op=uop, t=t, vals=xs, rt=t, src=src)
            mcases.append({"id": cid, "op": "arith", "kind": uop, "vals": [enc(x, w) for x in xs]})
        # --- casts
        for u in list(TYPES) + ["bool"]:
            if u == t:
                continue
            cid = len(icases)
            src = f"pub fn main(x: {t}) -> {u} {{ x as {u} }}"
            icases.append({"id": cid, "op": "compile_eval", "src": src, "inputs": [[enc(x, w)] for x in xs]})
            meta[cid] = dict(form="cast", op="cast", t=t, u=u, vals=xs, rt=u, src=src)
            mcases.append({"id": cid, "op": "arith", "kind": "cast", "sx": s, "to_bits": 1 if u == "bool" else TYPES[u][1], "vals": [enc(x, w) for x in xs]})
    # bool -> integer casts
    for u in TYPES:
        cid = len(icases)
        src = f"pub fn main(x: bool) -> {u} {{ x as {u} }}"
        icases.append({"id": cid, "op": "compile_eval", "src": src, "inputs": [["0"], ["1"]]})
        meta[cid] = dict(form="cast", op="cast", t="bool", u=u, vals=[0, 1], rt=u, src=src)
        mcases.append({"id": cid, "op": "arith", "kind": "cast", "sx": False, "to_bits": TYPES[u][1], "vals": ["0", "1"]})
    impl, _, _ = ctx.run_impl(icases, timeout=3000)
    model, _, _ = ctx.run_model(mcases, timeout=3000)
    nevals = 0
    distinct = 0
    dist = {}
    seen_sig = set()
    for cid, m in meta.items():
        r = impl.get(cid)
        key = f"{m['form']}:{m['op']}"
        if r is None or not r.get("ok"):
            if m["form"] == "cast" and (m["t"] == "bool" or m.get("u") == "bool") and r is not None and r.get("stage") == "type":
                dist["cast-rejected-by-checker"] = dist.get("cast-rejected-by-checker", 0) + 1
                continue  # such a cast is simply not part of the language
            failures.append(Failure("oracle", f"compile-fails:{key}:{m['t']}", f"operator program does not compile: {r}", {"op": "compile_eval", "src": m["src"], "inputs": []}, "ok", r))
            continue
        rs, rw = (False, 1) if m["rt"] == "bool" else TYPES[m["rt"]]
        ins = m.get("pairs") or [(v,) for v in m["vals"]]
        mres = (model.get(cid) or {}).get("res")
        for k, (args, out) in enumerate(zip(ins, r["outs"])):
            nevals += 1
            got = decode_out(out, rs, rw)
            if m["form"] == "unary":
                x = args[0]
                if m["op"] == "neg":
                    exp = ("ok", -x) if -x <= rng_of(m["t"])[1] else ("panic", "overflow")
                else:
                    exp = ("ok", dec(enc(~x, TYPES[m["t"]][1]), TYPES[m["t"]][0]))
            elif m["form"] == "cast":
                x = args[0]
                # int -> bool does not exist in Rust; Garble truncates like every narrowing cast (lowest bit)
                exp = ("ok", dec(enc(x, rw), rs))
            else:
                exp = oracle(m["op"], m["t"], args[0], args[1])
            if exp[0] != "ok" or (m["form"] != "cast" and exp[1] not in (0, 1, args[0])):
                distinct += 1
            if not matches(exp, got):
                sig = f"{key}:{m['t']}" + (f"->{m['u']}" if m["form"] == "cast" else "") + f":exp-{exp[0]}-got-{got[0]}"
                if m["form"] in ("var-const", "const-var") and m["op"] == "mul" and got == ("panic", "overflow"):
                    c = args[1] if m["form"] == "var-const" else args[0]
                    if c < 0 and abs(c) < TYPES[m["t"]][1] and args[0] * args[1] == rng_of(m["t"])[0]:
                        sig = "mul-by-negative-literal:exact-product-is-MIN:spurious-overflow"
                if sig not in seen_sig:
                    seen_sig.add(sig)
                    failures.append(Failure("oracle", sig, f"`{m['src']}` on {args}: expected {exp}, circuit gives {got}",
                                            {"op": "compile_eval", "src": m["src"], "inputs": [r and icases[cid]["inputs"][k]]}, list(exp), list(got)))
            if mres is not None:
                mb, mp = mres[k].split(":")
                mgot = ("panic", mp) if mp != "-" else ("ok", dec(mb, rs))
                igot = got
                if mgot != igot and not (mgot[0] == "panic" and igot[0] == "panic" and mgot[1] == igot[1]):
                    sig = "model:" + f"{key}:{m['t']}" + (f"->{m['u']}" if m["form"] == "cast" else "")
                    if sig not in seen_sig:
                        seen_sig.add(sig)
                        failures.append(Failure("model", sig, f"`{m['src']}` on {args}: Lean Arith gives {mgot}, circuit gives {igot}",
                                                {"op": "compile_eval", "src": m["src"], "inputs": [icases[cid]["inputs"][k]]}, list(mgot), list(igot)))
        dist[key] = dist.get(key, 0) + len(ins)
    coverage = {
        "evaluations": nevals,
        "distinct_nontrivial": distinct,
        "rule": "for every operator x every integer type x {var op var, var op const, const op var}, unary - and !, and every cast between "
                "primitive types, the one-line program is compiled by the real compiler and evaluated; operands: ALL 2^16 pairs of "
                "u8/i8 for + - * / % (every operator in the thorough tier), boundary-directed (0, +-1, MIN, MAX, 2^k, 2^k+-1, operands "
                "whose product/quotient lands on a boundary, shift amounts w-1,w,w+1,255) and random values for wider types; each "
                "output is compared with a Python big-integer oracle of Rust's checked semantics and with the Lean Arith model; "
                "non-trivial = evaluations whose expected outcome is a panic or a value other than 0, 1 or the first operand",
        "traces_validated_against_impl": sum(len((model.get(c) or {}).get("res") or []) for c in meta),
        "programs": len(icases),
        "distribution": dist,
        "samples": [{"src": icases[0]["src"], "inputs": icases[0]["inputs"][:3]}, {"src": icases[-1]["src"], "inputs": icases[-1]["inputs"]}],
    }
    assumptions = ["operands are encoded big-endian two's complement (C09)",
                   "`<=`/`>=` are desugared by the parser to `<`/`>` | `==`; they are checked against the oracle only"]
    return common.finish(ctx, failures, coverage, assumptions, "proof", search=None)
