"""C10 — the register circuit is equivalent to the SSA circuit and safe to execute."""
import json

from . import common, corpus, gen_circ
from .common import Failure

PROP_MODULES = ["GarbleVerif.Props.C10"]


def judge(case, impl, model):
    fs = []
    c = case["circuit"]
    if impl is None or "reg" not in (impl or {}):
        return [Failure("oracle", "convert:panic", f"converting a valid SSA circuit panics: {impl}", case, "a register circuit", impl)]
    reg = impl["reg"]
    ninp = sum(c["input_gates"])
    # O: the property on the implementation
    if impl["validate"] != "ok":
        fs.append(Failure("oracle", "convert:invalid:" + impl["validate"].split(":")[0], f"converted circuit fails its own validation: {impl['validate']}", case, "ok", impl["validate"]))
    if impl["reg_outs"] != impl["ssa_outs"]:
        k = next(i for i, (a, b) in enumerate(zip(impl["reg_outs"], impl["ssa_outs"])) if a != b)
        fs.append(Failure("oracle", "convert:outputs-differ", f"register and SSA circuit disagree on input {case['inputs'][k]}", case, impl["ssa_outs"][k], impl["reg_outs"][k]))
    if reg["max_reg_count"] > impl["wires_len"]:
        fs.append(Failure("oracle", "convert:regcount-exceeds-wires", "max_reg_count exceeds the number of wires", case, impl["wires_len"], reg["max_reg_count"]))
    used = [r for i in reg["insts"] for r in ([i[0]] + (i[2:] if i[1] != "I" else []))] + reg["output_regs"]
    if used and max(used) >= reg["max_reg_count"]:
        fs.append(Failure("oracle", "convert:regcount-too-small", "an instruction or output uses a register >= max_reg_count", case, None, reg["max_reg_count"]))
    if reg["and_ops"] != impl["and_gates"] or reg["and_ops"] != sum(1 for i in reg["insts"] if i[1] == "A"):
        fs.append(Failure("oracle", "convert:and-count", "and_ops differs from the number of AND gates", case, impl["and_gates"], reg["and_ops"]))
    exp_inputs = [[pos, "I", p, k] for pos, (p, k) in enumerate((p, k) for p, s in enumerate(c["input_gates"]) for k in range(s))]
    if reg["insts"][:ninp] != exp_inputs or reg["input_regs"] != c["input_gates"]:
        fs.append(Failure("oracle", "convert:inputs-not-in-order", "the Input instructions do not load every party's inputs in order", case, exp_inputs, reg["insts"][:ninp]))
    # K: structural correspondence
    if model is None or "reg" not in (model or {}):
        fs.append(Failure("model", "convert:model-panics", f"model conversion fails: {model}", case, None, model))
        return fs
    if model["reg"] != reg:
        fs.append(Failure("model", "convert:structure-differs", "model and implementation produce different register circuits", case, model["reg"], reg))
    else:
        # the model's strict evaluator on the (identical) circuit: no register is read before it is written
        if any(o == "panic" for o in model["reg_strict"]):
            fs.append(Failure("oracle", "convert:reads-unwritten-register", "the converted circuit reads a register before it is written", case, None, reg))
    if model["ssa_outs"] != impl["ssa_outs"]:
        fs.append(Failure("model", "convert:ssa-eval-differs", "SSA eval: model differs from implementation", case, model["ssa_outs"], impl["ssa_outs"]))
    return fs


def run(ctx):
    quick = ctx.tier == "quick"
    ctx.audit(PROP_MODULES)
    failures = ctx.proof_failures()
    ok, log = ctx.build_harness()
    if not ok:
        failures.append(Failure("model", "harness-build-failed", "cargo build of the harness failed: " + log[-400:]))
        return common.finish(ctx, failures, {"evaluations": 0, "distinct_nontrivial": 0, "samples": []}, [], "proof")
    cases = []
    styles = {}
    for _ in range(3000 if quick else 40000):
        style = ctx.rng.choice(["random", "chain", "fanout", "repeat", "unused", "wide"])
        styles[style] = styles.get(style, 0) + 1
        c = gen_circ.valid_ssa(ctx.rng, max_gates=ctx.rng.choice([3, 8, 20, 40]), style=style)
        cases.append({"id": len(cases), "op": "convert", "circuit": c, "inputs": gen_circ.assignments(ctx.rng, c["input_gates"], 8 if quick else 12, 64)})
    progs = corpus.programs()
    cres, _, _ = ctx.run_impl([{"id": i, "op": "compile", "src": src} for i, (_, src) in enumerate(progs)])
    compiled = 0
    for i, (name, src) in enumerate(progs):
        r = cres.get(i)
        if r and r.get("ok") and len(r["ssa"]["gates"]) < (3000 if quick else 30000):
            compiled += 1
            cases.append({"id": len(cases), "op": "convert", "circuit": r["ssa"], "origin": name,
                          "inputs": [[gen_circ.bits(ctx.rng, s) for s in r["ssa"]["input_gates"]] for _ in range(4)]})
    impl, _, _ = ctx.run_impl(cases, timeout=3000)
    model, _, _ = ctx.run_model(cases, timeout=3000)
    distinct = set()
    reuse = 0
    for c in cases:
        i, m = impl.get(c["id"]), model.get(c["id"])
        failures += judge(c, i, m)
        if i and "reg" in i:
            if i["reg"]["max_reg_count"] < i["wires_len"]:
                reuse += 1
                distinct.add(json.dumps(c["circuit"], sort_keys=True))
    coverage = {
        "evaluations": len(cases),
        "distinct_nontrivial": len(distinct),
        "rule": "random well-formed SSA circuits in six styles (chains, high fan-out, repeated operands Xor(a,a), unused gates/inputs, "
                "outputs that are inputs or repeated) and compiler output of the corpus; converted by the real allocator and by the "
                "model: instruction lists must be identical; both forms evaluated on all (<= 8/12 input bits) or random assignments; "
                "non-trivial = distinct circuit on which at least one register was reused",
        "traces_validated_against_impl": len(cases),
        "programs": compiled,
        "distribution": {"styles": styles, "circuits_with_register_reuse": reuse},
        "samples": [cases[7], cases[len(cases) // 2] if len(json.dumps(cases[len(cases) // 2])) < 4000 else cases[11]],
    }
    assumptions = [
        "the SSA circuit passes Circuit::validate (the property's hypothesis)",
        "wire and register numbers fit the machine types (u32 registers: fewer than 2^32 wires)",
    ]
    return common.finish(ctx, failures, coverage, assumptions, "proof", search=None)
