"""Type-directed random Garble programs together with their abstract syntax.

`ProgGen(rng).program()` returns a dict
  {"src": text, "prog": {"fns": [...], "consts": [...]}, "params": [[name, ty]], "ret": ty}
where "prog" is the JSON the Lean driver decodes into `GV.Src.Prog` (Driver/AstCodec.lean). The
generator, not the Rust front end, decides what the program means: the syntax tree is built first
and printed second, so parser, type checker and compiler are all on the tested side.

All number literals carry their type suffix. Types: tools/gv/gen_types.py.
"""
import re

from . import gen_types as T

STRUCT_LIT = re.compile(r"\bS\d+ \{")

BOOL = {"k": "bool"}
USIZE = {"k": "int", "t": "usize"}
U8 = {"k": "int", "t": "u8"}
UNIT = {"k": "tuple", "ts": []}

# binding strength (parse.rs: parse_short_circuiting_or … parse_unary)
PREC = {"||": 1, "&&": 2, "==": 3, "!=": 3, "<": 4, ">": 4, "<=": 4, ">=": 4, "|": 5, "^": 6, "&": 7, "<<": 8, ">>": 8,
        "+": 9, "-": 9, "*": 10, "/": 10, "%": 10, "as": 11, "un": 12, "atom": 13}


def INT(t):
    return {"k": "int", "t": t}


def is_int(t):
    return t["k"] == "int"


def signed(t):
    return T.INTS[t["t"]][0]


class E:
    """an expression: text, syntax tree, binding strength of its outermost operator"""
    __slots__ = ("text", "ast", "prec")

    def __init__(self, text, ast, prec=13):
        self.text, self.ast, self.prec = text, ast, prec

    def at(self, level, rng=None):
        """text usable as an operand that must bind at least as strongly as `level`"""
        if self.prec >= level and not (rng is not None and rng.random() < 0.4 and self.prec < 13):
            return self.text
        return "(" + self.text + ")"


def int_lit_text(v, t):
    return f"{v}{t}"


def calls_in(ast, out):
    """names of the functions called anywhere in a syntax tree"""
    if isinstance(ast, list):
        if len(ast) == 3 and ast[0] == "call" and isinstance(ast[1], str):
            out.add(ast[1])
        for x in ast:
            calls_in(x, out)
    return out


def join_stmts(items):
    """items: (text, stmt ast). A block-like statement (`if`, `match`, `for`) directly followed by text that starts
    with `-`, `(` or `[` would be continued by the parser as a binary expression / call / index: wrap that follower
    in a block (both in the text and in the tree)."""
    out_t, out_a = [], []
    prev_blocklike = False
    for text, ast in items:
        if prev_blocklike and text[:1] in "-([" and ast[0] == "expr":
            text, ast = "{ " + text + " }", ["expr", ["block", [ast]]]
        out_t.append(text)
        out_a.append(ast)
        prev_blocklike = text.endswith("}") and ast[0] in ("expr", "for", "forjoin") and (ast[0] != "expr" or ast[1][0] in ("if", "match", "block"))
    return out_t, out_a


def untyped_i32_text(ast):
    """text of a literal aggregate (arrays, repeats, tuples of numbers and Booleans) whose numbers are all i32,
    written without suffixes; None for anything else"""
    k = ast[0]
    if k == "int":
        return str(ast[1]) if ast[2] == "i32" else None
    if k == "bool":
        return "true" if ast[1] else "false"
    if k in ("array", "tuple"):
        parts = [untyped_i32_text(x) for x in ast[1]]
        if not parts or any(p is None for p in parts) or (k == "tuple" and len(parts) == 1):
            return None
        # check.rs unifies `1` and `-1` as elements of one array, but not `[1]` and `[-1]` (an unspecified
        # unsigned vs. an unspecified signed element type): aggregates inside an array stay non-negative
        if k == "array" and any(x[0] not in ("int", "bool") for x in ast[1]) and any("-" in p for p in parts):
            return None
        # the default-to-i32 step of `let mut` reaches the numbers of a flat tuple or array only
        # (`let mut m = (true, (false, 1)); -m.1.1`, `(true, [1, 2])`, `[(1, true)]` are rejected): no nesting
        if any(x[0] not in ("int", "bool") for x in ast[1]):
            return None
        return ("[" + ", ".join(parts) + "]") if k == "array" else ("(" + ", ".join(parts) + ")")
    if k == "repeat":
        p = untyped_i32_text(ast[1]) if ast[1][0] in ("int", "bool") else None
        return None if p is None else f"[{p}; {ast[2]}]"
    return None


class ProgGen:
    def __init__(self, rng, max_depth=3, allow_panics=True, features=None):
        self.rng = rng
        self.tg = T.TypeGen(rng, allow_zero_sized=bool(features and "zero" in features))
        self.max_depth = max_depth
        self.scope = []          # dicts {name, ty, mut}
        self.counter = 0
        self.helpers = []        # {"name", "params", "ret", "text", "ast"}
        self.features = features or {"match", "loops", "helpers", "structs", "assign", "impure", "shadow", "untyped"}
        self.shadow_p = 0.15 if "shadow" in self.features else 0.0
        self.stats = {}
        # most programs use small numbers, so that most checked operations complete and the effects of the statements
        # that follow are observed (with random numbers of the full range 70 % of all runs ended in an overflow)
        self.calm = rng.random() < 0.8
        self.stress = "stress" in self.features or "core" in self.features

    # ------------------------------------------------------------------ utilities
    def note(self, k):
        self.stats[k] = self.stats.get(k, 0) + 1

    def fresh(self, prefix="v"):
        self.counter += 1
        return f"{prefix}{self.counter}"

    def small_ty(self, depth=1):
        if "core" in self.features:
            # the fragment of Model/BitSem.lean: scalars; with "agg" also arrays and tuples of them
            return self.tg.ty_plain(min(depth, 2), "structs" in self.features, "enums" in self.features) if "agg" in self.features else self.tg.ty(0)
        return self.tg.ty(depth)

    def int_ty(self):
        return INT(self.rng.choice(list(T.INTS)))

    def vars_of(self, ty, mutable=None):
        return [v for v in self.scope if v["ty"] == ty and (mutable is None or v["mut"] == mutable)]

    def components(self, depth=2):
        """(E, ty) for every variable and every statically addressable component of it"""
        out = []

        def walk(e, ty, d):
            out.append((e, ty))
            if d <= 0:
                return
            k = ty["k"]
            if k == "tuple":
                for i, t in enumerate(ty["ts"]):
                    walk(E(f"{e.at(13)}.{i}", ["tget", e.ast, i]), t, d - 1)
            elif k == "struct":
                for f, t in ty["fields"]:
                    walk(E(f"{e.at(13)}.{f}", ["field", e.ast, f]), t, d - 1)
            elif k == "array" and ty["n"] > 0:
                i = self.rng.randrange(ty["n"])
                walk(E(f"{e.at(13)}[{i}usize]", ["index", e.ast, ["int", i, "usize"]]), ty["elem"], d - 1)
        seen = set()
        for v in reversed(self.scope):
            if v["name"] in seen:
                continue          # shadowed
            seen.add(v["name"])
            walk(E(v["name"], ["var", v["name"]]), v["ty"], depth)
        return out

    # ------------------------------------------------------------------ literals
    def maybe_untyped(self, e, p=0.4):
        """a number literal in a position whose type is fixed by its context may be written without its suffix"""
        if "untyped" in self.features and isinstance(e.ast, list) and e.ast[0] == "int" and e.text == f"{e.ast[1]}{e.ast[2]}" \
                and self.rng.random() < p:
            self.note("untyped-literal")
            return E(str(e.ast[1]), e.ast)
        return e

    def val_expr(self, ty, v):
        k = ty["k"]
        if k == "bool":
            return E("true" if v else "false", ["bool", bool(v)])
        if k == "int":
            return E(int_lit_text(v, ty["t"]), ["int", v, ty["t"]])
        if k == "array":
            es = [self.val_expr(ty["elem"], x) for x in v]
            if len(es) > 1 and all(x == v[0] for x in v) and self.rng.random() < 0.5:
                return E(f"[{es[0].text}; {len(es)}]", ["repeat", es[0].ast, len(es)])
            return E("[" + ", ".join(e.text for e in es) + "]", ["array", [e.ast for e in es]])
        if k == "tuple":
            es = [self.val_expr(t, x) for t, x in zip(ty["ts"], v)]
            return E("(" + ", ".join(e.text for e in es) + ")", ["tuple", [e.ast for e in es]])
        if k == "struct":
            es = [(f, self.val_expr(t, v[1][f])) for f, t in ty["fields"]]
            return self.struct_lit(ty, es)
        idx = next(i for i, (n, _, _) in enumerate(ty["variants"]) if n == v[1])
        n, unit, ts = ty["variants"][idx]
        es = [self.val_expr(t, x) for t, x in zip(ts, v[2] or [])]
        return self.enum_lit(ty, n, unit, es)

    def struct_lit(self, ty, es):
        es = [(f, self.maybe_untyped(e)) for f, e in es]
        shown = list(es)
        self.rng.shuffle(shown)      # textual order is free, the value lists fields by name
        text = f"{ty['name']} {{ " + ", ".join(f"{f}: {e.text}" for f, e in shown) + " }"
        return E(text, ["struct", ty["name"], [[f, e.ast] for f, e in es]])

    def enum_lit(self, ty, variant, unit, es):
        es = [self.maybe_untyped(e) for e in es]
        if unit:
            return E(f"{ty['name']}::{variant}", ["enum", ty["name"], variant, True, []])
        return E(f"{ty['name']}::{variant}(" + ", ".join(e.text for e in es) + ")",
                 ["enum", ty["name"], variant, False, [e.ast for e in es]])

    def lit(self, ty, boundary=0.3):
        if ("core" in self.features or self.calm) and ty["k"] == "int" and self.rng.random() < (0.7 if "core" in self.features else 0.85):
            # small numbers: most checked additions and subtractions of the fragment then complete
            lo, hi = T.int_range(ty["t"])
            return self.val_expr(ty, self.rng.choice([v for v in (0, 1, 2, 3, 5, 7, 10, -1, -2, -5) if lo <= v <= hi]))
        return self.val_expr(ty, T.rand_value(self.rng, ty, boundary))

    # ------------------------------------------------------------------ expressions
    def expr(self, ty, d, pure=True):
        """a random expression of type `ty`"""
        r = self.rng.random()
        cands = [(e, t) for e, t in self.components() if t == ty]
        if d <= 0 or r < 0.12:
            if cands and self.rng.random() < 0.75:
                return self.rng.choice(cands)[0]
            return self.lit(ty)
        if cands and r < 0.3:
            return self.rng.choice(cands)[0]
        k = ty["k"]
        choices = ["if", "block"]
        if "match" in self.features:
            choices.append("match")
        if "helpers" in self.features and any(h["ret"] == ty for h in self.helpers):
            choices += ["call", "call"]
        if any(t["k"] == "array" and t["elem"] == ty and t["n"] > 0 for _, t in self.components(1)):
            choices += ["index", "index"]
        if "core" in self.features:
            # the fragment of Model/BitSem.lean
            choices = ["if", "block"] + (["match"] if "match" in self.features else []) + (["call", "call"] if "helpers" in self.features and any(h["ret"] == ty for h in self.helpers) else [])
            if any(t["k"] == "array" and t["elem"] == ty and t["n"] > 0 for _, t in self.components(1)):
                choices += ["index", "index"]
            if k in ("array", "tuple", "struct", "enum"):
                choices += ["aggregate", "aggregate", "aggregate"]
            else:
                choices += (["cmp", "cmp", "eq", "logic", "logic", "not", "castbool"] if k == "bool" else ["arith", "arith", "arith", "bit", "cast", "shift"] + (["unary"] if signed(ty) else []))
        elif k == "bool":
            choices += ["cmp", "cmp", "eq", "logic", "logic", "not", "castbool"]
        elif k == "int":
            choices += ["arith", "arith", "arith", "bit", "shift", "cast", "cast", "unary"]
        else:
            choices += ["aggregate", "aggregate", "aggregate"]
        c = self.rng.choice(choices)
        self.note("expr:" + c)
        return getattr(self, "e_" + c)(ty, d, pure)

    def expr_nostruct(self, ty, d, pure):
        """an expression without a struct literal anywhere in its text: the parser does not accept them inside
        the condition of an `if`, the scrutinee of a `match` or the array of a `for`, not even in parentheses"""
        for k in range(6):
            e = self.expr(ty, max(0, d - k), pure)
            if not STRUCT_LIT.search(e.text):
                return e
        cands = [e for e, t in self.components() if t == ty]
        if cands:
            return self.rng.choice(cands)
        return None

    def binop(self, op, opty, a, b):
        lit_a = isinstance(a.ast, list) and a.ast[0] == "int"
        lit_b = isinstance(b.ast, list) and b.ast[0] == "int"
        if op in ("<<", ">>"):
            b = self.maybe_untyped(b)                 # the amount is always a u8
        elif lit_a != lit_b:
            a, b = (self.maybe_untyped(a), b) if lit_a else (a, self.maybe_untyped(b))
        lvl = PREC[op]
        if op in ("==", "!=", "<", ">", "<=", ">="):
            ta, tb = a.at(lvl + 1, self.rng), b.at(lvl + 1, self.rng)
        else:
            ta, tb = a.at(lvl, self.rng), b.at(lvl + 1, self.rng)
        return E(f"{ta} {op} {tb}", ["bin", op, opty, a.ast, b.ast], lvl)

    def e_arith(self, ty, d, pure):
        op = self.rng.choice(["+", "-", "+", "-", "*", "/", "%"] if "core" in self.features else ["+", "-", "*", "/", "%", "+", "-"])
        a = self.expr(ty, d - 1, pure)
        if op in ("/", "%") and self.rng.random() < 0.7:
            lo, hi = T.int_range(ty["t"])
            b = self.val_expr(ty, self.rng.choice([1, 2, 3, 7, min(hi, 100)] + ([-1, -2] if signed(ty) else [])))
        elif op == "*" and self.rng.random() < 0.5:
            b = self.val_expr(ty, self.rng.choice([0, 1, 2, 3] + ([-1, -3] if signed(ty) else [])))
        else:
            b = self.expr(ty, d - 1, pure)
        if op == "*":
            # `x * -2^j` with the exact product MIN is the recorded C03 finding (multiplication by a negative literal
            # adds first and negates afterwards): such literals are not generated here, C03 reports that case itself
            def odd_one_out(e):
                if isinstance(e.ast, list) and e.ast[0] == "int" and e.ast[1] < -1 and (-e.ast[1]) & (-e.ast[1] - 1) == 0:
                    return self.val_expr(ty, e.ast[1] + 1)
                return e
            a, b = odd_one_out(a), odd_one_out(b)
            if "core" in self.features and any(e.ast[0] == "int" and e.ast[1] < 0 for e in (a, b)):
                op = "+"        # multiplication by a negative literal (sum negated afterwards) is outside Model/BitSem.lean
        return self.binop(op, ty, a, b)

    def e_bit(self, ty, d, pure):
        op = self.rng.choice(["&", "|", "^"])
        return self.binop(op, ty, self.expr(ty, d - 1, pure), self.expr(ty, d - 1, pure))

    def e_shift(self, ty, d, pure):
        op = self.rng.choice(["<<", ">>"])
        bits = T.INTS[ty["t"]][1]
        if self.rng.random() < 0.8:
            b = self.val_expr(U8, self.rng.choice([0, 1, 2, bits - 1, bits // 2] + ([bits, 255] if self.rng.random() < 0.15 else [])))
        else:
            b = self.expr(U8, d - 1, pure)
        return self.binop(op, ty, self.expr(ty, d - 1, pure), b)

    def ctx_expr(self, ty, d, pure):
        """an expression in a position whose type is fixed by its context (annotated let, return value, argument):
        now and then a shift whose left operand is a number without a suffix - it takes the type of the context"""
        if "untyped" in self.features and "core" not in self.features and is_int(ty) and d > 0 and self.rng.random() < 0.12:
            lo, hi = T.int_range(ty["t"])
            v = self.rng.choice([x for x in (1, 2, 3, 5, 100, 1000, -1, -8) if lo <= x <= hi])
            a = E(str(v), ["int", v, ty["t"]])
            bits = T.INTS[ty["t"]][1]
            if self.rng.random() < 0.6:
                b = self.val_expr(U8, self.rng.choice([0, 1, 2, 3, bits - 1, bits // 2]))
            else:
                b = self.expr(U8, d - 1, pure)
            self.note("untyped-shift-lhs")
            return self.binop(self.rng.choice(["<<", ">>"]), ty, a, b)
        return self.expr(ty, d, pure)

    def e_unary(self, ty, d, pure):
        a = self.expr(ty, d - 1, pure)
        if signed(ty) and (self.rng.random() < 0.5 or "core" in self.features):
            return E("-" + a.at(12) if not a.text.startswith("-") else "-(" + a.text + ")", ["un", "neg", ty, a.ast], 12)
        return E("!" + a.at(12), ["un", "not", ty, a.ast], 12)

    def e_not(self, ty, d, pure):
        a = self.expr(BOOL, d - 1, pure)
        return E("!" + a.at(12), ["un", "not", BOOL, a.ast], 12)

    def e_cast(self, ty, d, pure):
        src = BOOL if self.rng.random() < 0.15 else self.int_ty()
        a = self.expr(src, d - 1, pure)
        return E(f"{a.at(11)} as {ty['t']}", ["cast", src, ty, a.ast], 11)

    def e_castbool(self, ty, d, pure):
        src = self.int_ty()
        a = self.expr(src, d - 1, pure)
        return E(f"{a.at(11)} as bool", ["cast", src, BOOL, a.ast], 11)

    def e_cmp(self, ty, d, pure):
        t = self.int_ty()
        op = self.rng.choice(["<", ">", "<=", ">="])
        # `<=` / `>=` are expanded by the parser into two copies of the operands: keep those pure
        return self.binop(op, t, self.expr(t, d - 1, True), self.expr(t, d - 1, True))

    def e_eq(self, ty, d, pure):
        t = self.small_ty(1) if self.rng.random() < 0.5 else self.int_ty()
        if "core" in self.features and "agg" not in self.features and t["k"] not in ("bool", "int"):
            t = self.int_ty()
        op = self.rng.choice(["==", "!="])
        a, b = self.expr(t, d - 1, pure), self.expr(t, d - 1, pure)
        if self.rng.random() < 0.3:
            b = a if self.rng.random() < 0.5 else b
        return self.binop(op, t, a, b)

    def e_logic(self, ty, d, pure):
        op = self.rng.choice(["&&", "||", "&&", "||", "&", "|", "^"])
        a = self.expr(BOOL, d - 1, pure)
        visible = {}
        for v in self.scope:
            visible[v["name"]] = v
        muts = [v for v in self.scope if v["mut"] and visible[v["name"]] is v]
        if not pure and op in ("&&", "||") and muts and "assign" in self.features and self.rng.random() < 0.4:
            # the right operand assigns to a variable of the enclosing scopes: the assignment counts only if the
            # operand runs (`mux_envs` by the left operand)
            mark = len(self.scope)
            scalars = [m for m in muts if m["ty"]["k"] in ("bool", "int")]
            if scalars and self.rng.random() < 0.7:
                # a visible change: `m = !m`, `m = m ^ 1`
                m = self.rng.choice(scalars)
                if m["ty"]["k"] == "bool":
                    st = (f"{m['name']} = !{m['name']};", ["assign", m["name"], [], ["un", "not", BOOL, ["var", m["name"]]]])
                else:
                    one = self.val_expr(m["ty"], 1)
                    st = (f"{m['name']} = {m['name']} ^ {one.text};", ["assign", m["name"], [], ["bin", "^", m["ty"], ["var", m["name"]], one.ast]])
            else:
                st = self.s_assign(max(0, d - 1), False, muts)
            v = self.expr(BOOL, max(0, d - 2), True)
            del self.scope[mark:]
            texts, asts = join_stmts([st, (v.text, ["expr", v.ast])])
            self.note("logic-rhs-assigns")
            return self.binop(op, BOOL, a, E("{ " + " ".join(texts) + " }", ["block", asts], 0))
        return self.binop(op, BOOL, a, self.expr(BOOL, d - 1, pure))

    def e_if(self, ty, d, pure):
        c = self.expr_nostruct(BOOL, d - 1, pure) or E("true", ["bool", True])
        t, f = self.block(ty, d - 1, pure), self.block(ty, d - 1, pure)
        return E(f"if {self.cond_text(c)} {t.text} else {f.text}", ["if", c.ast, t.ast, f.ast], 0)

    def cond_text(self, c):
        return c.text

    def e_block(self, ty, d, pure):
        b = self.block(ty, d - 1, pure)
        return E(b.text, b.ast, 0)

    def block(self, ty, d, pure, n=None):
        """`{ stmts; value }` — always a block expression node"""
        mark = len(self.scope)
        n = self.rng.choice([0, 0, 1, 2]) if n is None else n
        ss = [self.stmt(d, pure) for _ in range(n)]
        v = self.expr(ty, d, pure) if ty != UNIT or self.rng.random() < 0.3 else None
        del self.scope[mark:]
        items = list(ss)
        if v is not None:
            items.append((v.text, ["expr", v.ast]))
        elif not items:
            items.append(("()", ["expr", ["tuple", []]]))
        texts, asts = join_stmts(items)
        return E("{ " + " ".join(texts) + " }", ["block", asts], 13)

    def e_index(self, ty, d, pure):
        arrs = [(e, t) for e, t in self.components(1) if t["k"] == "array" and t["elem"] == ty and t["n"] > 0]
        a, at = self.rng.choice(arrs)
        r = self.rng.random()
        if r < 0.6:
            i = self.val_expr(USIZE, self.rng.randrange(at["n"]))
        elif r < 0.7:
            i = self.val_expr(USIZE, at["n"] + self.rng.choice([0, 1, 5]))      # out of bounds
        else:
            i = self.expr(USIZE, d - 1, pure)
            if self.rng.random() < 0.7:
                i = self.binop("%", USIZE, i, self.val_expr(USIZE, at["n"]))
        return E(f"{a.at(13)}[{self.index_text(i)}]", ["index", a.ast, i.ast])

    def e_call(self, ty, d, pure):
        h = self.rng.choice([h for h in self.helpers if h["ret"] == ty])
        args = [self.maybe_untyped(self.ctx_expr(t, d - 1, pure)) for _, t in h["params"]]
        h["used"] = True
        return E(f"{h['name']}(" + ", ".join(a.text for a in args) + ")", ["call", h["name"], [a.ast for a in args]])

    def e_aggregate(self, ty, d, pure):
        k = ty["k"]
        if k == "array":
            r = self.rng.random()
            if r < 0.3 and ty["n"] > 0:
                e = self.expr(ty["elem"], d - 1, pure)
                return E(f"[{e.text}; {ty['n']}]", ["repeat", e.ast, ty["n"]])
            if r < 0.45 and is_int(ty["elem"]) and not signed(ty["elem"]) and ty["n"] > 0:
                lo, hi = T.int_range(ty["elem"]["t"])
                start = self.rng.randrange(0, min(hi - ty["n"], 300) + 1)
                t = ty["elem"]["t"]
                return E(f"{start}{t}..{start + ty['n']}{t}", ["range", start, start + ty["n"], t], 0)
            es = [self.expr(ty["elem"], d - 1, pure) for _ in range(ty["n"])]
            if "untyped" in self.features and is_int(ty["elem"]) and len(es) >= 2:
                # numbers without a suffix among the elements: they take the type of an element that has one (also when the
                # number comes FIRST), so at least one element keeps its type
                lits = [i for i, e in enumerate(es) if isinstance(e.ast, list) and e.ast[0] == "int" and e.text == f"{e.ast[1]}{e.ast[2]}"]
                keep = self.rng.choice(lits) if len(lits) == len(es) else None
                for i in lits:
                    if i != keep and self.rng.random() < 0.5:
                        es[i] = E(str(es[i].ast[1]), es[i].ast)
                        self.note("untyped-array-element")
            return E("[" + ", ".join(e.text for e in es) + "]", ["array", [e.ast for e in es]])
        if k == "tuple":
            es = [self.expr(t, d - 1, pure) for t in ty["ts"]]
            return E("(" + ", ".join(e.text for e in es) + ")", ["tuple", [e.ast for e in es]])
        if k == "struct":
            # field values are compiled in definition (= name) order whatever the textual order: keep them pure
            return self.struct_lit(ty, [(f, self.expr(t, d - 1, True)) for f, t in ty["fields"]])
        n, unit, ts = self.rng.choice(ty["variants"])
        return self.enum_lit(ty, n, unit, [self.expr(t, d - 1, pure) for t in ts])

    # ------------------------------------------------------------------ patterns
    def irrefutable(self, ty, d=2, top=True):
        """(text, ast, [(name, ty)])"""
        k = ty["k"]
        r = self.rng.random()
        if "core" in self.features and "agg" not in self.features:
            d = 0                       # no aggregates, no destructuring
        if d > 0 and k == "tuple" and ty["ts"] and r < 0.6:
            subs = [self.irrefutable(t, d - 1, False) for t in ty["ts"]]
            return ("(" + ", ".join(s[0] for s in subs) + ")", ["tuple", [s[1] for s in subs]], sum((s[2] for s in subs), []))
        if d > 0 and k == "struct" and r < 0.6 and "structs" in self.features:
            fields = list(ty["fields"])
            rest = False
            if len(fields) > 1 and self.rng.random() < 0.4:
                fields = self.rng.sample(fields, self.rng.randrange(1, len(fields)))
                rest = True
            subs = [(f, self.irrefutable(t, d - 1, False)) for f, t in fields]
            shown = list(subs)
            self.rng.shuffle(shown)
            parts = [f"{f}: {s[0]}" for f, s in shown] + ([".."] if rest else [])
            return (f"{ty['name']} {{ " + ", ".join(parts) + " }",
                    ["struct", ty["name"], [[f, s[1]] for f, s in sorted(subs)]], sum((s[2] for _, s in subs), []))
        if d > 0 and k == "enum" and len(ty["variants"]) == 1 and r < 0.5:
            n, unit, ts = ty["variants"][0]
            if unit:
                return (f"{ty['name']}::{n}", ["eunit", ty["name"], n], [])
            subs = [self.irrefutable(t, d - 1, False) for t in ts]
            return (f"{ty['name']}::{n}(" + ", ".join(s[0] for s in subs) + ")",
                    ["etuple", ty["name"], n, [s[1] for s in subs]], sum((s[2] for s in subs), []))
        if not top and r > 0.85:
            return ("_", ["id", "_"], [])
        shadowable = [v["name"] for v in self.scope if not v["name"].startswith("arr_")]
        if top and shadowable and self.rng.random() < self.shadow_p:
            x = self.rng.choice(shadowable)        # shadows an existing binding
            self.note("shadow")
        else:
            x = self.fresh()
        return (x, ["id", x], [(x, ty)])

    def refutable(self, ty, d=2):
        """a pattern that may fail: (text, ast, bindings)"""
        k = ty["k"]
        r = self.rng.random()
        if r < 0.2 or d <= 0 and k not in ("bool", "int"):
            # a binding; now and then one that shadows a variable of the enclosing scopes (it must be gone again in
            # the arms that follow: every arm is checked and compiled in a scope of its own)
            return self.irrefutable(ty, 0, self.rng.random() < 0.5)
        if k == "bool":
            b = self.rng.random() < 0.5
            return ("true" if b else "false", ["bool", b], [])
        if k == "int":
            lo, hi = T.int_range(ty["t"])
            t = ty["t"]
            pts = [lo, hi, 0, 1, 2, 5, 10, 100, hi - 1, lo + 1, (lo + hi) // 2]
            a = self.rng.choice([p for p in pts if lo <= p <= hi])
            if r < 0.55:
                return (f"{a}{t}", ["int", a], [])
            b = self.rng.choice([p for p in pts if a <= p <= hi])
            if self.rng.random() < 0.5 and b < hi:
                return (f"{a}{t}..{b + 1}{t}", ["range", a, b], [])        # exclusive end
            return (f"{a}{t}..={b}{t}", ["range", a, b], [])
        if k == "tuple":
            subs = [self.refutable(t, d - 1) for t in ty["ts"]]
            return ("(" + ", ".join(s[0] for s in subs) + ")", ["tuple", [s[1] for s in subs]], sum((s[2] for s in subs), []))
        if k == "struct":
            fields = list(ty["fields"])
            rest = False
            if len(fields) > 1 and self.rng.random() < 0.4:
                fields = self.rng.sample(fields, self.rng.randrange(1, len(fields)))
                rest = True
            subs = [(f, self.refutable(t, d - 1)) for f, t in fields]
            shown = list(subs)
            self.rng.shuffle(shown)
            parts = [f"{f}: {s[0]}" for f, s in shown] + ([".."] if rest else [])
            return (f"{ty['name']} {{ " + ", ".join(parts) + " }",
                    ["struct", ty["name"], [[f, s[1]] for f, s in sorted(subs)]], sum((s[2] for _, s in subs), []))
        if k == "enum":
            n, unit, ts = self.rng.choice(ty["variants"])
            if unit:
                return (f"{ty['name']}::{n}", ["eunit", ty["name"], n], [])
            subs = [self.refutable(t, d - 1) for t in ts]
            return (f"{ty['name']}::{n}(" + ", ".join(s[0] for s in subs) + ")",
                    ["etuple", ty["name"], n, [s[1] for s in subs]], sum((s[2] for s in subs), []))
        return self.irrefutable(ty, 0, False)       # arrays: no patterns

    def arms(self, sty, n_refutable):
        """patterns of a match on `sty`, ending with a catch-all"""
        if sty["k"] in ("bool", "int") and self.rng.random() < 0.3:
            return self.covering_arms(sty)
        pats = [self.refutable(sty) for _ in range(n_refutable)]
        pats.append(self.irrefutable(sty, 0, self.rng.random() < 0.5))
        return pats

    def covering_arms(self, sty):
        """arms without a catch-all that cover a scalar type: `true` / `false`, or ranges that partition the integers"""
        self.note("match-covering-without-catch-all")
        if sty["k"] == "bool":
            pats = [("true", ["bool", True], []), ("false", ["bool", False], [])]
        else:
            lo, hi = T.int_range(sty["t"])
            t = sty["t"]
            cuts = sorted(set(self.rng.choice([lo + 1, 0, 1, 2, 10, 100, hi - 1, hi, (lo + hi) // 2, -1, -100]) for _ in range(self.rng.choice([1, 2, 3]))))
            cuts = [c for c in cuts if lo < c <= hi]
            bounds = [lo] + cuts + [hi + 1]
            pats = []
            for a, b in zip(bounds, bounds[1:]):
                b -= 1
                if a == b and self.rng.random() < 0.7:
                    pats.append((f"{a}{t}", ["int", a], []))
                elif b < hi and self.rng.random() < 0.5:
                    pats.append((f"{a}{t}..{b + 1}{t}", ["range", a, b], []))
                else:
                    pats.append((f"{a}{t}..={b}{t}", ["range", a, b], []))
        self.rng.shuffle(pats)
        if self.rng.random() < 0.3:
            pats.insert(self.rng.randrange(len(pats)), self.refutable(sty))      # a redundant arm in between
        return pats

    def matchable(self, ty):
        k = ty["k"]
        if "core" in self.features and "agg" not in self.features:
            return k in ("bool", "int")
        if k == "array":
            return False
        if k == "tuple":
            return all(self.matchable(t) for t in ty["ts"])
        if k == "struct":
            return all(self.matchable(t) for _, t in ty["fields"])
        if k == "enum":
            return all(self.matchable(t) for _, _, ts in ty["variants"] for t in ts)
        return True

    def scrutinee(self, d, pure):
        cands = [(e, t) for e, t in self.components() if self.matchable(t)]
        if cands and self.rng.random() < 0.7:
            return self.rng.choice(cands)
        for _ in range(5):
            t = self.small_ty(1)
            if self.matchable(t):
                e = self.expr_nostruct(t, d - 1, pure)
                if e is not None:
                    return e, t
        return self.val_expr(U8, self.rng.randrange(256)), U8

    def e_match(self, ty, d, pure):
        s, sty = self.scrutinee(d, pure)
        pats = self.arms(sty, self.rng.choice([0, 1, 2, 3]))
        arms_t, arms_a = [], []
        for ptext, past, binds in pats:
            mark = len(self.scope)
            for x, t in binds:
                self.scope.append({"name": x, "ty": t, "mut": False})
            body = self.expr(ty, d - 1, pure)
            del self.scope[mark:]
            btext = body.text if body.prec == 13 or body.text.startswith("{") else body.text
            arms_t.append(f"{ptext} => {btext}")
            arms_a.append([past, body.ast])
        return E(f"match {self.cond_text(s)} {{ " + ", ".join(arms_t) + " }", ["match", s.ast, arms_a], 0)

    # ------------------------------------------------------------------ statements
    def stmt(self, d, pure):
        """(text, ast); may extend the scope"""
        choices = ["let", "let", "letmut"]
        muts = [v for v in self.scope if v["mut"]]
        # only the innermost binding of a name is assignable by that name
        visible = {}
        for v in self.scope:
            visible[v["name"]] = v
        muts = [v for v in muts if visible[v["name"]] is v]
        if muts and "assign" in self.features and not pure:
            choices += ["assign", "assign", "assign"]
            if d > 0:
                choices += ["ifstmt", "ifstmt"]
                if "match" in self.features:
                    choices.append("matchstmt")
                if "loops" in self.features:
                    choices += ["for", "for"]
        c = self.rng.choice(choices)
        # statements built to fail (an index out of bounds before a failing index expression) are frequent only under
        # "stress" (the C02 stream): a program that always panics shows nothing of the statements after the failure
        if "assign" in self.features and ("core" not in self.features or "agg" in self.features) and not pure and self.rng.random() < (0.06 if self.stress else 0.012):
            c = "nestedassign"
        self.note("stmt:" + c)
        return getattr(self, "s_" + c)(d, pure, muts)

    def s_nestedassign(self, d, pure, muts):
        """`g[i][j] = v` on an array of arrays: the bounds of `g[i]` are checked before `j` is evaluated, so with `i`
        out of bounds a failure inside `j` is not the first failing operation"""
        def nested(t):
            return t["k"] == "array" and t["n"] > 0 and t["elem"]["k"] == "array" and t["elem"]["n"] > 0
        cands = [v for v in muts if nested(v["ty"])]
        pre = None
        if cands and self.rng.random() < 0.7:
            v = self.rng.choice(cands)
            name, ty = v["name"], v["ty"]
        else:
            ety = self.small_ty(0)
            ty = {"k": "array", "elem": {"k": "array", "elem": ety, "n": self.rng.choice([1, 2, 3])}, "n": self.rng.choice([1, 2, 3])}
            name = self.fresh("m")
            init = self.expr(ty, 1, True)
            pre = (f"let mut {name} = {init.text};", ["letmut", name, init.ast])
        n, m = ty["n"], ty["elem"]["n"]
        r = self.rng.random()
        if r < (0.5 if self.stress else 0.2):
            i = self.val_expr(USIZE, n + self.rng.choice([0, 1, 5]))
        elif r < 0.75:
            i = self.binop("%", USIZE, self.expr(USIZE, d - 1, True), self.val_expr(USIZE, n + 1))
        else:
            i = self.val_expr(USIZE, self.rng.randrange(n))
        r = self.rng.random()
        if r < (0.6 if self.stress else 0.25):
            j = self.failing_usize(d)
        elif r < 0.8:
            j = self.binop("%", USIZE, self.expr(USIZE, d - 1, True), self.val_expr(USIZE, m))
        else:
            j = self.val_expr(USIZE, self.rng.randrange(m + 1))
        e = self.expr(ty["elem"]["elem"], d - 1, True)
        text, ast = f"{name}[{self.index_text(i)}][{self.index_text(j)}] = {e.text};", ["assign", name, [["i", i.ast], ["i", j.ast]], e.ast]
        if pre is None:
            return text, ast
        return "{ " + pre[0] + " " + text + " }", ["expr", ["block", [pre[1], ast]]]

    def s_let(self, d, pure, muts):
        ty = self.small_ty(self.rng.choice([0, 1, 1, 2]))
        ann = f": {T.ty_str(ty)}" if self.rng.random() < 0.3 else ""
        e = self.ctx_expr(ty, d, pure) if ann else self.expr(ty, d, pure)
        ptext, past, binds = self.irrefutable(ty)
        if ann:
            e = self.maybe_untyped(e, 0.7)
        for x, t in binds:
            self.scope.append({"name": x, "ty": t, "mut": False})
        return (f"let {ptext}{ann} = {e.text};", ["let", past, e.ast])

    def s_letmut(self, d, pure, muts):
        ty = self.small_ty(self.rng.choice([0, 1, 1, 2]))
        if "core" not in self.features and "assign" in self.features and self.rng.random() < 0.08:
            # nested arrays: places with two index accessors (`m[i][j] = v`, `m[i].0[j] = v`)
            inner = {"k": "array", "elem": self.small_ty(0), "n": self.rng.choice([1, 2, 3])}
            if self.rng.random() < 0.3:
                inner = {"k": "tuple", "ts": [inner, self.small_ty(0)]}
            ty = {"k": "array", "elem": inner, "n": self.rng.choice([1, 2, 3])}
            self.note("letmut-nested-array")
        ann = f": {T.ty_str(ty)}" if self.rng.random() < 0.3 else ""
        e = self.ctx_expr(ty, d, pure) if ann else self.expr(ty, d, pure)
        x = self.fresh("m")
        if ann or ty == INT("i32"):
            e = self.maybe_untyped(e, 0.7)            # without annotation an untyped number is an i32
        elif "untyped" in self.features and self.rng.random() < 0.6:
            t2 = untyped_i32_text(e.ast)              # `let mut a = [7, 8];` / `[7; 3]` / `(7, true)`: i32 elements
            if t2 is not None and t2 != e.text:
                self.note("untyped-aggregate")
                e = E(t2, e.ast)
        self.scope.append({"name": x, "ty": ty, "mut": True})
        return (f"let mut {x}{ann} = {e.text};", ["letmut", x, e.ast])

    def target(self, v, d):
        """an assignable place inside variable v: (text, path ast, type)"""
        text, path, ty = v["name"], [], v["ty"]
        oob = False
        while ("core" not in self.features or "agg" in self.features) and self.rng.random() < (0.9 if oob else 0.6):
            k = ty["k"]
            if k == "array" and ty["n"] == 0 and "zero" in self.features:
                # an element of an array without elements: every index is out of bounds (the accessors that follow are
                # still compiled)
                i = self.val_expr(USIZE, self.rng.choice([0, 1]))
                oob = True
                text += f"[{self.index_text(i)}]"
                path.append(["i", i.ast])
                ty = ty["elem"]
            elif k == "array" and ty["n"] > 0:
                r = self.rng.random()
                if oob and r < 0.75 or r > (0.95 if self.stress else 0.985):
                    # an index expression that fails itself; after an index that is out of bounds the access to the
                    # outer array is the first failing operation (its bounds are checked before the next index runs)
                    i = self.failing_usize(d)
                    self.note("assign-index-fails" + ("-after-oob" if oob else ""))
                elif r < 0.7:
                    i = self.val_expr(USIZE, self.rng.randrange(ty["n"]))
                elif r < (0.8 if self.stress else 0.73):
                    i = self.val_expr(USIZE, ty["n"] + self.rng.choice([0, 2]))
                    oob = True
                else:
                    i = self.binop("%", USIZE, self.expr(USIZE, d - 1, True), self.val_expr(USIZE, ty["n"]))
                text += f"[{self.index_text(i)}]"
                path.append(["i", i.ast])
                ty = ty["elem"]
            elif k == "tuple" and ty["ts"]:
                i = self.rng.randrange(len(ty["ts"]))
                text += f".{i}"
                path.append(["t", i])
                ty = ty["ts"][i]
            elif k == "struct":
                f, t = self.rng.choice(ty["fields"])
                text += f".{f}"
                path.append(["f", f])
                ty = t
            else:
                break
        return text, path, ty

    @staticmethod
    def index_text(i):
        """`a[1 + x]` is a parse error (after `[` a number without suffix is read as a constant index and `]` must
        follow); `a[(1 + x)]` is fine"""
        return f"({i.text})" if re.match(r"\d+ ", i.text) else i.text

    def failing_usize(self, d):
        """a usize expression that fails (or is likely to) when it is evaluated"""
        lo, hi = T.int_range("usize")
        a = self.expr(USIZE, max(0, d - 1), True)
        r = self.rng.random()
        if r < 0.3:
            return self.binop("+", USIZE, self.val_expr(USIZE, hi), self.binop("+", USIZE, a, self.val_expr(USIZE, 1)))
        if r < 0.5:
            return self.binop("-", USIZE, self.val_expr(USIZE, 0), self.val_expr(USIZE, 1))
        if r < 0.7:
            return self.binop(self.rng.choice(["/", "%"]), USIZE, a, self.val_expr(USIZE, 0))
        if r < 0.85:
            return self.binop("<<", USIZE, a, self.val_expr(U8, T.INTS["usize"][1]))
        arrs = [(e, t) for e, t in self.components(1) if t["k"] == "array" and t["elem"] == USIZE and t["n"] > 0]
        if arrs:
            e, t = self.rng.choice(arrs)
            return E(f"{e.at(13)}[{t['n']}usize]", ["index", e.ast, ["int", t["n"], "usize"]], 13)
        return self.binop("*", USIZE, self.val_expr(USIZE, hi), self.val_expr(USIZE, 2))

    def s_assign(self, d, pure, muts):
        v = self.rng.choice(muts)
        text, path, ty = self.target(v, d)
        e = self.expr(ty, d, True)
        ops = []
        if is_int(ty):
            ops = ["+", "-", "*", "/", "%", "<<", ">>", "^", "&", "|"] if "core" in self.features else ["+", "-", "*", "/", "%", "^", "&", "|", "<<", ">>"]
        elif ty["k"] == "bool":
            ops = ["^", "&", "|"]
        if ops and self.rng.random() < 0.4:
            op = self.rng.choice(ops)
            if op in ("<<", ">>"):
                e = self.val_expr(U8, self.rng.choice([0, 1, 3]))
            if op == "*" and "core" in self.features and e.ast[0] == "int" and e.ast[1] < 0:
                op = "+"
            cur = ["var", v["name"]]
            for st in path:
                cur = {"i": lambda c, s: ["index", c, s[1]], "t": lambda c, s: ["tget", c, s[1]], "f": lambda c, s: ["field", c, s[1]]}[st[0]](cur, st)
            return (f"{text} {op}= {e.text};", ["assign", v["name"], path, ["bin", op, ty, cur, e.ast]])
        if not pure and path and "impure" in self.features and self.rng.random() < 0.35:
            # the value assigns to (another part of) the variable being assigned: `t.0 = { t.1 = x; 10 }`
            # (the place is read after the value has been evaluated)
            t2, p2, ty2 = self.target(v, d - 1)
            e2 = self.expr(ty2, d - 1, True)
            inner_t, inner_a = f"{t2} = {e2.text};", ["assign", v["name"], p2, e2.ast]
            self.note("assign-value-assigns-same-var")
            if self.rng.random() < 0.5:
                e = E(f"{{ {inner_t} {e.text} }}", ["block", [inner_a, ["expr", e.ast]]])
            else:
                c = self.expr_nostruct(BOOL, d - 1, True) or E("true", ["bool", True])
                o = self.expr(ty, d - 1, True)
                e = E(f"if {self.cond_text(c)} {{ {inner_t} {e.text} }} else {{ {o.text} }}",
                      ["if", c.ast, ["block", [inner_a, ["expr", e.ast]]], ["block", [["expr", o.ast]]]])
            return (f"{text} = {e.text};", ["assign", v["name"], path, e.ast])
        e = self.maybe_untyped(e)
        return (f"{text} = {e.text};", ["assign", v["name"], path, e.ast])

    def stmt_block(self, d, n=None):
        """a block used as a statement: assignments to outer variables, value `()`"""
        mark = len(self.scope)
        n = self.rng.choice([1, 1, 2, 3]) if n is None else n
        ss = [self.stmt(d, False) for _ in range(n)]
        del self.scope[mark:]
        # a block that ends in a `let` or an assignment has type `()`
        if ss[-1][1][0] == "expr":
            ss.append(("();", ["expr", ["tuple", []]]))
        texts, asts = join_stmts(ss)
        return "{ " + " ".join(texts) + " }", asts

    def s_ifstmt(self, d, pure, muts):
        c = self.expr_nostruct(BOOL, d, True) or E("false", ["bool", False])
        t_text, t_ast = self.stmt_block(d - 1)
        if self.rng.random() < 0.7:
            f_text, f_ast = self.stmt_block(d - 1)
        else:
            f_text, f_ast = "{ }", []
            f_text, f_ast = "{ () }", [["expr", ["tuple", []]]]
        return (f"if {self.cond_text(c)} {t_text} else {f_text}",
                ["expr", ["if", c.ast, ["block", t_ast], ["block", f_ast]]])

    def s_matchstmt(self, d, pure, muts):
        s, sty = self.scrutinee(d, True)
        pats = self.arms(sty, self.rng.choice([1, 2, 3]))
        arms_t, arms_a = [], []
        for ptext, past, binds in pats:
            mark = len(self.scope)
            for x, t in binds:
                self.scope.append({"name": x, "ty": t, "mut": False})
            b_text, b_ast = self.stmt_block(d - 1)
            del self.scope[mark:]
            arms_t.append(f"{ptext} => {b_text}")
            arms_a.append([past, ["block", b_ast]])
        return (f"match {self.cond_text(s)} {{ " + ", ".join(arms_t) + " }", ["expr", ["match", s.ast, arms_a]])

    def s_for(self, d, pure, muts):
        arrs = [(e, t) for e, t in self.components(1) if t["k"] == "array"]
        if arrs and self.rng.random() < 0.7:
            a, at = self.rng.choice(arrs)
        else:
            at = {"k": "array", "elem": self.small_ty(1), "n": self.rng.choice([1, 2, 3, 4])}
            a = self.expr_nostruct(at, d - 1, True)
            if a is None:
                at = {"k": "array", "elem": U8, "n": 3}
                a = E("[1u8, 2u8, 3u8]", ["array", [["int", 1, "u8"], ["int", 2, "u8"], ["int", 3, "u8"]]])
        ptext, past, binds = self.irrefutable(at["elem"])
        mark = len(self.scope)
        for x, t in binds:
            self.scope.append({"name": x, "ty": t, "mut": False})
        b_text, b_ast = self.stmt_block(d - 1)
        del self.scope[mark:]
        return (f"for {ptext} in {self.cond_text(a)} {b_text}", ["for", past, a.ast, b_ast])

    # ------------------------------------------------------------------ functions
    def fn_body(self, params, ret, d):
        # names restart in every function: a callee's parameters and locals are often called like the caller's
        # variables (v1, m2, p1 …), which is where scoping mistakes in calls show
        self.counter = len(params)
        self.scope = [{"name": n, "ty": t, "mut": m} for n, t, m in params]
        n = self.rng.choice([0, 1, 2, 3, 4])
        impure = "impure" in self.features
        ss = [self.stmt(d, not impure) for _ in range(n)]
        v = self.ctx_expr(ret, d, self.rng.random() < 0.8 or not impure)
        texts, asts = join_stmts(list(ss) + [(v.text, ["expr", v.ast])])
        return "\n    ".join(texts), asts

    def fn_body_observed(self, params, d):
        """statements only; the function returns the tuple of (up to 6 of) the variables visible at its end, so that
        every effect of the statements is part of the result"""
        self.counter = len(params)
        self.scope = [{"name": n, "ty": t, "mut": m} for n, t, m in params]
        ss = [self.stmt(d, False) for _ in range(self.rng.choice([2, 3, 4, 5]))]
        visible = {}
        for v in self.scope:
            visible[v["name"]] = v
        vs = list(visible.values())
        self.rng.shuffle(vs)
        vs = vs[:6] if len(vs) >= 2 else (vs + vs)[:2]
        ret = {"k": "tuple", "ts": [v["ty"] for v in vs]}
        v_text = "(" + ", ".join(v["name"] for v in vs) + ")"
        v_ast = ["tuple", [["var", v["name"]] for v in vs]]
        texts, asts = join_stmts(list(ss) + [(v_text, ["expr", v_ast])])
        return "\n    ".join(texts), asts, ret

    def join_program(self):
        """a program around one for-join loop: `main(a, b[, x])` returns every visible variable; also returns the key type"""
        UNS = ["u8", "u16", "u32", "u64", "usize"]
        r = self.rng.random()
        if r < 0.7:
            key = INT(self.rng.choice(UNS))
        elif r < 0.85:
            key = {"k": "tuple", "ts": [INT(self.rng.choice(UNS)) for _ in range(2)]}
        else:
            key = {"k": "array", "elem": U8, "n": self.rng.choice([1, 2, 3])}
        # (a 1-tuple has no type syntax)
        ea = {"k": "tuple", "ts": [key] + [self.small_ty(1) for _ in range(self.rng.choice([1, 1, 2]))]}
        eb = {"k": "tuple", "ts": [key] + [self.small_ty(1) for _ in range(self.rng.choice([1, 1, 2]))]}
        n, m = self.rng.choice([1, 2, 3, 4, 5, 6]), self.rng.choice([1, 2, 3, 4, 5, 6])
        params = [("arr_a", {"k": "array", "elem": ea, "n": n}, False), ("arr_b", {"k": "array", "elem": eb, "n": m}, False)]
        if self.rng.random() < 0.5:
            params.append((self.fresh("x"), self.small_ty(1), self.rng.random() < 0.5))
        self.helpers = []
        self.scope = [{"name": nm, "ty": t, "mut": mu} for nm, t, mu in params]
        d = self.max_depth
        items = [self.s_letmut(d - 1, True, []) for _ in range(self.rng.choice([1, 2, 3]))]
        if self.rng.random() < 0.4:
            items.append(self.stmt(d - 1, False))
        # the loop
        pair = {"k": "tuple", "ts": [ea, eb]}
        ptext, past, binds = self.irrefutable(pair, 3, False)
        if ptext == "_":
            ptext, past, binds = "pr", ["id", "pr"], [("pr", pair)]
        mark = len(self.scope)
        for x, t in binds:
            self.scope.append({"name": x, "ty": t, "mut": False})
        b_text, b_ast = self.stmt_block(d - 1)
        del self.scope[mark:]
        items.append((f"for {ptext} in join_iter(arr_a, arr_b) {b_text}", ["forjoin", past, ["var", "arr_a"], ["var", "arr_b"], b_ast]))
        if self.rng.random() < 0.4:
            items.append(self.stmt(d - 1, False))
        visible = {}
        for v in self.scope:
            visible[v["name"]] = v
        vs = [v for v in visible.values() if v["name"] not in ("arr_a", "arr_b")]
        self.rng.shuffle(vs)
        vs = vs[:5] if vs else [visible["arr_a"]]
        if len(vs) == 1:
            vs = vs + vs
        ret = {"k": "tuple", "ts": [v["ty"] for v in vs]}
        items.append(("(" + ", ".join(v["name"] for v in vs) + ")", ["expr", ["tuple", [["var", v["name"]] for v in vs]]]))
        texts, asts = join_stmts(items)
        sig = ", ".join(f"{'mut ' if mu else ''}{nm}: {T.ty_str(t)}" for nm, t, mu in params)
        src = self.tg.defs_src() + f"pub fn main({sig}) -> {T.ty_str(ret)} {{\n    " + "\n    ".join(texts) + "\n}\n"
        fns = [{"name": "main", "params": [[nm, t] for nm, t, _ in params], "ret": ret, "body": asts}]
        return {"src": src, "prog": {"fns": fns, "consts": []}, "params": [[nm, t] for nm, t, _ in params], "ret": ret, "key": key}

    def program(self, n_params=None, observe_all=False):
        # helpers first (a helper may call the helpers defined before it)
        self.helpers = []
        if "helpers" in self.features:
            for i in range(self.rng.choice([0, 0, 1, 2])):
                ps = [(f"p{j + 1}", self.small_ty(1), self.rng.random() < 0.3) for j in range(self.rng.choice([1, 2, 3]))]
                ret = self.small_ty(1)
                text, ast = self.fn_body(ps, ret, self.max_depth - 1)
                self.helpers.append({"name": f"helper{i}", "params": [(n, t) for n, t, _ in ps], "muts": [m for _, _, m in ps],
                                     "ret": ret, "text": text, "ast": ast, "used": False})
        n_params = n_params or self.rng.choice([1, 1, 2, 3])
        params = [(f"p{j + 1}", self.small_ty(self.rng.choice([0, 1, 2])), self.rng.random() < 0.3) for j in range(n_params)]
        ret = self.small_ty(self.rng.choice([0, 1, 2]))
        if observe_all:
            body_text, body_ast, ret = self.fn_body_observed(params, self.max_depth)
        else:
            body_text, body_ast = self.fn_body(params, ret, self.max_depth)
        # every private function must be used: call the unused ones up front
        pre_t, pre_a = [], []
        self.scope = [{"name": n, "ty": t, "mut": m} for n, t, m in params]
        reach = calls_in(body_ast, set())
        todo = list(reach)
        while todo:
            h = next((h for h in self.helpers if h["name"] == todo[-1]), None)
            todo.pop()
            if h:
                for n in calls_in(h["ast"], set()):
                    if n not in reach:
                        reach.add(n)
                        todo.append(n)
        for h in self.helpers:
            if h["name"] not in reach:
                args = [self.lit(t) for _, t in h["params"]]
                x = self.fresh("u")
                pre_t.append(f"let {x} = {h['name']}(" + ", ".join(a.text for a in args) + ");")
                pre_a.append(["let", ["id", x], ["call", h["name"], [a.ast for a in args]]])
        # helpers are used by main or by later helpers; a helper only used by an unused helper is still "used" for garble

        def sig(ps, muts):
            return ", ".join(f"{'mut ' if m else ''}{n}: {T.ty_str(t)}" for (n, t), m in zip(ps, muts))
        src = self.tg.defs_src()
        src += f"pub fn main({sig([(n, t) for n, t, _ in params], [m for _, _, m in params])}) -> {T.ty_str(ret)} {{\n    "
        src += "\n    ".join(pre_t + [body_text]) + "\n}\n"
        fns = [{"name": "main", "params": [[n, t] for n, t, _ in params], "ret": ret, "body": pre_a + body_ast}]
        for h in self.helpers:
            src += f"fn {h['name']}({sig(h['params'], h['muts'])}) -> {T.ty_str(h['ret'])} {{\n    {h['text']}\n}}\n"
            fns.append({"name": h["name"], "params": [[n, t] for n, t in h["params"]], "ret": h["ret"], "body": h["ast"]})
        enums = [[n, t["variants"]] for n, t in sorted(self.tg.enums.items())]
        return {"src": src, "prog": {"fns": fns, "consts": [], "enums": enums}, "params": [[n, t] for n, t, _ in params], "ret": ret}


# ---------------------------------------------------------------------- values as JSON for the Lean driver
def val_json(t, v):
    k = t["k"]
    if k in ("bool", "int"):
        return v
    if k == "array":
        return {"a": [val_json(t["elem"], x) for x in v]}
    if k == "tuple":
        return {"t": [val_json(x, y) for x, y in zip(t["ts"], v)]}
    if k == "struct":
        return {"s": t["name"], "f": [[f, val_json(ft, v[1][f])] for f, ft in t["fields"]]}
    idx = next(i for i, (n, _, _) in enumerate(t["variants"]) if n == v[1])
    n, unit, ts = t["variants"][idx]
    return {"e": t["name"], "v": n, "u": unit, "f": [val_json(x, y) for x, y in zip(ts, v[2] or [])]}


def party_inputs(params, args):
    """bit strings per input party: one per parameter, or one per element if the only parameter is an array"""
    if len(params) == 1 and params[0][1]["k"] == "array":
        t = params[0][1]
        return [T.encode(t["elem"], x) for x in args[0]]
    return [T.encode(t, v) for (_, t), v in zip(params, args)]
