"""Generators of circuit values (SSA and register), valid and adversarial."""


def bits(rng, n):
    return "".join(rng.choice("01") for _ in range(n))


def ssa_circuit(rng, adversarial=0.15, max_gates=10, max_party=3):
    """Mostly-valid SSA circuit; each reference is corrupted with probability `adversarial`."""
    nparties = rng.choice([1, 1, 2, 2, 3]) if rng.random() > 0.03 else 0
    sizes = [rng.choice([0, 1, 1, 2, 2, 3, max_party]) for _ in range(nparties)]
    if sizes and sum(sizes) == 0 and rng.random() < 0.7:
        sizes[rng.randrange(len(sizes))] = 1
    ninp = sum(sizes)
    ngates = rng.randrange(0, max_gates + 1)
    gates = []

    def ref(i):
        r = rng.random()
        if r < adversarial / 3:
            return i  # self reference
        if r < 2 * adversarial / 3:
            return i + rng.randrange(1, 4)  # forward
        if r < adversarial:
            return rng.choice([10**6, 2**32, 2**40])
        return rng.randrange(0, i) if i > 0 else 0

    for k in range(ngates):
        i = ninp + k
        kind = rng.choice(["X", "X", "A", "A", "N"])
        if kind == "N":
            gates.append(["N", ref(i)])
        else:
            a = ref(i)
            b = a if rng.random() < 0.1 else ref(i)
            gates.append([kind, a, b])
    nw = ninp + ngates
    nout = rng.choice([0, 1, 1, 2, 3, 5]) if rng.random() < 0.95 else 0
    outs = []
    for _ in range(nout):
        r = rng.random()
        if r < adversarial / 2:
            outs.append(nw + rng.randrange(0, 3))
        elif nw > 0:
            outs.append(rng.randrange(0, nw) if rng.random() > 0.2 or not outs else rng.choice(outs))
        else:
            outs.append(0)
    inputs = [bits(rng, s) for s in sizes]
    return {"input_gates": sizes, "gates": gates, "output_gates": outs}, inputs


def reg_circuit(rng, adversarial=0.15, max_insts=10):
    nparties = rng.choice([1, 1, 2, 2, 3]) if rng.random() > 0.03 else 0
    sizes = [rng.choice([0, 1, 1, 2, 2, 3]) for _ in range(nparties)]
    if sizes and sum(sizes) == 0 and rng.random() < 0.7:
        sizes[rng.randrange(len(sizes))] = 1
    insts = []
    written = []
    pos = 0
    for p, s in enumerate(sizes):
        for k in range(s):
            out, party, idx = pos, p, k
            r = rng.random()
            if r < adversarial / 4:
                party = rng.choice([len(sizes), len(sizes) + 5, 2**31])
            elif r < adversarial / 2:
                idx = s + rng.randrange(0, 3)
            elif r < 3 * adversarial / 4:
                out = pos + rng.choice([1, 2])
            elif r < adversarial and rng.random() < 0.5:
                pos += 1
                continue  # drop this input instruction
            insts.append([out, "I", party, idx])
            written.append(out)
            pos += 1
    nreg = max(written) + 1 if written else 0
    nops = rng.randrange(0, max_insts + 1)
    for _ in range(nops):
        def rd():
            r = rng.random()
            if r < adversarial / 2:
                return nreg + rng.randrange(0, 3)  # possibly not yet written / out of range
            if r < adversarial:
                return rng.choice([2**31, 2**32 - 1])
            return rng.choice(written) if written else 0
        kind = rng.choice(["X", "X", "A", "A", "N"])
        r = rng.random()
        if r < 0.5 and written:
            out = rng.choice(written)
        else:
            out = nreg
        if rng.random() < adversarial / 3:
            out = out + rng.randrange(1, 4)
        if kind == "N":
            insts.append([out, "N", rd()])
        else:
            insts.append([out, kind, rd(), rd()])
        written.append(out)
        nreg = max(nreg, out + 1)
    r = rng.random()
    maxreg = nreg
    if r < adversarial / 3:
        maxreg = 0
    elif r < 2 * adversarial / 3:
        maxreg = max(0, nreg - 1)
    elif r < adversarial:
        maxreg = nreg + rng.randrange(1, 4)
    nout = rng.choice([0, 1, 1, 2, 3]) if rng.random() < 0.95 else 0
    outs = []
    for _ in range(nout):
        if rng.random() < adversarial / 2:
            outs.append(maxreg + rng.randrange(0, 2))
        elif rng.random() < adversarial / 2:
            outs.append(rng.randrange(0, maxreg) if maxreg else 0)  # possibly never written
        else:
            outs.append(rng.choice(written) if written else 0)
    inputs = [bits(rng, s) for s in sizes]
    ands = sum(1 for i in insts if i[1] == "A")
    return {"input_regs": sizes, "insts": insts, "max_reg_count": maxreg, "output_regs": outs, "and_ops": ands}, inputs


def valid_ssa(rng, max_gates=30, style=None):
    """A well-formed SSA circuit (passes validate) with the shapes the register allocator cares about."""
    style = style or rng.choice(["random", "chain", "fanout", "repeat", "unused", "wide"])
    nparties = rng.choice([1, 2, 3])
    sizes = [rng.choice([0, 1, 2, 3]) for _ in range(nparties)]
    if sum(sizes) == 0:
        sizes[rng.randrange(nparties)] = rng.choice([1, 2])
    ninp = sum(sizes)
    ngates = rng.randrange(0, max_gates + 1)
    gates = []
    for k in range(ngates):
        i = ninp + k

        def ref():
            if style == "chain" and k > 0 and rng.random() < 0.8:
                return i - 1
            if style == "fanout" and rng.random() < 0.6:
                return rng.randrange(0, min(i, 2) or 1)
            if style == "wide" and rng.random() < 0.7:
                return rng.randrange(0, ninp)
            return rng.randrange(0, i)

        kind = rng.choice(["X", "X", "A", "A", "N"])
        if kind == "N":
            gates.append(["N", ref()])
        else:
            a = ref()
            b = a if (style == "repeat" and rng.random() < 0.4) or rng.random() < 0.05 else ref()
            gates.append([kind, a, b])
    nw = ninp + ngates
    nout = rng.choice([1, 1, 2, 3, 6])
    outs = []
    for _ in range(nout):
        r = rng.random()
        if r < 0.15:
            outs.append(rng.randrange(0, ninp))  # an input wire as output
        elif r < 0.3 and outs:
            outs.append(rng.choice(outs))  # repeated output
        elif style == "unused" and nw > ninp:
            outs.append(rng.randrange(ninp, max(ninp + 1, ninp + ngates // 3)))
        else:
            outs.append(rng.randrange(0, nw))
    return {"input_gates": sizes, "gates": gates, "output_gates": outs}


def assignments(rng, sizes, limit_bits=8, nrandom=32):
    n = sum(sizes)
    res = []
    if n <= limit_bits:
        for a in range(2 ** n):
            k = 0
            ins = []
            for s in sizes:
                ins.append("".join(str((a >> (k + j)) & 1) for j in range(s)))
                k += s
            res.append(ins)
    else:
        for _ in range(nrandom):
            res.append([bits(rng, s) for s in sizes])
    return res
