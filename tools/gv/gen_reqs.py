"""Generators of builder request sequences (C04/C15), biased towards the rewrite rules."""
import itertools


def exhaustive(ninputs, length, ops=("xor", "and", "not")):
    """All request sequences of exactly `length` over `ninputs` input bits (handles 0/1 = constants)."""

    def rec(prefix, nres):
        if len(prefix) == length:
            yield list(prefix)
            return
        for op in ops:
            if op == "not":
                for x in range(nres):
                    yield from rec(prefix + [[op, x]], nres + 1)
            else:
                for x in range(nres):
                    for y in range(nres):
                        yield from rec(prefix + [[op, x, y]], nres + 1)

    yield from rec([], ninputs + 2)


TEMPLATES = [
    # (number of fresh operands, builder of requests given operand handles and the next handle index)
    ("xor-cancel", 2, lambda a, n: [["xor", a[0], a[1]], ["xor", n, a[0]]]),
    ("xor-xor-shared", 3, lambda a, n: [["xor", a[0], a[1]], ["xor", a[0], a[2]], ["xor", n, n + 1]]),
    ("xor-xor-shared2", 3, lambda a, n: [["xor", a[1], a[0]], ["xor", a[2], a[0]], ["xor", n + 1, n]]),
    ("and-factor", 3, lambda a, n: [["and", a[0], a[1]], ["and", a[0], a[2]], ["xor", n, n + 1]]),
    ("and-factor-swapped", 3, lambda a, n: [["and", a[1], a[0]], ["and", a[2], a[0]], ["xor", n, n + 1]]),
    ("and-factor-cached", 3, lambda a, n: [["xor", a[1], a[2]], ["and", a[0], n], ["and", a[0], a[1]], ["and", a[0], a[2]], ["xor", n + 2, n + 3]]),
    ("neg-xor", 2, lambda a, n: [["not", a[0]], ["xor", a[0], a[1]], ["xor", n + 1, n]]),
    ("neg-and", 2, lambda a, n: [["not", a[0]], ["and", a[0], a[1]], ["and", n + 1, n]]),
    ("double-neg", 1, lambda a, n: [["not", a[0]], ["not", n], ["xor", n, a[0]], ["and", n, a[0]]]),
    ("and-absorb", 2, lambda a, n: [["and", a[0], a[1]], ["and", n, a[0]], ["and", a[1], n]]),
    ("and-and-shared", 3, lambda a, n: [["and", a[0], a[1]], ["and", a[0], a[2]], ["and", n, n + 1]]),
    ("and-distribute", 3, lambda a, n: [["and", a[0], a[2]], ["and", a[1], a[2]], ["xor", a[0], a[1]], ["and", n + 2, a[2]], ["and", a[2], n + 2]]),
    ("repeat", 2, lambda a, n: [["xor", a[0], a[1]], ["xor", a[1], a[0]], ["and", a[0], a[1]], ["and", a[1], a[0]]]),
    ("mux-same", 2, lambda a, n: [["mux", a[0], a[1], a[1]], ["mux", a[0], a[1], a[0]]]),
    ("or-eq", 2, lambda a, n: [["or", a[0], a[1]], ["eq", a[0], a[1]], ["or", n, n + 1]]),
    ("adder", 3, lambda a, n: [["adder", a[0], a[1], a[2]], ["adder", n, n + 1, a[0]]]),
    ("const", 1, lambda a, n: [["xor", a[0], 0], ["xor", 1, a[0]], ["and", a[0], 1], ["and", 0, a[0]], ["xor", a[0], a[0]], ["and", a[0], a[0]]]),
]

NRES = {"xor": 1, "and": 1, "or": 1, "eq": 1, "not": 1, "mux": 1, "adder": 2}


def random_seq(rng, ninputs, length, stats=None):
    nres = ninputs + 2
    reqs = []

    def pick():
        r = rng.random()
        if r < 0.55 and nres > ninputs + 2:
            return rng.randrange(max(ninputs + 2, nres - 8), nres)
        if r < 0.85:
            return rng.randrange(2, ninputs + 2) if ninputs else rng.randrange(0, 2)
        if r < 0.93:
            return rng.randrange(0, 2)
        return rng.randrange(0, nres)

    while len(reqs) < length:
        if rng.random() < 0.35:
            name, k, mk = rng.choice(TEMPLATES)
            new = mk([pick() for _ in range(k)], nres)
            if stats is not None:
                stats[name] = stats.get(name, 0) + 1
        else:
            op = rng.choice(["xor", "xor", "and", "and", "not", "or", "eq", "mux", "adder"])
            if op == "not":
                new = [[op, pick()]]
            elif op in ("mux", "adder"):
                new = [[op, pick(), pick(), pick()]]
            else:
                new = [[op, pick(), pick()]]
            if stats is not None:
                stats[op] = stats.get(op, 0) + 1
        for r in new:
            reqs.append(r)
            nres += NRES[r[0]]
    return reqs, nres
