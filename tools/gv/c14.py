"""C14 — no shared mutable state: copies are independent, control flow merges variables right."""
from . import c01

PROP_MODULES = ["GarbleVerif.Props.C14"]

RULE = ("programs made of statements only (let / let mut, copies of arrays, tuples and structs, assignment to variables, "
        "elements and fields, compound assignment, shadowing in nested scopes, mutable parameters changed by callees, "
        "if / match / for statements that assign on some paths only) whose `main` returns the tuple of ALL variables "
        "visible at its end, so every effect on every variable is part of the output; compiled by /repo (SSA / register, "
        "with / without de-duplication) and compared with the Lean source semantics on 6 argument tuples each. "
        "non-trivial = runs that complete with a value")


def run(ctx):
    n = 1500 if ctx.tier == "quick" else 30000
    return c01.explore(ctx, PROP_MODULES, n, {"observe_all": True}, RULE,
                       ["programs of nesting depth <= 3, arrays of at most 4 elements"], prefix="c14")


def replay(ctx, path):
    return c01.replay(ctx, path, PROP_MODULES)
