"""C17 — ill-typed programs are rejected: every static rule violation is a type error."""
import json
import random

from . import c01, common, gen_prog
from .common import Failure

PROP_MODULES = ["GarbleVerif.Props.C17"]

# definitions every mutated program gets (all of them used by `main` through the inserted prelude)
DEFS = """struct S17 { a: u8, b: bool }
enum E17 { A, B(u8), C(u8, bool) }
fn h17(a: u8, b: bool) -> u8 { if b { a } else { 0u8 } }
const N17: usize = 2usize;
"""
PRELUDE = ("let w17a = 3u8; let w17b = 7u16; let w17t = true; let w17s = S17 { a: w17a, b: w17t }; let w17e = E17::B(w17a); "
           "let w17p = (w17a, w17t); let w17arr = [w17a, 5u8]; let mut w17m = h17(w17a, w17t); let w17i = 1i8; "
           # untyped numbers bound by `let mut` are i32 (data_types.md)
           "let mut w17u = 7; let mut w17ua = [7, 8]; let mut w17ur = [7; 2]; let mut w17uc = [7; N17]; let mut w17ut = (7, true); "
           "let w17j: i32 = w17u + w17ua[0usize] + w17ur[1usize] + w17uc[0usize] + w17ut.0;")

# (rule, statement inserted into main | extra top-level text). `{}`-free plain text.
STATEMENTS = [
    ("operand-types", "let bad = w17a + w17b;"),
    ("operand-types", "let bad = w17a * w17i;"),
    ("operand-types", "let bad = w17t + w17a;"),
    ("operand-types", "let bad = w17a & w17t;"),
    ("operand-types", "let bad = w17a == w17b;"),
    ("operand-types", "let bad = w17a < w17i;"),
    ("operand-types", "let bad = w17s == w17p;"),
    ("operand-types", "let bad = w17t && w17a;"),
    ("operand-types", "let bad = w17a || w17t;"),
    ("operand-types", "let bad = w17a << w17b;"),
    ("operand-types", "let bad = !w17s;"),
    ("operand-types", "let bad = -w17t;"),
    ("operand-types", "let bad = -w17a;"),
    ("operand-types", "let bad = w17s as u8;"),
    ("operand-types", "let bad = w17a as S17;"),
    ("operand-types", "w17m += w17b;"),
    ("operand-types", "w17m = w17t;"),
    ("operand-types", "let bad: u16 = w17a;"),
    ("operand-types", "let bad: bool = w17a;"),
    ("operand-types", "let bad = [w17a, w17b];"),
    ("operand-types", "let bad = w17arr[w17a];"),
    ("operand-types", "let bad = w17arr[w17t];"),
    ("operand-types", "let bad = w17a[0usize];"),
    ("operand-types", "let bad = w17p.2;"),
    ("operand-types", "let bad = w17a.0;"),
    ("operand-types", "let mut bad = [w17a, 1u8]; bad[0usize] = w17t;"),
    ("untyped-let-mut", "let bad = w17u + w17a;"),
    ("untyped-let-mut", "let bad: i64 = w17u;"),
    ("untyped-let-mut", "let bad = w17ua[0usize] + w17a;"),
    ("untyped-let-mut", "let bad: [u8; 2] = w17ua;"),
    ("untyped-let-mut", "let bad = w17ur[0usize] + w17b;"),
    ("untyped-let-mut", "let bad: [i64; 2] = w17ur;"),
    ("untyped-let-mut", "let bad = w17uc[0usize] + w17a;"),
    ("untyped-let-mut", "let bad: [u8; N17] = w17uc;"),
    ("untyped-let-mut", "w17uc[0usize] = w17a;"),
    ("untyped-let-mut", "let bad = w17ut.0 + w17a;"),
    ("untyped-let-mut", "let bad = h17(w17u, w17t);"),
    ("argument-types", "let bad = h17(w17t, w17t);"),
    ("argument-types", "let bad = h17(w17a, w17a);"),
    ("argument-types", "let bad = h17(w17b, w17t);"),
    ("argument-count", "let bad = h17(w17a);"),
    ("argument-count", "let bad = h17(w17a, w17t, w17a);"),
    ("argument-count", "let bad = h17();"),
    ("field-count", "let bad = S17 { a: w17a };"),
    ("field-count", "let bad = S17 { a: w17a, b: w17t, c: w17a };"),
    ("field-count", "let bad = S17 { b: w17t };"),
    ("field-types", "let bad = S17 { a: w17t, b: w17t };"),
    ("field-count", "let bad = E17::B();"),
    ("field-count", "let bad = E17::B(w17a, w17a);"),
    ("field-count", "let bad = E17::A(w17a);"),
    ("field-count", "let bad = E17::C;"),
    ("field-types", "let bad = E17::C(w17t, w17a);"),
    ("field-count", "let (x17, y17) = (w17a, w17a, w17a);"),
    ("field-count", "let (x17, y17, z17) = w17p;"),
    ("field-count", "let S17 { a: x17 } = w17s;"),
    ("field-count", "let bad = match w17e { E17::A => 1u8, E17::B(x17, y17) => 2u8, E17::C(x17, y17) => 3u8 };"),
    ("field-count", "let bad = match w17e { E17::A => 1u8, E17::B(x17) => 2u8, E17::C(x17) => 3u8 };"),
    ("branch-types", "let bad = if w17t { w17a } else { w17b };"),
    ("branch-types", "let bad = if w17t { w17a } else { w17t };"),
    ("branch-types", "let bad = if w17t { w17s } else { w17p };"),
    ("branch-types", "let bad = match w17a { 0u8 => w17a, _ => w17t };"),
    ("branch-types", "let bad = match w17t { true => w17a, false => w17b };"),
    ("branch-types", "let bad = match w17e { E17::A => 1u8, E17::B(x17) => x17, E17::C(x17, y17) => y17 };"),
    ("branch-types", "let bad = match w17a { 0u8 => w17t, _ => w17a };"),
    ("branch-types", "let bad = match w17t { true => w17a, false => w17a < 3u8 };"),
    ("branch-types", "let bad = match w17t { true => w17a, false => w17t && w17t };"),
    ("branch-types", "let bad = match w17a { 0u8 => w17p, _ => w17s };"),
    ("branch-types", "let bad = match w17a { 0u8 => w17arr, 1u8 => w17arr, _ => w17a };"),
    ("branch-types", "let bad = match w17a { 0u8 => w17e, _ => w17t };"),
    ("branch-types", "let bad = match w17a { 0u8 => (w17a, w17t), _ => (w17t, w17a) };"),
    ("condition", "let bad = if w17a { 1u8 } else { 2u8 };"),
    ("condition", "let bad = if w17s { 1u8 } else { 2u8 };"),
    ("condition", "if w17i { w17m = 1u8; } else { w17m = 2u8; }"),
    ("unknown-identifier", "let bad = nowhere17;"),
    ("unknown-identifier", "let bad = nowhere17 + w17a;"),
    ("unknown-identifier", "nowhere17 = w17a;"),
    ("unknown-identifier", "let bad = { let inner17 = w17a; inner17 }; let bad2 = inner17;"),
    ("unknown-identifier", "if w17t { let inner17 = w17a; } else { () } let bad = inner17;"),
    ("unknown-identifier", "for inner17 in w17arr { w17m = inner17; } let bad = inner17;"),
    ("unknown-identifier", "let bad = match w17e { E17::B(inner17) => inner17, _ => 0u8 } + inner17;"),
    ("unknown-identifier", "let bad = match w17e { E17::B(inner17) => inner17, _ => inner17 };"),
    ("unknown-identifier", "let bad = match w17e { E17::C(inner17, other17) => inner17, E17::B(x17) => other17, _ => 0u8 };"),
    ("unknown-identifier", "let bad = match w17p { (inner17, true) => inner17, _ => inner17 };"),
    ("branch-types", "let bad = match w17e { E17::C(w17a, other17) => other17, E17::B(x17) => w17a, _ => 0u8 };"),
    ("unknown-identifier", "let bad = w17s.nofield;"),
    ("unknown-identifier", "let bad = E17::Nowhere;"),
    ("unknown-identifier", "let bad = E17::Nowhere(w17a);"),
    ("unknown-identifier", "let bad = Nowhere17::A;"),
    ("unknown-identifier", "let bad = Nowhere17 { a: w17a };"),
    ("unknown-identifier", "let bad = S17 { a: w17a, nofield: w17t };"),
    ("unknown-identifier", "let bad = nofn17(w17a);"),
    ("unknown-identifier", "let bad = match w17e { E17::Nowhere => 1u8, _ => 2u8 };"),
    ("unknown-identifier", "let bad = match w17s { S17 { nofield: x17, .. } => 1u8, _ => 2u8 };"),
    ("unknown-identifier", "let bad: Nowhere17 = w17a;"),
    ("immutable-assignment", "w17a = 4u8;"),
    ("immutable-assignment", "w17a += 4u8;"),
    ("immutable-assignment", "w17arr[0usize] = 4u8;"),
    ("immutable-assignment", "let imm17 = w17a; if w17t { imm17 = 9u8; } else { () }"),
    ("immutable-assignment", "for inner17 in w17arr { inner17 = 1u8; }"),
    ("refutable-pattern", "let 5u8 = w17a;"),
    ("refutable-pattern", "let (true, x17) = (w17t, w17a);"),
    ("refutable-pattern", "let (x17, true) = w17p;"),
    ("refutable-pattern", "let E17::B(x17) = w17e;"),
    ("refutable-pattern", "let S17 { a: 0u8..=9u8, .. } = w17s;"),
    ("refutable-pattern", "let 0u8..=254u8 = w17a;"),
    ("refutable-pattern", "for 1u8 in w17arr { w17m = 0u8; }"),
    ("refutable-pattern", "for (0u8, y17) in [w17p] { w17m = 0u8; }"),
    ("refutable-pattern", "for E17::B(x17) in [w17e] { w17m = x17; }"),
    ("pattern-types", "let bad = match w17a { true => 1u8, _ => 2u8 };"),
    ("pattern-types", "let bad = match w17t { 0u8 => 1u8, _ => 2u8 };"),
    ("pattern-types", "let bad = match w17a { (x17, y17) => 1u8 };"),
    ("pattern-types", "let bad = match w17p { S17 { a: x17, b: y17 } => 1u8 };"),
    ("pattern-types", "let bad = match w17a { 0u16 => 1u8, _ => 2u8 };"),
    ("pattern-types", "let bad = match w17a { -1i8 => 1u8, _ => 2u8 };"),
    ("non-exhaustive", "let bad = match w17a { 0u8 => 1u8, 2u8..=255u8 => 2u8 };"),
    ("non-exhaustive", "let bad = match w17e { E17::A => 1u8, E17::B(x17) => x17 };"),
    ("loop-types", "for x17 in w17a { w17m = 1u8; }"),
    ("loop-types", "for x17 in w17p { w17m = 1u8; }"),
    ("loop-types", "for x17 in join_iter(w17arr, w17arr) { w17m = 1u8; }"),
    ("loop-types", "for x17 in join_iter([(w17a, w17t)], [(w17b, w17t)]) { w17m = 1u8; }"),
]
# rule violations outside `main`
TOPLEVEL = [
    ("recursion", "fn r17(x: u8) -> u8 { r17(x) }", "let bad = r17(w17a);"),
    ("recursion", "fn r17(x: u8) -> u8 { if x == 0u8 { 0u8 } else { r17(x - 1u8) } }", "let bad = r17(w17a);"),
    ("recursion", "fn ra17(x: u8) -> u8 { rb17(x) }\nfn rb17(x: u8) -> u8 { ra17(x) }", "let bad = ra17(w17a);"),
    ("recursion", "fn ra17(x: u8) -> u8 { rb17(x) }\nfn rb17(x: u8) -> u8 { rc17(x) }\nfn rc17(x: u8) -> u8 { ra17(x) }", "let bad = ra17(w17a);"),
    ("unused-function", "fn unused17(x: u8) -> u8 { x }", ""),
    ("unused-function", "fn ua17(x: u8) -> u8 { ub17(x) }\nfn ub17(x: u8) -> u8 { x }", ""),
    ("pub-without-parameters", "pub fn noparams17() -> u8 { 1u8 }", ""),
    ("pub-without-parameters", "pub fn noparams17() -> u8 { 1u8 }", "let bad = noparams17();"),
    ("pub-without-parameters", "pub fn noparams17() -> u8 { 1u8 }\nfn via17(x: u8) -> u8 { x ^ noparams17() }", "let bad = via17(w17a);"),
    ("pub-without-parameters", "pub fn noparams17() -> u8 { 1u8 }\npub fn other17(x: u8) -> u8 { x ^ noparams17() }", ""),
    ("pub-without-parameters", "pub fn noparams17() -> u8 { via17(1u8) }\nfn via17(x: u8) -> u8 { x }", "let bad = via17(w17a);"),
    ("unused-function", "fn unused17() -> u8 { 1u8 }", ""),
    ("unused-function", "pub fn noparams17() -> u8 { unused17(1u8) }\nfn unused17(x: u8) -> u8 { x }", ""),
    ("recursion", "fn r17(x: u8) -> u8 { let y = if x == 0u8 { 0u8 } else { r17(0u8) }; y }", "let bad = r17(w17a);"),
    ("recursion", "pub fn r17(x: u8) -> u8 { r17(x) }", ""),
    ("return-type", "fn q17(x: u8) -> u16 { x }", "let bad = q17(w17a);"),
    ("return-type", "fn q17(x: u8) -> bool { x }", "let bad = q17(w17a);"),
    ("return-type", "fn q17(x: u8) -> u8 { let y = x; }", "let bad = q17(w17a);"),
    ("return-type", "fn q17(x: u8) -> (u8, u8) { (x, x, x) }", "let bad = q17(w17a);"),
    ("immutable-assignment", "fn q17(x: u8) -> u8 { x = 1u8; x }", "let bad = q17(w17a);"),
    ("duplicate-parameter", "fn q17(x: u8, x: u8) -> u8 { x }", "let bad = q17(w17a, w17a);"),
    ("unknown-identifier", "fn q17(x: Nowhere17) -> u8 { 1u8 }", "let bad = 1u8;"),
    ("unknown-identifier", "struct Q17 { f: Nowhere17 }", "let bad = 1u8;"),
    ("operand-types", "const K17: u8 = 5u16;", "let bad = K17;"),
    ("operand-types", "const K17: bool = 5u8;", "let bad = K17;"),
]


def mutate(rng, p, rule, stmt, top):
    """inserts the prelude and the ill-typed statement at a random top-level position of `main`"""
    src = p["src"]
    head, sep, rest = src.partition("pub fn main(")
    sig, brace, body = rest.partition(") -> ")
    ret_and_body = body
    ret, _, body = ret_and_body.partition(" {\n    ")
    lines = body.split("\n    ")
    # the body of main ends at the first line that starts with `}` at column 0
    out = []
    k = rng.randrange(0, max(1, len([l for l in lines if not l.startswith("}")])))
    inserted = False
    for i, l in enumerate(lines):
        if i == k and not inserted:
            out.append(PRELUDE + " " + stmt + " let used17 = (w17b, w17s, w17e, w17p, w17arr, w17m, w17i, w17j);")
            inserted = True
        out.append(l)
    return DEFS + head + (top + "\n" if top else "") + sep + sig + brace + ret + " {\n    " + "\n    ".join(out)


def run(ctx):
    quick = ctx.tier == "quick"
    ctx.audit(PROP_MODULES)
    failures = ctx.proof_failures()
    ok, log = ctx.build_harness()
    if not ok:
        failures.append(Failure("model", "harness-build-failed", "cargo build of the harness failed: " + log[-400:]))
        return common.finish(ctx, failures, {"evaluations": 0, "distinct_nontrivial": 0, "samples": []}, [], "proof")
    n_bases = 12 if quick else 200
    cases = []
    for b in range(n_bases):
        seed = ctx.rng.randrange(1 << 48)
        rng = random.Random(seed)
        p = gen_prog.ProgGen(rng, max_depth=2, features={"match", "loops", "structs", "assign", "helpers"}).program()
        # control: the prelude alone keeps the program well-typed
        cases.append({"id": len(cases), "op": "frontend", "rule": "control", "seed": seed, "src": mutate(rng, p, "control", "", "")})
        for rule, stmt in STATEMENTS:
            cases.append({"id": len(cases), "op": "frontend", "rule": rule, "stmt": stmt, "seed": seed, "src": mutate(rng, p, rule, stmt, "")})
        for rule, top, stmt in TOPLEVEL:
            cases.append({"id": len(cases), "op": "frontend", "rule": rule, "stmt": top + " | " + stmt, "seed": seed, "src": mutate(rng, p, rule, stmt, top)})
    res = common.run_lines_guarded(common.GVH, cases, per_case_timeout=20.0)
    by_rule = {}
    outcomes = {}
    for c in cases:
        r = res.get(c["id"]) or {}
        o = "hang" if r.get("hang") else ("died" if "died" in r else r.get("outcome", "?").split("@")[0])
        outcomes[o] = outcomes.get(o, 0) + 1
        by_rule.setdefault(c["rule"], {}).setdefault(o, 0)
        by_rule[c["rule"]][o] += 1
        sub = {"op": "frontend", "src": c["src"], "rule": c["rule"], "stmt": c.get("stmt")}
        if c["rule"] == "control":
            if o != "ok":
                failures.append(Failure("model", "c17:control-program-rejected", f"the well-typed control program is rejected ({o})", sub, "ok", r))
            continue
        if o == "ok":
            failures.append(Failure("oracle", f"c17:accepted:{c['rule']}:{c['stmt'][:50]}", f"a program that violates the rule `{c['rule']}` ({c['stmt']}) is accepted and compiled", sub, "type error", "accepted"))
        elif o == "compile":
            failures.append(Failure("oracle", f"c17:passes-type-check:{c['rule']}:{c['stmt'][:50]}", f"a program that violates the rule `{c['rule']}` ({c['stmt']}) passes the type checker (rejected only by the compiler)", sub, "type error", o))
        elif o in ("panic", "hang", "died"):
            failures.append(Failure("oracle", f"c17:{o}:{c['rule']}:{c['stmt'][:50]}", f"an ill-typed program ({c['stmt']}) makes the front end {o}: {r.get('outcome', '')[:200]}", sub, "type error", r))
        elif o in ("scan", "parse"):
            failures.append(Failure("model", f"c17:mutant-not-parsed:{c['stmt'][:50]}", f"the mutant does not parse ({c['stmt']})", sub, "type error", o))
    seen, uniq = set(), []
    for f in failures:
        if f.signature not in seen:
            seen.add(f.signature); uniq.append(f)
    coverage = {
        "evaluations": len(cases),
        "distinct_nontrivial": sum(v.get("type", 0) for k, v in by_rule.items() if k != "control"),
        "rule": f"{n_bases} generated well-typed programs; into each, at a random top-level position of main, a fixed prelude of "
                f"typed bindings plus ONE statement that breaks one static rule is inserted ({len(STATEMENTS)} statements: operand / "
                f"argument / field / branch / pattern types, non-Boolean conditions, unknown and out-of-scope identifiers, fields, "
                f"variants, functions, assignment to immutable bindings, wrong argument / field counts, refutable patterns in let / "
                f"for, non-exhaustive matches, loops over non-arrays) or one top-level item ({len(TOPLEVEL)}: direct / mutual "
                f"recursion, unused private functions, pub fn without parameters, wrong return types, duplicate parameters, unknown "
                f"types, mistyped constants). Every mutant must be rejected with a type error; the prelude alone must be accepted. "
                f"non-trivial = mutants rejected with a type error",
        "distribution": {"outcomes": outcomes, "by_rule": by_rule},
        "samples": [{"src": cases[1]["src"][:600]}],
    }
    return common.finish(ctx, uniq, coverage, ["one violation per program; violations are drawn from a fixed list of statement shapes"], "proof", search=None)
