"""C17 — ill-typed programs are rejected: every static rule violation is a type error."""
import json
import random

from . import c01, common, gen_prog, mutants
from . import gen_types as T
from .common import Failure

PROP_MODULES = ["GarbleVerif.Props.C17", "GarbleVerif.Props.C17Typed"]

# definitions every mutated program gets (all of them used by `main` through the inserted prelude)
DEFS = """struct S17 { a: u8, b: bool }
enum E17 { A, B(u8), C(u8, bool) }
fn h17(a: u8, b: bool) -> u8 { if b { a } else { 0u8 } }
const N17: usize = 2usize;
"""
PRELUDE = ("let w17a = 3u8; let w17b = 7u16; let w17t = true; let w17s = S17 { a: w17a, b: w17t }; let w17e = E17::B(w17a); "
           "let w17p = (w17a, w17t); let w17arr = [w17a, 5u8]; let mut w17m = h17(w17a, w17t); let w17i = 1i8; "
           # untyped numbers bound by `let mut` are i32 (data_types.md)
           "let mut w17u = 7; let mut w17ua = [7, 8]; let mut w17ur = [7; 2]; let mut w17uc = [7; N17]; let mut w17ut = (7, true); "
           "let w17j: i32 = w17u + w17ua[0usize] + w17ur[1usize] + w17uc[0usize] + w17ut.0;")

# (rule, statement inserted into main | extra top-level text). `{}`-free plain text.
STATEMENTS = [
    ("operand-types", "let bad = w17a + w17b;"),
    ("operand-types", "let bad = w17a * w17i;"),
    ("operand-types", "let bad = w17t + w17a;"),
    ("operand-types", "let bad = w17a & w17t;"),
    ("operand-types", "let bad = w17a == w17b;"),
    ("operand-types", "let bad = w17a < w17i;"),
    ("operand-types", "let bad = w17s == w17p;"),
    ("operand-types", "let bad = w17t && w17a;"),
    ("operand-types", "let bad = w17a || w17t;"),
    ("operand-types", "let bad = w17a << w17b;"),
    ("operand-types", "let bad = !w17s;"),
    ("operand-types", "let bad = -w17t;"),
    ("operand-types", "let bad = -w17a;"),
    ("operand-types", "let bad = w17s as u8;"),
    ("operand-types", "let bad = w17a as S17;"),
    ("operand-types", "w17m += w17b;"),
    ("operand-types", "w17m = w17t;"),
    ("operand-types", "let bad: u16 = w17a;"),
    ("operand-types", "let bad: bool = w17a;"),
    ("operand-types", "let bad = [w17a, w17b];"),
    # a number without a suffix next to values that are not numbers
    ("operand-types", "let bad = [1, w17t, false];"),
    ("operand-types", "let bad = [-1, w17p];"),
    ("operand-types", "let bad = [w17t, 1];"),
    ("operand-types", "let bad = [1, w17s];"),
    ("operand-types", "let bad = 1 == w17t;"),
    ("operand-types", "let bad = w17t & 1;"),
    ("operand-types", "let bad = 1 | w17t;"),
    ("operand-types", "let bad = w17p == (1, 2);"),
    ("branch-types", "let bad = if w17t { 1 } else { w17t };"),
    ("branch-types", "let bad = match w17a { 0u8 => 1, _ => w17t };"),
    ("argument-types", "let bad = h17(1, 2);"),
    ("field-types", "let bad = S17 { a: 1, b: 2 };"),
    ("field-types", "let bad = E17::C(1, 2);"),
    ("operand-types", "let bad = w17arr[w17a];"),
    ("operand-types", "let bad = w17arr[w17t];"),
    ("operand-types", "let bad = w17a[0usize];"),
    ("operand-types", "let bad = w17p.2;"),
    ("operand-types", "let bad = w17a.0;"),
    ("operand-types", "let mut bad = [w17a, 1u8]; bad[0usize] = w17t;"),
    ("untyped-let-mut", "let bad = w17u + w17a;"),
    ("untyped-let-mut", "let bad: i64 = w17u;"),
    ("untyped-let-mut", "let bad = w17ua[0usize] + w17a;"),
    ("untyped-let-mut", "let bad: [u8; 2] = w17ua;"),
    ("untyped-let-mut", "let bad = w17ur[0usize] + w17b;"),
    ("untyped-let-mut", "let bad: [i64; 2] = w17ur;"),
    ("untyped-let-mut", "let bad = w17uc[0usize] + w17a;"),
    ("untyped-let-mut", "let bad: [u8; N17] = w17uc;"),
    ("untyped-let-mut", "w17uc[0usize] = w17a;"),
    ("untyped-let-mut", "let bad = w17ut.0 + w17a;"),
    ("untyped-let-mut", "let bad = h17(w17u, w17t);"),
    ("argument-types", "let bad = h17(w17t, w17t);"),
    ("argument-types", "let bad = h17(w17a, w17a);"),
    ("argument-types", "let bad = h17(w17b, w17t);"),
    ("argument-count", "let bad = h17(w17a);"),
    ("argument-count", "let bad = h17(w17a, w17t, w17a);"),
    ("argument-count", "let bad = h17();"),
    ("field-count", "let bad = S17 { a: w17a };"),
    ("field-count", "let bad = S17 { a: w17a, b: w17t, c: w17a };"),
    ("field-count", "let bad = S17 { b: w17t };"),
    ("field-count", "let bad = S17 { a: w17a, a: w17a };"),
    ("field-count", "let bad = S17 { b: w17t, b: w17t };"),
    ("field-types", "let bad = S17 { a: w17t, b: w17t };"),
    ("field-count", "let bad = E17::B();"),
    ("field-count", "let bad = E17::B(w17a, w17a);"),
    ("field-count", "let bad = E17::A(w17a);"),
    ("field-count", "let bad = E17::C;"),
    ("field-types", "let bad = E17::C(w17t, w17a);"),
    ("field-count", "let (x17, y17) = (w17a, w17a, w17a);"),
    ("field-count", "let (x17, y17, z17) = w17p;"),
    ("field-count", "let S17 { a: x17 } = w17s;"),
    ("field-count", "let bad = match w17e { E17::A => 1u8, E17::B(x17, y17) => 2u8, E17::C(x17, y17) => 3u8 };"),
    ("field-count", "let bad = match w17e { E17::A => 1u8, E17::B(x17) => 2u8, E17::C(x17) => 3u8 };"),
    ("branch-types", "let bad = if w17t { w17a } else { w17b };"),
    ("branch-types", "let bad = if w17t { w17a } else { w17t };"),
    ("branch-types", "let bad = if w17t { w17s } else { w17p };"),
    ("branch-types", "let bad = match w17a { 0u8 => w17a, _ => w17t };"),
    ("branch-types", "let bad = match w17t { true => w17a, false => w17b };"),
    ("branch-types", "let bad = match w17e { E17::A => 1u8, E17::B(x17) => x17, E17::C(x17, y17) => y17 };"),
    ("branch-types", "let bad = match w17a { 0u8 => w17t, _ => w17a };"),
    ("branch-types", "let bad = match w17t { true => w17a, false => w17a < 3u8 };"),
    ("branch-types", "let bad = match w17t { true => w17a, false => w17t && w17t };"),
    ("branch-types", "let bad = match w17a { 0u8 => w17p, _ => w17s };"),
    ("branch-types", "let bad = match w17a { 0u8 => w17arr, 1u8 => w17arr, _ => w17a };"),
    ("branch-types", "let bad = match w17a { 0u8 => w17e, _ => w17t };"),
    ("branch-types", "let bad = match w17a { 0u8 => (w17a, w17t), _ => (w17t, w17a) };"),
    ("condition", "let bad = if w17a { 1u8 } else { 2u8 };"),
    ("condition", "let bad = if w17s { 1u8 } else { 2u8 };"),
    ("condition", "if w17i { w17m = 1u8; } else { w17m = 2u8; }"),
    ("unknown-identifier", "let bad = nowhere17;"),
    ("unknown-identifier", "let bad = nowhere17 + w17a;"),
    ("unknown-identifier", "nowhere17 = w17a;"),
    ("unknown-identifier", "let bad = { let inner17 = w17a; inner17 }; let bad2 = inner17;"),
    ("unknown-identifier", "if w17t { let inner17 = w17a; } else { () } let bad = inner17;"),
    ("unknown-identifier", "for inner17 in w17arr { w17m = inner17; } let bad = inner17;"),
    ("unknown-identifier", "let bad = match w17e { E17::B(inner17) => inner17, _ => 0u8 } + inner17;"),
    ("unknown-identifier", "let bad = match w17e { E17::B(inner17) => inner17, _ => inner17 };"),
    ("unknown-identifier", "let bad = match w17e { E17::C(inner17, other17) => inner17, E17::B(x17) => other17, _ => 0u8 };"),
    ("unknown-identifier", "let bad = match w17p { (inner17, true) => inner17, _ => inner17 };"),
    ("branch-types", "let bad = match w17e { E17::C(w17a, other17) => other17, E17::B(x17) => w17a, _ => 0u8 };"),
    ("unknown-identifier", "let bad = w17s.nofield;"),
    ("unknown-identifier", "let bad = E17::Nowhere;"),
    ("unknown-identifier", "let bad = E17::Nowhere(w17a);"),
    ("unknown-identifier", "let bad = Nowhere17::A;"),
    ("unknown-identifier", "let bad = Nowhere17 { a: w17a };"),
    ("unknown-identifier", "let bad = S17 { a: w17a, nofield: w17t };"),
    ("unknown-identifier", "let bad = nofn17(w17a);"),
    ("unknown-identifier", "let bad = match w17e { E17::Nowhere => 1u8, _ => 2u8 };"),
    ("unknown-identifier", "let bad = match w17s { S17 { nofield: x17, .. } => 1u8, _ => 2u8 };"),
    ("unknown-identifier", "let bad: Nowhere17 = w17a;"),
    ("immutable-assignment", "w17a = 4u8;"),
    ("immutable-assignment", "w17a += 4u8;"),
    ("immutable-assignment", "w17arr[0usize] = 4u8;"),
    ("immutable-assignment", "let imm17 = w17a; if w17t { imm17 = 9u8; } else { () }"),
    ("immutable-assignment", "for inner17 in w17arr { inner17 = 1u8; }"),
    ("refutable-pattern", "let 5u8 = w17a;"),
    ("refutable-pattern", "let (true, x17) = (w17t, w17a);"),
    ("refutable-pattern", "let (x17, true) = w17p;"),
    ("refutable-pattern", "let E17::B(x17) = w17e;"),
    ("refutable-pattern", "let S17 { a: 0u8..=9u8, .. } = w17s;"),
    # a refutable part AFTER a struct pattern (the columns that follow a struct pattern must not be dropped)
    ("refutable-pattern", "let (S17 { a: x17, b: y17 }, 1u8) = (w17s, w17a);"),
    ("refutable-pattern", "let (S17 { a: x17, .. }, true, z17) = (w17s, w17t, w17a);"),
    ("refutable-pattern", "let ((x17, S17 { a: y17, b: z17 }), E17::B(v17)) = ((w17a, w17s), w17e);"),
    ("refutable-pattern", "for (S17 { a: x17, b: y17 }, 0u8) in [(w17s, w17a)] { w17m = x17; }"),
    ("refutable-pattern", "let 0u8..=254u8 = w17a;"),
    ("refutable-pattern", "for 1u8 in w17arr { w17m = 0u8; }"),
    ("refutable-pattern", "for (0u8, y17) in [w17p] { w17m = 0u8; }"),
    ("refutable-pattern", "for E17::B(x17) in [w17e] { w17m = x17; }"),
    # ... also in the pair pattern of a loop over join_iter, in either row and at any depth
    ("refutable-pattern", "for ((0u8, y17), (_, z17)) in join_iter([(w17a, w17t)], [(w17a, w17b)]) { w17m = 0u8; }"),
    ("refutable-pattern", "for ((_, true), (_, z17)) in join_iter([(w17a, w17t)], [(w17a, w17b)]) { w17m = 0u8; }"),
    ("refutable-pattern", "for ((_, y17), (1u8..=9u8, z17)) in join_iter([(w17a, w17t)], [(w17a, w17b)]) { w17m = 0u8; }"),
    ("refutable-pattern", "for ((_, E17::B(y17)), (_, z17)) in join_iter([(w17a, w17e)], [(w17a, w17b)]) { w17m = y17; }"),
    ("refutable-pattern", "for (x17, (0u8, z17)) in join_iter([(w17a, w17t)], [(w17a, w17b)]) { w17m = 0u8; }"),
    ("refutable-pattern", "for ((x17, y17), (_, z17, 7u16)) in join_iter([(w17a, w17t)], [(w17a, w17b, w17b)]) { w17m = x17; }"),
    ("pattern-types", "let bad = match w17a { true => 1u8, _ => 2u8 };"),
    ("pattern-types", "let bad = match w17t { 0u8 => 1u8, _ => 2u8 };"),
    ("pattern-types", "let bad = match w17a { (x17, y17) => 1u8 };"),
    ("pattern-types", "let bad = match w17p { S17 { a: x17, b: y17 } => 1u8 };"),
    ("pattern-types", "let bad = match w17a { 0u16 => 1u8, _ => 2u8 };"),
    ("pattern-types", "let bad = match w17a { -1i8 => 1u8, _ => 2u8 };"),
    ("non-exhaustive", "let bad = match w17a { 0u8 => 1u8, 2u8..=255u8 => 2u8 };"),
    ("non-exhaustive", "let bad = match w17e { E17::A => 1u8, E17::B(x17) => x17 };"),
    ("loop-types", "for x17 in w17a { w17m = 1u8; }"),
    ("loop-types", "for x17 in w17p { w17m = 1u8; }"),
    ("loop-types", "for x17 in join_iter(w17arr, w17arr) { w17m = 1u8; }"),
    ("loop-types", "for x17 in join_iter([(w17a, w17t)], [(w17b, w17t)]) { w17m = 1u8; }"),
]
# rule violations outside `main`
TOPLEVEL = [
    ("recursion", "fn r17(x: u8) -> u8 { r17(x) }", "let bad = r17(w17a);"),
    ("recursion", "fn r17(x: u8) -> u8 { if x == 0u8 { 0u8 } else { r17(x - 1u8) } }", "let bad = r17(w17a);"),
    ("recursion", "fn ra17(x: u8) -> u8 { rb17(x) }\nfn rb17(x: u8) -> u8 { ra17(x) }", "let bad = ra17(w17a);"),
    ("recursion", "fn ra17(x: u8) -> u8 { rb17(x) }\nfn rb17(x: u8) -> u8 { rc17(x) }\nfn rc17(x: u8) -> u8 { ra17(x) }", "let bad = ra17(w17a);"),
    ("unused-function", "fn unused17(x: u8) -> u8 { x }", ""),
    ("unused-function", "fn ua17(x: u8) -> u8 { ub17(x) }\nfn ub17(x: u8) -> u8 { x }", ""),
    ("pub-without-parameters", "pub fn noparams17() -> u8 { 1u8 }", ""),
    ("pub-without-parameters", "pub fn noparams17() -> u8 { 1u8 }", "let bad = noparams17();"),
    ("pub-without-parameters", "pub fn noparams17() -> u8 { 1u8 }\nfn via17(x: u8) -> u8 { x ^ noparams17() }", "let bad = via17(w17a);"),
    ("pub-without-parameters", "pub fn noparams17() -> u8 { 1u8 }\npub fn other17(x: u8) -> u8 { x ^ noparams17() }", ""),
    ("pub-without-parameters", "pub fn noparams17() -> u8 { via17(1u8) }\nfn via17(x: u8) -> u8 { x }", "let bad = via17(w17a);"),
    ("unused-function", "fn unused17() -> u8 { 1u8 }", ""),
    ("unused-function", "pub fn noparams17() -> u8 { unused17(1u8) }\nfn unused17(x: u8) -> u8 { x }", ""),
    ("recursion", "fn r17(x: u8) -> u8 { let y = if x == 0u8 { 0u8 } else { r17(0u8) }; y }", "let bad = r17(w17a);"),
    ("recursion", "pub fn r17(x: u8) -> u8 { r17(x) }", ""),
    ("return-type", "fn q17(x: u8) -> u16 { x }", "let bad = q17(w17a);"),
    ("return-type", "fn q17(x: u8) -> bool { x }", "let bad = q17(w17a);"),
    ("return-type", "fn q17(x: u8) -> u8 { let y = x; }", "let bad = q17(w17a);"),
    ("return-type", "fn q17(x: u8) -> (u8, u8) { (x, x, x) }", "let bad = q17(w17a);"),
    ("immutable-assignment", "fn q17(x: u8) -> u8 { x = 1u8; x }", "let bad = q17(w17a);"),
    ("duplicate-parameter", "fn q17(x: u8, x: u8) -> u8 { x }", "let bad = q17(w17a, w17a);"),
    ("unknown-identifier", "fn q17(x: Nowhere17) -> u8 { 1u8 }", "let bad = 1u8;"),
    ("unknown-identifier", "struct Q17 { f: Nowhere17 }", "let bad = 1u8;"),
    ("field-count", "struct Q17 { a: u8, a: u16 }", "let bad = 1u8;"),
    ("field-count", "struct Q17 { a: u8, b: bool, a: u8 }", "let bad = Q17 { a: w17a, b: w17t };"),
    ("operand-types", "const K17: u8 = 5u16;", "let bad = K17;"),
    # a constant may refer to constants declared before it only
    ("unknown-identifier", "const K17: u8 = L17;\nconst L17: u8 = 1u8;", "let bad = K17;"),
    ("unknown-identifier", "const K17: u8 = L17 + 1u8;\nconst L17: u8 = 1u8;", "let bad = K17 + L17;"),
    ("unknown-identifier", "const K17: u8 = K17;", "let bad = K17;"),
    ("unknown-identifier", "const K17: usize = max(M17, 2usize);\nconst M17: usize = 3usize;", "let bad = [w17a; K17];"),
    ("unknown-identifier", "const K17: u8 = Nowhere17;", "let bad = K17;"),
    ("operand-types", "const K17: bool = 5u8;", "let bad = K17;"),
]


def mutate(rng, p, rule, stmt, top):
    """inserts the prelude and the ill-typed statement at a random top-level position of `main`"""
    src = p["src"]
    head, sep, rest = src.partition("pub fn main(")
    sig, brace, body = rest.partition(") -> ")
    ret_and_body = body
    ret, _, body = ret_and_body.partition(" {\n    ")
    lines = body.split("\n    ")
    # the body of main ends at the first line that starts with `}` at column 0
    out = []
    k = rng.randrange(0, max(1, len([l for l in lines if not l.startswith("}")])))
    inserted = False
    for i, l in enumerate(lines):
        if i == k and not inserted:
            out.append(PRELUDE + " " + stmt + " let used17 = (w17b, w17s, w17e, w17p, w17arr, w17m, w17i, w17j);")
            inserted = True
        out.append(l)
    return DEFS + head + (top + "\n" if top else "") + sep + sig + brace + ret + " {\n    " + "\n    ".join(out)


def model_oracle_phase(ctx, n_bases):
    """mutants judged by the model: every program check.rs accepts must be typed by `Bit.progTyped` on the tree
    check.rs built for it (for programs inside the modelled language)"""
    fs = []
    cases = []
    for i in range(n_bases):
        seed = ctx.rng.randrange(1 << 48)
        feats = mutants.FEATS[i % len(mutants.FEATS)]
        base = c01.gen_case(seed, 0, 0, features=feats, depth=3)
        cases.append({"id": len(cases), "kind": "base", "src": base["src"], "seed": seed})
        m = mutants.swap_mutant(seed, feats)
        if m:
            cases.append({"id": len(cases), "kind": "type-swap", "src": m["src"], "seed": seed, "how": m["swapped"]})
        r2 = random.Random(seed ^ 0xabcdef)
        for _ in range(3):
            k, src = mutants.text_mutant(r2, base["src"])
            if src:
                cases.append({"id": len(cases), "kind": k, "src": src, "seed": seed})
    impl = common.run_lines_guarded(common.GVH, [{"id": c["id"], "op": "typed_ast", "src": c["src"]} for c in cases], per_case_timeout=20.0)
    judged = [c for c in cases if "prog" in (impl.get(c["id"]) or {})]
    mod, _, _ = ctx.run_model([{"id": c["id"], "op": "bit_check", "prog": impl[c["id"]]["prog"]} for c in judged], timeout=3000)
    tally = {}
    suspects = []
    for c in cases:
        r = impl.get(c["id"]) or {}
        o = "hang" if r.get("hang") else ("died" if "died" in r else r.get("outcome", "?").split("@")[0])
        sub = {"op": "typed_ast", "src": c["src"], "kind": c["kind"], "seed": c["seed"], "how": c.get("how")}
        if o in ("panic", "hang", "died"):
            fs.append(Failure("oracle", f"c17:model-oracle:{o}:{c['kind']}", f"a mutated program makes the front end {o}: {str(r.get('outcome'))[:200]}", sub, "accepted or rejected", r))
            continue
        outside = "outside" in r or bool(set(r.get("uses") or []) & mutants.OUTSIDE_MODEL)
        m = mod.get(c["id"]) or {}
        verdict = "outside-model" if (o == "ok" and outside) else ("typed" if m.get("typed") else ("ill" if "typed" in m else "-"))
        key = f"{'base' if c['kind'] == 'base' else 'mutant'}: check.rs={o} model={verdict}"
        tally[key] = tally.get(key, 0) + 1
        tally["kind:" + c["kind"]] = tally.get("kind:" + c["kind"], 0) + 1
        if c["kind"] == "base":
            if o != "ok":
                fs.append(Failure("oracle", "c17:model-oracle:base-rejected", f"a generated well-typed program is rejected ({o})", sub, "ok", r))
            elif verdict not in ("typed", "outside-model"):
                fs.append(Failure("model", "c17:model-oracle:base-not-typed", "the compiler model does not type the tree check.rs built for a generated program of the fragment", sub, "typed", m))
            continue
        if o == "ok" and verdict == "ill":
            suspects.append((c, r, m))
    # for the accepted programs the model rejects: look for an input on which the source semantics get stuck
    reqs = []
    for c, r, m in suspects:
        main = next((f for f in r["prog"]["fns"] if f["name"] == "main"), None)
        if main:
            try:
                args = [[T.rand_value(ctx.rng, t, 0.4) for _, t in main["params"]] for _ in range(6)]
                reqs.append({"id": c["id"], "op": "src_eval", "prog": r["prog"], "fn": "main",
                             "inputs": [[gen_prog.val_json(t, v) for (_, t), v in zip(main["params"], a)] for a in args]})
            except Exception:
                pass
    ev = ctx.run_model(reqs, timeout=3000)[0] if reqs else {}
    for c, r, m in suspects:
        sub = {"op": "typed_ast", "src": c["src"], "kind": c["kind"], "seed": c["seed"], "how": c.get("how")}
        stuck = None
        q = next((x for x in reqs if x["id"] == c["id"]), None)
        for inp, res in zip((q or {}).get("inputs", []), (ev.get(c["id"]) or {}).get("results", [])):
            if "stuck" in res:
                stuck = {"input": inp, "stuck": res["stuck"]}
                break
        fs.append(Failure("oracle", f"c17:model-oracle:accepted-ill-typed:{c['kind']}",
                          f"check.rs accepts a program ({c['kind']} mutant{', ' + ' -> '.join(c['how']) if c.get('how') else ''}) that the typing judgement of the compiler model "
                          f"rejects in function(s) {m.get('ill')}" + (f"; the source semantics get stuck ({stuck['stuck']}) on input {json.dumps(stuck['input'])[:200]}" if stuck else ""),
                          sub, "type error", {"outcome": "accepted", "ill": m.get("ill"), "stuck_on": stuck}))
    return fs, tally, len(cases)


def run(ctx):
    quick = ctx.tier == "quick"
    ctx.audit(PROP_MODULES)
    failures = ctx.proof_failures()
    ok, log = ctx.build_harness()
    if not ok:
        failures.append(Failure("model", "harness-build-failed", "cargo build of the harness failed: " + log[-400:]))
        return common.finish(ctx, failures, {"evaluations": 0, "distinct_nontrivial": 0, "samples": []}, [], "proof")
    n_bases = 12 if quick else 200
    cases = []
    for b in range(n_bases):
        seed = ctx.rng.randrange(1 << 48)
        rng = random.Random(seed)
        p = gen_prog.ProgGen(rng, max_depth=2, features={"match", "loops", "structs", "assign", "helpers"}).program()
        # control: the prelude alone keeps the program well-typed
        cases.append({"id": len(cases), "op": "frontend", "rule": "control", "seed": seed, "src": mutate(rng, p, "control", "", "")})
        for rule, stmt in STATEMENTS:
            cases.append({"id": len(cases), "op": "frontend", "rule": rule, "stmt": stmt, "seed": seed, "src": mutate(rng, p, rule, stmt, "")})
        for rule, top, stmt in TOPLEVEL:
            cases.append({"id": len(cases), "op": "frontend", "rule": rule, "stmt": top + " | " + stmt, "seed": seed, "src": mutate(rng, p, rule, stmt, top)})
    res = common.run_lines_guarded(common.GVH, cases, per_case_timeout=20.0)
    by_rule = {}
    outcomes = {}
    for c in cases:
        r = res.get(c["id"]) or {}
        o = "hang" if r.get("hang") else ("died" if "died" in r else r.get("outcome", "?").split("@")[0])
        outcomes[o] = outcomes.get(o, 0) + 1
        by_rule.setdefault(c["rule"], {}).setdefault(o, 0)
        by_rule[c["rule"]][o] += 1
        sub = {"op": "frontend", "src": c["src"], "rule": c["rule"], "stmt": c.get("stmt")}
        if c["rule"] == "control":
            if o != "ok":
                failures.append(Failure("model", "c17:control-program-rejected", f"the well-typed control program is rejected ({o})", sub, "ok", r))
            continue
        if o == "ok":
            failures.append(Failure("oracle", f"c17:accepted:{c['rule']}:{c['stmt'][:50]}", f"a program that violates the rule `{c['rule']}` ({c['stmt']}) is accepted and compiled", sub, "type error", "accepted"))
        elif o == "compile":
            failures.append(Failure("oracle", f"c17:passes-type-check:{c['rule']}:{c['stmt'][:50]}", f"a program that violates the rule `{c['rule']}` ({c['stmt']}) passes the type checker (rejected only by the compiler)", sub, "type error", o))
        elif o in ("panic", "hang", "died"):
            failures.append(Failure("oracle", f"c17:{o}:{c['rule']}:{c['stmt'][:50]}", f"an ill-typed program ({c['stmt']}) makes the front end {o}: {r.get('outcome', '')[:200]}", sub, "type error", r))
        elif o in ("scan", "parse"):
            failures.append(Failure("model", f"c17:mutant-not-parsed:{c['stmt'][:50]}", f"the mutant does not parse ({c['stmt']})", sub, "type error", o))
    mfs, mtally, n_oracle = model_oracle_phase(ctx, 150 if quick else 4000)
    failures += mfs
    seen, uniq = set(), []
    for f in failures:
        if f.signature not in seen:
            seen.add(f.signature); uniq.append(f)
    coverage = {
        "evaluations": len(cases) + n_oracle,
        "distinct_nontrivial": sum(v.get("type", 0) for k, v in by_rule.items() if k != "control"),
        "rule": f"{n_bases} generated well-typed programs; into each, at a random top-level position of main, a fixed prelude of "
                f"typed bindings plus ONE statement that breaks one static rule is inserted ({len(STATEMENTS)} statements: operand / "
                f"argument / field / branch / pattern types, non-Boolean conditions, unknown and out-of-scope identifiers, fields, "
                f"variants, functions, assignment to immutable bindings, wrong argument / field counts, refutable patterns in let / "
                f"for, non-exhaustive matches, loops over non-arrays) or one top-level item ({len(TOPLEVEL)}: direct / mutual "
                f"recursion, unused private functions, pub fn without parameters, wrong return types, duplicate parameters, unknown "
                f"types, mistyped constants). Every mutant must be rejected with a type error; the prelude alone must be accepted. "
                f"non-trivial = mutants rejected with a type error. Second stream (model as the oracle): programs of the modelled "
                f"fragment (12 feature mixes) and, per program, one type-swap mutant (one expression site generated with another "
                f"type than its context asks for) and three token mutants (an identifier replaced by another identifier of the "
                f"program or an unbound one, a number's suffix, a type annotation, a binary operator, a tuple index, a cast target, a "
                f"dropped `mut`); every text check.rs accepts is translated from check.rs' own typed tree (harness op typed_ast) and "
                f"must be typed by Bit.progTyped (theorem C01_core_defined: such a program never gets stuck); accepted programs "
                f"that use for-join or multiplication by a negative literal are outside that model and only counted",
        "distribution": {"outcomes": outcomes, "by_rule": by_rule, "model_oracle": mtally},
        "samples": [{"src": cases[1]["src"][:600]}],
    }
    return common.finish(ctx, uniq, coverage, ["first stream: one violation per program, drawn from a fixed list of statement shapes; second stream: single-token and single-site mutants of programs of the modelled fragment"], "proof", search=None)
