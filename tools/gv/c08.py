"""C08 — match exhaustiveness verdicts are exact and the first matching arm decides."""
import json
import random

from . import common, gen_prog, gen_types as T
from .common import Failure

PROP_MODULES = ["GarbleVerif.Props.C08"]


def int_text(v, t):
    return f"{v}{t}"


class MatchGen:
    def __init__(self, rng):
        self.rng = rng
        self.tg = T.TypeGen(rng, allow_zero_sized=False)
        self.n = 0

    def scrut_ty(self):
        for _ in range(20):
            t = self.tg.ty(self.rng.choice([0, 1, 1, 2]))
            if self.matchable(t) and self.leaves(t) <= 4:
                return t
        return {"k": "int", "t": "u8"}

    def matchable(self, t):
        k = t["k"]
        if k == "array":
            return False
        if k == "tuple":
            return all(self.matchable(x) for x in t["ts"])
        if k == "struct":
            return all(self.matchable(x) for _, x in t["fields"])
        if k == "enum":
            return all(self.matchable(x) for _, _, ts in t["variants"] for x in ts)
        return True

    def leaves(self, t):
        k = t["k"]
        if k == "tuple":
            return sum(self.leaves(x) for x in t["ts"])
        if k == "struct":
            return sum(self.leaves(x) for _, x in t["fields"])
        if k == "enum":
            return 1 + max([sum(self.leaves(x) for x in ts) for _, _, ts in t["variants"]] or [0])
        return 1

    def ident(self):
        if self.rng.random() < 0.4:
            return ("_", ["id", "_"])
        self.n += 1
        return (f"b{self.n}", ["id", f"b{self.n}"])

    # ---- a set of patterns that covers the type exactly once (before mutation)
    def partition(self, t, budget=6):
        k = t["k"]
        r = self.rng.random()
        if r < 0.15 or budget <= 1:
            return [self.ident()]
        if k == "bool":
            return [("true", ["bool", True]), ("false", ["bool", False])]
        if k == "int":
            lo, hi = T.int_range(t["t"])
            n_cuts = self.rng.choice([1, 1, 2, 3])
            pool = [lo + 1, hi, 0, 1, 2, 10, 100, 128, 255, 256, -1, -128, hi - 1, (lo + hi) // 2, self.rng.randint(lo, hi)]
            cuts = sorted(set(c for c in self.rng.sample(pool, min(n_cuts, len(pool))) if lo < c <= hi))
            if self.rng.random() < 0.3:
                # a part with ONE value at a place that matters: 0 and its neighbours, the ends of the type
                pt = self.rng.choice([0, 0, 0, 1, -1, 2, lo, hi, 127, 128])
                if lo <= pt <= hi:
                    cuts = sorted(set(cuts) | {c for c in (pt, pt + 1) if lo < c <= hi})
            bounds = [lo] + cuts + [hi + 1]
            out = []
            for a, b1 in zip(bounds, bounds[1:]):
                b = b1 - 1
                out.append(self.range_pat(a, b, t["t"], hi))
            if self.rng.random() < 0.3:
                out[-1] = self.ident()
            return out
        if k in ("tuple", "struct"):
            comps = [(None, x) for x in t["ts"]] if k == "tuple" else list(t["fields"])
            if not comps:
                return [("()", ["tuple", []])] if k == "tuple" else [self.ident()]
            parts = [self.partition(ct, max(1, budget // 2)) for _, ct in comps]
            total = 1
            for p in parts:
                total *= len(p)
            if total > 12:
                # split on one component only
                i = self.rng.randrange(len(comps))
                parts = [p if j == i else [self.ident()] for j, p in enumerate(parts)]
            combos = [[]]
            for p in parts:
                combos = [c + [x] for c in combos for x in p]
            out = []
            for c in combos:
                if k == "tuple":
                    out.append(("(" + ", ".join(x[0] for x in c) + ")", ["tuple", [x[1] for x in c]]))
                else:
                    out.append(self.struct_pat(t, [(f, x) for (f, _), x in zip(comps, c)]))
            return out
        # enum
        out = []
        for v, unit, ts in t["variants"]:
            if unit:
                out.append((f"{t['name']}::{v}", ["eunit", t["name"], v]))
                continue
            parts = [self.partition(x, max(1, budget // 2)) for x in ts]
            total = 1
            for p in parts:
                total *= len(p)
            if total > 6:
                i = self.rng.randrange(len(ts))
                parts = [p if j == i else [self.ident()] for j, p in enumerate(parts)]
            combos = [[]]
            for p in parts:
                combos = [c + [x] for c in combos for x in p]
            for c in combos:
                out.append((f"{t['name']}::{v}(" + ", ".join(x[0] for x in c) + ")", ["etuple", t["name"], v, [x[1] for x in c]]))
        return out

    def range_pat(self, a, b, t, hi):
        # numbers without a type suffix are patterns of every integer type (a range needs both ends of one kind:
        # two non-negative or two negative numbers)
        sfx = t if self.rng.random() < 0.65 else ""
        if a == b and self.rng.random() < 0.7:
            return (int_text(a, sfx), ["int", a])
        if b < hi and self.rng.random() < 0.5:
            s2 = sfx if (a >= 0) == (b + 1 >= 0) else t
            return (f"{int_text(a, s2)}..{int_text(b + 1, s2)}", ["range", a, b])
        s2 = sfx if (a >= 0) == (b >= 0) else t
        return (f"{int_text(a, s2)}..={int_text(b, s2)}", ["range", a, b])

    def struct_pat(self, t, fields):
        """fields: [(name, (text, ast))]; wildcard fields may be dropped in favour of `..`"""
        keep = [(f, p) for f, p in fields if not (p[1] == ["id", "_"] and self.rng.random() < 0.6)]
        rest = len(keep) < len(fields)
        if not keep:
            keep = fields[:1]          # `S { .. }` without any field is not accepted by the parser
            rest = len(keep) < len(fields)
        shown = list(keep)
        self.rng.shuffle(shown)
        parts = [f"{f}: {p[0]}" for f, p in shown] + ([".."] if rest else [])
        return (f"{t['name']} {{ " + ", ".join(parts) + " }", ["struct", t["name"], [[f, p[1]] for f, p in sorted(keep)]])

    # ---- mutations that make holes, overlaps and dead arms
    def shift(self, pat, t):
        """moves one integer bound of a pattern by one"""
        js = json.dumps(pat[1])
        nums = [m for m in __import__("re").finditer(r'\["(int|range)", (-?\d+)(?:, (-?\d+))?\]', js)]
        if not nums:
            return None
        return "shift"

    def arms(self, t):
        strategy = self.rng.choice(["partition", "partition", "minus-one", "minus-one", "plus-random", "shuffled", "random", "random+catchall"])
        if strategy.startswith("random"):
            g = gen_prog.ProgGen(self.rng)
            g.tg = self.tg
            pats = [g.refutable(t)[:2] for _ in range(self.rng.choice([1, 2, 3, 4]))]
            if strategy == "random+catchall":
                pats.append(self.ident())
            return strategy, pats
        pats = self.partition(t)
        if strategy == "minus-one" and len(pats) > 1:
            pats.pop(self.rng.randrange(len(pats)))
        elif strategy == "plus-random":
            g = gen_prog.ProgGen(self.rng)
            g.tg = self.tg
            pats.insert(self.rng.randrange(len(pats) + 1), g.refutable(t)[:2])
        elif strategy == "shuffled":
            self.rng.shuffle(pats)
        return strategy, pats


def gen_case(seed, cid):
    rng = random.Random(seed)
    g = MatchGen(rng)
    t = g.scrut_ty()
    strategy, pats = g.arms(t)
    # off-by-one on one bound, sometimes
    if rng.random() < 0.35:
        strategy += "+shift"
        cands = [i for i, p in enumerate(pats) if p[1][0] in ("int", "range")]
        if cands and t["k"] == "int":
            i = rng.choice(cands)
            lo, hi = T.int_range(t["t"])
            ast = pats[i][1]
            a, b = (ast[1], ast[1]) if ast[0] == "int" else (ast[1], ast[2])
            if rng.random() < 0.5 and a + 1 <= b:
                a += 1
            elif b - 1 >= a:
                b -= 1
            elif b + 1 <= hi:
                b += 1
            pats[i] = g.range_pat(a, b, t["t"], hi)
    src = g.tg.defs_src()
    arms = ", ".join(f"{p[0]} => {i}u16" for i, p in enumerate(pats))
    src += f"pub fn main(x: {T.ty_str(t)}) -> u16 {{ match x {{ {arms} }} }}\n"
    values = [T.rand_value(rng, t, 0.5) for _ in range(6)]
    return {"id": cid, "seed": seed, "src": src, "ty": t, "pats": [p[1] for p in pats], "strategy": strategy,
            "values": values}


def val_from_json(t, j):
    """inverse of gen_prog.val_json"""
    k = t["k"]
    if k in ("bool", "int"):
        return j
    if k == "array":
        return [val_from_json(t["elem"], x) for x in j["a"]]
    if k == "tuple":
        return tuple(val_from_json(x, y) for x, y in zip(t["ts"], j["t"]))
    if k == "struct":
        d = dict((f, v) for f, v in j["f"])
        return ("struct", {f: val_from_json(ft, d[f]) for f, ft in t["fields"]})
    n, unit, ts = next(v for v in t["variants"] if v[0] == j["v"])
    return ("enum", n, None if unit else [val_from_json(x, y) for x, y in zip(ts, j["f"])])


def run(ctx):
    quick = ctx.tier == "quick"
    ctx.audit(PROP_MODULES)
    failures = ctx.proof_failures()
    ok, log = ctx.build_harness()
    if not ok:
        failures.append(Failure("model", "harness-build-failed", "cargo build of the harness failed: " + log[-400:]))
        return common.finish(ctx, failures, {"evaluations": 0, "distinct_nontrivial": 0, "samples": []}, [], "proof")
    n = 2500 if quick else 50000
    cases = [gen_case(ctx.rng.randrange(1 << 48), i) for i in range(n)]
    verdicts = common.run_lines_guarded(common.GVH, [{"id": c["id"], "op": "match_check", "src": c["src"]} for c in cases], per_case_timeout=20.0)
    # reference verdict, representative values, check of the reported witnesses
    mcases = []
    for c in cases:
        v = verdicts.get(c["id"]) or {}
        wits = [w[0] for w in v.get("witnesses", []) if len(w) == 1]
        mcases.append({"id": c["id"], "op": "match_oracle", "ty": c["ty"], "pats": c["pats"], "values": [], "witnesses": wits})
    oracle, _, _ = ctx.run_model(mcases, timeout=3000)
    tally = {"accepted": 0, "rejected": 0, "other": 0, "arm-evaluations": 0, "witnesses": 0}
    by_strategy = {}
    evals = []
    for c in cases:
        v = verdicts.get(c["id"])
        o = oracle.get(c["id"])
        sub = {"op": "c08", "seed": c["seed"], "src": c["src"]}
        if v is None or v.get("hang") or "died" in v:
            failures.append(Failure("oracle", "c08:check-hangs-or-aborts", f"type checking does not return: {v}", sub, None, v)); continue
        if o is None:
            failures.append(Failure("model", "c08:model-no-result", "no result from the model driver", sub, None, None)); continue
        by_strategy.setdefault(c["strategy"], {"ok": 0, "non_exhaustive": 0, "other": 0, "panic": 0})[v["verdict"]] += 1
        exhaustive = o["uncovered"] is None
        if v["verdict"] == "panic":
            site = v.get("detail", "").split(": ")[0].replace("/repo/", "")
            failures.append(Failure("oracle", f"c08:check-panics@{site}", f"the exhaustiveness check panics: {v.get('detail')}", sub, "verdict", v)); continue
        if v["verdict"] == "other":
            tally["other"] += 1
            failures.append(Failure("model", "c08:generated-match-rejected", f"the type checker rejects a generated match for another reason: {v.get('detail', '')[:200]}", sub, None, v)); continue
        if v["verdict"] == "ok":
            tally["accepted"] += 1
            if not exhaustive:
                failures.append(Failure("oracle", "c08:accepts-non-exhaustive-match", f"the match is accepted although no arm matches the value {json.dumps(o['uncovered'])}", sub, "non-exhaustive", "accepted"))
                continue
            vals = [val_from_json(c["ty"], j) for j in o["rep_values"]] + c["values"]
            evals.append((c, vals))
        else:
            tally["rejected"] += 1
            if exhaustive:
                failures.append(Failure("oracle", "c08:rejects-exhaustive-match", f"the match is rejected as non-exhaustive although its arms cover every value (missing cases reported: {json.dumps(v.get('witnesses'))[:200]})", sub, "accepted", "non-exhaustive"))
                continue
            if not v.get("witnesses"):
                failures.append(Failure("oracle", "c08:no-missing-case-reported", "rejected as non-exhaustive without a missing case", sub, ">= 1 witness", v))
            for w, info in zip([w for w in v.get("witnesses", []) if len(w) == 1], o["witnesses"]):
                tally["witnesses"] += 1
                if info["denotes"] == 0:
                    failures.append(Failure("oracle", "c08:missing-case-denotes-no-value", f"the reported missing case {json.dumps(w)} denotes no value", sub, ">= 1 value", w))
                elif info["matched"] is not None:
                    failures.append(Failure("oracle", "c08:missing-case-is-matched", f"the reported missing case {json.dumps(w)} contains the value {json.dumps(info['matched'])}, which an arm matches", sub, "unmatched values only", w))
    # accepted matches: the first matching arm decides
    icases, mcases2 = [], []
    for c, vals in evals:
        icases.append({"id": c["id"], "op": "compile_eval", "src": c["src"], "kind": "ssa", "dedup": True,
                       "inputs": [gen_prog.party_inputs([["x", c["ty"]]], [v]) for v in vals]})
        mcases2.append({"id": c["id"], "op": "match_oracle", "ty": c["ty"], "pats": c["pats"],
                        "values": [gen_prog.val_json(c["ty"], v) for v in vals], "witnesses": []})
    impl = common.run_lines_guarded(common.GVH, icases, per_case_timeout=20.0)
    first, _, _ = ctx.run_model(mcases2, timeout=3000)
    for c, vals in evals:
        r, f = impl.get(c["id"]), first.get(c["id"])
        sub = {"op": "c08", "seed": c["seed"], "src": c["src"]}
        if r is None or not r.get("ok"):
            failures.append(Failure("oracle", "c08:accepted-match-does-not-compile", f"an accepted match cannot be compiled: {r}", sub, "circuit", r)); continue
        for v, out, idx in zip(vals, r["outs"], f["first"]):
            tally["arm-evaluations"] += 1
            got = None if out.startswith("panic@") or out[0] != "0" else int(out[161:], 2)
            if idx is None or got != idx:
                failures.append(Failure("oracle", "c08:wrong-arm", f"for x = {json.dumps(gen_prog.val_json(c['ty'], v))} the first matching arm is {idx} but the circuit returns {got if got is not None else out[:40]}", dict(sub, value=gen_prog.val_json(c["ty"], v)), idx, got))
                break
    seen, uniq = set(), []
    for f in failures:
        if f.signature not in seen:
            seen.add(f.signature); uniq.append(f)
    coverage = {
        "evaluations": len(cases) + tally["arm-evaluations"],
        "distinct_nontrivial": tally["accepted"] + tally["rejected"],
        "rule": "a random matchable scrutinee type (bool, all integer types, tuples, structs with `..`, enums, nested) and a list of arms: "
                "an exact partition of the type (integer domains cut at boundary values, inclusive and exclusive ranges, products for "
                "tuples / structs / variants), the partition with one arm removed, with a random extra arm, shuffled, with one bound "
                "moved by one, or random patterns with / without a catch-all. check.rs's verdict is compared with the reference decision "
                "of the Lean model (Src.uncovered: representative values around every constant of the patterns); reported missing cases "
                "must denote a value and only unmatched values; accepted matches are compiled and evaluated on all representatives and "
                "random values against Src.firstMatch. non-trivial = cases with a verdict",
        "distribution": {"verdicts": tally, "by_strategy": by_strategy},
        "samples": [{"src": cases[0]["src"]}, {"src": cases[1]["src"]}],
    }
    return common.finish(ctx, uniq, coverage, ["scrutinee types with at most 4 leaves; exhaustiveness reference: see DESIGN.md §6 C08 (uncovered is complete only for representative values; proved sound)"], "proof", search=None)


def replay(ctx, path):
    d = json.load(open(path))
    case = d.get("case") or {}
    if "seed" not in case:
        print("replay file has no executable case:", d.get("what"))
        return 1
    ctx.build_harness()
    ctx.build_lean(PROP_MODULES)
    c = gen_case(case["seed"], 0)
    v = common.run_lines_guarded(common.GVH, [{"id": 0, "op": "match_check", "src": c["src"]}], per_case_timeout=30.0).get(0)
    wits = [w[0] for w in (v or {}).get("witnesses", []) if len(w) == 1]
    o, _, _ = ctx.run_model([{"id": 0, "op": "match_oracle", "ty": c["ty"], "pats": c["pats"], "values": [], "witnesses": wits}])
    print(c["src"])
    print("check.rs:", json.dumps(v)[:600])
    print("model:   ", json.dumps({k: o[0][k] for k in ("uncovered", "reps", "witnesses")})[:600])
    bad = (v or {}).get("verdict") == "panic" or ((v or {}).get("verdict") == "ok") != (o[0]["uncovered"] is None) or \
        any(w["denotes"] == 0 or w["matched"] is not None for w in o[0]["witnesses"])
    if bad:
        print(f"VIOLATION property={ctx.prop} replay={path}")
        return 1
    return 0
