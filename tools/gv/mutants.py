"""Mutants of generated programs of the modelled fragment, judged by the model instead of by a list of expectations.

The verdict on a mutant that check.rs accepts comes from `Bit.progTyped` (Model/BitSem.lean) applied to the tree check.rs
itself produced for it (harness op `typed_ast`): the typing judgement the compiler model induces, for which
`C01_core_defined` shows that an accepted program never gets stuck. So the mutation operators do not have to know
whether the program they produce is ill-typed."""
import random
import re

from . import gen_prog
from . import gen_types as T

FEATS = [{"core"}, {"core", "assign", "impure", "shadow"}, {"core", "match"},
         {"core", "match", "assign", "impure", "shadow"}, {"core", "helpers", "assign", "impure"},
         {"core", "helpers", "match", "assign", "impure", "shadow"},
         {"core", "agg", "assign", "impure", "loops"},
         {"core", "agg", "structs", "helpers", "match", "assign", "impure", "shadow", "loops"},
         {"core", "agg", "structs", "match"},
         {"core", "agg", "match", "loops", "assign", "impure"},
         {"core", "agg", "structs", "enums", "helpers", "match", "assign", "impure", "shadow", "loops"},
         {"core", "agg", "enums", "match", "loops", "assign", "impure"}]

# constructs outside Model/BitSem.lean (reported by the harness next to the tree)
OUTSIDE_MODEL = {"for-join", "mul-by-negative-literal"}


class SwapGen(gen_prog.ProgGen):
    """the program generator, except that ONE expression site (the `swap_at`-th call of `expr`) is generated with a
    type other than the one its context asks for"""

    def __init__(self, *a, **k):
        super().__init__(*a, **k)
        self.expr_calls = 0
        self.swap_at = None
        self.swapped = None

    def other_type(self, ty):
        for _ in range(50):
            t2 = self.small_ty(self.rng.choice([0, 0, 1]))
            if t2 != ty:
                return t2
        return {"k": "bool"} if ty != {"k": "bool"} else {"k": "int", "t": "u8"}

    def expr(self, ty, d, pure=True):
        self.expr_calls += 1
        if self.swap_at is not None and self.swapped is None and self.expr_calls == self.swap_at:
            t2 = self.other_type(ty)
            self.swapped = (ty, t2)
            ty = t2
        return super().expr(ty, d, pure)


def swap_mutant(seed, feats, depth=3):
    """{src, swapped: [wanted, generated], site, sites} or None"""
    g = SwapGen(random.Random(seed), max_depth=depth, features=feats)
    g.program()
    n = g.expr_calls
    if n == 0:
        return None
    k = random.Random(seed ^ 0x5bd1e995).randrange(1, n + 1)
    g = SwapGen(random.Random(seed), max_depth=depth, features=feats)
    g.swap_at = k
    try:
        p = g.program()
    except Exception:          # the generator may rely on the type it asked for
        return None
    if g.swapped is None:
        return None
    return {"src": p["src"], "swapped": [T.ty_str(g.swapped[0]), T.ty_str(g.swapped[1])], "site": k, "sites": n}


IDENT = re.compile(r"\b(?:v|m|p|u)\d+\b")
SUFFIX = re.compile(r"(?<=\d)(u8|u16|u32|u64|usize|i8|i16|i32|i64)\b")
ANNOT = re.compile(r": (bool|u8|u16|u32|u64|usize|i8|i16|i32|i64)\b")
BINOP = re.compile(r" (\+|-|\*|/|%|&&|\|\||&|\||\^|==|!=|<=|>=|<|>|<<|>>) ")
TUPIDX = re.compile(r"\.(\d)\b")
CAST = re.compile(r" as (bool|u8|u16|u32|u64|usize|i8|i16|i32|i64)\b")
MUT = re.compile(r"\bmut ")
INTS = ["u8", "u16", "u32", "u64", "usize", "i8", "i16", "i32", "i64"]
OPS = ["+", "-", "*", "/", "%", "&&", "||", "&", "|", "^", "==", "!=", "<", ">", "<=", ">=", "<<", ">>"]
FIELD = re.compile(r"(?<=[{,] )([a-z][a-z0-9]*)(?=: )")
TEXT_KINDS = ["ident", "ident", "ident", "suffix", "annot", "op", "op", "tupidx", "dropmut", "as", "field"]


def _sub(src, m, new):
    return src[:m.start()] + new + src[m.end():]


def text_mutant(rng, src):
    """(kind, mutated text): one token of the program text replaced — an identifier by another identifier of the
    program (or an unbound one), the suffix of a number, a type annotation, a binary operator, a tuple index, the
    target of a cast, a `mut` dropped, a field name replaced by another field name"""
    for _ in range(20):
        k = rng.choice(TEXT_KINDS)
        if k == "ident":
            ms = list(IDENT.finditer(src))
            if len(ms) < 2:
                continue
            m = rng.choice(ms)
            names = sorted({x.group(0) for x in ms} - {m.group(0)}) + ["zz9"]
            return k, _sub(src, m, rng.choice(names))
        if k == "field":
            # a field name in a struct literal, pattern or definition replaced by another field name of the program
            ms = list(FIELD.finditer(src))
            names = sorted({x.group(1) for x in ms})
            if len(names) < 2:
                continue
            m = rng.choice(ms)
            return k, _sub(src, m, rng.choice([n for n in names if n != m.group(1)]))
        rx, pool, fmt = {"suffix": (SUFFIX, INTS, "{}"), "annot": (ANNOT, INTS + ["bool"], ": {}"), "op": (BINOP, OPS, " {} "),
                         "tupidx": (TUPIDX, ["0", "1", "2", "3", "4"], ".{}"), "as": (CAST, INTS + ["bool"], " as {}"),
                         "dropmut": (MUT, None, "")}[k]
        ms = list(rx.finditer(src))
        if not ms:
            continue
        m = rng.choice(ms)
        if pool is None:
            return k, _sub(src, m, "")
        return k, _sub(src, m, fmt.format(rng.choice([x for x in pool if x != m.group(1)])))
    return None, None
