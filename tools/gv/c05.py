"""C05 — accepted programs compile to valid circuits whose I/O shape matches their types."""
from . import c01, common, corpus, gen_types as T
from .common import Failure

PROP_MODULES = ["GarbleVerif.Props.C05"]
ZERO = {"match", "loops", "helpers", "structs", "assign", "impure", "shadow", "zero"}


def shape(c, r, cfg):
    """validity and I/O shape of the circuit compiled for the generated program c"""
    fs = []
    if r is None or not r.get("ok"):
        return fs
    sub = {"op": "c01", "seed": c["seed"], "gen": c["gen"], "src": c["src"], "config": cfg}
    want = [T.size_of(t) for _, t in c["params"]]
    if len(c["params"]) == 1 and c["params"][0][1]["k"] == "array":
        want = [T.size_of(c["params"][0][1]["elem"])] * c["params"][0][1]["n"]
    if r["validate"] != "ok":
        fs.append(Failure("oracle", "c01:invalid-circuit:" + r["validate"].split(":")[0], f"the compiled circuit fails its own validation: {r['validate']}", sub, "ok", r["validate"]))
    if r["input_gates"] != want:
        fs.append(Failure("oracle", "c01:input-shape", f"input parties {r['input_gates']} but the parameter types need {want}", sub, want, r["input_gates"]))
    if r["out_len"] != 161 + T.size_of(c["ret"]):
        fs.append(Failure("oracle", "c01:output-shape", f"{r['out_len']} output wires for 161 panic bits + a return type of {T.size_of(c['ret'])} bits", sub, 161 + T.size_of(c["ret"]), r["out_len"]))
    return fs


def run(ctx):
    quick = ctx.tier == "quick"
    ctx.audit(PROP_MODULES)
    failures = ctx.proof_failures()
    ok, log = ctx.build_harness()
    if not ok:
        failures.append(Failure("model", "harness-build-failed", "cargo build of the harness failed: " + log[-400:]))
        return common.finish(ctx, failures, {"evaluations": 0, "distinct_nontrivial": 0, "samples": []}, [], "proof")
    # (a) generated programs over types of at least one bit
    fs, tally, stats, cases = c01.collect(ctx, 1200 if quick else 25000, {}, prefix="c05", per_result=shape)
    # a rejected generated program is the converse direction of C05: well-typed programs are accepted
    for f in fs:
        if f.signature.startswith("c05:generated-program-rejected"):
            f.kind = "oracle"
    failures += fs
    # (b) programs that use types of 0 bits: `()`, `[T; 0]`, enums with one unit variant
    zfs, ztally, _, zcases = c01.collect(ctx, 150 if quick else 3000, {"features": ZERO}, prefix="c05:zero-size",
                                         configs=[("ssa", True)], per_result=shape)
    failures += zfs
    # (c) the corpus: every accepted program validates
    progs = corpus.programs()
    res, _, _ = ctx.run_impl([{"id": i, "op": "compile", "src": s} for i, (_, s) in enumerate(progs)], timeout=3000)
    n_corpus = 0
    for i, (name, s) in enumerate(progs):
        r = res.get(i)
        if r and r.get("ok"):
            n_corpus += 1
            for k in ("ssa_validate", "reg_validate"):
                if r[k] != "ok":
                    failures.append(Failure("oracle", f"c05:corpus:{k}:{r[k].split(':')[0]}", f"{name}: {k} = {r[k]}", {"op": "compile", "src": s}, "ok", r[k]))
        elif r and r.get("stage") == "panic":
            failures.append(Failure("oracle", "c05:corpus:compile-panics", f"{name}: {r.get('detail')}", {"op": "compile", "src": s}, "circuit or error", r.get("detail")))
    # (d) array sizes, trip counts and parties given by constants (the generator of C12): shape of the circuit compiled with the constants
    from . import c12, gen_prog
    ccases = [c12.gen_size_case(ctx.rng.randrange(1 << 48), i) for i in range(150 if quick else 3000)]
    cres = common.run_lines_guarded(common.GVH, [
        {"id": c["id"], "op": "compile_eval", "src": c["src_a"], "kind": "ssa", "dedup": True, "consts": c["cg"].consts_json(),
         "inputs": [(["".join(gen_prog.party_inputs(c["params"], a))] if c.get("one_party") else gen_prog.party_inputs(c["params"], a)) for a in c["args"][:1]]}
        for c in ccases], per_case_timeout=20.0)
    ctally = {"compiled": 0}
    for c in ccases:
        r = cres.get(c["id"]) or {}
        sub = {"op": "c12", "seed": c["seed"], "kind": c["kind"], "src": c["src_a"], "consts": c["cg"].consts_json()}
        ctally[c["kind"]] = ctally.get(c["kind"], 0) + 1
        if not r.get("ok"):
            what = "panics in the compiler" if r.get("stage") == "panic" else f"is rejected ({r.get('stage')})"
            failures.append(Failure("oracle", f"c05:const-sized:{r.get('stage')}:{c['kind']}", f"a well-typed program with constant-sized arrays {what}: {str(r.get('detail'))[:200]}", sub, "a circuit", r))
            continue
        ctally["compiled"] += 1
        want = [T.size_of(t) for _, t in c["params"]]
        if len(c["params"]) == 1 and c["params"][0][1]["k"] == "array":
            want = [sum(want)] if c.get("one_party") else [T.size_of(c["params"][0][1]["elem"])] * c["params"][0][1]["n"]
        if r["validate"] != "ok":
            failures.append(Failure("oracle", "c05:const-sized:invalid-circuit:" + r["validate"].split(":")[0], f"the circuit compiled with constants fails its own validation: {r['validate']}", sub, "ok", r["validate"]))
        if r["input_gates"] != want:
            failures.append(Failure("oracle", "c05:const-sized:input-shape:" + c["kind"], f"input parties {r['input_gates']} but the parameter types (sizes from the constants) need {want}", sub, want, r["input_gates"]))
        if r["out_len"] != 161 + T.size_of(c["ret"]):
            failures.append(Failure("oracle", "c05:const-sized:output-shape:" + c["kind"], f"{r['out_len']} output wires for 161 panic bits + a return type of {T.size_of(c['ret'])} bits (sizes from the constants)", sub, 161 + T.size_of(c["ret"]), r["out_len"]))
    # (e) mutants of generated programs (one expression site of another type, one token replaced) that check.rs ACCEPTS:
    # whatever is accepted must compile without a panic to a circuit of the shape of the types check.rs itself reports
    import random
    from . import mutants
    mcases = []
    for i in range(120 if quick else 3000):
        seed = ctx.rng.randrange(1 << 48)
        feats = mutants.FEATS[i % len(mutants.FEATS)]
        base = c01.gen_case(seed, 0, 0, features=feats, depth=3)
        m = mutants.swap_mutant(seed, feats)
        if m:
            mcases.append({"id": len(mcases), "kind": "type-swap", "src": m["src"], "seed": seed})
        r2 = random.Random(seed ^ 0xabcdef)
        for _ in range(3):
            k, src = mutants.text_mutant(r2, base["src"])
            if src:
                mcases.append({"id": len(mcases), "kind": k, "src": src, "seed": seed})
    # and the rule-breaking statements of C17 (all rejected on a correct checker): should one be accepted, it must at least
    # not take the compiler down
    from . import c17
    for b in range(2 if quick else 20):
        seed = ctx.rng.randrange(1 << 48)
        r3 = random.Random(seed)
        p = gen_prog.ProgGen(r3, max_depth=2, features={"match", "loops", "structs", "assign", "helpers"}).program()
        for rule, stmt in c17.STATEMENTS:
            mcases.append({"id": len(mcases), "kind": "rule:" + rule, "src": c17.mutate(r3, p, rule, stmt, ""), "seed": seed})
        for rule, top, stmt in c17.TOPLEVEL:
            mcases.append({"id": len(mcases), "kind": "rule:" + rule, "src": c17.mutate(r3, p, rule, stmt, top), "seed": seed})
    ta = common.run_lines_guarded(common.GVH, [{"id": c["id"], "op": "typed_ast", "src": c["src"]} for c in mcases], per_case_timeout=20.0)
    acc = []
    for c in mcases:
        r = ta.get(c["id"]) or {}
        main = next((f for f in (r.get("prog") or {}).get("fns", []) if f["name"] == "main"), None)
        if r.get("outcome") == "ok" and main:
            c["params"], c["ret"] = main["params"], main["ret"]
            acc.append(c)
    mres = common.run_lines_guarded(common.GVH, [
        {"id": c["id"], "op": "compile_eval", "src": c["src"], "kind": "ssa", "dedup": True,
         "inputs": [gen_prog.party_inputs(c["params"], [T.rand_value(ctx.rng, t, 0.4) for _, t in c["params"]])]} for c in acc], per_case_timeout=20.0)
    mtally = {"mutants": len(mcases), "accepted": len(acc), "compiled": 0}
    for c in acc:
        r = mres.get(c["id"]) or {}
        sub = {"op": "c05-mutant", "seed": c["seed"], "kind": c["kind"], "src": c["src"]}
        if not r.get("ok"):
            if r.get("stage") == "panic" or r.get("hang") or "died" in r:
                failures.append(Failure("oracle", f"c05:accepted-mutant:compiler-panics:{c['kind']}", f"a program the type checker accepts makes the compiler panic: {str(r.get('detail'))[:200]}", sub, "a circuit or an error", r))
            continue
        mtally["compiled"] += 1
        want = [T.size_of(t) for _, t in c["params"]]
        if len(c["params"]) == 1 and c["params"][0][1]["k"] == "array":
            want = [T.size_of(c["params"][0][1]["elem"])] * c["params"][0][1]["n"]
        if r["validate"] != "ok" and sum(want) > 0:
            failures.append(Failure("oracle", "c05:accepted-mutant:invalid-circuit:" + r["validate"].split(":")[0], f"the circuit of an accepted program fails its own validation: {r['validate']}", sub, "ok", r["validate"]))
        if r["input_gates"] != want:
            failures.append(Failure("oracle", "c05:accepted-mutant:input-shape", f"input parties {r['input_gates']} but the parameter types need {want}", sub, want, r["input_gates"]))
        if r["out_len"] != 161 + T.size_of(c["ret"]):
            failures.append(Failure("oracle", "c05:accepted-mutant:output-shape", f"{r['out_len']} output wires for 161 panic bits + a return type of {T.size_of(c['ret'])} bits (the type check.rs reports for main)", sub, 161 + T.size_of(c["ret"]), r["out_len"]))
    # (f) numbers WITHOUT a suffix whose type comes from a later use (bound by `let`, flowing through a branch, an arm,
    # a range or an array-repeat): the circuit must still have the width of the declared types
    UNTYPED = [
        ("range-typed-return", "pub fn main(x: u8) -> [u8; 3] { 1..4 }", 24),
        ("range-typed-let", "pub fn main(x: u8) -> [u8; 3] { let a: [u8; 3] = 1..4; a }", 24),
        ("range-in-tuple", "pub fn main(x: u8) -> ([u8; 3], u8) { (1..4, x) }", 32),
        ("loop-over-untyped-range", "pub fn main(x: u8) -> u8 { let mut s = x; for i in 1..4 { s = s + i; } s }", 8),
        ("untyped-let-arith", "pub fn main(x: u8) -> u8 { let a = 5; x + a }", 8),
        ("untyped-let-tuple", "pub fn main(x: u8) -> u8 { let a = (1, 2); x + a.0 }", 8),
        ("untyped-let-match", "pub fn main(x: u16) -> u16 { let r = match x { 0u16 => 1, _ => 2 }; r }", 16),
        ("untyped-let-if", "pub fn main(x: bool) -> u64 { let r = if x { 1 } else { 2 }; r }", 64),
        ("untyped-let-repeat", "pub fn main(x: u8) -> [u8; 3] { let a = [1; 3]; a }", 24),
        # assignments into an element of an array WITHOUT elements, with further accessors (always out of bounds when run)
        ("empty-array-tuple-field-control", "pub fn main(x: u8) -> u8 { let mut a = [(x, x); 0]; a[0usize].1 = x; x }", 8),
        ("empty-array-inner-index-control", "pub fn main(x: u8, i: usize) -> u8 { let mut a = [[x; 2]; 0]; a[i][1usize] = x; x }", 8),
        ("empty-array-struct-field-control", "struct P5 { g: u8, h: bool }\npub fn main(x: u8) -> u8 { let mut a = [P5 { g: x, h: true }; 0]; a[1usize].g = x; x }", 8),
        ("empty-array-plain-control", "pub fn main(x: u8) -> u8 { let mut a = [x; 0]; a[0usize] = x; x }", 8),
        ("typed-let-control", "pub fn main(x: u8) -> u8 { let a: u8 = 5; x + a }", 8),
        ("suffixed-range-control", "pub fn main(x: u8) -> [u8; 3] { 1u8..4u8 }", 24),
    ]
    ures = common.run_lines_guarded(common.GVH, [{"id": i, "op": "compile_eval", "src": src, "kind": "ssa", "dedup": True, "inputs": []}
                                                 for i, (_, src, _) in enumerate(UNTYPED)], per_case_timeout=20.0)
    utally = {"right_width": 0, "wrong_width": 0, "rejected": 0}
    for i, (name, src, bits) in enumerate(UNTYPED):
        r = ures.get(i) or {}
        sub = {"op": "compile_eval", "src": src, "kind": "ssa", "dedup": True, "inputs": []}
        if not r.get("ok"):
            utally["rejected"] += 1
            if r.get("stage") == "panic" or name.endswith("control"):
                failures.append(Failure("oracle", f"c05:untyped-number:{r.get('stage')}:{name}", f"the program is not compiled ({r.get('stage')}): {str(r.get('detail'))[:200]}", sub, "a circuit", r))
        elif r["out_len"] != 161 + bits:
            utally["wrong_width"] += 1
            failures.append(Failure("oracle", f"c05:untyped-number:output-width:{name}", f"{r['out_len']} output wires for 161 panic bits + a return type of {bits} bits: a number without a suffix keeps 32 wires although its use gives it another type", sub, 161 + bits, r["out_len"]))
        else:
            utally["right_width"] += 1
    seen, uniq = set(), []
    for f in failures:
        if f.signature not in seen:
            seen.add(f.signature); uniq.append(f)
    coverage = {
        "evaluations": tally["value"] + tally["panic"] + ztally["value"] + ztally["panic"] + n_corpus + ctally["compiled"] + mtally["compiled"],
        "distinct_nontrivial": len(cases) - tally["rejected"],
        "rule": "(a) generated well-typed programs with all literal types written out (tools/gv/gen_prog.py): must be accepted, compile "
                "without a panic in 4 circuit configurations, pass Circuit::validate, have one input party per parameter (one per "
                "element for a single array parameter) of exactly the type's size and 161 + size(return type) outputs, and return "
                "the bits of a value of the return type (the one the Lean source semantics compute); (b) the same with types of 0 "
                "bits; (c) every corpus program that compiles validates as SSA and as register circuit; (d) programs whose array sizes, "
                "trip counts and parties come from constants (external values, constant expressions, `[T; const { .. }]`, `[x; N]`, "
                "`[7; N]` with a number without a suffix in a typed position), compiled with generated constant values: accepted, no "
                "compiler panic, valid, input parties and 161 + size(return type) outputs as the types with the sizes filled in "
                "require; (e) mutants of generated programs (one expression site generated with another type, one token replaced) that "
                "check.rs ACCEPTS: they must compile without a panic to a valid circuit whose input parties and output width are "
                "those of the parameter and return types check.rs itself reports (harness op typed_ast); (f) eleven hand-written programs "
                "in which a number without a suffix gets its type from a later use (nine are the recorded finding, two controls). non-trivial = accepted "
                "generated programs",
        "distribution": {"runs": tally, "zero_size_runs": ztally, "corpus_programs_compiled": n_corpus, "const_sized": ctally, "accepted_mutants": mtally, "untyped_numbers": utally, "generator": stats},
        "samples": [{"src": cases[0]["src"]}, {"src": zcases[0]["src"]}],
    }
    return common.finish(ctx, uniq, coverage, ["programs of nesting depth <= 3, arrays of at most 4 elements"], "proof", search=None)


def replay(ctx, path):
    return c01.replay(ctx, path, PROP_MODULES)
