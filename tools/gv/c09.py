"""C09 — literal encoding round-trips, matches the circuit bit layout, is validated."""
import json

from . import common, gen_types as gt
from .common import Failure

PROP_MODULES = ["GarbleVerif.Props.C09"]


def mk_program(rng):
    g = gt.TypeGen(rng)
    t = g.ty(rng.choice([0, 1, 2, 3]))
    ts = gt.ty_str(t)
    # a single array parameter would be split into one party per element: add a second parameter
    extra = ", _pad: bool" if t["k"] == "array" or gt.size_of(t) == 0 else ""
    src = f"{g.defs_src()}pub fn main(x: {ts}{extra}) -> {ts} {{ x }}\n"
    return src, t


def _has_signed(t):
    k = t["k"]
    if k == "int":
        return gt.INTS[t["t"]][0]
    if k == "array":
        return _has_signed(t["elem"])
    if k == "tuple":
        return any(_has_signed(x) for x in t["ts"])
    if k == "struct":
        return any(_has_signed(x) for _, x in t["fields"])
    if k == "enum":
        return any(_has_signed(x) for _, _, ts in t["variants"] for x in ts)
    return False


def array_of_composites_with_signed(t):
    k = t["k"]
    if k == "array":
        e = t["elem"]
        return (e["k"] not in ("int", "bool") and _has_signed(e)) or array_of_composites_with_signed(e)
    if k == "tuple":
        return any(array_of_composites_with_signed(x) for x in t["ts"])
    if k == "struct":
        return any(array_of_composites_with_signed(x) for _, x in t["fields"])
    if k == "enum":
        return any(array_of_composites_with_signed(x) for _, _, ts in t["variants"] for x in ts)
    return False


def _int_leaves(t, v, path, out):
    """(path, number) for every signed integer leaf of the value"""
    k = t["k"]
    if k == "int":
        if gt.INTS[t["t"]][0]:
            out.append((path, v))
    elif k == "array":
        for x in v:
            _int_leaves(t["elem"], x, path + ("[]",), out)
    elif k == "tuple":
        for i, (tt, x) in enumerate(zip(t["ts"], v)):
            _int_leaves(tt, x, path + (i,), out)
    elif k == "struct":
        for f, tt in t["fields"]:
            _int_leaves(tt, v[1][f], path + (f,), out)
    elif k == "enum":
        for n, _, ts in t["variants"]:
            if n == v[1]:
                for i, (tt, x) in enumerate(zip(ts, v[2] or [])):
                    _int_leaves(tt, x, path + (n, i), out)


def mixed_sign_in_array_of_composites(t, v):
    """some array of tuples / arrays / structs / enums holds, at the same position of two elements, a negative and a
    non-negative number (the recorded finding: such a value is printed without suffixes and not parsed back)"""
    k = t["k"]
    if k == "array":
        e = t["elem"]
        if e["k"] not in ("int", "bool"):
            seen = {}
            for x in v:
                leaves = []
                _int_leaves(e, x, (), leaves)
                for p, n in leaves:
                    seen.setdefault(p, set()).add(n < 0)
            if any(len(s) == 2 for s in seen.values()):
                return True
        return any(mixed_sign_in_array_of_composites(e, x) for x in v)
    if k == "tuple":
        return any(mixed_sign_in_array_of_composites(tt, x) for tt, x in zip(t["ts"], v))
    if k == "struct":
        return any(mixed_sign_in_array_of_composites(tt, v[1][f]) for f, tt in t["fields"])
    if k == "enum":
        for n, _, ts in t["variants"]:
            if n == v[1]:
                return any(mixed_sign_in_array_of_composites(tt, x) for tt, x in zip(ts, v[2] or []))
    return False


def judge_prog(case, impl, model, meta, stats):
    fs = []
    t = meta["ty"]
    if impl is None or not impl.get("ok"):
        zero = gt.size_of(t) == 0
        sig = "identity-program-rejected:" + ("zero-sized" if zero else (impl or {}).get("stage", "?"))
        stats["rejected_programs"] = stats.get("rejected_programs", 0) + 1
        if (impl or {}).get("stage") in ("panic",):
            fs.append(Failure("oracle", "identity-program-compile-panics", f"compiling the identity program panics: {impl.get('detail')}", case, "ok or error", impl))
        return fs  # rejected with an error: outside C09 (see C05)
    if impl["ty"] != t:
        fs.append(Failure("model", "type-expansion-differs", "harness type expansion differs from the generator's type", case, t, impl["ty"]))
        return fs
    size = gt.size_of(t)
    if model is None or "results" not in (model or {}):
        fs.append(Failure("model", "driver-no-result", "driver produced no result", case, None, model))
        return fs
    if model["size"] != size:
        fs.append(Failure("model", "size-differs", f"Lean Ty.size {model['size']} vs documented {size}", case, size, model["size"]))
    for k, (lit, kind, origin_val) in enumerate(meta["lits"]):
        r = impl["results"][k]
        m = model["results"][k]
        if r.get("accept") == "undeserializable":
            continue  # not a `Literal` value at all (number beyond u64 / i64)
        v = gt.denote(t, lit)
        sub = {"op": "literal_check", "src": case["src"], "lits": [lit], "texts": []}
        stats[kind] = stats.get(kind, 0) + 1
        acc = r["accept"]
        if acc.startswith("panic@"):
            fs.append(Failure("oracle", f"literal-api-panics:{kind}@{acc[6:].split(': ')[0].replace('/repo/', '')}",
                              f"literal_arg/as_bits panics on a {kind} literal: {acc}", sub, "ok or error", acc))
        elif v is None:
            if acc == "ok":
                fs.append(Failure("oracle", f"invalid-literal-accepted:{kind}",
                                  f"a literal that denotes no value of the type ({kind}) is accepted; bits {r.get('bits')}", sub, "err", r))
        else:
            exp_bits = gt.encode(t, v)
            canon = gt.canon_lit(t, v)
            if acc != "ok":
                fs.append(Failure("oracle", f"valid-literal-refused:{kind}", f"a valid spelling ({kind}) is refused", sub, "ok", r))
            else:
                if r.get("bits") != exp_bits:
                    fs.append(Failure("oracle", f"wrong-bits:{kind}", f"as_bits differs from the documented layout ({len(r.get('bits',''))} vs {len(exp_bits)} bits)", sub, exp_bits, r.get("bits")))
                if r.get("decoded") != canon:
                    fs.append(Failure("oracle", f"decode-differs:{kind}", "parse_output(as_bits(l)) is not the canonical value", sub, canon, r.get("decoded")))
                if r.get("text_roundtrip") == "parse-err" and mixed_sign_in_array_of_composites(t, v) and "[]" not in (r.get("text") or ""):
                    # (checked first: such a text may also contain a `()`, which is not what makes it unparseable)
                    fs.append(Failure("oracle", "text-roundtrip:mixed-sign-unsuffixed-numbers-in-array-of-composites",
                                      f"printing and parsing back: parse-err (text {r.get('text')!r})", sub, "same", r.get("text_roundtrip")))
                elif r.get("text_roundtrip") != "same" and "()" in (r.get("text") or "") and r.get("text") != "()" and "[]" not in r.get("text"):
                    fs.append(Failure("oracle", "text-roundtrip:nested-unit-literal", f"printing and parsing back: {r.get('text_roundtrip')} (text {r.get('text')!r})", sub, "same", r.get("text_roundtrip")))
                elif r.get("text_roundtrip") != "same" and "[]" in (r.get("text") or ""):
                    fs.append(Failure("oracle", "text-roundtrip:empty-array-literal", f"printing and parsing back: {r.get('text_roundtrip')} (text {r.get('text')!r})", sub, "same", r.get("text_roundtrip")))
                elif r.get("text_roundtrip") != "same":
                    fs.append(Failure("oracle", f"text-roundtrip:{kind}", f"printing and parsing back: {r.get('text_roundtrip')} (text {r.get('text')!r})", sub, "same", r.get("text_roundtrip")))
                if r.get("identity") != canon:
                    fs.append(Failure("oracle", f"identity-program:{kind}", "the identity program does not return the value", sub, canon, r.get("identity")))
        if isinstance(r.get("identity"), str) and r["identity"].startswith("panic@"):
            fs.append(Failure("oracle", f"set-literal-panics:{kind}@{r['identity'][6:].split(': ')[0].replace('/repo/', '')}", f"Evaluator::set_literal/run panics: {r['identity']}", sub, "ok or error", r["identity"]))
        # K: model vs implementation
        if not acc.startswith("panic@"):
            if m["accept"] != (acc == "ok"):
                fs.append(Failure("model", f"accept-differs:{kind}", f"is_of_type: model {m['accept']} vs implementation {acc}", sub, m["accept"], acc))
            elif acc == "ok":
                if m["bits"] != r.get("bits"):
                    fs.append(Failure("model", f"bits-differ:{kind}", "as_bits: model vs implementation", sub, m["bits"], r.get("bits")))
                if m["decoded"] != r.get("decoded"):
                    fs.append(Failure("model", f"decoded-differs:{kind}", "from_unwrapped_bits: model vs implementation", sub, m["decoded"], r.get("decoded")))
        # the Lean specification against the Python specification
        lean_valid = m["spec"] is not None and m["spec"]["has_type"]
        if lean_valid != (v is not None):
            fs.append(Failure("model", f"denote-differs:{kind}", "Lean `denote` and the Python specification disagree on whether the literal is valid", sub, v is not None, m["spec"]))
        elif v is not None and (m["spec"]["bits"] != gt.encode(t, v) or not m["spec"]["has_type"] or m["spec"]["roundtrip"] is not True):
            fs.append(Failure("model", f"spec-encode-differs:{kind}", "Lean encode/hasType/decode vs the Python specification", sub, gt.encode(t, v), m["spec"]))
    for k, (text, v) in enumerate(meta["texts"]):
        r = impl["texts"][k]
        sub = {"op": "literal_check", "src": case["src"], "lits": [], "texts": [text]}
        if r["parse"].startswith("panic@"):
            fs.append(Failure("oracle", "parse-arg-panics@" + r["parse"][6:].split(": ")[0].replace("/repo/", ""), f"parse_arg panics on {text!r}", sub, "ok or error", r["parse"]))
        elif v == "REJECT":
            if r["parse"] == "ok":
                fs.append(Failure("oracle", "parse-arg-accepts-number-out-of-range", f"parse_arg({text!r}) is accepted for {gt.ty_str(t)} (bits {r.get('bits')}): a number outside the type must be an error, not another value", sub, "error", r))
        elif v is not None:
            if r["parse"] != "ok" and "()" in text and text != "()" and "[]" not in text:
                fs.append(Failure("oracle", "text-roundtrip:nested-unit-literal", f"parse_arg({text!r}) = {r}", sub, gt.encode(t, v), r))
            elif r["parse"] != "ok" and "[]" in text:
                fs.append(Failure("oracle", "text-roundtrip:empty-array-literal", f"parse_arg({text!r}) = {r}", sub, gt.encode(t, v), r))
            elif r["parse"] != "ok" or r.get("bits") != gt.encode(t, v):
                fs.append(Failure("oracle", "parse-arg-valid-text", f"parse_arg({text!r}) = {r}", sub, gt.encode(t, v), r))
    return fs


def run(ctx):
    quick = ctx.tier == "quick"
    ctx.audit(PROP_MODULES)
    failures = ctx.proof_failures()
    ok, log = ctx.build_harness()
    if not ok:
        failures.append(Failure("model", "harness-build-failed", "cargo build of the harness failed: " + log[-400:]))
        return common.finish(ctx, failures, {"evaluations": 0, "distinct_nontrivial": 0, "samples": []}, [], "proof")
    cases, metas = [], {}
    nprog = 400 if quick else 6000
    for _ in range(nprog):
        src, t = mk_program(ctx.rng)
        lits, texts = [], []
        for _ in range(4):
            v = gt.rand_value(ctx.rng, t)
            lits.append((gt.canon_lit(t, v), "canonical", v))
            lits.append((gt.spelling(ctx.rng, t, v), "spelling", v))
            texts.append((gt.lit_text(t, v), v))
            for _ in range(3):
                kind, bad = gt.mutate(ctx.rng, t, gt.spelling(ctx.rng, t, v))
                lits.append((bad, kind, None))
        # malformed text
        txt = gt.lit_text(t, gt.rand_value(ctx.rng, t))
        for _ in range(3):
            i = ctx.rng.randrange(len(txt) + 1)
            texts.append((txt[:i] + ctx.rng.choice(["", ",", ")", "]", "300u8", "-", "::", "{", " 1"]) + txt[i + ctx.rng.randrange(0, 3):], None))
        cid = len(cases)
        cases.append({"id": cid, "op": "literal_check", "src": src, "lits": [l for l, _, _ in lits], "texts": [x for x, _ in texts]})
        metas[cid] = {"ty": t, "lits": lits, "texts": texts}
    # numbers written without suffix around the ends of every integer type and of the scanner's own 64-bit range:
    # inside the type they are that value, outside they are an error (never another value)
    for tn in gt.INTS:
        lo, hi = gt.int_range(tn)
        pts = sorted({lo - 2, lo - 1, lo, lo + 1, -1, 0, 1, hi - 1, hi, hi + 1, hi + 2, 2 ** 31, 2 ** 32 - 1, 2 ** 32, 2 ** 63 - 1, 2 ** 63,
                      2 ** 63 + 1, 2 ** 64 - 2, 2 ** 64 - 1, -2 ** 63, -2 ** 63 + 1, -2 ** 31 - 1})
        for shape in ("plain", "tuple", "array"):
            if shape == "plain":
                t = {"k": "int", "t": tn}
                wrap = lambda x: x
                val = lambda n: n
            elif shape == "tuple":
                t = {"k": "tuple", "ts": [{"k": "bool"}, {"k": "int", "t": tn}]}
                wrap = lambda x: f"(true, {x})"
                val = lambda n: (True, n)
            else:
                t = {"k": "array", "elem": {"k": "int", "t": tn}, "n": 2}
                wrap = lambda x: f"[1, {x}]"
                val = lambda n: [1, n]
            src = f"pub fn main(x: {gt.ty_str(t)}, _pad: bool) -> {gt.ty_str(t)} {{ x }}\n"
            texts = [(wrap(str(n)), val(n) if lo <= n <= hi else "REJECT") for n in pts]
            cid = len(cases)
            cases.append({"id": cid, "op": "literal_check", "src": src, "lits": [], "texts": [x for x, _ in texts]})
            metas[cid] = {"ty": t, "lits": [], "texts": texts}
    # ranges around the largest value of the element type, every unsigned width (u64 cannot overflow a u64 bound)
    for tn in ("u8", "u16", "u32", "usize", "u64"):
        for n in (0, 1, 2, 3, 5):
            t = {"k": "array", "elem": {"k": "int", "t": tn}, "n": n}
            src = f"pub fn main(x: {gt.ty_str(t)}, _pad: bool) -> {gt.ty_str(t)} {{ x }}\n"
            m = gt.int_range(tn)[1]
            lits = []
            for lo in sorted({0, 1, m - n - 1, m - n, m - n + 1, m - n + 2, m - 1, m, m + 1, m + 2}):
                if 0 <= lo and lo + n < 2 ** 64:
                    lits.append(({"Range": [lo, lo + n, gt.SERDE[tn]]}, "range-edge", None))
            cid = len(cases)
            cases.append({"id": cid, "op": "literal_check", "src": src, "lits": [l for l, _, _ in lits], "texts": []})
            metas[cid] = {"ty": t, "lits": lits, "texts": []}
    impl, _, _ = ctx.run_impl(cases, timeout=3000)
    mcases = []
    for c in cases:
        r = impl.get(c["id"])
        if r and r.get("ok"):
            mcases.append({"id": c["id"], "op": "literal_check", "ty": r["ty"], "defs": r["defs"], "lits": c["lits"]})
    model, _, _ = ctx.run_model(mcases, timeout=3000)
    stats = {}
    nlits = 0
    distinct = set()
    for c in cases:
        fs = judge_prog(c, impl.get(c["id"]), model.get(c["id"]), metas[c["id"]], stats)
        failures += fs
        if impl.get(c["id"], {}).get("ok"):
            nlits += len(c["lits"])
            for l in c["lits"]:
                if isinstance(l, dict):
                    distinct.add(json.dumps([c["src"], l], sort_keys=True))
    # one failure per signature is enough
    seen, uniq = set(), []
    for f in failures:
        if f.signature not in seen:
            seen.add(f.signature)
            uniq.append(f)
    coverage = {
        "evaluations": nlits,
        "distinct_nontrivial": len(distinct),
        "rule": "random types (nested arrays incl. length 0, tuples incl. (), structs with shuffled field order, enums with unit and tuple "
                "variants over all primitive types) x random boundary-biased values x {canonical literal, alternative spelling "
                "(ArrayRepeat, Range, permuted struct fields), one adversarial edit (out-of-range number, wrong tag, wrong arity, "
                "duplicate/missing/unknown field, reversed/oversized range, wrong nesting ...)}; each literal goes through literal_arg, "
                "as_bits, parse_output, to_string -> parse_arg, Evaluator::set_literal + the identity program, and through the Lean "
                "model; non-trivial = distinct (program, composite literal) pairs",
        "traces_validated_against_impl": sum(len(c["lits"]) for c in mcases),
        "programs": len(mcases),
        "distribution": stats,
        "samples": [{"src": cases[0]["src"], "lits": cases[0]["lits"][:3]}, {"src": cases[-1]["src"], "lits": cases[-1]["lits"][-2:]}],
    }
    assumptions = ["struct fields are laid out in name order (the parser sorts definitions)",
                   "the text layer (Display / parse of literals) is explored through the implementation only; there is no Lean model of it"]
    return common.finish(ctx, uniq, coverage, assumptions, "proof", search=None)
