"""C01 — the compiled circuit returns exactly the value the source program denotes."""
import json
import random

from . import common, gen_prog, gen_types as T
from .common import Failure

PROP_MODULES = ["GarbleVerif.Props.C01"]
PANIC_CODES = {"Overflow": 1, "DivByZero": 2, "OutOfBounds": 3}


def small_value(rng, t):
    """values near zero: keep checked arithmetic away from overflow so that many runs complete"""
    k = t["k"]
    if k == "int":
        lo, hi = T.int_range(t["t"])
        return rng.choice([v for v in (0, 1, 2, 3, 5, 8, -1, -2, -4) if lo <= v <= hi])
    if k == "bool":
        return rng.random() < 0.5
    if k == "array":
        return [small_value(rng, t["elem"]) for _ in range(t["n"])]
    if k == "tuple":
        return tuple(small_value(rng, x) for x in t["ts"])
    if k == "struct":
        return ("struct", {f: small_value(rng, x) for f, x in t["fields"]})
    v, unit, ts = rng.choice(t["variants"])
    return ("enum", v, None if unit else [small_value(rng, x) for x in ts])


def gen_case(seed, cid, n_inputs, features=None, depth=3, observe_all=False):
    rng = random.Random(seed)
    g = gen_prog.ProgGen(rng, max_depth=depth, features=features)
    p = g.program(observe_all=observe_all)
    args = []
    for i in range(n_inputs):
        if i % 2 == 0 or (features and "core" in features and i % 3 != 2):
            args.append([small_value(rng, t) for _, t in p["params"]])
        else:
            args.append([T.rand_value(rng, t, 0.4) for _, t in p["params"]])
    return {"id": cid, "seed": seed, "src": p["src"], "prog": p["prog"], "params": p["params"], "ret": p["ret"],
            "args": args, "stats": g.stats,
            "gen": {"n_inputs": n_inputs, "features": sorted(features) if features else None, "depth": depth, "observe_all": observe_all}}


UNTYPED_NOTES = ("untyped-literal", "untyped-aggregate", "untyped-shift-lhs", "untyped-array-element")


def uses_untyped_literals(c):
    """the generator wrote at least one number of the program without its type suffix"""
    return any(c.get("stats", {}).get(k) for k in UNTYPED_NOTES)


def impl_case(c, kind, dedup):
    return {"id": c["id"], "op": "compile_eval", "src": c["src"], "kind": kind, "dedup": dedup,
            "inputs": [gen_prog.party_inputs(c["params"], a) for a in c["args"]]}


def model_case(c):
    return {"id": c["id"], "op": "src_eval", "prog": c["prog"], "fn": "main",
            "inputs": [[gen_prog.val_json(t, v) for (_, t), v in zip(c["params"], a)] for a in c["args"]]}


def judge(c, impl, model, cfg, tally):
    fs = []
    sub = {"op": "c01", "seed": c["seed"], "gen": c.get("gen"), "src": c["src"], "config": cfg}
    if impl is None:
        return [Failure("oracle", "c01:harness-no-result", "the harness gave no result (abort?)", sub, None, None)]
    if model is None:
        return [Failure("model", "c01:model-no-result", "the model driver gave no result", sub, None, None)]
    if not impl.get("ok"):
        tally["rejected"] += 1
        if impl.get("stage") == "panic":
            site = impl.get("detail", "").split(": ")[0].replace("/repo/", "")
            return [Failure("oracle", f"c01:compile-panics@{site}", f"compiling a well-typed program panics: {impl.get('detail')}", sub, "circuit", impl.get("detail"))]
        first = " ".join(impl.get("detail", "").split("\n")[1:3])[:120]
        if impl.get("stage") in ("type", "parse") and uses_untyped_literals(c):
            # C05 promises acceptance only for programs "with all literal types written out"; how far the
            # inference of unsuffixed literals reaches is not the subject of any property: not a violation
            tally["rejected_with_untyped_literals"] = tally.get("rejected_with_untyped_literals", 0) + 1
            return []
        return [Failure("model", f"c01:generated-program-rejected:{impl.get('stage')}", f"the front end rejects a generated program: {first}", sub, "accepted", impl.get("detail", "")[:600])]
    want_bits = T.size_of(c["ret"])
    for a, out, m in zip(c["args"], impl["outs"], model["results"]):
        one = dict(sub, args=[gen_prog.val_json(t, v) for (_, t), v in zip(c["params"], a)])
        if "stuck" in m:
            tally["stuck"] += 1
            fs.append(Failure("model", "c01:semantics-stuck", f"the source semantics cannot run a generated program: {m['stuck']}", one, None, m))
            break
        if out.startswith("panic@"):
            fs.append(Failure("oracle", "c01:eval-panics", f"evaluating the compiled circuit panics: {out[:120]}", one, "output bits", out))
            break
        flag, reason, value = out[0], int(out[1:33], 2), out[161:]
        if "panic" in m:
            tally["panic"] += 1
            if flag != "1":
                fs.append(Failure("oracle", "c01:missed-panic:" + m["panic"], f"the source program panics ({m['panic']}) but the circuit reports no panic", one, m, out[:40]))
                break
            if reason != PANIC_CODES[m["panic"]]:
                tally["other-reason"] += 1
                if tally.get("strict_reason"):
                    fs.append(Failure("oracle", f"c01:wrong-panic-reason:{m['panic']}->{reason}", f"the first failing operation of the source program is {m['panic']} but the circuit reports reason code {reason}", one, m, out[:40]))
                    break
        else:
            tally["value"] += 1
            if flag != "0":
                fs.append(Failure("oracle", "c01:spurious-panic", f"the source program returns a value but the circuit reports a panic (reason {reason})", one, m["value"], out[:40]))
                break
            if len(value) != want_bits:
                fs.append(Failure("oracle", "c01:output-width", f"the circuit returns {len(value)} value bits for a return type of {want_bits} bits", one, want_bits, len(value)))
                break
            if value != m["bits"]:
                fs.append(Failure("oracle", "c01:wrong-value", "the circuit returns a different value than the source semantics", one, m["bits"], value))
                break
    return fs


def collect(ctx, n, gen_kwargs, prefix="c01", configs=None, strict_reason=False, per_result=None):
    """generate programs, run them on /repo (several circuit configurations) and on the Lean source semantics;
    returns (failures, tally, generator statistics, sample cases)"""
    failures = []
    cases = [gen_case(ctx.rng.randrange(1 << 48), i, 6, **gen_kwargs) for i in range(n)]
    tally = {"rejected": 0, "stuck": 0, "panic": 0, "value": 0, "other-reason": 0, "strict_reason": strict_reason}
    model, _, _ = ctx.run_model([model_case(c) for c in cases], timeout=3000)
    configs = configs or [("ssa", True), ("reg", False), ("ssa", False), ("reg", True)]
    stats = {}
    for c in cases:
        for k, v in c["stats"].items():
            stats[k] = stats.get(k, 0) + v
    for ci, (kind, dedup) in enumerate(configs):
        sel = cases if ci == 0 else cases[ci::4]
        impl = common.run_lines_guarded(common.GVH, [impl_case(c, kind, dedup) for c in sel], per_case_timeout=20.0)
        for c in sel:
            r = impl.get(c["id"])
            if r is not None and (r.get("hang") or "died" in r):
                failures.append(Failure("oracle", prefix + ":compile-hangs-or-aborts", f"compiling / evaluating does not return: {r}", {"op": "c01", "seed": c["seed"], "gen": c["gen"], "src": c["src"]}, None, r))
                continue
            for f in judge(c, r, model.get(c["id"]), f"{kind},dedup={dedup}", tally) + (per_result(c, r, f"{kind},dedup={dedup}") if per_result else []):
                f.signature = f.signature.replace("c01:", prefix + ":", 1)
                failures.append(f)
    del tally["strict_reason"]
    return failures, tally, stats, cases


def explore(ctx, prop_modules, n, gen_kwargs, rule, assumptions, prefix="c01", configs=None, strict_reason=False):
    ctx.audit(prop_modules)
    failures = ctx.proof_failures()
    ok, log = ctx.build_harness()
    if not ok:
        failures.append(Failure("model", "harness-build-failed", "cargo build of the harness failed: " + log[-400:]))
        return common.finish(ctx, failures, {"evaluations": 0, "distinct_nontrivial": 0, "samples": []}, [], "proof")
    fs, tally, stats, cases = collect(ctx, n, gen_kwargs, prefix, configs, strict_reason)
    failures += fs
    seen, uniq = set(), []
    for f in failures:
        if f.signature not in seen:
            seen.add(f.signature); uniq.append(f)
    coverage = {
        "evaluations": tally["value"] + tally["panic"],
        "distinct_nontrivial": tally["value"],
        "rule": rule,
        "distribution": {"runs": tally, "generator": stats},
        "samples": [{"src": cases[0]["src"]}, {"src": cases[1]["src"]}],
    }
    return common.finish(ctx, uniq, coverage, assumptions, "proof", search=None)


def replay(ctx, path, prop_modules=None):
    """regenerates the program of a replay file from its seed and runs it again in all configurations"""
    d = json.load(open(path))
    case = d.get("case") or {}
    if "seed" not in case:
        print("replay file has no executable case:", d.get("what"))
        return 1
    ctx.build_harness()
    ctx.build_lean(prop_modules or PROP_MODULES)
    g = case.get("gen") or {}
    c = gen_case(case["seed"], 0, g.get("n_inputs", 6), features=set(g["features"]) if g.get("features") else None,
                 depth=g.get("depth", 3), observe_all=g.get("observe_all", False))
    if c["src"] != case.get("src"):
        print("note: the generator no longer produces the recorded program from this seed; running the recorded text is not possible without its tree")
    model, _, _ = ctx.run_model([model_case(c)])
    bad = False
    tally = {"rejected": 0, "stuck": 0, "panic": 0, "value": 0, "other-reason": 0}
    for kind, dedup in [("ssa", True), ("reg", False), ("ssa", False), ("reg", True)]:
        impl = common.run_lines_guarded(common.GVH, [impl_case(c, kind, dedup)], per_case_timeout=30.0)
        for f in judge(c, impl.get(0), model.get(0), f"{kind},dedup={dedup}", tally):
            print(f"{f.kind}: {f.signature}: {f.what}  [{kind},dedup={dedup}]")
            bad = bad or f.kind == "oracle"
    print(c["src"])
    print("runs:", tally)
    if bad:
        print(f"VIOLATION property={ctx.prop} replay={path}")
        return 1
    return 0


RULE = ("type-directed random programs (all literal types written out; helpers, let / let mut, shadowing, assignment to "
        "elements and fields, if / match / for as statements and expressions, casts, checked arithmetic, shifts, aggregates) "
        "whose syntax tree is built by the generator and printed to text; 6 argument tuples each (small values and boundary "
        "values); compiled by /repo as SSA and register circuit with and without gate de-duplication, evaluated, and compared "
        "with the Lean source semantics run on the generator's tree. non-trivial = runs that complete with a value")


def core_phase(ctx, n):
    """programs of the fragment of Model/BitSem.lean: circuit vs bit-level model vs source semantics"""
    fs = []
    # half of them with mutable variables: `let mut`, assignments (also inside the branches of an `if`, inside
    # blocks used as operands of `&&` / `||`), shadowing
    cases = [gen_case(ctx.rng.randrange(1 << 48), i, 6,
                      features=[{"core"}, {"core", "assign", "impure", "shadow"}, {"core", "match"},
                                {"core", "match", "assign", "impure", "shadow"}, {"core", "helpers", "assign", "impure"},
                                {"core", "helpers", "match", "assign", "impure", "shadow"},
                                # with aggregates: tuples, structs, arrays, indexing, loops, destructuring, paths
                                {"core", "agg", "assign", "impure", "loops"},
                                {"core", "agg", "structs", "helpers", "match", "assign", "impure", "shadow", "loops"},
                                {"core", "agg", "structs", "match"},
                                {"core", "agg", "match", "loops", "assign", "impure"},
                                {"core", "agg", "structs", "enums", "helpers", "match", "assign", "impure", "shadow", "loops"},
                                {"core", "agg", "enums", "match", "loops", "assign", "impure"}][i % 12], depth=4) for i in range(n)]
    impl = common.run_lines_guarded(common.GVH, [impl_case(c, "ssa", True) for c in cases], per_case_timeout=20.0)
    bit, _, _ = ctx.run_model([dict(model_case(c), op="bit_eval") for c in cases], timeout=3000)
    src, _, _ = ctx.run_model([model_case(c) for c in cases], timeout=3000)
    tally = {"value": 0, "panic": 0, "outside": 0}
    for c in cases:
        r, m = impl.get(c["id"]), bit.get(c["id"])
        sub = {"op": "c01", "seed": c["seed"], "gen": c["gen"], "src": c["src"], "config": "core"}
        if r is None or not r.get("ok") or m is None:
            fs.append(Failure("model", "c01:core:no-result", f"no result for a program of the core fragment: {json.dumps(r)[:200]}", sub, None, r))
            continue
        if "outside" in m:
            tally["outside"] += 1
            fs.append(Failure("model", "c01:core:generator-left-the-fragment", "the generator's core mode produced a program that Bit.bitStmts does not cover", sub, None, None))
            continue
        for k, (a, out, mm) in enumerate(zip(c["args"], r["outs"], m["results"])):
            one = dict(sub, args=[gen_prog.val_json(t, v) for (_, t), v in zip(c["params"], a)])
            if "outside" in mm:
                tally["outside"] += 1
                break
            if out.startswith("panic@"):
                fs.append(Failure("oracle", "c01:eval-panics", f"evaluating the compiled circuit panics: {out[:120]}", one, "output bits", out))
                break
            flag, reason, value = out[0], int(out[1:33], 2), out[161:]
            if mm["panic"] is not None:
                tally["panic"] += 1
                ok = flag == "1" and reason == PANIC_CODES[mm["panic"]]
            else:
                tally["value"] += 1
                ok = flag == "0" and value == mm["bits"]
            if not ok:
                # the model equals the source semantics on the fragment (C01_core): if the circuit differs from the source
                # semantics too, this input is a failing input of the property itself
                ms = ((src.get(c["id"]) or {}).get("results") or [None] * (k + 1))[k] or {}
                if "panic" in ms or "bits" in ms:
                    ok_src = (flag == "1" and reason == PANIC_CODES[ms["panic"]]) if "panic" in ms else (flag == "0" and value == ms["bits"])
                    if not ok_src:
                        fs.append(Failure("oracle", "c01:core:circuit-differs-from-source-semantics", "the circuit disagrees with the source semantics and with the bit-level model of compile.rs (Bit.bitStmts), which agree with each other", one, ms, out[:40] + "…" + value))
                        break
                fs.append(Failure("model", "c01:core:bit-level-model-differs", "the circuit and the bit-level model of compile.rs (Bit.bitStmts) disagree", one, mm, out[:40] + "…" + value))
                break
    return fs, tally


def edge_values(t):
    lo, hi = T.int_range(t)
    vs = {lo, lo + 1, 0, 1, 2, 3, hi // 2, hi // 2 + 1, hi - 1, hi}
    if lo < 0:
        vs |= {-1, -2, -3, lo // 2}
    return sorted(vs)


def operator_programs():
    """(source, name, argument pairs)"""
    out = []
    for t in T.INTS:
        w = T.INTS[t][1]
        vs = edge_values(t)
        for op in ["+", "-", "*", "/", "%", "&", "|", "^"]:
            out.append((f"pub fn main(x: {t}, y: {t}) -> {t} {{ x {op} y }}", f"{t} {op}", [(a, b) for a in vs for b in vs]))
        for op in ["==", "<", "<=", ">", ">=", "!="]:
            out.append((f"pub fn main(x: {t}, y: {t}) -> bool {{ x {op} y }}", f"{t} {op}", [(a, b) for a in vs for b in vs]))
        for op in ["<<", ">>"]:
            out.append((f"pub fn main(x: {t}, y: u8) -> {t} {{ x {op} y }}", f"{t} {op}",
                        [(a, b) for a in vs for b in sorted({0, 1, 2, w // 2, w - 2, w - 1, w, w + 1, 255})]))
        out.append((f"pub fn main(x: {t}, y: {t}) -> {t} {{ (x / y) + (x % y) }}", f"{t} /+%", [(a, b) for a in vs for b in vs]))
    return out


def tast_phase(ctx, n):
    """the tree check.rs itself builds (harness op typed_ast) through the source semantics and the model of the compiler:
    generated programs of the whole language and the corpus (hand-written programs of the repository) on random inputs"""
    from . import corpus, mutants
    fs = []
    tally = {"generated": 0, "corpus": 0, "operators": 0, "value": 0, "panic": 0, "outside_model": 0, "not_translated": 0, "rejected": 0}
    cases = [gen_case(ctx.rng.randrange(1 << 48), i, 4, features=None, depth=3) for i in range(n)]
    for c in cases:
        c["origin"] = "generated"
    for name, src in corpus.programs():
        cases.append({"id": len(cases), "seed": None, "src": src, "origin": "corpus", "name": name, "gen": None})
    # every binary operator at every integer type on ALL pairs of values at the ends of the type and around zero
    # (a whole-program view of what C03 compares operator by operator: MIN / MAX, MIN % -1, MAX + 1, shifts by width - 1, ...)
    for src, name, pairs in operator_programs():
        cases.append({"id": len(cases), "seed": None, "src": src, "origin": "operators", "name": name, "gen": None, "pairs": pairs})
    ta = common.run_lines_guarded(common.GVH, [{"id": c["id"], "op": "typed_ast", "src": c["src"]} for c in cases], per_case_timeout=20.0)
    todo = []
    for c in cases:
        r = ta.get(c["id"]) or {}
        if r.get("outcome") != "ok":
            tally["rejected"] += 1
            continue
        if "prog" not in r:
            tally["not_translated"] += 1
            tally["why:" + r.get("outside", "?")[:40]] = tally.get("why:" + r.get("outside", "?")[:40], 0) + 1
            continue
        main = next((f for f in r["prog"]["fns"] if f["name"] == "main"), None)
        if main is None:
            continue
        c["tprog"], c["uses"] = r["prog"], set(r.get("uses") or [])
        if c["origin"] == "corpus":
            c["params"] = main["params"]
            try:
                c["args"] = [[(small_value(ctx.rng, t) if i % 2 == 0 else T.rand_value(ctx.rng, t, 0.4)) for _, t in main["params"]] for i in range(6)]
            except Exception:
                continue
        if c["origin"] == "operators":
            c["params"] = main["params"]
            c["args"] = [list(pr) for pr in c["pairs"]]
        c["inputs"] = [[gen_prog.val_json(t, v) for (_, t), v in zip(c["params"], a)] for a in c["args"]]
        todo.append(c)
    impl = common.run_lines_guarded(common.GVH, [impl_case(c, "ssa", True) for c in todo], per_case_timeout=30.0)
    src, _, _ = ctx.run_model([{"id": c["id"], "op": "src_eval", "prog": c["tprog"], "fn": "main", "inputs": c["inputs"]} for c in todo], timeout=3000)
    bit, _, _ = ctx.run_model([{"id": c["id"], "op": "bit_eval", "prog": c["tprog"], "inputs": c["inputs"]} for c in todo], timeout=3000)
    for c in todo:
        r, ms, mb = impl.get(c["id"]) or {}, src.get(c["id"]) or {}, bit.get(c["id"]) or {}
        sub = {"op": "c01", "seed": c["seed"], "gen": c.get("gen"), "src": c["src"], "config": "checker-tree", "name": c.get("name")}
        if not r.get("ok"):
            continue                      # compile errors / panics of accepted programs are C05's and C07's
        tally[c["origin"]] += 1
        in_model = not (c["uses"] & mutants.OUTSIDE_MODEL)
        for a, inp, out, s1, b1 in zip(c["args"], c["inputs"], r["outs"], ms.get("results", []), mb.get("results", [])):
            one = dict(sub, args=inp)
            if out.startswith("panic@"):
                fs.append(Failure("oracle", "c01:eval-panics", f"evaluating the compiled circuit panics: {out[:120]}", one, "output bits", out))
                break
            flag, reason, value = out[0], int(out[1:33], 2), out[161:]
            # the source semantics on check.rs' tree (for-join has preconditions on its inputs: C13 compares those)
            if "for-join" not in c["uses"]:
                if "stuck" in s1:
                    fs.append(Failure("oracle", "c01:checker-tree:stuck:" + s1["stuck"][:30], f"the source semantics get stuck ({s1['stuck']}) on the tree check.rs built for an accepted program", one, "a value or a panic", s1))
                    break
                ok = (flag == "1" and reason == PANIC_CODES[s1["panic"]]) if "panic" in s1 else (flag == "0" and value == s1["bits"])
                if not ok:
                    fs.append(Failure("oracle", "c01:checker-tree:circuit-differs-from-source-semantics", "the circuit and the source semantics of the tree check.rs built disagree", one, s1, out[:40] + "…" + value))
                    break
            if not in_model or "outside" in b1:
                tally["outside_model"] += 1
                if in_model:
                    fs.append(Failure("model", "c01:checker-tree:model-does-not-cover", "Bit.bitBody does not cover the tree check.rs built for an accepted program", one, None, None))
                    break
                continue
            if b1["panic"] is not None:
                tally["panic"] += 1
                ok = flag == "1" and reason == PANIC_CODES[b1["panic"]]
            else:
                tally["value"] += 1
                ok = flag == "0" and value == b1["bits"]
            if not ok:
                fs.append(Failure("model", "c01:checker-tree:bit-level-model-differs", "the circuit and the bit-level model of compile.rs (Bit.bitBody on check.rs' tree) disagree", one, b1, out[:40] + "…" + value))
                break
    return fs, tally


def run(ctx):
    quick = ctx.tier == "quick"
    ctx.audit(PROP_MODULES)
    failures = ctx.proof_failures()
    ok, log = ctx.build_harness()
    if not ok:
        failures.append(Failure("model", "harness-build-failed", "cargo build of the harness failed: " + log[-400:]))
        return common.finish(ctx, failures, {"evaluations": 0, "distinct_nontrivial": 0, "samples": []}, [], "proof")
    fs, tally, stats, cases = collect(ctx, 1500 if quick else 30000, {})
    failures += fs
    cfs, ctally = core_phase(ctx, 600 if quick else 12000)
    failures += cfs
    tfs, ttally = tast_phase(ctx, 300 if quick else 6000)
    failures += tfs
    seen, uniq = set(), []
    for f in failures:
        if f.signature not in seen:
            seen.add(f.signature); uniq.append(f)
    coverage = {
        "evaluations": tally["value"] + tally["panic"] + ctally["value"] + ctally["panic"] + ttally["value"] + ttally["panic"],
        "distinct_nontrivial": tally["value"] + ctally["value"],
        "rule": RULE + ". Second stream: programs of the fragment theorem C01_core covers (12 feature mixes: scalars only; with assignments, "
                "shadowing, match, helper functions; with tuples, arrays, structs, enums, indexing, loops, destructuring patterns, "
                "assignment through accessors, == on aggregates) run through the circuit and through the model of compile.rs "
                "(Bit.bitBody); bits, panic flag and reason must agree exactly and no program may be outside the model. Third stream: "
                "the tree check.rs itself builds for a program (harness op typed_ast: operand types, cast sources and literal types as "
                "the checker inferred them) run through Src.evalStmts and Bit.bitBody, for generated programs of the whole language "
                "and for the corpus (the hand-written programs of the repository's tests and examples, on random inputs), and for every binary "
                "operator at every integer type on all pairs of values at the ends of the type and around zero; programs "
                "with for-join, join(), multiplication by a negative literal, constants that are not literals or numbers without a "
                "type are outside the compiler model and only compared with the source semantics or counted.",
        "distribution": {"runs": tally, "core_fragment_runs": ctally, "checker_tree_runs": ttally, "generator": stats},
        "samples": [{"src": cases[0]["src"]}, {"src": cases[1]["src"]}],
    }
    return common.finish(ctx, uniq, coverage, ["programs of nesting depth <= 3 (core: 4), arrays of at most 4 elements"], "proof", search=None)
