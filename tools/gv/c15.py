"""C15 — circuits contain no useless gates; pure data movement costs zero AND gates."""
import json

from . import c04, common, corpus, gen_datamove, gen_prog, gen_reqs
from .common import Failure

PROP_MODULES = ["GarbleVerif.Props.C15"]


def scan(circ, dedup=True):
    """Returns a list of (signature, message) for the three structural clauses."""
    n = sum(circ["input_gates"])
    gates = circ["gates"]
    problems = []
    # reachability from the outputs
    reach = [False] * (n + len(gates))
    stack = list(circ["output_gates"])
    while stack:
        w = stack.pop()
        if w >= len(reach) or reach[w]:
            continue
        reach[w] = True
        if w >= n:
            stack.extend(gates[w - n][1:])
    dead = [n + i for i in range(2, len(gates)) if not reach[n + i]]
    if dead:
        problems.append(("dead-gate", f"{len(dead)} gate(s) reach no output, first at wire {dead[0]}"))
    seen = {}
    for i, g in enumerate(gates):
        if g[0] != "A":
            continue
        x, y = g[1], g[2]
        if x == y:
            problems.append(("and-same-wire", f"gate {n+i} = And({x},{y})"))
        if x in (n, n + 1) or y in (n, n + 1):
            problems.append(("and-constant-operand", f"gate {n+i} = And({x},{y}) has a constant operand"))
        key = (min(x, y), max(x, y))
        if dedup and key in seen:
            problems.append(("and-duplicate", f"gates {seen[key]} and {n+i} are both And{key}"))
        seen.setdefault(key, n + i)
    return problems


def related_checks():
    """programs whose failing operations have related conditions (one implies, equals or absorbs another)"""
    out = []
    for t, w in [("u8", 8), ("u16", 16), ("u32", 32), ("u64", 64), ("i8", 8), ("i16", 16), ("i32", 32), ("i64", 64)]:
        for k in (1, 2, w // 2, w - 1):
            for op in ("/", "%"):
                out.append(f"pub fn main(a: {t}, w: {t}) -> {t} {{\n    let q = a {op} (w >> {k}u8);\n    let r = a {op} w;\n    q ^ r\n}}")
                out.append(f"pub fn main(a: {t}, w: {t}) -> {t} {{\n    let r = a {op} w;\n    let q = a {op} (w >> {k}u8);\n    q ^ r\n}}")
        out.append(f"pub fn main(a: {t}, w: {t}) -> {t} {{\n    let q = a / w;\n    let r = a % w;\n    let s = w / w;\n    q ^ r ^ s\n}}")
        out.append(f"pub fn main(a: {t}, w: {t}) -> {t} {{\n    let q = a + w;\n    let r = a + w;\n    let s = (a + w) + a;\n    q ^ r ^ s\n}}")
        out.append(f"pub fn main(a: [{t}; 4], b: [{t}; 8], i: usize) -> {t} {{\n    let q = b[i];\n    let r = a[i];\n    let s = a[i >> 1u8];\n    q ^ r ^ s\n}}")
        out.append(f"pub fn main(a: [{t}; 3], i: usize, c: bool) -> {t} {{\n    let q = if c {{ a[i] }} else {{ a[i] / a[0] }};\n    let r = a[i];\n    q ^ r\n}}")
    return out


def judge(case, impl, model):
    fs = []
    if case["op"] == "builder_run":
        fs = [f for f in c04.judge(case, impl, model) if f.kind == "model"]
        if impl and "circuit" in impl:
            for sig, msg in scan(impl["circuit"], dedup=case.get("cache", True)):
                fs.append(Failure("oracle", "builder:" + sig, "circuit built from a request sequence: " + msg, case, None, msg))
    elif case["op"] == "compile":
        if impl and impl.get("ok"):
            for sig, msg in scan(impl["ssa"], dedup=case.get("dedup", True)):
                fs.append(Failure("oracle", "program:" + sig, "compiled program: " + msg, case, None, msg))
            if case.get("datamove"):
                ands = sum(1 for g in impl["ssa"]["gates"] if g[0] == "A")
                if ands:
                    fs.append(Failure("oracle", "datamove:and-gates", f"a pure data-movement program compiles to {ands} AND gates", case, 0, ands))
        elif case.get("datamove"):
            fs.append(Failure("model", "datamove:rejected", f"generated data-movement program does not compile: {str(impl)[:300]}", case, "ok", impl))
    return fs


def run(ctx):
    quick = ctx.tier == "quick"
    ctx.audit(PROP_MODULES)
    failures = ctx.proof_failures()
    ok, log = ctx.build_harness()
    if not ok:
        failures.append(Failure("model", "harness-build-failed", "cargo build of the harness failed: " + log[-400:]))
        return common.finish(ctx, failures, {"evaluations": 0, "distinct_nontrivial": 0, "samples": []}, [], "proof")
    cases = []
    tstats = {}
    for _ in range(800 if quick else 15000):
        nparties = ctx.rng.choice([1, 2, 3])
        sizes = [ctx.rng.choice([1, 2, 3]) for _ in range(nparties)]
        reqs, nres = gen_reqs.random_seq(ctx.rng, sum(sizes), ctx.rng.choice([5, 20, 60, 150]), tstats)
        k = ctx.rng.choice([1, 3, 8])
        outs = sorted(ctx.rng.sample(range(nres), min(k, nres)))
        cases.append(c04.mk_case(len(cases), sizes, ctx.rng.random() < 0.8, reqs, outs))
    nb = len(cases)
    for name, src in corpus.programs():
        for dedup in (True, False):
            cases.append({"id": len(cases), "op": "compile", "src": src, "dedup": dedup, "origin": name})
    np_ = len(cases) - nb
    for _ in range(400 if quick else 6000):
        cases.append({"id": len(cases), "op": "compile", "src": gen_datamove.program(ctx.rng), "datamove": True})
    # programs with MANY failing operations: every check feeds the panic record through push_panic_if / mux_panic, and a
    # condition that an earlier one absorbs (x / (w >> 1) then x / w) must not leave gates behind either
    ngen = 0
    for src in related_checks():
        for dedup in (True, False):
            cases.append({"id": len(cases), "op": "compile", "src": src, "dedup": dedup, "origin": "related-checks"})
            ngen += 1
    for i in range(300 if quick else 5000):
        import random
        g = gen_prog.ProgGen(random.Random(ctx.rng.randrange(1 << 48)), max_depth=3,
                             features=[None, {"core", "stress"}, {"core", "agg", "assign", "impure", "loops", "stress"}][i % 3])
        cases.append({"id": len(cases), "op": "compile", "src": g.program()["src"], "dedup": i % 4 != 3, "origin": "generated"})
        ngen += 1
    impl = common.run_lines_guarded(common.GVH, cases, per_case_timeout=30.0)
    model, _, _ = ctx.run_model(cases[:nb], timeout=3000)
    distinct = set()
    nscanned = 0
    ngates = 0
    for c in cases:
        i, m = impl.get(c["id"]), model.get(c["id"])
        failures += judge(c, i, m)
        circ = (i or {}).get("circuit") or (i or {}).get("ssa")
        if circ:
            nscanned += 1
            ngates += len(circ["gates"])
            if len(circ["gates"]) > 2:
                distinct.add(json.dumps(circ, sort_keys=True))
    coverage = {
        "evaluations": len(cases),
        "distinct_nontrivial": len(distinct),
        "rule": "circuits built by the real builder from random rule-directed request sequences (structurally identical to the "
                "model's, for which reachability is proved), compiler output of the corpus (dedup on and off), of programs whose "
                "failing operations have related conditions (division by w and by w >> k, repeated checks), of generated programs "
                "with many failing operations, and generated pure data-movement programs; each circuit is scanned for gates that reach no output, AND gates with a constant or "
                "repeated operand, duplicate AND gates (dedup on), and data-movement programs must have 0 AND gates; "
                "non-trivial = distinct circuit with more than the two constant gates",
        "traces_validated_against_impl": nb,
        "programs": len(cases) - nb,
        "distribution": {"request_sequences": nb, "corpus_compilations": np_, "datamove_programs": len(cases) - nb - np_ - ngen, "programs_with_failing_operations": ngen,
                         "circuits_scanned": nscanned, "gates_scanned": ngates},
        "samples": [cases[3], {k: v for k, v in cases[-1].items()}],
        "not_proved": ["C15_and_normal_Statement", "C15_and_unique_Statement", "C15_data_movement (needs the language-level model)"],
    }
    assumptions = ["at least one input bit", "wires named in requests exist",
                   "AND-normal / AND-unique / data-movement clauses are explored (scans), not proved"]
    return common.finish(ctx, failures, coverage, assumptions, "proof", search=None)
