"""Generator of 'pure data movement' programs (C15, second sentence): let / tuple / struct / array
construction and destructuring, constant-index reads and writes, loops over arrays, equal-width casts."""

PRIMS = ["bool", "u8", "i8", "u16", "i16", "u32"]
SAMEW = {"u8": "i8", "i8": "u8", "u16": "i16", "i16": "u16"}


def ty_str(t):
    k = t[0]
    if k == "prim":
        return t[1]
    if k == "tuple":
        return "(" + ", ".join(ty_str(x) for x in t[1]) + ")"
    if k == "array":
        return f"[{ty_str(t[1])}; {t[2]}]"
    if k == "struct":
        return t[1]
    raise ValueError(t)


class Gen:
    def __init__(self, rng):
        self.rng = rng
        self.structs = {}  # name -> [(field, type)] (fields sorted by name)
        self.stmts = []
        self.env = []  # (name, type, mutable)
        self.n = 0

    def fresh(self, p="v"):
        self.n += 1
        return f"{p}{self.n}"

    def rand_type(self, depth):
        r = self.rng.random()
        if depth <= 0 or r < 0.4:
            return ("prim", self.rng.choice(PRIMS))
        if r < 0.6:
            return ("tuple", [self.rand_type(depth - 1) for _ in range(self.rng.choice([2, 2, 3]))])
        if r < 0.8:
            return ("array", self.rand_type(depth - 1), self.rng.choice([1, 2, 3]))
        if self.structs and self.rng.random() < 0.5:
            return ("struct", self.rng.choice(sorted(self.structs)))
        fields = [(f"f{i}", self.rand_type(depth - 1)) for i in range(self.rng.choice([1, 2, 3]))]
        name = f"S{len(self.structs)}"
        self.structs[name] = fields
        return ("struct", name)

    # ---- expressions of a given type
    def sources(self, t):
        """expressions of type t reachable from variables by projections"""
        out = []

        def walk(expr, ty, d):
            if ty == t:
                out.append(expr)
            if d <= 0:
                return
            if ty[0] == "tuple":
                for i, x in enumerate(ty[1]):
                    walk(f"{expr}.{i}", x, d - 1)
            elif ty[0] == "array":
                for i in range(ty[2]):
                    walk(f"{expr}[{i}]", ty[1], d - 1)
            elif ty[0] == "struct":
                for f, x in self.structs[ty[1]]:
                    walk(f"{expr}.{f}", x, d - 1)

        for name, ty, _ in self.env:
            walk(name, ty, 3)
        return out

    def expr(self, t, depth):
        srcs = self.sources(t)
        r = self.rng.random()
        if srcs and (depth <= 0 or r < 0.45):
            return self.rng.choice(srcs)
        k = t[0]
        if k == "prim":
            p = t[1]
            if p in SAMEW and r < 0.8:
                other = ("prim", SAMEW[p])
                if self.sources(other) or depth > 0:
                    return f"({self.expr(other, depth - 1)} as {p})"
            if srcs:
                return self.rng.choice(srcs)
            return "true" if p == "bool" else f"{self.rng.randrange(0, 100)}{p}"
        if k == "tuple":
            return "(" + ", ".join(self.expr(x, depth - 1) for x in t[1]) + ")"
        if k == "array":
            if self.rng.random() < 0.25:
                return f"[{self.expr(t[1], depth - 1)}; {t[2]}]"
            return "[" + ", ".join(self.expr(t[1], depth - 1) for _ in range(t[2])) + "]"
        if k == "struct":
            fs = self.structs[t[1]]
            return t[1] + " { " + ", ".join(f"{f}: {self.expr(x, depth - 1)}" for f, x in fs) + " }"
        raise ValueError(t)

    # ---- statements
    def stmt(self):
        r = self.rng.random()
        cands = [(n, t) for n, t, _ in self.env]
        if r < 0.3:
            t = self.rand_type(2)
            name = self.fresh()
            self.stmts.append(f"let {name} = {self.expr(t, 2)};")
            self.env.append((name, t, False))
        elif r < 0.5:
            # destructure a tuple or struct
            tv = [(n, t) for n, t in cands if t[0] in ("tuple", "struct")]
            if not tv:
                return
            n, t = self.rng.choice(tv)
            if t[0] == "tuple":
                names = [self.fresh("d") for _ in t[1]]
                self.stmts.append(f"let ({', '.join(names)}) = {n};")
                self.env += [(a, x, False) for a, x in zip(names, t[1])]
            else:
                fs = self.structs[t[1]]
                names = [self.fresh("d") for _ in fs]
                self.stmts.append(f"let {t[1]} {{ {', '.join(f'{f}: {a}' for (f, _), a in zip(fs, names))} }} = {n};")
                self.env += [(a, x, False) for a, (_, x) in zip(names, fs)]
        elif r < 0.7:
            # mutable copy of an array + constant-index write
            av = [(n, t) for n, t in cands if t[0] == "array"]
            if not av:
                return
            n, t = self.rng.choice(av)
            m = self.fresh("m")
            self.stmts.append(f"let mut {m} = {n};")
            self.env.append((m, t, True))
            i = self.rng.randrange(t[2])
            self.stmts.append(f"{m}[{i}] = {self.expr(t[1], 1)};")
        elif r < 0.85:
            # loop over an array, keeping the last element
            av = [(n, t) for n, t in cands if t[0] == "array"]
            if not av:
                return
            n, t = self.rng.choice(av)
            acc = self.fresh("acc")
            x = self.fresh("x")
            self.stmts.append(f"let mut {acc} = {self.expr(t[1], 1)};")
            self.stmts.append(f"for {x} in {n} {{ {acc} = {x}; }}")
            self.env.append((acc, t[1], True))
        else:
            t = self.rand_type(1)
            m = self.fresh("m")
            self.stmts.append(f"let mut {m} = {self.expr(t, 1)};")
            self.env.append((m, t, True))
            self.stmts.append(f"{m} = {self.expr(t, 1)};")


def program(rng):
    g = Gen(rng)
    nparams = rng.choice([1, 2, 3])
    params = []
    for i in range(nparams):
        t = g.rand_type(2)
        params.append((f"p{i}", t))
        g.env.append((f"p{i}", t, False))
    if len(params) == 1 and params[0][1][0] == "array":
        params.append(("q", ("prim", "bool")))  # a single array parameter means "one party per element"
        g.env.append(("q", ("prim", "bool"), False))
    for _ in range(rng.randrange(1, 7)):
        g.stmt()
    ret = g.rand_type(2)
    body = "\n    ".join(g.stmts + [g.expr(ret, 2)])
    defs = "".join(
        f"struct {n} {{ {', '.join(f'{f}: {ty_str(t)}' for f, t in fs)} }}\n" for n, fs in sorted(g.structs.items())
    )
    sig = ", ".join(f"{n}: {ty_str(t)}" for n, t in params)
    return f"{defs}pub fn main({sig}) -> {ty_str(ret)} {{\n    {body}\n}}\n"
