"""C02 — panic iff the source semantics fail; first failure wins; untaken code is silent.

Part (a), builder level: sequences of gate requests interleaved with the panic-record operations of
compile.rs (push_panic_if / clone / replace_panic_with / mux_panic) through the verif_hooks wrapper:
structural correspondence with the Lean model, and the decoded record against the abstract panic
state (an optional (reason, location), first failure wins)."""
import json

from . import c04, common, gen_reqs
from .common import Failure

# the generator's default features plus "stress": statements built to fail are frequent (which failure is reported first)
STRESS = {"match", "loops", "helpers", "structs", "assign", "impure", "shadow", "untyped", "stress"}
PROP_MODULES = ["GarbleVerif.Props.C02"]


def gen_seq(rng, ninputs, length):
    """A request sequence shaped like what compile.rs does: conditions are shared between sites, records are
    saved / restored around branches and merged with mux_panic."""
    reqs = []
    nres = ninputs + 2
    nsnaps = 0
    conds = []

    def pick_cond():
        r = rng.random()
        if conds and r < 0.45:
            return rng.choice(conds)  # the same condition wire again (cache hit)
        if r < 0.9:
            c = rng.randrange(2, nres)
        else:
            c = rng.randrange(0, 2)  # constant condition
        conds.append(c)
        return c

    def site():
        return ["panic_if", pick_cond(), rng.choice([1, 2, 3]), rng.randrange(0, 50), rng.randrange(0, 80), rng.randrange(0, 50), rng.randrange(0, 80)]

    while len(reqs) < length:
        r = rng.random()
        if r < 0.3:
            g, n2 = gen_reqs.random_seq(rng, ninputs, 1)
            # re-number: random_seq assumes it starts from scratch; clamp handles to what exists
            for q in g:
                q = [q[0]] + [min(x, nres - 1) for x in q[1:]]
                reqs.append(q)
                nres += gen_reqs.NRES[q[0]]
        elif r < 0.6:
            reqs.append(site())
        elif r < 0.8:
            # if / else: save, then-branch, restore, else-branch, restore, merge
            cond = rng.randrange(2, nres)
            reqs.append(["snapshot"]); before = nsnaps; nsnaps += 1
            for _ in range(rng.randrange(0, 3)):
                reqs.append(site())
            reqs.append(["restore", before]); t = nsnaps; nsnaps += 1
            for _ in range(rng.randrange(0, 3)):
                reqs.append(site())
            reqs.append(["restore", before]); f = nsnaps; nsnaps += 1
            reqs.append(["install_mux", cond, t, f])
        elif r < 0.9 and nsnaps >= 2:
            reqs.append(["mux_panic", rng.randrange(2, nres), rng.randrange(nsnaps), rng.randrange(nsnaps)]); nsnaps += 1
        elif r < 0.95 and nsnaps >= 1:
            reqs.append(["restore", rng.randrange(nsnaps)]); nsnaps += 1
        else:
            reqs.append(["snapshot"]); nsnaps += 1
    return reqs, nres


def abstract_run(case, bits):
    """Abstract panic state after the sequence on one input assignment: None | (reason, l0, c0, l1, c1)."""
    vs = [0, 1] + list(bits)
    cur = None
    snaps = []
    for r in case["reqs"]:
        op = r[0]
        if op == "panic_if":
            if r[1] < len(vs):
                if cur is None and vs[r[1]]:
                    cur = (r[2] if r[2] in (1, 2) else 3, r[3], r[4], r[5], r[6])
        elif op == "snapshot":
            snaps.append(cur)
        elif op == "restore":
            if r[1] < len(snaps):
                old = cur
                cur = snaps[r[1]]
                snaps.append(old)
        elif op in ("mux_panic", "install_mux"):
            if r[1] < len(vs) and r[2] < len(snaps) and r[3] < len(snaps):
                m = snaps[r[2]] if vs[r[1]] else snaps[r[3]]
                if op == "mux_panic":
                    snaps.append(m)
                else:
                    cur = m
        else:
            vs = c04.literal_eval([r], vs[2:]) if False else _lit_step(vs, r)
    return cur, vs


def _lit_step(vs, r):
    out = c04.literal_eval([r], [])  # dummy to reuse the op table below
    op = r[0]
    try:
        a = [vs[h] for h in r[1:]]
    except IndexError:
        return vs
    vs = list(vs)
    if op == "xor":
        vs.append(a[0] ^ a[1])
    elif op == "and":
        vs.append(a[0] & a[1])
    elif op == "or":
        vs.append(a[0] | a[1])
    elif op == "eq":
        vs.append(1 - (a[0] ^ a[1]))
    elif op == "not":
        vs.append(1 - a[0])
    elif op == "mux":
        vs.append(a[1] if a[0] else a[2])
    elif op == "adder":
        u = a[0] ^ a[1]
        vs.append(u ^ a[2])
        vs.append((a[0] & a[1]) | (u & a[2]))
    return vs


def decode_rec(bits):
    if bits[0] == "0":
        return None
    f = lambda k: int(bits[1 + 32 * k: 33 + 32 * k], 2)
    return (f(0), f(1), f(2), f(3), f(4))


def judge(case, impl, model):
    fs = []
    if impl is None or "gates" not in (impl or {}):
        return [Failure("oracle", "panic-ops:builder-panics", f"the builder panics: {impl}", case, "a circuit", impl)]
    n = sum(case["input_gates"])
    for a, out in enumerate(impl["evals"]):
        bits = [(a >> k) & 1 for k in range(n)]
        exp, vs = abstract_run(case, bits)
        got = decode_rec(out) if out != "panic" else "eval-panic"
        if got != exp:
            kind = "dropped-or-overwritten" if exp is not None and got is not None else ("spurious" if exp is None else "lost")
            fs.append(Failure("oracle", f"panic-record:{kind}",
                              f"input assignment #{a}: abstract panic state {exp}, circuit reports {got}", case, exp, got))
            break
        exp_outs = "".join(str(vs[o]) for o in case["outs"] if o < len(vs))
        if out != "panic" and out[161:] != exp_outs:
            fs.append(Failure("oracle", "panic-ops:outputs-changed", f"input assignment #{a}: outputs differ from literal execution", case, exp_outs, out[161:]))
            break
    if model is None or "gates" not in (model or {}):
        fs.append(Failure("model", "panic-ops:driver-no-result", "driver produced no result", case, None, model))
        return fs
    for key in ("shift", "gates", "results", "circuit"):
        if model[key] != impl[key]:
            fs.append(Failure("model", f"panic-ops:{key}-differs", f"builder model and implementation differ structurally in '{key}'", case, None, None))
            break
    return fs


REASONS = {1: "Overflow", 2: "DivByZero", 3: "OutOfBounds"}


def wide_shift_phase(ctx, quick):
    """`x << s` / `x >> s` where `s` is a number without a suffix bound by `let` (32 wires, not a u8): the shift must
    fail with Overflow exactly when the amount is not smaller than the width of `x`, and otherwise give what the same
    shift by the `u8` amount gives"""
    from . import gen_types as T
    fs = []
    amounts = [0, 1, 2, 7, 8, 15, 16, 31, 32, 63, 64, 127, 255, 256, 258, 264, 511, 65536, 65538, 16777216, 2147483647]
    cases = []
    for t in ["u8", "u16", "u32", "u64", "i8", "i16", "i32", "i64"]:
        bits = T.INTS[t][1]
        for op in ["<<", ">>"]:
            for _ in range(4 if quick else 40):
                a, b = ctx.rng.choice(amounts), ctx.rng.choice(amounts)
                xs = [T.rand_value(ctx.rng, {"k": "int", "t": t}, 0.5) for _ in range(3)]
                src = f"pub fn main(x: {t}, b: bool) -> {t} {{\n    let s = if b {{ {a} }} else {{ {b} }};\n    x {op} s\n}}\n"
                for which, m in ((True, a), (False, b)):
                    cases.append({"t": t, "bits": bits, "op": op, "m": m, "src": src, "xs": xs, "b": which,
                                  "ref": f"pub fn main(x: {t}, b: bool) -> {t} {{\n    x {op} {m}u8\n}}\n" if m < min(bits, 256) else None})
    reqs = []
    for i, c in enumerate(cases):
        inputs = [[T.encode({"k": "int", "t": c["t"]}, x), "1" if c["b"] else "0"] for x in c["xs"]]
        reqs.append({"id": 2 * i, "op": "compile_eval", "src": c["src"], "kind": "ssa", "dedup": True, "inputs": inputs})
        if c["ref"]:
            reqs.append({"id": 2 * i + 1, "op": "compile_eval", "src": c["ref"], "kind": "ssa", "dedup": True, "inputs": inputs})
    res = common.run_lines_guarded(common.GVH, reqs, per_case_timeout=20.0)
    tally = {"overflow_expected": 0, "value_expected": 0}
    for i, c in enumerate(cases):
        r, ref = res.get(2 * i) or {}, res.get(2 * i + 1) or {}
        sub = {"op": "compile_eval", "src": c["src"], "kind": "ssa", "dedup": True, "x": c["xs"], "b": c["b"], "amount": c["m"]}
        if not r.get("ok"):
            fs.append(Failure("oracle", "c02:wide-shift:not-compiled", f"the program is not compiled ({r.get('stage')})", sub, "a circuit", r))
            continue
        for k, out in enumerate(r["outs"]):
            if c["m"] >= c["bits"]:
                tally["overflow_expected"] += 1
                if not (out[0] == "1" and int(out[1:33], 2) == 1):
                    fs.append(Failure("oracle", "c02:wide-shift:no-overflow", f"a {c['t']} shifted by {c['m']} (an amount of 32 wires) does not fail with Overflow", sub, "Overflow", out[:33]))
                    break
            else:
                tally["value_expected"] += 1
                want = (ref.get("outs") or [None] * (k + 1))[k]
                if want is None or out[0] != "0" or want[0] != "0" or out[161:] != want[161:]:
                    fs.append(Failure("oracle", "c02:wide-shift:differs-from-u8-amount", f"a {c['t']} shifted by {c['m']} held in 32 wires differs from the shift by {c['m']}u8", sub, want and want[161:], out[:1] + "…" + out[161:]))
                    break
    return fs, tally


def _fail_expr(t, avoid):
    """an expression of integer type t that always fails, with a reason other than `avoid`"""
    if avoid == "OutOfBounds":
        return ["bin", "/", {"k": "int", "t": t}, ["int", 1, t], ["int", 0, t]]
    return ["index", ["array", [["int", 0, t]]], ["int", 1, "usize"]]


def _replace_site(node, k, reason):
    """the tree with the operation of site k replaced by: its operands (in their order), then a failure of another reason"""
    if isinstance(node, list):
        if node and isinstance(node[-1], dict) and node[-1].get("site") == k:
            if node[0] == "bin":
                return ["block", [["let", ["id", "t1_"], node[3]], ["let", ["id", "t2_"], node[4]], ["expr", _fail_expr(node[2]["t"], reason)]]]
            if node[0] == "un":
                return ["block", [["let", ["id", "t1_"], node[3]], ["expr", _fail_expr(node[2]["t"], reason)]]]
            if node[0] == "assign":
                # the assigned value is compiled first; the bounds checks of the accessors follow
                return ["expr", ["block", [["let", ["id", "t1_"], node[3]], ["expr", _fail_expr("usize", "OutOfBounds")]]]]
            if node[0] == "index":
                return ["block", [["let", ["id", "t1_"], node[1]], ["let", ["id", "t2_"], node[2]],
                                  ["expr", ["index", ["var", "t1_"], _fail_expr("usize", "OutOfBounds")]]]]
        return [_replace_site(x, k, reason) for x in node]
    if isinstance(node, dict):
        return {a: _replace_site(b, k, reason) for a, b in node.items()}
    return node


def location_phase(ctx, n):
    """the source location in the panic record at program level. (1) It must be the span check.rs records (harness op
    typed_ast) for an operation of the program that can raise the reported reason - arithmetic and shifts: Overflow,
    `/` and `%`: DivByZero or Overflow, unary minus: Overflow, `a[i]`: OutOfBounds, an assignment through an index:
    OutOfBounds at the statement; with exactly one such operation that is the exact location. (2) The operation at the
    reported location must be reached before the first failure: in the Lean source semantics the program in which that
    operation is replaced by `operands; failure of another reason` must fail with that other reason (if an earlier
    operation fails first, it does not)."""
    from . import c01, gen_prog
    fs = []
    tally = {"no_panic": 0, "unique_site_agrees": 0, "reached_before_the_first_failure": 0, "not_traced_for_join": 0, "skipped": 0}
    cases = [c01.gen_case(ctx.rng.randrange(1 << 48), i, 6, features=STRESS if i % 2 else None, depth=3) for i in range(n)]
    ta = common.run_lines_guarded(common.GVH, [{"id": c["id"], "op": "typed_ast", "src": c["src"]} for c in cases], per_case_timeout=20.0)
    impl = common.run_lines_guarded(common.GVH, [c01.impl_case(c, "ssa", True) for c in cases], per_case_timeout=20.0)
    reqs = []
    for c in cases:
        r, a = impl.get(c["id"]) or {}, ta.get(c["id"]) or {}
        if not r.get("ok") or "sites" not in a:
            tally["skipped"] += 1
            continue
        bad = False
        for args, out in zip(c["args"], r["outs"]):
            if bad:
                break
            if out.startswith("panic@") or out[0] != "1":
                tally["no_panic"] += 1
                continue
            reason = REASONS.get(int(out[1:33], 2), "?")
            loc = [int(out[33 + 32 * k: 65 + 32 * k], 2) for k in range(4)]
            cands = [(i, s) for i, s in enumerate(a["sites"]) if reason in s["kinds"]]
            here = [(i, s) for i, s in cands if s["meta"] == loc]
            inputs = [gen_prog.val_json(t, v) for (_, t), v in zip(c["params"], args)]
            sub = {"op": "c01", "seed": c["seed"], "gen": c["gen"], "src": c["src"], "config": "ssa,dedup=True", "args": inputs}
            where = f"line {loc[0] + 1}:{loc[1] + 1}-{loc[2] + 1}:{loc[3] + 1}"
            if not here:
                fs.append(Failure("oracle", "c02:program:location-is-not-a-failing-operation:" + reason,
                                  f"the panic record reports {reason} at {where}, which is not the location of any operation of the program "
                                  f"that can fail with {reason} (there are {len(cands)})", sub, [s["meta"] for _, s in cands][:8], loc))
                bad = True
            elif len({tuple(s["meta"]) for _, s in cands}) == 1:
                tally["unique_site_agrees"] += 1
            elif set(a.get("uses") or []) & {"for-join"}:
                tally["not_traced_for_join"] += 1
            else:
                other = "DivByZero" if reason == "OutOfBounds" else "OutOfBounds"
                for i, s in here:
                    reqs.append({"id": len(reqs), "op": "src_eval", "prog": _replace_site(a["prog"], i, reason), "fn": "main", "inputs": [inputs],
                                 "_key": (c["id"], tuple(loc), json.dumps(inputs)), "_sub": sub, "_reason": reason, "_other": other, "_where": where})
    res = ctx.run_model([{k: v for k, v in q.items() if not k.startswith("_")} for q in reqs], timeout=3000)[0] if reqs else {}
    by = {}
    for q in reqs:
        r = ((res.get(q["id"]) or {}).get("results") or [{}])[0]
        by.setdefault(q["_key"], []).append((r.get("panic") == q["_other"], r, q))
    for key, lst in by.items():
        if any(ok for ok, _, _ in lst):
            tally["reached_before_the_first_failure"] += 1
        else:
            _, r, q = lst[0]
            fs.append(Failure("oracle", "c02:program:location-of-an-operation-after-the-first-failure:" + q["_reason"],
                              f"the panic record reports {q['_reason']} at {q['_where']}, but in the source semantics an earlier operation fails before "
                              f"the operation at that location is reached (with that operation replaced by a failure of reason {q['_other']} the "
                              f"program still fails with {r})", q["_sub"], q["_other"], r))
    return fs, tally


def run(ctx):
    quick = ctx.tier == "quick"
    ctx.audit(PROP_MODULES)
    failures = ctx.proof_failures()
    ok, log = ctx.build_harness()
    if not ok:
        failures.append(Failure("model", "harness-build-failed", "cargo build of the harness failed: " + log[-400:]))
        return common.finish(ctx, failures, {"evaluations": 0, "distinct_nontrivial": 0, "samples": []}, [], "proof")
    cases = []
    for f in sorted(__import__("glob").glob(common.VERIF + "/corpus/C02/*.json")):
        c = json.load(open(f)); c["id"] = len(cases); cases.append(c)
    for _ in range(1500 if quick else 25000):
        sizes = [ctx.rng.choice([1, 2]) for _ in range(ctx.rng.choice([1, 2, 3]))]
        reqs, nres = gen_seq(ctx.rng, sum(sizes), ctx.rng.choice([4, 8, 16, 30]))
        outs = sorted(ctx.rng.sample(range(nres), min(3, nres)))
        cases.append({"id": len(cases), "op": "panic_run", "input_gates": sizes, "cache": ctx.rng.random() < 0.8, "reqs": reqs, "outs": outs})
    impl, _, _ = ctx.run_impl(cases, timeout=3000)
    model, _, _ = ctx.run_model(cases, timeout=3000)
    stats = {"sites": 0, "repeated_condition_sites": 0, "mux": 0, "restore": 0, "assignments_with_panic": 0}
    distinct = set()
    for c in cases:
        fs = judge(c, impl.get(c["id"]), model.get(c["id"]))
        failures += fs
        seen = set()
        for r in c["reqs"]:
            if r[0] == "panic_if":
                stats["sites"] += 1
                if r[1] in seen:
                    stats["repeated_condition_sites"] += 1
                seen.add(r[1])
            elif r[0] in ("mux_panic", "install_mux"):
                stats["mux"] += 1
            elif r[0] == "restore":
                stats["restore"] += 1
        i = impl.get(c["id"]) or {}
        np_ = sum(1 for e in i.get("evals", []) if e[:1] == "1")
        stats["assignments_with_panic"] += np_
        if np_ and sum(1 for r in c["reqs"] if r[0] == "panic_if") >= 2:
            distinct.add(json.dumps(c["reqs"]))
    # part (b): whole programs — panic iff the source semantics fail, with the reason of the first failing operation
    from . import c01
    pfs, ptally, pstats, pcases = c01.collect(ctx, 800 if quick else 15000, {"features": STRESS}, prefix="c02:program", strict_reason=True)
    failures += pfs
    lfs, ltally = location_phase(ctx, 400 if quick else 8000)
    failures += lfs
    wfs, wtally = wide_shift_phase(ctx, quick)
    failures += wfs
    seen_sig, uniq = set(), []
    for f in failures:
        if f.signature not in seen_sig:
            seen_sig.add(f.signature); uniq.append(f)
    coverage = {
        "evaluations": len(cases),
        "distinct_nontrivial": len(distinct),
        "rule": "part (a): random sequences of gate requests and panic-record operations shaped like compile.rs (shared condition wires, "
                "save/restore around branches, mux_panic merges) through the real CircuitBuilder and the Lean model: identical gate "
                "lists and circuits; on ALL input assignments the decoded record must equal the abstract panic state (first failure "
                "wins, reason and location exact when the flag is set); non-trivial = distinct sequence with >= 2 panic sites that "
                "panics on at least one assignment. part (b): generated whole programs (tools/gv/gen_prog.py) on 6 argument tuples "
                "each: the circuit's panic flag must be set exactly when the Lean source semantics reach a failing operation, with "
                "the reason of the first failing operation in evaluation order (overflow, division by zero, out of bounds); code "
                "in branches not taken and short-circuited operands must stay silent; the reported source location must be the span "
                "check.rs records for an operation of the program that can raise the reported reason (exact when there is one), and that "
                "operation must be reached before the first failure in the Lean source semantics",
        "traces_validated_against_impl": len(cases),
        "distribution": dict(stats, program_level_runs=ptally, program_level_locations=ltally, wide_shift_amounts=wtally),
        "samples": [cases[1], cases[-1]],
    }
    assumptions = ["when the flag is clear the 160 information bits are unspecified (they are not compared)",
                   "program level: the reported source location is compared with the set of operations that can raise the reason, not with the first failing one (the Lean semantics carry no locations)"]
    return common.finish(ctx, uniq, coverage, assumptions, "proof", search=None)
