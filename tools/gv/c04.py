"""C04 — circuit optimizations never change the computed function."""
import itertools
import json

from . import common, corpus, gen_circ, gen_reqs
from .common import Failure

PROP_MODULES = ["GarbleVerif.Props.C04"]


def literal_eval(reqs, inp_bits):
    """Independent (Python) literal evaluation of a request sequence; returns the result values."""
    vs = [0, 1] + list(inp_bits)
    for r in reqs:
        op = r[0]
        try:
            a = [vs[h] for h in r[1:]]
        except IndexError:
            continue
        if op == "xor":
            vs.append(a[0] ^ a[1])
        elif op == "and":
            vs.append(a[0] & a[1])
        elif op == "or":
            vs.append(a[0] | a[1])
        elif op == "eq":
            vs.append(1 - (a[0] ^ a[1]))
        elif op == "not":
            vs.append(1 - a[0])
        elif op == "mux":
            vs.append(a[1] if a[0] else a[2])
        elif op == "adder":
            u = a[0] ^ a[1]
            vs.append(u ^ a[2])
            vs.append((a[0] & a[1]) | (u & a[2]))
    return vs


OK_PANIC = "0" + "0" * 31 + "1" + "0" * 128


def expected_evals(case):
    sizes = case["input_gates"]
    n = sum(sizes)
    if n > 10:
        return []
    res = []
    for a in range(2 ** n):
        bits = [(a >> k) & 1 for k in range(n)]
        vs = literal_eval(case["reqs"], bits)
        res.append(OK_PANIC + "".join(str(vs[o]) for o in case["outs"] if o < len(vs)))
    return res


def mk_case(cid, sizes, cache, reqs, outs):
    return {"id": cid, "op": "builder_run", "input_gates": sizes, "cache": cache, "reqs": reqs, "outs": outs}


def gen_cases(ctx, stats):
    quick = ctx.tier == "quick"
    cases = []
    for f in sorted(__import__("glob").glob(common.VERIF + "/corpus/C04/*.json")):
        c = json.load(open(f))
        c["id"] = len(cases)
        cases.append(c)
    # exhaustive short sequences over 2 input bits
    exh_len = 2 if quick else 3
    for L in range(1, exh_len + 1):
        for reqs in gen_reqs.exhaustive(2, L):
            nres = 4 + L
            cases.append(mk_case(len(cases), [1, 1], True, reqs, list(range(nres))))
    stats["exhaustive_upto_len"] = exh_len
    stats["exhaustive_cases"] = len(cases)
    if quick:
        # a sample of length-3 and length-4 sequences
        for _ in range(3000):
            L = ctx.rng.choice([3, 4])
            reqs = []
            nres = 4
            for _ in range(L):
                op = ctx.rng.choice(["xor", "and", "not"])
                reqs.append([op, ctx.rng.randrange(nres)] if op == "not" else [op, ctx.rng.randrange(nres), ctx.rng.randrange(nres)])
                nres += 1
            cases.append(mk_case(len(cases), [1, 1], ctx.rng.random() < 0.8, reqs, list(range(nres))))
    nrand = 1500 if quick else 30000
    tstats = {}
    for _ in range(nrand):
        nparties = ctx.rng.choice([1, 2, 3])
        sizes = [ctx.rng.choice([1, 1, 2, 3]) for _ in range(nparties)]
        while sum(sizes) > 6:
            sizes[ctx.rng.randrange(len(sizes))] = 1
        L = ctx.rng.choice([5, 10, 20, 40, 80, 200] if not quick else [5, 10, 20, 40, 80])
        reqs, nres = gen_reqs.random_seq(ctx.rng, sum(sizes), L, tstats)
        k = ctx.rng.choice([1, 3, 8, nres])
        outs = sorted(ctx.rng.sample(range(nres), min(k, nres))) if k < nres else list(range(nres))
        if ctx.rng.random() < 0.2:
            outs = outs + outs[:2]  # repeated outputs
        cases.append(mk_case(len(cases), sizes, ctx.rng.random() < 0.75, reqs, outs))
    stats["templates_and_ops"] = tstats
    return cases


def judge(case, impl, model):
    fs = []
    if impl is None or "panic" in (impl or {}) or "gates" not in (impl or {}):
        return [Failure("oracle", "builder:panic", f"the builder panics on a request sequence: {impl}", case, "a circuit", impl)]
    exp = expected_evals(case)
    # O: implementation vs literal execution (independent Python oracle)
    if exp and impl["evals"] != exp:
        bad = next(i for i, (a, b) in enumerate(itertools.zip_longest(impl["evals"], exp)) if a != b)
        fs.append(Failure("oracle", "builder:function-changed",
                          f"built circuit differs from literal execution of the requests on input assignment #{bad}",
                          case, exp[bad], impl["evals"][bad] if bad < len(impl["evals"]) else None))
    if impl["validate"] != "ok":
        fs.append(Failure("oracle", "builder:invalid-circuit", f"built circuit fails validation: {impl['validate']}", case, "ok", impl["validate"]))
    # K: structural correspondence with the model
    if model is None or "gates" not in model:
        fs.append(Failure("model", "builder:driver-no-result", "driver produced no result", case, None, model))
        return fs
    for key in ("shift", "gates", "results", "circuit"):
        if model[key] != impl[key]:
            fs.append(Failure("model", f"builder:{key}-differs",
                              f"builder model and implementation differ structurally in '{key}'", case, model[key], impl[key]))
            break
    if exp and model["evals"] != exp:
        fs.append(Failure("model", "builder:model-literal-differs", "Lean `literal` differs from the Python oracle", case, exp[:2], model["evals"][:2]))
    return fs


def program_level(ctx, failures, stats):
    """compile(dedup on) vs compile(dedup off) on the corpus, random inputs, SSA and register form."""
    progs = corpus.programs()
    first = [{"id": i, "op": "compile_eval", "src": src, "inputs": []} for i, (_, src) in enumerate(progs)]
    res, _, _ = ctx.run_impl(first)
    cases = []
    meta = {}
    for i, (name, src) in enumerate(progs):
        r = res.get(i)
        if not r or not r.get("ok"):
            continue
        ins = [[gen_circ.bits(ctx.rng, s) for s in r["input_gates"]] for _ in range(6 if ctx.tier == "quick" else 40)]
        for dedup in (True, False):
            for kind in ("ssa", "reg"):
                cid = len(cases)
                cases.append({"id": cid, "op": "compile_eval", "src": src, "dedup": dedup, "kind": kind, "inputs": ins})
                meta[cid] = (i, dedup, kind)
    out, _, _ = ctx.run_impl(cases)
    by_prog = {}
    for cid, (i, dedup, kind) in meta.items():
        by_prog.setdefault(i, {})[(dedup, kind)] = out.get(cid)
    n = 0
    for i, d in by_prog.items():
        ref = d.get((True, "ssa"))
        for k, v in d.items():
            n += 1
            if v is None or ref is None or not v.get("ok") or v.get("outs") != ref.get("outs"):
                failures.append(Failure("oracle", f"program:dedup-or-kind-changes-output:{k[1]}",
                                        f"compiling with dedup={k[0]} kind={k[1]} gives different outputs than dedup=on/ssa",
                                        {"op": "compile_eval", "src": progs[i][1], "dedup": k[0], "kind": k[1]},
                                        ref.get("outs") if ref else None, v.get("outs") if v else v))
    stats["program_level_configs"] = n


def run(ctx):
    ctx.audit(PROP_MODULES)
    failures = ctx.proof_failures()
    ok, log = ctx.build_harness()
    if not ok:
        failures.append(Failure("model", "harness-build-failed", "cargo build of the harness failed: " + log[-400:]))
        return common.finish(ctx, failures, {"evaluations": 0, "distinct_nontrivial": 0, "samples": []}, [], "proof")
    stats = {}
    cases = gen_cases(ctx, stats)
    impl, _, _ = ctx.run_impl(cases, timeout=3000)
    model, _, _ = ctx.run_model(cases, timeout=3000)
    distinct = set()
    optimized = 0
    for c in cases:
        i, m = impl.get(c["id"]), model.get(c["id"])
        failures += judge(c, i, m)
        if i and "gates" in i:
            literal_gates = sum({"xor": 1, "and": 1, "not": 1, "eq": 2, "or": 3, "mux": 4, "adder": 7}.get(r[0], 0) for r in c["reqs"])
            if len(i["gates"]) < literal_gates:
                optimized += 1
                distinct.add(json.dumps([c["input_gates"], c["cache"], c["reqs"], c["outs"]]))
    stats["sequences_where_a_simplification_fired"] = optimized
    program_level(ctx, failures, stats)
    coverage = {
        "evaluations": len(cases),
        "distinct_nontrivial": len(distinct),
        "rule": "request sequences: exhaustive over 2 input bits up to the stated length, random rule-directed sequences "
                "(length <= 200, <= 6 input bits, both cache settings); each is run through the real CircuitBuilder (hook) and "
                "the Lean model: gate lists, result wires and built circuits must be identical, and the built circuit is "
                "evaluated on ALL input assignments against literal execution; non-trivial = distinct sequence on which at "
                "least one simplification fired (fewer gates than literal execution)",
        "traces_validated_against_impl": len(cases),
        "distribution": stats,
        "samples": [cases[len(cases) // 2], cases[-1]],
    }
    assumptions = [
        "at least one input bit (the circuit format needs one to build the constants; Circuit::validate requires it)",
        "requests name existing wires (compile.rs only passes wires it got from the builder)",
        "HashMap behaves as a finite map (Std.HashMap lemmas); usize arithmetic does not overflow",
    ]
    return common.finish(ctx, failures, coverage, assumptions, "proof", search=None)
