#!/usr/bin/env python3
"""Regenerates MANIFEST.json from the table below (kept in one place so it stays valid)."""
import json
import os

VERIF = os.path.dirname(os.path.dirname(os.path.abspath(__file__)))
ALL = ["C01", "C02", "C03", "C04", "C05", "C17", "C06", "C07", "C08", "C09", "C10", "C11", "C12", "C13", "C14", "C16", "C15"]

CLAIMED = {
    "C16": dict(
        text="Lean theorems C16_ssa / C16_reg / C16_reg_impl: for every circuit value (any gate or instruction list, any "
             "references, any party sizes) validate = ok and inputs of the declared shape imply that evaluation returns one bit "
             "per output without touching an undefined or non-existent wire/register/input; unbounded, kernel-checked. The models "
             "of validate/eval are tied to the Rust code by an exact correspondence check on random and adversarial circuit "
             "values and on compiler output (which must validate).",
        design_ref="DESIGN.md §6 C16",
        note="trusted: Lean kernel; axioms propext/Classical.choice/Quot.sound only (audited each run); hand-written models "
             "Model/Ssa.lean, Model/Reg.lean of circuit.rs:148-230 and register_circuit.rs:117-209, tied by correspondence "
             "(harness + driver + JSON codec); usize overflow of size sums and allocation failure not modelled",
        technique="Lean 4 proof (induction over gate/instruction lists with a defined-registers invariant) + differential correspondence",
    ),
}

CLAIMED["C04"] = dict(
    text="Lean theorems C04_requests / C04_dedup_irrelevant / C04_push_xor / C04_push_and / C04_build: for EVERY sequence of builder "
         "requests (xor/and/not/or/eq/mux/adder over earlier results, inputs and constants, any length), every input and both cache "
         "settings, the circuit produced by the model of CircuitBuilder (constant folding, gate cache, all XOR/AND rewrite rules, "
         "removal of unused gates, final renumbering) evaluates - with the checked SSA evaluator - to the literal, unsimplified "
         "values of the requests. The model is a line-by-line transliteration tied to circuit.rs by an exact structural "
         "correspondence (identical gate lists and circuits) on exhaustive short and random rule-directed sequences through the "
         "verif_hooks wrapper, plus all-assignment evaluation against an independent literal oracle.",
    design_ref="DESIGN.md §6 C04",
    note="trusted: Lean kernel; axioms propext/Classical.choice/Quot.sound; Model/Builder.lean + Model/Requests.lean as model of "
         "circuit.rs:415-1062 (tied by structural correspondence, not by proof); the mark phase is modelled as a backward sweep "
         "(same reachable set as the Rust stack loop); program-level on/off comparison is differential testing on the corpus",
    technique="Lean 4 proof (builder invariant WF, per-rule post-conditions, compaction/renumbering simulation) + structural correspondence",
)

CLAIMED["C10"] = dict(
    text="Lean theorem C10_equiv: for EVERY SSA circuit that passes validate (any gate list, repeated operands, outputs that are "
         "inputs or repeated, unused gates, any fan-out) the model of RegisterAllocator::convert_circuit never panics, emits the "
         "Input instructions party by party in order, reports and_ops = and_gates, declares max_reg_count <= wires_len, and its "
         "STRICT evaluation (fails on reading a never-written register, a register >= max_reg_count or a missing input) returns "
         "exactly the SSA outputs for every input of the declared shape. Proof by a simulation invariant (live wires mapped "
         "injectively to registers holding their values; free list disjoint). The model is tied to register_circuit.rs by exact "
         "structural correspondence (identical instruction lists) on random well-formed circuits and compiler output. C10_valid: "
         "the converted circuit passes the model of register_circuit::Circuit::validate (inputs and outputs present, every "
         "register below the declared count, Input instructions at the position of the register they write, no read of an "
         "unwritten register, every output written, instruction count within MAX_GATES).",
    design_ref="DESIGN.md §6 C10",
    note="trusted: Lean kernel; axioms propext/Classical.choice/Quot.sound; Model/RegAlloc.lean (HashMaps keyed by wire modelled "
         "as lists indexed by wire) tied by structural correspondence; u32 register numbers not modelled (Nat)",
    technique="Lean 4 proof (simulation between SSA evaluation and strict register evaluation) + structural correspondence",
)

CLAIMED["C15"] = dict(
    text="Lean theorems C15_build_reachable / C15_requests_reachable: in the circuit `build` produces from ANY well-formed builder "
         "state (hence for every request sequence, any length) every gate except the two constant gates reaches an output "
         "(mark phase = exactly the reachable set; compaction keeps exactly the marked gates; renumbering maps operands to "
         "operands). C15_and_normal: no AND gate of such a circuit has a constant operand or the same wire twice (the builder "
         "never pushes one - optimize_and, and the AND-factoring rule of push_xor pairs an operand of an existing AND with a "
         "fresh wire - and the renumbering of build is injective on referenced wires). C15_and_unique: with de-duplication on "
         "no two AND gates have the same unordered pair of operands (every pushed AND is in the cache; push_and looks it up in "
         "both orders first). All three for every request sequence of any length. PARTIAL: the consequence for data-movement "
         "programs (0 AND gates) needs the language-level model and is explored by compiling generated copy / re-pack "
         "programs; every circuit built on a run (builder runs, the corpus, programs whose failing operations have related "
         "conditions, generated programs with many failing operations) is also scanned for the three conditions. Builder model tied to circuit.rs "
         "by structural correspondence.",
    design_ref="DESIGN.md §6 C15",
    note="trusted: as C04 (same builder model and correspondence); the scans are exploration, not proof",
    technique="Lean 4 proof (builder invariants for AND normal form and uniqueness; reachability invariant of mark/compact/renumber) + structural correspondence + circuit scans",
)

CLAIMED["C03"] = dict(
    text="Lean theorems, each for EVERY width n >= 1 and all operand values, against exact integer arithmetic: unsigned and signed "
         "+ and - (result exact unless the overflow flag is set; flag <=> exact result not representable), unary - (panics exactly "
         "on MIN), unsigned * (array multiplier = full product; flag <=> product >= 2^n), signed * (exact product unless the flag is set; flag "
         "<=> product outside [-2^(n-1), 2^(n-1))), unsigned / and % (the restoring divider returns the Euclidean quotient and "
         "remainder for every non-zero divisor), signed / and % (quotient rounded towards zero, remainder with the sign of the "
         "dividend, for every non-zero divisor except MIN / -1), < and > (unsigned, signed), == / !=, every cast (target width; "
         "congruent to the source value mod 2^k; no panic), and << / >> at 8/16/32/64 bits (overflow <=> amount >= width; "
         "otherwise multiplication modulo 2^n / floor division by 2^amount, arithmetic on signed operands), and multiplication "
         "by a literal compiled as repeated checked addition (exact for unsigned operands and positive literals; for a "
         "negative literal -n the flag is set exactly when n*x is not strictly inside (-2^(w-1), 2^(w-1)) - "
         "C03_constMul_neg_finding states the recorded finding exactly: the flag is spurious only when the product is MIN). "
         "All operators, all "
         "types, {var op var, var op const, const op var} and all casts are additionally checked by behavioural correspondence "
         "(compiled one-line programs vs the Lean Arith model) and against an independent Python big-integer oracle: all 2^16 "
         "operand pairs for u8/i8 arithmetic, boundary-directed and random operands for wider types.",
    design_ref="DESIGN.md §6 C03",
    note="trusted: Lean kernel; axioms propext/Classical.choice/Quot.sound; Model/Arith.lean is a value-level model of the wiring in "
         "circuit.rs:1047-1248 / compile.rs:838-1103 tied by behavioural correspondence (not structural); the Python oracle",
    technique="Lean 4 proof (ripple/row/divider-step invariants, all widths) + behavioural correspondence + exhaustive 8-bit tables",
)

CLAIMED["C09"] = dict(
    text="Lean theorems C09_size and C09_roundtrip: for EVERY type (arbitrary nesting of arrays, tuples, structs, enums over all "
         "primitive types) and every well-typed value, the documented layout encodes to exactly size(T) bits and decoding the bits "
         "yields the value (mutual structural induction; integers via two's-complement round trip at every primitive width; enum "
         "tags wide enough for every variant). C09_accept_safe / C09_accept_size: for EVERY literal (ArrayRepeat, Range, struct "
         "fields in any order, unit and tuple variants, any nesting) that the model of Literal::is_of_type accepts for a type, "
         "the literal denotes a well-typed value of the type and the model of as_bits emits exactly that value's encoding - "
         "size(T) bits that decode to it (hypothesis: the struct/enum definitions used for encoding are those of the type, "
         "field names distinct). C09_decoder_roundtrip: the model of from_unwrapped_bits (Ty.fromBits) accepts the encoding of "
         "EVERY well-typed value and returns a literal that denotes exactly that value (same well-formedness of types: distinct "
         "field names, unit variants without fields). PARTIAL: printing and parsing of literal TEXT are not covered by a "
         "theorem; the models of literal.rs are tied to the code by correspondence: random types x values x "
         "{canonical literal, alternative spellings, one adversarial edit} through literal_arg, as_bits, parse_output, "
         "Evaluator::set_literal + the identity program, against the Lean transliteration AND an independent Python specification. "
         "The print/parse sentence is explored through the implementation only (no Lean model of the literal parser).",
    design_ref="DESIGN.md §6 C09",
    note="trusted: Lean kernel; axioms propext/Classical.choice/Quot.sound; Model/Value.lean (specification), Model/Literal.lean "
         "(transliteration of literal.rs) tied by correspondence; the type expansion done by the harness (struct/enum definitions "
         "inlined); the Python specification in tools/gv/gen_types.py",
    technique="Lean 4 proof (mutual structural induction over types and values) + behavioural correspondence + adversarial literals",
)

CLAIMED["C02"] = dict(
    text="Lean theorems C02_push_panic_if and C02_mux_panic (+ C02_first_wins, C02_restore, C02_initial): for EVERY builder state, "
         "every panic record satisfying the invariant (all records reachable from PanicResult::ok()), every condition wire and "
         "every input, push_panic_if refines raiseIf on the abstract panic state Option<reason+location> (a panic is raised iff the "
         "condition holds and none was raised before; an earlier panic is never dropped or overwritten) and mux_panic refines "
         "if-then-else (code on the path not taken contributes nothing). The model of the record operations is tied to circuit.rs "
         "by exact structural correspondence through the verif_hooks wrapper on random compile.rs-shaped operation sequences, and "
         "the real circuits are evaluated on ALL inputs against the abstract state. Program level: C02_program (Props/C02.lean) - "
         "for every program of the fragment of Model/BitSem.lean (all expression and statement forms except for-join, constants, "
         "multiplication by a negative literal), every input and enough fuel, the panic state of the compiled code is empty iff "
         "the source execution returns a value and names reason k iff the source execution fails with k, the first failing "
         "operation in evaluation order (untaken branches, unselected arms, short-circuited operands are compiled in the model "
         "and contribute nothing). PARTIAL: source locations are not part of the program-level model (the builder-level theorems "
         "cover the location bits): at program level the reported location is compared with the spans check.rs records for the "
         "operations that can raise the reported reason (exact when there is one) and the operation at that location must be "
         "reached before the first failure in the Lean source semantics; shifts by an amount held in 32 wires must fail exactly "
         "from the width on; outside the fragment the program-level statement is explored on generated programs.",
    design_ref="DESIGN.md §6 C02",
    note="trusted: as C04 (same builder model/correspondence); Model/Builder.lean panic section models circuit.rs:646-758 AFTER the "
         "repair 4447ea8 (the unrepaired code violates the property: see known_findings.json)",
    technique="Lean 4 proof (refinement of the abstract panic state with a cache invariant; program-level refinement of the compiler model) + structural correspondence",
)

CLAIMED["C11"] = dict(
    text="Lean theorems, for the token-level models of format_as_bristol / bristol_to_garble: C11_roundtrip - EVERY valid circuit "
         "whose outputs are not input wires (any gates, any number of repeated or constant outputs) is exported without error, "
         "the importer accepts the file, and the imported circuit returns on EVERY input of the declared shape the original "
         "outputs without the panic record, in order (C11_import_of_export: the imported gate list is the exported one, gate for "
         "gate); C11_export_wellformed - header counts equal the numbers of gate lines and wires, gates appear in their original "
         "order followed by the copies for repeated outputs (operands assigned before use), line j assigns wire f(inputs+j) for an "
         "injective renumbering f that fixes the inputs and sends the k-th of the pairwise distinct outputs to the k-th of the last "
         "wires; C11_import_total - for EVERY file (any list of token lines) the importer returns a circuit or one of its error "
         "values, the `crash` outcome that marks every index operation and subtraction of the Rust code is unreachable. One explicit "
         "hypothesis beyond the property text: the export must stay within the importer's MAX_GATES limit (each repeated output "
         "adds two gates; beyond the limit the importer returns an error). On every run: exported tokens identical to the model's, "
         "re-import evaluated against the original on all/random inputs, and 3000+ mutated or random files through the importer "
         "with verdict and circuit equal to the model's.",
    design_ref="DESIGN.md §6 C11",
    note="trusted: Lean kernel; Model/Bristol.lean (token-level transliteration of convert.rs after repair 2c43f95) tied by exact "
         "correspondence; tokenisation and decimal printing/parsing are done by the harness with the same usize parser",
    technique="Lean 4 proof (renumbering is a bijection by a counting argument; importer state invariant over the exported lines; "
              "de-aliasing gates copy the wire) + exact correspondence + round-trip oracle",
)

CLAIMED["C07"] = dict(
    text="Lean theorems about the model of scan.rs and of lib.rs prettify_meta, for EVERY input text: the scanner terminates (its main "
         "loop and block-comment loop are well-founded recursions accepted with C07_scan_progress / C07_block_comment_progress), "
         "returns tokens or a NON-EMPTY error list (C07_scan_result), every token and error location has start <= end and lies on a "
         "line of the text (C07_scan_locations), and rendering never indexes a missing line for any location ending inside the text "
         "(C07_render_total, C07_scan_errors_render). PARTIAL: parse.rs, check.rs and compile.rs are not modelled; for them the "
         "property is explored: hand-written end-of-input texts, every corpus program with prefixes and token deletion / duplication "
         "/ swap / substitution / insertion, token soup, random characters and perturbed literal strings run through compile() and "
         "Literal::parse in a worker with a deadline; outcome must be ok or a non-empty error list with well-formed, renderable "
         "locations. Two recorded findings (resource exhaustion on huge declared sizes and on nesting ~2000 deep).",
    design_ref="DESIGN.md §6 C07",
    note="trusted: Lean kernel; Model/Scan.lean (transliteration of scan.rs after repair 3325197 and of prettify_meta) tied by exact "
         "correspondence of tokens, errors, locations and rendered text on every explored text; Rust's str::chars / str::lines / "
         "u64 and i64 decimal parsing are modelled, not verified",
    technique="Lean 4 proof (well-founded recursion + location invariant) + exact correspondence + deadline-guarded exploration",
)

CLAIMED["C14"] = dict(
    text="Lean theorems about the source semantics Src.evalExpr/evalStmt (the specification every compiled circuit is compared "
         "with): C14_scope - evaluating ANY expression or statement list leaves the list of bound names exactly as it was / only "
         "adds the statement list's own bindings in front, so every binding made inside a block, branch, arm, loop iteration or "
         "callee ends with its scope, a shadowing one included (induction over the evaluation fuel, all 8 mutually recursive "
         "evaluators); C14_assign_frame - an assignment changes no variable other than its target; C14_element_frame - a[i] = v "
         "changes no other element; C14_call_by_value - the caller keeps the environment the argument evaluation left; "
         "C14_if_taken_branch / C14_loop_order - an if runs the branch taken, a loop its body once per element in order. "
         "About the model of the compiler (Model/BitSem.lean, core fragment: scalars, tuples, structs, enums, arrays, if, match, && / ||, blocks, let with patterns, let mut, "
         "assignment to variables and through .i / .f / [i] accessors, for loops, calls): C14_compiled_scope / C14_compiled_stmts_scope - compiled code keeps the scope stack (same "
         "names, types, order), so the environments merged after an if or a match line up; C14_merge - the variable-by-variable merge "
         "(mux_envs) of two such environments is the environment of the branch taken; C14_compiled_state - after any statements "
         "of the fragment the wires of EVERY variable in scope encode the value the source semantics give it. PARTIAL: outside "
         "that fragment (for-join, constants) the merging is tied to the semantics by the "
         "correspondence: generated statement-heavy programs that return ALL visible variables, compiled by /repo in 4 "
         "circuit configurations and compared bit for bit with the Lean semantics.",
    design_ref="DESIGN.md §6 C14",
    note="trusted: Lean kernel; Model/SrcSem.lean is the hand-written specification (not derived from compile.rs); the generator "
         "builds the syntax tree itself, so parser and type checker are on the tested side",
    technique="Lean 4 proof (environment-shape invariant over the interpreter; refinement of the compiler model incl. mux_envs, loops, element writes, calls) + differential testing against the compiler",
)

CLAIMED["C08"] = dict(
    text="Lean theorems about the specification of match (Model/SrcSem.lean matchPat / evalArms, Model/MatchSpec.lean): "
         "C08_first_arm / C08_skip_arm - evalArms runs exactly the first arm whose pattern matches, with its bindings; "
         "C08_firstMatch_spec - firstMatch v pats = some i iff arm i matches and no earlier arm does; C08_literal_exact / "
         "C08_range_exact - a literal pattern matches exactly its number, a range pattern exactly lo..=hi; C08_uncovered_sound - "
         "whenever the reference procedure `uncovered` returns a value, no arm matches it; C08_uncovered_complete - when it "
         "returns nothing, EVERY well-typed value of the scrutinee's type is matched by some arm (every value has a "
         "representative that no pattern over the same constants can tell apart from it): the reference decides "
         "exhaustiveness exactly. PARTIAL: the exhaustiveness algorithm of check.rs itself is not modelled. On every run check.rs's verdict on thousands of generated (type, arms) pairs - exact "
         "partitions, partitions with a hole, a moved bound, an extra or a missing arm, `..` struct patterns, nested enums - is "
         "compared with `uncovered`; every reported missing case must denote a value and only unmatched values; accepted matches "
         "are compiled and evaluated on all representative values against firstMatch.",
    design_ref="DESIGN.md §6 C08",
    note="trusted: Lean kernel; matchPat is the hand-written meaning of patterns; `uncovered` enumerates representative values "
         "(type bounds and c-1, c, c+1 for every constant of the patterns) - sound and complete by theorem",
    technique="Lean 4 proof (first-match semantics, soundness of the reference exhaustiveness procedure) + verdict comparison",
)

CLAIMED["C05"] = dict(
    text="Lean theorems C05_typed_output_width (a function the typing judgement of the compiler model accepts has, for ANY wires "
         "on its parameters, exactly size(return type) output wires: the model's verdict does not depend on the wires, "
         "Proofs/BitStatic.lean) and C05_io_width / C05_io_decodes / C05_output_shape: for every type and well-typed value, an argument or "
         "result of type t occupies exactly t.size wires, the output of a run is 161 panic wires followed by exactly t.size "
         "wires, and they decode to the value. C05_output_width (Proofs/BitWidth.lean): in the compiler model (Model/BitSem.lean, "
         "every expression and statement form except for-join) the compiled body of a function has exactly size(T) output wires "
         "for its result type T, for ANY wires on the inputs - valid encodings or not, panicking runs included - and all "
         "variables keep the width of their types (one mutual induction over the syntax; widths of every operator circuit in "
         "Proofs/ArithLen.lean). PARTIAL: the type checker and the gate level are not modelled, so that EVERY accepted program "
         "compiles without a panic to a circuit that passes validate is explored: generated well-typed programs (all literal "
         "types written out) must be accepted (the converse direction), compile in 4 circuit configurations, pass "
         "Circuit::validate, have input_gates equal to the sizes of the parameter types (one party per element for a single "
         "array parameter), 161 + size(return type) outputs, and return Val.encode of the value the source semantics compute; "
         "a second stream uses types of 0 bits (two recorded findings); every corpus program that compiles must validate as "
         "SSA and as register circuit; mutants of generated programs that check.rs accepts (and any rule-breaking statement of C17's list that "
         "should ever be accepted) must compile without a panic to the shape of the types check.rs itself reports; eleven "
         "hand-written programs with numbers without a suffix typed by a later use (nine are the recorded open finding: they keep "
         "32 wires); a fourth stream compiles programs whose array sizes, trip counts and parties come from "
         "constants (external values, constant expressions, [x; N], [7; N] with a number without a suffix in a typed position) "
         "with generated constant values: accepted, no compiler panic, valid, input parties and output width as the types with "
         "the sizes filled in require.",
    design_ref="DESIGN.md §6 C05",
    note="trusted: Lean kernel; Model/Value.lean encode/decode tied to literal.rs by C09's correspondence; the generator's notion "
         "of `well-typed` is its own (type-directed construction), checked against /repo by acceptance",
    technique="Lean 4 proof (I/O contract; output width of the compiler model for all inputs) + differential testing of compile() against the source semantics",
)

CLAIMED["C13"] = dict(
    text="Lean theorems about Src.joinPairs, the pairs a for-join loop visits in the source semantics: C13_visits - in the order "
         "of the first array, exactly those of its elements for which the second array has an element with an equal key, each "
         "once, paired with that element; C13_partner_sound / _complete / _unique - the partner has an equal key, none is missed, "
         "and with pairwise different keys (strictly sorted input) it is the only one; C13_visits_in_order / C13_ascending - the visited elements "
         "of the first array are a sub-sequence of it, so whatever order its keys are in (strictly ascending, for sorted input) "
         "is the order of the visits; C13_loop_is_body_per_pair - the statement "
         "is the ordinary loop over these pairs, so effects and panics happen for these pairs only, in this order. PARTIAL: the "
         "bitonic merge network of compile.rs and the join built-in are not modelled. They are explored: generated programs "
         "around a join_iter loop (all unsigned key types, pairs, [u8; k], 1..6 elements, destructuring patterns, bodies that "
         "assign / overflow / index) on strictly sorted arrays against the Lean semantics (value, panic flag and reason), SSA "
         "and register circuits; and join(a, b) with / without associated data, lengths 1..8, repeated keys: n+m-1 entries, "
         "flags sorted, unflagged entries all zero, flagged entries exactly the common keys, each once.",
    design_ref="DESIGN.md §6 C13",
    note="trusted: Lean kernel; joinPairs is the hand-written specification; key order = order of the encoded bits (unsigned keys)",
    technique="Lean 4 proof (specification of the joined pairs) + differential testing on sorted inputs",
)

CLAIMED["C12"] = dict(
    text="Lean theorems about the specification Src.evalC of constant expressions (literals, supplied values, earlier constants, "
         "+, -, min, max, wrapping in the constant's own type): C12_in_range - every constant is a value of its type; "
         "C12_linear_wrap_once - for +/- expressions wrapping after every operation equals computing over the integers and "
         "wrapping once, for every width (why compile.rs, which computes in 64 bits and truncates, is right there); "
         "C12_minmax_differs - under min/max the two differ (a recorded finding). Program level: C12_program - the compiler "
         "model (Model/BitSem.lean) binds every constant of a program to the encoding of its value in the outermost scope, and "
         "for every function of the fragment, every inlining depth, all arguments and every fuel the compiled body returns what "
         "the source semantics return when the constants are variables bound to their values (C12_const_reads_value / "
         "C12_literal_is_value: such a variable evaluates like the number written out). PARTIAL: the equivalence with the "
         "program TEXT in which the values are written out (parser, inference of unsuffixed numbers, compile_with_constants' "
         "own bookkeeping of sizes and missing / mistyped constants) is explored: programs whose array sizes, trip counts, repeat sizes and number of parties come from usize constants, and "
         "generated programs in which literals are replaced by constants of every type (external values of 3 parties, also used inside called functions, nested "
         "min/max/+/-, references to earlier constants, also as arguments of min / max; negative signed constants) are compiled with the constants supplied and, independently, from the "
         "text with the values written out: same input parties, same outputs; then constants are left out or supplied with "
         "another type: an error naming them, never a panic; the circuits compiled with constants are also compared with "
         "Bit.bitBody on the syntax tree that refers to the constants (ties C12_program to compile_with_constants).",
    design_ref="DESIGN.md §6 C12",
    note="trusted: Lean kernel; evalC is the hand-written meaning of constant expressions; usize constants are kept below 2^32 and "
         "do not wrap in generated programs (they are array sizes)",
    technique="Lean 4 proof (constant arithmetic; compiler model with constants refines the source semantics) + metamorphic comparison with the substituted program",
)

CLAIMED["C17"] = dict(
    text="Lean theorems C17_unbound_identifier, C17_condition_not_bool, C17_operand_types, C17_refutable_let, "
         "C17_refutable_loop_pattern, C17_unknown_function, C17_argument_count, C17_assign_unbound, C17_no_arm: in the source "
         "semantics a program that breaks one of these static rules has no meaning - evaluation ends in Err.stuck, neither a "
         "value nor a panic - so accepting it would compile something the specification does not define. C17_typed_never_stuck / "
         "C17_typed_result_type / C17_progTyped_sound (Props/C17Typed.lean): a typing judgement for which the converse holds - Bit.fnTyped runs the "
         "compiler model once, on all-zero wires, and asks for wires of the declared return type; a function it accepts, called on "
         "ANY argument values of its parameter types with any fuel, never gets stuck and returns a value of the declared type "
         "(static_program, Proofs/BitStatic.lean: whether the model covers a body, and its result type, depend only on the types "
         "of the variables in scope, never on their wires; composed with the refinement theorem of C01). PARTIAL: check.rs is "
         "not modelled; that it rejects every rule violation is explored by mutation: into generated well-typed programs a "
         "fixed typed prelude plus ONE rule-breaking statement or top-level item is inserted (120 shapes: operand / argument / "
         "field / branch / pattern / return types, non-Boolean conditions, unknown and out-of-scope identifiers, fields, "
         "variants, functions, types, assignment to immutable bindings, argument / field / tuple counts, refutable patterns in "
         "let / for, non-exhaustive matches, loops over non-arrays, direct / mutual recursion, unused private functions, pub fn "
         "without parameters, duplicate parameters, mistyped constants); every mutant must be rejected with a type error, the "
         "prelude alone must be accepted. Second stream, with the MODEL as the oracle: programs of the modelled fragment are "
         "mutated without an expectation (one expression site generated with another type than its context asks for; one token "
         "replaced: an identifier by another identifier or an unbound one, a number's suffix, a type annotation, a binary "
         "operator, a tuple index, a cast target, a dropped `mut`); whatever check.rs accepts is translated from check.rs' own "
         "typed tree (harness op typed_ast) and must be typed by Bit.progTyped, the typing judgement the compiler model induces "
         "(theorem C17_typed_never_stuck: a program it accepts never gets stuck on any input); an accepted program it rejects is reported, with an "
         "input on which the source semantics get stuck when one is found.",
    design_ref="DESIGN.md §6 C17",
    note="trusted: Lean kernel; the list of rule-breaking shapes is hand-written (tools/gv/c17.py), one violation per program; "
         "the translation of check.rs' typed tree (harness/src/tast.rs), compared with the generator's own tree on every program",
    technique="Lean 4 proof (rule violations are stuck in the semantics; programs typed by the compiler model are never stuck) + mutation testing of the type checker with a fixed list and with the model as the oracle",
)

CLAIMED["C01"] = dict(
    text="Lean theorems C01_core / C01_core_expr / C01_core_defined (Props/C01.lean): for the core fragment - Booleans and "
         "integers of EVERY width with all their operators (! on Booleans and integers, unary -, + - * / %, << >>, < > <= >= == !=, & | ^, && ||, `as`), "
         "tuples, structs, enums and arrays nested to any depth (literals, t.i, s.f, [e; n], lo..hi, a[i] with its bounds check), if/else "
         "as expression and as statement, match on Booleans, integers, tuples, structs and enums with literal, range, binding, tuple, "
         "struct and enum patterns (arms covering the type: last arm a binding or `_`, or exhaustive by the verified reference procedure "
         "of C08), blocks, (), let with irrefutable patterns, let mut, assignment to a variable and through any chain of "
         ".i / .f / [i] accessors, `for pattern in array`, calls of functions (inlined to any depth, programs without "
         "constants) - "
         "and for every program, inlining depth, function body, environment of well-typed values and fuel: if the source "
         "semantics (Model/SrcSem.lean) return a value, the bit-level evaluation Bit.bitStmts - which follows compile.rs "
         "construct by construct (both branches and all arms compiled, loops unrolled, value, panic record and every variable "
         "merged afterwards; arm selection `!has_prev_match && is_match`, range patterns by comparators) and uses the bit-list "
         "operators of Model/Arith.lean - returns exactly the encoding of that value, no panic, and variables whose wires "
         "encode the final source environment; if they fail it reports exactly that failure (first failing operation, "
         "out-of-bounds accesses included); the source semantics are never stuck on such a program (type soundness). The "
         "proof rests on the all-width correctness of the adder, subtractor, comparator, equality, negation and cast circuits "
         "(Proofs/Arith*.lean, BitOps*.lean), of the multiplier, divider, shifter and the repeated addition used for positive "
         "literal factors, on the layout lemmas of the encoding (Proofs/BitAgg.lean), on the mux tree of array reads and the mux "
         "chains of array writes selecting / replacing exactly the element at the index (Proofs/ArithIndex.lean, BitIndex.lean) "
         "and on == of aggregates being equality of encodings (Proofs/BeqEncode.lean). PARTIAL: the fragment excludes "
         "multiplication by a negative literal (where the recorded C03 finding lives), "
         "for-join loops / join and constants; for those, "
         "and for the step from Bit.bitStmts to real gates, the property is explored: generated programs (the generator "
         "builds the syntax tree itself) are compiled as SSA and register circuit with and without de-duplication and compared "
         "with the Lean source semantics on 6 argument tuples each; programs of the fragment are additionally run through "
         "Bit.bitStmts, which must agree with the real circuit bit for bit. A third stream takes the tree check.rs ITSELF "
         "builds for a program (harness op typed_ast: operand types, cast sources and literal types as the checker inferred "
         "them) and runs it through Src.evalStmts and Bit.bitBody: generated programs of the whole language and the "
         "hand-written programs of the repository's tests and examples (88 of them translate) on random inputs.",
    design_ref="DESIGN.md §6 C01",
    note="trusted: Lean kernel; Model/SrcSem.lean is the hand-written specification; Model/BitSem.lean is tied to compile.rs by "
         "the correspondence on core-fragment programs, Model/Arith.lean to CircuitBuilder by C03/C04; eval() and the register "
         "conversion by C16/C10",
    technique="Lean 4 proof (the value-level model of compile.rs refines the source semantics: every construct except for-join / join) + differential testing for the whole language",
)

CLAIMED["C06"] = dict(
    text="(1) Kernel-checked obligation extracted_hashIterSites: the list of HashMap/HashSet iteration sites of /repo/src, REGENERATED "
         "from the source on every run, equals the audited list in which every site carries the reason why its order cannot reach "
         "the circuit (a new or edited site breaks the obligation). (2) Lean theorems C06_cache_order_irrelevant_push/_mux: for the "
         "one such site inside modelled code (the condition cache of the panic record) the emitted gates and the record depend "
         "only on the SET of cached conditions, for every builder state. (3) Exploration: every program is compiled repeatedly in "
         "one process and in fresh processes (different RandomState seeds); all outcomes must be identical. PARTIAL by nature: "
         "hash seeds are not part of any Lean model; the order-insensitivity of the audited sites outside modelled code rests on "
         "the written audit, not on a theorem.",
    design_ref="DESIGN.md §6 C06",
    note="trusted: the regex-level extractor (tools/gv/extract.py: names fields/field_types excluded as ambiguous), the audit "
         "comments in lean/GarbleVerif/ExtractedSites.lean; Lean kernel for the obligations",
    technique="regenerated source facts as Lean proof obligations + permutation-invariance theorems + repeated/cross-process compilation",
)

NOT_YET = "not claimed yet: model/proof for this property is still being built in this session (see DESIGN.md §10 order of work)"


def main():
    checks = []
    for p in ALL:
        if p not in CLAIMED:
            continue
        c = CLAIMED[p]
        checks.append({
            "property_id": p,
            "quick_cmd": f"./check {p} --tier quick",
            "thorough_cmd": f"./check {p} --tier thorough",
            "evidence_file": f"/verif/evidence/{p}.json",
            "replay_cmd_template": f"./check {p} --replay {{path}}",
            "engine": "lean4+correspondence",
            "level_claimed": {"category": "proof", "text": c["text"], "design_ref": c["design_ref"]},
            "level_note": c["note"],
            "technique": c["technique"],
        })
    m = {
        "version": 1,
        "setup_cmd": "./setup.sh",
        "hooks": {
            "guard": "cargo feature verif_hooks",
            "enable": "harness/Cargo.toml depends on garble_lang = { path = \"/repo\", features = [\"serde\", \"verif_hooks\"] }",
            "baseline_off_cmd": "cd /repo && cargo test --workspace --no-fail-fast --offline",
            "source_commits": ["hooks: add cargo feature verif_hooks exposing the circuit builder to verification tooling"],
            "add_only": True,
        },
        "engines": [
            {"name": "lean4+correspondence", "path": "/verif/lean, /verif/harness, /verif/tools/gv",
             "serves_properties": sorted(CLAIMED),
             "kind_free_text": "Lean 4 theorems about executable models; models tied to /repo by differential correspondence "
                               "(Rust harness vs compiled Lean driver on the same cases) and regenerated constants"},
        ],
        "checks": checks,
        "notes": "See DESIGN.md. known_findings.json lists genuine defects (open) and repaired ones (fixed).",
        "not_applicable": [{"property_id": p, "reason": NOT_YET} for p in ALL if p not in CLAIMED],
    }
    json.dump(m, open(os.path.join(VERIF, "MANIFEST.json"), "w"), indent=1)


if __name__ == "__main__":
    main()
