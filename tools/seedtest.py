#!/usr/bin/env python3
"""Applies a seeded change to /repo, runs checks, restores /repo.

usage: tools/seedtest.py <patch.diff> [Cxx ...]   (default: all properties, quick tier)
Prints one line per check: property, exit code, number of VIOLATION lines, seconds.
Never leaves /repo modified (git checkout -- . at the end, also on error)."""
import subprocess
import sys
import time

ALL = [f"C{i:02d}" for i in range(1, 18)]


def main():
    patch = sys.argv[1]
    props = sys.argv[2:] or ALL
    st = subprocess.run(["git", "-C", "/repo", "status", "--porcelain", "--untracked-files=no"], capture_output=True, text=True).stdout.strip()
    if st:
        print("refusing: /repo has uncommitted changes:\n" + st)
        return 2
    r = subprocess.run(["git", "-C", "/repo", "apply", patch], capture_output=True, text=True)
    if r.returncode != 0:
        print("patch does not apply:", r.stderr[:500])
        return 2
    caught = []
    try:
        for p in props:
            t = time.time()
            c = subprocess.run(["./check", p, "--tier", "quick"], cwd="/verif", capture_output=True, text=True)
            viol = [l for l in c.stdout.splitlines() if l.startswith("VIOLATION")]
            print(f"{p} rc={c.returncode} violations={len(viol)} {time.time() - t:.0f}s" + (f"  e.g. {viol[0][:110]}" if viol else ""), flush=True)
            if viol:
                caught.append(p)
    finally:
        subprocess.run(["git", "-C", "/repo", "checkout", "--", "."])
    print("caught by:", " ".join(caught) or "NOTHING")
    return 0


if __name__ == "__main__":
    sys.exit(main())
