import GarbleVerif.Extracted
/-! Proof obligation tying the regenerated list of HashMap/HashSet iteration sites of `/repo/src`
to the audited list (C06). -/
namespace GV

/-- The audited iteration sites over `HashMap` / `HashSet` values (digest of file + line text), each
with the reason why the iteration order cannot reach the compiled circuit. A site that is added,
removed or edited changes the regenerated list and breaks `extracted_hashIterSites`.

* 157571442035425, 255125816731939, 140675055192907 — check.rs `Defs::new`: inserts into other maps only
* 173038111052748, 15429173550462, 121116349250812, 228471119755440 — `….extend(….keys())` into a `HashSet`
* 239851127985668, 196435004659758 — collected into a `Vec` that is sorted (by source position) before use
* 232281367726254, 219634149212571 — checks of struct / enum definitions: results inserted into maps, errors sorted before they are returned
* 210033054042292 — check.rs `recursive_type_defs` (added by the repair b55cce2): the structs and enums that contain themselves, reported as errors that are sorted before they are returned
* 62550387906933 (×3), 1808163508982 — check.rs function definitions: memoised per function, results inserted into a map, errors sorted
* 44879991132955 — circuit.rs `mux_panic`: set intersection collected into a `HashSet` (membership only; `C06_cache_order_irrelevant`)
* 139336795336792 (×2), 97798661449871, 212692210310585 — compile.rs external constants: inserted into maps / the root scope (a `BTreeMap`), errors sorted -/
def auditedHashIterSites : List Nat :=
  [1808163508982, 15429173550462, 44879991132955, 62550387906933, 62550387906933, 62550387906933,
   97798661449871, 121116349250812, 139336795336792, 139336795336792, 140675055192907, 157571442035425,
   173038111052748, 196435004659758, 210033054042292, 212692210310585, 219634149212571, 228471119755440, 232281367726254,
   239851127985668, 255125816731939]

theorem extracted_hashIterSites : Extracted.hashIterSites = auditedHashIterSites := by decide

end GV
