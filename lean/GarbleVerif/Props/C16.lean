import GarbleVerif.Proofs.SsaEval
import GarbleVerif.Proofs.RegEval
/-!
# C16 — a circuit that passes validation can be evaluated safely

For **arbitrary** circuit values (any gate / instruction list, any references, any party
sizes): `validate = ok` and inputs of the declared shape ⇒ the evaluator returns exactly one
bit per declared output, having read only wires / registers / inputs that exist and are
defined.  (`eval?` is `none` exactly where the Rust evaluator indexes out of range or
`unwrap`s an undefined wire; for registers the strict evaluator additionally refuses to read
a register no instruction has written.)
-/
namespace GV

/-- C16, SSA half. -/
theorem C16_ssa (c : Circuit) (ins : List (List Bool))
    (hv : c.validate = .ok ()) (hs : Circuit.shapeOk c.inputGates ins = true) :
    ∃ o, c.eval? ins = some o ∧ o.length = c.outputGates.length := by
  simp only [Circuit.validate] at hv
  split at hv
  · simp at hv
  · split at hv
    · simp at hv
    · rename_i hg
      split at hv
      · simp at hv
      · split at hv
        · simp at hv
        · rename_i ho
          have hlen := Circuit.flatten_length_of_shapeOk hs
          obtain ⟨ws, hws, hwl⟩ := Circuit.evalGates_some c.gates ins.flatten
            (by rw [hlen]; exact hg)
          have hlt := Circuit.validateOutputs_lt ho
          obtain ⟨out, hout, hol⟩ := Circuit.mapM_getElem?_some ws c.outputGates
            (by intro o hm; rw [hwl, hlen]; exact hlt o hm)
          exact ⟨out, by simp [Circuit.eval?, hs, hws, hout], hol⟩

/-- C16, register half (strict evaluator: no undefined register is ever read). -/
theorem C16_reg (c : Reg.RCircuit) (ins : List (List Bool))
    (hv : c.validate = .ok ()) (hs : Circuit.shapeOk c.inputRegs ins = true) :
    ∃ o, c.eval? ins = some o ∧ o.length = c.outputRegs.length := by
  simp only [Reg.RCircuit.validate] at hv
  split at hv
  · simp at hv
  · split at hv
    · simp at hv
    · split at hv
      · simp at hv
      · split at hv
        · simp at hv
        · split at hv
          · simp at hv
          · rename_i set hset
            obtain ⟨regsF, hF, hrel⟩ := Reg.RCircuit.validateInsts_strict c.insts hset
              (Reg.RCircuit.Rel.init c.maxRegCount) (by simp) hs
            obtain ⟨out, hout, hl⟩ := Reg.RCircuit.outputs_strict hrel c.outputRegs hv
            exact ⟨out, by simp [Reg.RCircuit.eval?, hs, hF, hout], hl⟩

/-- The Rust evaluator (registers are plain `bool`s) returns what the strict one returns. -/
theorem C16_reg_raw (c : Reg.RCircuit) (ins : List (List Bool)) (o : List Bool)
    (h : c.eval? ins = some o) : c.evalRaw? ins = some o := by
  simp only [Reg.RCircuit.eval?] at h
  split at h
  · simp at h
  · rename_i hs
    split at h
    · simp at h
    · rename_i sregs hsr
      obtain ⟨regsF, hF, hrel⟩ := Reg.RCircuit.strictInsts_raw c.insts
        (Reg.RCircuit.RawRel.init c.maxRegCount) hsr
      have := Reg.RCircuit.outputs_raw hrel c.outputRegs h
      simp at hs
      simp [Reg.RCircuit.evalRaw?, hs, hF, this]

/-- C16 for the Rust register evaluator: validated ⇒ no panic, one bit per output. -/
theorem C16_reg_impl (c : Reg.RCircuit) (ins : List (List Bool))
    (hv : c.validate = .ok ()) (hs : Circuit.shapeOk c.inputRegs ins = true) :
    ∃ o, c.evalRaw? ins = some o ∧ o.length = c.outputRegs.length := by
  obtain ⟨o, ho, hl⟩ := C16_reg c ins hv hs
  exact ⟨o, C16_reg_raw c ins o ho, hl⟩

/-! ### non-vacuity: concrete circuits satisfy the hypotheses -/

example : (⟨[1, 2], [.xor 0 1, .and 0 2, .xor 3 4, .not 5], [5, 6, 0]⟩ : Circuit).validate = .ok () := by
  rfl

example : Circuit.shapeOk [1, 2] [[true], [false, true]] = true := by decide

example :
    (⟨[1, 2], [⟨0, .input 0 0⟩, ⟨1, .input 1 0⟩, ⟨2, .input 1 1⟩, ⟨1, .xor 0 1⟩, ⟨0, .and 0 2⟩],
      3, [1, 0], 1⟩ : Reg.RCircuit).validate = .ok () := by rfl

/-- and validation is not trivially permissive: a forward reference is refused -/
example : (⟨[1], [.xor 0 1], [1]⟩ : Circuit).validate = .error (.invalidGate 1) := by rfl

/-- a register circuit whose output register exists but is never written is refused -/
example : (⟨[1], [⟨0, .input 0 0⟩], 2, [1], 0⟩ : Reg.RCircuit).validate = .error (.invalidOutput 1) := by
  rfl

/-- an `Input` instruction naming a party that does not exist is refused -/
example : (⟨[1], [⟨0, .input 7 0⟩], 1, [0], 0⟩ : Reg.RCircuit).validate = .error (.invalidInput 0) := by
  rfl

/-- `max_reg_count = 0` with an output is refused -/
example : (⟨[1], [], 0, [0], 0⟩ : Reg.RCircuit).validate = .error (.invalidOutput 0) := by rfl

end GV
