import GarbleVerif.Model.PanicReqs
namespace GV
end GV
