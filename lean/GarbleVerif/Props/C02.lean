import GarbleVerif.Proofs.PanicRec
import GarbleVerif.Model.PanicReqs
import GarbleVerif.Proofs.BitMain
/-!
# C02 — panic iff the source semantics fail; first failure wins; untaken code is silent

Builder level. The circuit carries a 161-wire panic record. `absOf b inp p` decodes it on an input
to the *abstract panic state* `Option info` (`none` = no panic; `some info` = the 160 bits naming
reason and location of the failing operation). The theorems say that the two operations
`compile.rs` performs on the record refine the obvious abstract operations — for **every** builder
state, every record satisfying the invariant `PInv` (in particular every record reachable by
these operations from `PanicResult::ok()`), every condition wire and every input:

* `push_panic_if` = `raiseIf`: a panic is raised iff the condition holds and none was raised
  before; an earlier panic is never dropped or overwritten (first failure wins);
* `mux_panic` = `if s then t else f`: after a conditional the record is that of the path taken, so
  operations on the path not taken contribute nothing.

Program level (`C02_program`, for the fragment of Model/BitSem.lean — every expression and statement form of the
language except for-join loops, constants and multiplication by a negative literal): the panic state the compiled
code ends with is `none` exactly when the source execution returns a value, and `some k` exactly when the source
execution fails with `k` — the reason of the FIRST failing operation in evaluation order, because that is what the
source semantics report; operations in branches not taken, arms not selected, short-circuited operands and loop
iterations after a failure are compiled (they are in `bitStmts`) but contribute nothing. Source locations are not
part of this model; reasons are.
-/
namespace GV
open Builder

theorem C02_push_panic_if {b : Builder} (hb : WF b) {p : PanicSt} (hp : PInv b p) {cond : Nat}
    (hc : cond < b.counter) (reason l0 c0 l1 c1 : Nat) :
    WF (pushPanicIf b p cond reason l0 c0 l1 c1).1 ∧ Ext b (pushPanicIf b p cond reason l0 c0 l1 c1).1 ∧
    PInv (pushPanicIf b p cond reason l0 c0 l1 c1).1 (pushPanicIf b p cond reason l0 c0 l1 c1).2 ∧
    ∀ inp, inp.length + 2 = b.shift →
      absOf (pushPanicIf b p cond reason l0 c0 l1 c1).1 inp (pushPanicIf b p cond reason l0 c0 l1 c1).2 =
        raiseIf (b.sem inp cond) ((siteInfo reason l0 c0 l1 c1).map (b.sem inp)) (absOf b inp p) :=
  pushPanicIf_refines hb hp hc reason l0 c0 l1 c1

theorem C02_mux_panic {b : Builder} (hb : WF b) {s : Nat} (hs : s < b.counter) {t f : PanicSt}
    (ht : PInv b t) (hf : PInv b f) :
    WF (muxPanic b s t f).1 ∧ Ext b (muxPanic b s t f).1 ∧ PInv (muxPanic b s t f).1 (muxPanic b s t f).2 ∧
    ∀ inp, inp.length + 2 = b.shift →
      absOf (muxPanic b s t f).1 inp (muxPanic b s t f).2 =
        if b.sem inp s then absOf b inp t else absOf b inp f :=
  muxPanic_refines hb hs ht hf

/-- first failure wins / a panic once raised is never dropped or overwritten -/
theorem C02_first_wins (c : Bool) (info first : List Bool) : raiseIf c info (some first) = some first := rfl

/-- no panic before and the condition is false: still no panic -/
theorem C02_silent (info : List Bool) : raiseIf false info none = none := rfl

/-- no panic before and the condition holds: this site is reported -/
theorem C02_raises (info : List Bool) : raiseIf true info none = some info := rfl

/-- a saved record stays valid while gates are added (`replace_panic_with` of an older clone) -/
theorem C02_restore {b b' : Builder} {p : PanicSt} (hp : PInv b p) (e : Ext b b') (inp : List Bool)
    (hi : inp.length + 2 = b.shift) : PInv b' p ∧ absOf b' inp p = absOf b inp p :=
  ⟨hp.mono e, absOf_ext hp e inp hi⟩

/-- the initial record `PanicResult::ok()` satisfies the invariant and decodes to "no panic" -/
theorem C02_initial {b : Builder} (hb : WF b) : PInv b PanicSt.ok ∧ ∀ inp, absOf b inp PanicSt.ok = none := by
  have c := c2 hb
  refine ⟨⟨?_, by simp [PanicSt.ok, usizeWires_length], by simp [PanicSt.ok], by simp [PanicSt.ok]⟩, ?_⟩
  · intro w hw
    simp only [PanicSt.ok, List.mem_cons, List.mem_append] at hw
    have h1 : w ≤ 1 := by
      rcases hw with rfl | ((((h | h) | h) | h) | h)
      · omega
      all_goals exact usizeWires_le_one _ w h
    omega
  · intro inp
    simp [absOf, PanicSt.ok, PanicSt.flag, sem_zero]

/-! ### non-vacuity: the invariant is inhabited by a record with a real condition in its cache -/
example : raiseIf true [true] (raiseIf false [false] none) = some [true] := rfl


namespace Bit
open Src

/-- **C02 at program level**: with enough fuel for the source execution to finish, the panic state of the compiled
code is empty iff the execution returns a value, and names reason `k` iff the execution fails with `k` -/
theorem C02_program (prog : Prog) (depth fuel : Nat) (env : Src.Env) (benv benv' : BEnv) (body : StmtList)
    (t : VTy) (bits : List Bool) (p : P)
    (henv : EnvRel env benv) (hbits : bitStmts ⟨callAt prog depth, prog.enum?⟩ benv body = some (t, bits, p, benv'))
    (hfuel : evalStmts fuel prog env body ≠ .error .fuel) :
    (p = none ↔ ∃ v env', evalStmts fuel prog env body = .ok (v, env')) ∧
    (∀ k, p = some k ↔ evalStmts fuel prog env body = .error (.panic k)) := by
  have h := (core_all prog ⟨callAt prog depth, prog.enum?⟩ (callAt_sound prog depth) fuel).2.1 body env benv _ bits p benv'
    henv hbits
  cases hev : evalStmts fuel prog env body with
  | ok res =>
    obtain ⟨v, env'⟩ := res
    rw [hev] at h
    obtain ⟨hp, _, _⟩ := h
    subst hp
    exact ⟨⟨fun _ => ⟨v, env', rfl⟩, fun _ => rfl⟩, fun k => ⟨fun hk => by simp at hk, fun hk => by simp at hk⟩⟩
  | error er =>
    rw [hev] at h
    cases er with
    | panic k0 =>
      simp only [ResRel] at h
      subst h
      refine ⟨⟨fun hn => by simp at hn, fun ⟨_, _, hh⟩ => by simp at hh⟩, fun k => ⟨fun hk => ?_, fun hk => ?_⟩⟩
      · simp only [Option.some.injEq] at hk; subst hk; rfl
      · simp only [Except.error.injEq, Err.panic.injEq] at hk; subst hk; rfl
    | stuck w => exact h.elim
    | fuel => exact absurd hev hfuel

end Bit
end GV
