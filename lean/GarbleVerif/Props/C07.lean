import GarbleVerif.Proofs.ScanWF
/-!
# C07 — the front end is total

What is proved here, for every input text, about the model of `scan.rs` and of
`lib.rs: prettify_meta`:

* the scanner terminates: `scanLoop` and `blockLoop` are defined by well-founded recursion on
  the length of the remaining input, so Lean accepts them only with the proofs
  `scanOne_length` / `blockIter_length` that every iteration consumes input or stops
  (`C07_scan_progress`, `C07_block_comment_progress` restate them);
* it returns tokens or a **non-empty** list of errors (`C07_scan_result`);
* every token and error location has start ≤ end and lies on a line of the input
  (`C07_scan_locations`);
* rendering never indexes a line that does not exist, for every location whose end line is at
  most the number of newlines of the text (`C07_render_total`), in particular for every scanner
  location (`C07_scan_errors_render`).

`parse.rs`, `check.rs` and `compile.rs` are not modelled: for them C07 is explored by the
harness only; no theorem about them is stated here.
-/
namespace GV
namespace Scan

/-- every pass of the main loop strictly shortens the remaining input -/
theorem C07_scan_progress (c : Char) (rest : List Char) (s : St) :
    (scanOne c rest s).1.length < (c :: rest).length := by
  have := scanOne_length c rest s
  simp only [List.length_cons]; omega

/-- every pass of the block-comment loop shortens the input, or the loop stops (end of input) -/
theorem C07_block_comment_progress (cs : List Char) (level line col : Nat) :
    cs ≠ [] → (blockIter cs level line col).1.length < cs.length :=
  (blockIter_length cs level line col).2

/-- the scanner returns tokens, or at least one error -/
theorem C07_scan_result (cs : List Char) :
    (∃ ts, scan cs = .ok ts) ∨ (∃ es, scan cs = .error es ∧ es ≠ []) := by
  unfold scan
  dsimp only
  split
  · exact Or.inl ⟨_, rfl⟩
  · rename_i h
    refine Or.inr ⟨_, rfl, ?_⟩
    intro hc
    apply h
    have := congrArg List.isEmpty hc
    simpa using this

/-- every location the scanner reports — of a token or of an error — has its start not after its
end, and ends on a line of the input (at most the number of newlines in the text) -/
theorem C07_scan_locations (cs : List Char) :
    (∀ ts, scan cs = .ok ts → ∀ tm, tm ∈ ts → Pos.le tm.2.start tm.2.stop ∧ tm.2.stop.line ≤ nl cs) ∧
    (∀ es, scan cs = .error es → ∀ em, em ∈ es → Pos.le em.2.start em.2.stop ∧ em.2.stop.line ≤ nl cs) := by
  have h := scanLoop_spec cs St.init inv_init
  have hline : (scanLoop cs St.init).line = nl cs := by rw [h.2]; simp [St.init]
  unfold scan
  dsimp only
  constructor
  · intro ts hts tm htm
    split at hts
    · simp only [Result.ok.injEq] at hts
      subst hts
      have := h.1.toks tm (by simpa using htm)
      rw [hline] at this
      exact this
    · simp at hts
  · intro es hes em hem
    split at hes
    · simp at hes
    · simp only [Result.error.injEq] at hes
      subst hes
      have := h.1.errs em (by simpa using hem)
      rw [hline] at this
      exact this

/-- `prettify_meta` never indexes a source line that does not exist, whatever the columns, for a
location that ends on a line of the text -/
theorem C07_render_total (prg : List Char) (m : Meta) (h : m.stop.line ≤ nl prg) :
    (prettifyMeta prg m).isSome := by
  unfold prettifyMeta
  split
  · rfl
  · exact renderLines_some _ _ _ (Nat.le_trans h (rustLines_length prg))

/-- every error the scanner reports can be rendered against the text it came from -/
theorem C07_scan_errors_render (cs : List Char) (es : List (ErrKind × Meta)) (h : scan cs = .error es) :
    ∀ em, em ∈ es → (prettifyMeta cs em.2).isSome :=
  fun em hem => C07_render_total cs em.2 ((C07_scan_locations cs).2 es h em hem).2

/-- the hypothesis of `C07_render_total` is needed: a location two lines past the end of a
one-line text makes the renderer index out of range (the Rust code panics on it as well) -/
example : prettifyMeta ['a'] ⟨⟨0, 0⟩, ⟨3, 0⟩⟩ = none := by decide

/-- non-vacuity: a text with a scan error on its second line -/
example : ∃ es, scan ['a', '\n', '#'] = .error es ∧ es ≠ [] := by
  refine ⟨[(.unexpectedCharacter, ⟨⟨1, 1⟩, ⟨1, 1⟩⟩)], ?_, by simp⟩
  simp [scan, scanLoop, scanOne, opTable, opList, isDigit, isAlnum, spanP, pushToken, pushError, advN,
    keyword, St.init]

end Scan
end GV
