import GarbleVerif.Model.Consts
import GarbleVerif.Proofs.Wrap
import GarbleVerif.Proofs.BitMain
/-!
# C12 — constant parameters

Theorems about the specification `Src.evalC` of constant expressions (wrapping arithmetic in the
constant's own type):

* `C12_in_range`: with supplied values and earlier constants in the range of the type, every
  constant is in the range of its type;
* `C12_linear_wrap_once`: for an expression built from `+` and `-` only, wrapping after every
  operation gives the same value as computing over the integers and wrapping once at the end —
  which is why an implementation that computes in 64 bits and truncates to the type at the end
  (compile.rs) agrees with the specification on such expressions, for every width;
* `C12_minmax_differs`: for `min` / `max` over a wrapped operand the two differ (the concrete
  instance recorded as a finding: `max(100u8 + 200u8, 50u8)`).

Program level (`C12_program`, for the fragment of Model/BitSem.lean): a function compiled with the constants of the
program as wires of the outermost scope — each the encoding of the constant's value in its declared type
(`Bit.constEnv`) — returns what the source semantics return when the constants are variables bound to those values
(`runFn` evaluates the body in `parameters ++ constants`); and a reference to such a variable evaluates to the
value like the literal does (`C12_const_reads_value`, `C12_literal_is_value`). The equivalence with the program
text in which the values are written out — which also goes through the parser, the checker's inference for
unsuffixed numbers and `compile_with_constants`' own bookkeeping (array sizes, missing / mistyped constants) — is
compared on generated programs on every run.
-/
namespace GV
namespace Src

/-- all literals of the expression are values of the type -/
def CExpr.litsIn (k : IntTy) : CExpr → Prop
  | .lit n => k.lo ≤ n ∧ n ≤ k.hi
  | .ext _ _ => True
  | .ident _ => True
  | .add a b => a.litsIn k ∧ b.litsIn k
  | .sub a b => a.litsIn k ∧ b.litsIn k
  | .max a b => a.litsIn k ∧ b.litsIn k
  | .min a b => a.litsIn k ∧ b.litsIn k

/-- every constant lies in the range of its type -/
theorem C12_in_range (k : IntTy) (env : CEnv)
    (hext : ∀ p n, k.lo ≤ env.ext p n ∧ env.ext p n ≤ k.hi)
    (hnamed : ∀ n, k.lo ≤ env.named n ∧ env.named n ≤ k.hi) :
    ∀ e : CExpr, e.litsIn k → k.lo ≤ evalC k env e ∧ evalC k env e ≤ k.hi := by
  intro e
  induction e with
  | lit n => intro h; exact h
  | ext p n => intro _; exact hext p n
  | ident n => intro _; exact hnamed n
  | add a b _ _ => intro _; exact wrapTo_range k _
  | sub a b _ _ => intro _; exact wrapTo_range k _
  | max a b iha ihb =>
    intro h
    have ha := iha h.1
    have hb := ihb h.2
    simp only [evalC]
    omega
  | min a b iha ihb =>
    intro h
    have ha := iha h.1
    have hb := ihb h.2
    simp only [evalC]
    omega

theorem linear_emod (k : IntTy) (env : CEnv) : ∀ e : CExpr, e.linear = true →
    evalC k env e % (2 : Int) ^ k.bits = exact env e % (2 : Int) ^ k.bits := by
  intro e
  induction e with
  | lit n => intro _; rfl
  | ext p n => intro _; rfl
  | ident n => intro _; rfl
  | add a b iha ihb =>
    intro h
    simp only [CExpr.linear, Bool.and_eq_true] at h
    simp only [evalC, exact, wrapTo_emod]
    rw [Int.add_emod, iha h.1, ihb h.2, ← Int.add_emod]
  | sub a b iha ihb =>
    intro h
    simp only [CExpr.linear, Bool.and_eq_true] at h
    simp only [evalC, exact, wrapTo_emod]
    rw [Int.sub_emod, iha h.1, ihb h.2, ← Int.sub_emod]
  | max a b _ _ => intro h; simp [CExpr.linear] at h
  | min a b _ _ => intro h; simp [CExpr.linear] at h

/-- for `+` / `-` expressions, wrapping after every operation = computing exactly and wrapping once -/
theorem C12_linear_wrap_once (k : IntTy) (env : CEnv) (e : CExpr) (h : e.linear = true) :
    wrapTo k (evalC k env e) = wrapTo k (exact env e) :=
  wrapTo_eq_of_emod_eq k _ _ (linear_emod k env e h)

/-- under `min` / `max` they differ: `max(100u8 + 200u8, 50u8)` is 50, not 300 mod 256 = 44 -/
theorem C12_minmax_differs :
    evalC .u8 ⟨fun _ _ => 0, fun _ => 0⟩ (.max (.add (.lit 100) (.lit 200)) (.lit 50)) = 50 ∧
    wrapTo .u8 (exact ⟨fun _ _ => 0, fun _ => 0⟩ (.max (.add (.lit 100) (.lit 200)) (.lit 50))) = 44 := by
  decide

/-- a reference to a constant reads its value … -/
theorem C12_const_reads_value (fuel : Nat) (prog : Prog) (env : Env) (c : String) (v : Val) (h : env.get? c = some v) :
    evalExpr (fuel + 1) prog env (.var c) = .ok (v, env) := by
  simp [evalExpr, h]

/-- … which is what the number written out evaluates to -/
theorem C12_literal_is_value (fuel : Nat) (prog : Prog) (env : Env) (n : Int) (k : IntTy) :
    evalExpr (fuel + 1) prog env (.int n k) = .ok (.int n, env) := by
  simp [evalExpr]

end Src

namespace Bit
open Src

/-- **constants as wires = constants as values**: for every function of a program with constants (typed, each value
of its type), every inlining depth, all arguments and every fuel, the compiled body — parameters bound to the
argument wires, constants to the encodings of their values — returns the encoding of what the source semantics
return with the constants bound to their values, or records exactly the first failure -/
theorem C12_program (prog : Prog) (depth fuel : Nat) (fn : String) (vals : List Val) (argsB : List (VTy × List Bool))
    (t : VTy) (bits : List Bool) (p : P) (hargs : ArgsRel vals argsB)
    (h : callAt prog (depth + 1) fn argsB = some (t, bits, p)) :
    match runFn fuel prog fn vals with
    | .ok v => p = none ∧ v.hasType t.toTy = true ∧ bits = v.encode t.toTy
    | .error (.panic k) => p = some k
    | .error (.stuck _) => False
    | .error .fuel => True := by
  have hs := callAt_sound prog (depth + 1) fuel fn vals argsB t bits p hargs h
  cases hr : runFn fuel prog fn vals with
  | ok v =>
    rw [hr] at hs
    exact ⟨hs.1, hs.2.hasType_encode.1, hs.2.hasType_encode.2⟩
  | error er =>
    rw [hr] at hs
    cases er with
    | panic k => exact hs
    | stuck w => exact hs
    | fuel => trivial

/-- non-vacuity: `const K: u8 = 200;  fn f(a: u8) -> u8 { a + K }` — with `a = 100` the addition overflows, with
`a = 5` it gives 205 -/
def C12_example_prog : Prog :=
  { fns := [⟨"f", [("a", .int .u8)], .int .u8, .cons (.expr (.bin .add (.int .u8) (.var "a") (.var "K"))) .nil⟩],
    consts := [("K", .int 200)], constTys := [("K", .int .u8)] }

example : callAt C12_example_prog 1 "f" [(.s (.int .u8), enc .u8 5)] = some (.s (.int .u8), enc .u8 205, none) := by rfl
example : (callAt C12_example_prog 1 "f" [(.s (.int .u8), enc .u8 100)]).map (·.2.2) = some (some .overflow) := by rfl

end Bit
end GV