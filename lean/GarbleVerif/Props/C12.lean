import GarbleVerif.Model.Consts
import GarbleVerif.Proofs.Wrap
/-!
# C12 — constant parameters

Theorems about the specification `Src.evalC` of constant expressions (wrapping arithmetic in the
constant's own type):

* `C12_in_range`: with supplied values and earlier constants in the range of the type, every
  constant is in the range of its type;
* `C12_linear_wrap_once`: for an expression built from `+` and `-` only, wrapping after every
  operation gives the same value as computing over the integers and wrapping once at the end —
  which is why an implementation that computes in 64 bits and truncates to the type at the end
  (compile.rs) agrees with the specification on such expressions, for every width;
* `C12_minmax_differs`: for `min` / `max` over a wrapped operand the two differ (the concrete
  instance recorded as a finding: `max(100u8 + 200u8, 50u8)`).

The substitution property itself (a program compiled with constants behaves like the program
with the values written out) is compared on generated programs on every run.
-/
namespace GV
namespace Src

/-- all literals of the expression are values of the type -/
def CExpr.litsIn (k : IntTy) : CExpr → Prop
  | .lit n => k.lo ≤ n ∧ n ≤ k.hi
  | .ext _ _ => True
  | .ident _ => True
  | .add a b => a.litsIn k ∧ b.litsIn k
  | .sub a b => a.litsIn k ∧ b.litsIn k
  | .max a b => a.litsIn k ∧ b.litsIn k
  | .min a b => a.litsIn k ∧ b.litsIn k

/-- every constant lies in the range of its type -/
theorem C12_in_range (k : IntTy) (env : CEnv)
    (hext : ∀ p n, k.lo ≤ env.ext p n ∧ env.ext p n ≤ k.hi)
    (hnamed : ∀ n, k.lo ≤ env.named n ∧ env.named n ≤ k.hi) :
    ∀ e : CExpr, e.litsIn k → k.lo ≤ evalC k env e ∧ evalC k env e ≤ k.hi := by
  intro e
  induction e with
  | lit n => intro h; exact h
  | ext p n => intro _; exact hext p n
  | ident n => intro _; exact hnamed n
  | add a b _ _ => intro _; exact wrapTo_range k _
  | sub a b _ _ => intro _; exact wrapTo_range k _
  | max a b iha ihb =>
    intro h
    have ha := iha h.1
    have hb := ihb h.2
    simp only [evalC]
    omega
  | min a b iha ihb =>
    intro h
    have ha := iha h.1
    have hb := ihb h.2
    simp only [evalC]
    omega

theorem linear_emod (k : IntTy) (env : CEnv) : ∀ e : CExpr, e.linear = true →
    evalC k env e % (2 : Int) ^ k.bits = exact env e % (2 : Int) ^ k.bits := by
  intro e
  induction e with
  | lit n => intro _; rfl
  | ext p n => intro _; rfl
  | ident n => intro _; rfl
  | add a b iha ihb =>
    intro h
    simp only [CExpr.linear, Bool.and_eq_true] at h
    simp only [evalC, exact, wrapTo_emod]
    rw [Int.add_emod, iha h.1, ihb h.2, ← Int.add_emod]
  | sub a b iha ihb =>
    intro h
    simp only [CExpr.linear, Bool.and_eq_true] at h
    simp only [evalC, exact, wrapTo_emod]
    rw [Int.sub_emod, iha h.1, ihb h.2, ← Int.sub_emod]
  | max a b _ _ => intro h; simp [CExpr.linear] at h
  | min a b _ _ => intro h; simp [CExpr.linear] at h

/-- for `+` / `-` expressions, wrapping after every operation = computing exactly and wrapping once -/
theorem C12_linear_wrap_once (k : IntTy) (env : CEnv) (e : CExpr) (h : e.linear = true) :
    wrapTo k (evalC k env e) = wrapTo k (exact env e) :=
  wrapTo_eq_of_emod_eq k _ _ (linear_emod k env e h)

/-- under `min` / `max` they differ: `max(100u8 + 200u8, 50u8)` is 50, not 300 mod 256 = 44 -/
theorem C12_minmax_differs :
    evalC .u8 ⟨fun _ _ => 0, fun _ => 0⟩ (.max (.add (.lit 100) (.lit 200)) (.lit 50)) = 50 ∧
    wrapTo .u8 (exact ⟨fun _ _ => 0, fun _ => 0⟩ (.max (.add (.lit 100) (.lit 200)) (.lit 50))) = 44 := by
  decide

end Src
end GV
