import GarbleVerif.Proofs.Requests
/-!
# C04 — circuit optimizations never change the computed function

`Req.compile ig cacheOn reqs outs` runs an arbitrary sequence of builder requests
(xor / and / not / or / eq / mux / adder over earlier results, the inputs and the two
constants) through the model of the real `CircuitBuilder` — constant folding, gate cache,
the algebraic XOR/AND rewrites — and then through `build` (removal of unused gates, final
renumbering).  `Req.literal` executes the same requests on Booleans with no simplification.
The theorems say the two agree for **every** request sequence, every input, with the cache
on or off; no bound on lengths or sizes.
-/
namespace GV
open Builder Req

theorem okPanic_sem (b : Builder) (inp : List Bool) : okPanicWires.map (b.sem inp) = okPanicBits := by
  simp [okPanicWires, okPanicBits, sem_zero, sem_one]

theorem okPanic_lt {b : Builder} (hb : WF b) : ∀ r, r ∈ okPanicWires → r < b.counter := by
  intro r hr
  have := c2 hb
  have h1 : ∀ r, r ∈ okPanicWires → r ≤ 1 := by decide +kernel
  have := h1 r hr
  omega

theorem filterMap_lt {rs outs : List Nat} {n : Nat} (h : ∀ w, w ∈ rs → w < n) :
    ∀ r, r ∈ outs.filterMap (rs[·]?) → r < n := by
  intro r hr
  simp only [List.mem_filterMap] at hr
  obtain ⟨o, _, ho⟩ := hr
  exact h r (List.mem_of_getElem? ho)

theorem filterMap_vals {rs : List Nat} {vs : List Bool} {f : Nat → Bool} (h : rs.map f = vs)
    (outs : List Nat) : (outs.filterMap (rs[·]?)).map f = outs.filterMap (vs[·]?) := by
  subst h
  induction outs with
  | nil => rfl
  | cons o os ih =>
    simp only [List.filterMap_cons, List.getElem?_map]
    cases rs[o]? with
    | none => simpa using ih
    | some w => simpa using ih

/-- **C04, main statement.** For any request sequence the built circuit computes, on every
input of the declared shape, the 161 bits of the untouched panic record followed by the
literal (unsimplified) value of every requested output. -/
theorem C04_requests (ig : List Nat) (cacheOn : Bool) (reqs : List Req) (outs : List Nat)
    (ins : List (List Bool)) (hpos : 0 < ig.sum) (hs : Circuit.shapeOk ig ins = true) :
    (Req.compile ig cacheOn reqs outs).eval? ins =
      some (okPanicBits ++ outs.filterMap ((literal reqs ins.flatten)[·]?)) := by
  have hinv := run_inv ig cacheOn reqs
  simp only [Req.compile]
  generalize run ig cacheOn reqs = st at *
  obtain ⟨b, rs⟩ := st
  simp only
  have hpre : BuildPre b ig (outs.filterMap (rs[·]?) ++ okPanicWires) :=
    ⟨hinv.wf, hinv.shift, hpos, by
      intro r hr
      simp only [List.mem_append] at hr
      rcases hr with hr | hr
      · exact filterMap_lt hinv.lt r hr
      · exact okPanic_lt hinv.wf r hr⟩
  rw [build_sound b ig okPanicWires _ hpre ins hs]
  have hfl := Circuit.flatten_length_of_shapeOk hs
  have hi : ins.flatten.length + 2 = b.shift := by rw [hfl]; exact hinv.shift.symm
  rw [List.map_append, okPanic_sem, filterMap_vals (hinv.vals ins.flatten hi)]

/-- **C04, consequence.** Gate de-duplication on or off: functionally identical circuits. -/
theorem C04_dedup_irrelevant (ig : List Nat) (reqs : List Req) (outs : List Nat)
    (ins : List (List Bool)) (hpos : 0 < ig.sum) (hs : Circuit.shapeOk ig ins = true) :
    (Req.compile ig true reqs outs).eval? ins = (Req.compile ig false reqs outs).eval? ins := by
  rw [C04_requests ig true reqs outs ins hpos hs, C04_requests ig false reqs outs ins hpos hs]

/-- Every wire handed back by `push_xor` computes the XOR of its operands, whatever rewrite
fired, and the builder invariant is kept (any fuel, i.e. also for the real recursion). -/
theorem C04_push_xor (fuel : Nat) (b : Builder) (x y : Nat) (hb : WF b)
    (hx : x < b.counter) (hy : y < b.counter) :
    WF (pushXor fuel b x y).2 ∧ Ext b (pushXor fuel b x y).2 ∧
    (pushXor fuel b x y).1 < (pushXor fuel b x y).2.counter ∧
    ∀ inp, inp.length + 2 = b.shift →
      (pushXor fuel b x y).2.sem inp (pushXor fuel b x y).1 = (b.sem inp x ^^ b.sem inp y) :=
  pushXor_post fuel b x y hb hx hy

/-- Same for `push_and`. -/
theorem C04_push_and (fuel xfuel : Nat) (b : Builder) (x y : Nat) (hb : WF b)
    (hx : x < b.counter) (hy : y < b.counter) :
    WF (pushAnd fuel xfuel b x y).2 ∧ Ext b (pushAnd fuel xfuel b x y).2 ∧
    (pushAnd fuel xfuel b x y).1 < (pushAnd fuel xfuel b x y).2.counter ∧
    ∀ inp, inp.length + 2 = b.shift →
      (pushAnd fuel xfuel b x y).2.sem inp (pushAnd fuel xfuel b x y).1 = (b.sem inp x && b.sem inp y) :=
  pushAnd_post fuel xfuel b x y hb hx hy

/-- `build` (removal of unused gates + final renumbering) preserves every requested wire, for
any well-formed builder state — in particular for the states `compile.rs` produces. -/
theorem C04_build (b : Builder) (ig pw outs : List Nat) (hb : WF b)
    (hshift : b.shift = ig.sum + 2) (hpos : 0 < ig.sum)
    (hroots : ∀ r, r ∈ outs ++ pw → r < b.counter)
    (ins : List (List Bool)) (hs : Circuit.shapeOk ig ins = true) :
    (b.build ig pw outs).eval? ins = some ((pw ++ outs).map (b.sem ins.flatten)) :=
  build_sound b ig pw outs ⟨hb, hshift, hpos, hroots⟩ ins hs

/-! ### non-vacuity and sanity: concrete request sequences -/

/-- a sequence that exercises XOR-of-XOR cancellation, AND factoring and a mux -/
def demoReqs : List Req :=
  [.xor 2 3, .xor 2 4, .xor 5 6, .and 2 3, .and 2 4, .xor 8 9, .mux 2 3 4, .adder 2 3 4, .not 7]

example : (literal demoReqs [true, false, true]).length = 15 := by decide

example :
    (Req.compile [1, 2] true demoReqs [7, 10, 11, 12, 13, 14]).eval? [[true], [false, true]] =
      some (okPanicBits ++ [true, true, false, false, true, false]) := by
  rw [C04_requests _ _ _ _ _ (by decide) (by decide)]
  decide +kernel

end GV
