import GarbleVerif.Proofs.Encoding
import GarbleVerif.Model.SrcSem
/-!
# C05 — accepted programs compile to valid circuits whose I/O shape matches their types

The part of C05 that is a statement about the I/O contract itself, for every type and value:
an argument of type `t` occupies exactly `t.size` input wires and a result of type `t` exactly
`t.size` output wires after the 161 panic wires, and those wires decode to the value
(`C05_io_width`, `C05_io_decodes`, `C05_output_shape`). The correspondence run checks on every
generated program that the compiled circuit has exactly this shape (`input_gates`, number of
output wires), passes `Circuit::validate`, and returns `Val.encode` of the value the source
semantics compute.

`compile.rs` is not modelled as a whole: that *every* accepted program compiles without a panic
to a valid circuit is explored, not proved.
-/
namespace GV

theorem C05_io_width (v : Val) (t : Ty) (h : v.hasType t = true) : (v.encode t).length = t.size :=
  Val.encode_length v t h

theorem C05_io_decodes (v : Val) (t : Ty) (h : v.hasType t = true) : t.decode (v.encode t) = some v :=
  Val.decode_encode v t h

/-- the output of a run that returns `v : t`: 161 panic wires followed by exactly `t.size` wires -/
theorem C05_output_shape (panic : List Bool) (v : Val) (t : Ty) (hp : panic.length = 161)
    (h : v.hasType t = true) :
    (panic ++ v.encode t).length = 161 + t.size ∧ t.decode ((panic ++ v.encode t).drop 161) = some v := by
  refine ⟨by simp [hp, Val.encode_length v t h], ?_⟩
  rw [← hp, List.drop_left]
  exact Val.decode_encode v t h

end GV
