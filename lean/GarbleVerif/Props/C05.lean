import GarbleVerif.Proofs.Encoding
import GarbleVerif.Model.SrcSem
import GarbleVerif.Proofs.BitWidth
import GarbleVerif.Proofs.BitStatic
/-!
# C05 — accepted programs compile to valid circuits whose I/O shape matches their types

The part of C05 that is a statement about the I/O contract itself, for every type and value:
an argument of type `t` occupies exactly `t.size` input wires and a result of type `t` exactly
`t.size` output wires after the 161 panic wires, and those wires decode to the value
(`C05_io_width`, `C05_io_decodes`, `C05_output_shape`). The correspondence run checks on every
generated program that the compiled circuit has exactly this shape (`input_gates`, number of
output wires), passes `Circuit::validate`, and returns `Val.encode` of the value the source
semantics compute.

At the level of the compiler model (Model/BitSem.lean — every expression and statement form except for-join
loops): `C05_output_width` — the compiled body of a function has exactly `size(T)` output wires for its result type
`T`, for ANY wires on the inputs (valid encodings or not, panicking runs included), and `C01_core` says they are the
encoding of the value when the run does not panic. What is not modelled and therefore explored: that the type
checker accepts exactly the well-typed programs, that `compile()` itself never panics on an accepted program, and
`Circuit::validate` of the gate-level result (the value-level model has no gates; C16 / C04 cover gate lists).
-/
namespace GV

theorem C05_io_width (v : Val) (t : Ty) (h : v.hasType t = true) : (v.encode t).length = t.size :=
  Val.encode_length v t h

theorem C05_io_decodes (v : Val) (t : Ty) (h : v.hasType t = true) : t.decode (v.encode t) = some v :=
  Val.decode_encode v t h

/-- the output of a run that returns `v : t`: 161 panic wires followed by exactly `t.size` wires -/
theorem C05_output_shape (panic : List Bool) (v : Val) (t : Ty) (hp : panic.length = 161)
    (h : v.hasType t = true) :
    (panic ++ v.encode t).length = 161 + t.size ∧ t.decode ((panic ++ v.encode t).drop 161) = some v := by
  refine ⟨by simp [hp, Val.encode_length v t h], ?_⟩
  rw [← hp, List.drop_left]
  exact Val.decode_encode v t h


namespace Bit
open Src

/-- **C05, output shape at the level of the compiler model**: for every program of the fragment of Model/BitSem.lean
(every expression and statement form except for-join loops), every inlining depth and ANY wires on the inputs — as
many per variable as its type has bits, whether or not they encode a value, whether or not the execution panics —
the compiled body has exactly `size(T)` output wires for its result type `T`, and every variable still has as many
wires as its type has bits -/
theorem C05_output_width (prog : Prog) (depth : Nat) (benv benv' : BEnv) (body : StmtList) (t : VTy) (bits : List Bool)
    (p : P) (hw : WFB benv) (h : bitStmts ⟨callAt prog depth, prog.enum?⟩ benv body = some (t, bits, p, benv')) :
    bits.length = t.toTy.size :=
  (width_program prog depth benv benv' body t bits p hw h).1

/-- **a typed function has the shape of its signature**: if the typing judgement of the compiler model accepts a
function (`Bit.fnTyped`: the model run once, on all-zero wires), then for ANY wires on its parameters — as many per
parameter as the parameter type has bits — the compiled call is inside the model and has exactly `size(ret)` output wires
(`typed_call`: the verdict of the model does not depend on the wires, Proofs/BitStatic.lean) -/
theorem C05_typed_output_width (prog : Prog) (f : String) (d : FnDef) (hfn : prog.fn? f = some d)
    (hty : fnTyped prog d = true) (args : List (VTy × List Bool))
    (htys : args.map (·.1) = d.params.map (fun xt => VTy.ofTy xt.2)) (hw : ArgsWF args) :
    ∃ bs p, callAt prog (prog.fns.length + 2) f args = some (VTy.ofTy d.ret, bs, p) ∧ bs.length = d.ret.size := by
  obtain ⟨bs, p, h⟩ := typed_call prog f d hfn hty args htys hw
  have := callAt_wf prog (fun cb hcb => constEnvOf_wf _ _ cb hcb) (prog.fns.length + 2) f args _ _ _ h hw
  exact ⟨bs, p, h, by rw [this, VTy.toTy_ofTy]⟩

/-- non-vacuity: a `u8` parameter bound to eight wires -/
example : WFB [("x", .s (.int .u8), List.replicate 8 true)] := by
  intro e he
  simp only [List.mem_singleton] at he
  subst he
  rfl

end Bit
end GV
