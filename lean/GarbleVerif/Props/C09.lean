import GarbleVerif.Model.Literal
namespace GV
end GV
