import GarbleVerif.Proofs.Encoding
import GarbleVerif.Model.Literal
import GarbleVerif.Proofs.LiteralSafe
import GarbleVerif.Proofs.DecoderRoundtrip
/-!
# C09 — literal encoding round-trips and matches the documented bit layout

`Val.encode` / `Ty.decode` / `Val.hasType` are the *specification* of the layout (big-endian
two's complement integers; array elements, tuple fields and struct fields concatenated; enums
as a tag followed by the zero-padded payload). For **every** type (any nesting) and every
well-typed value the theorems below hold; `C09_accept_safe` ties the transliteration of `literal.rs`
(`Lit.isOfType`, `Lit.asBits`) to this specification, `C09_decoder_roundtrip` the transliteration of
`from_unwrapped_bits` (`Ty.fromBits`).
-/
namespace GV

/-- encoding yields exactly `size(T)` bits -/
theorem C09_size (v : Val) (t : Ty) (h : v.hasType t = true) : (v.encode t).length = t.size :=
  Val.encode_length v t h

/-- decoding those bits yields the value -/
theorem C09_roundtrip (v : Val) (t : Ty) (h : v.hasType t = true) : t.decode (v.encode t) = some v :=
  Val.decode_encode v t h

/-- the layout, clause by clause (these hold by definition; stated so that a change of the
specification shows up here) -/
theorem C09_layout_int (i : Int) (k : IntTy) : (Val.int i).encode (.int k) = intToBits i k.bits := rfl
theorem C09_layout_tuple (v : Val) (r : ValList) (t : Ty) (ts : TyList) :
    (Val.tuple (.cons v r)).encode (.tuple (.cons t ts)) = v.encode t ++ (Val.tuple r).encode (.tuple ts) := rfl
theorem C09_layout_array (v : Val) (r : ValList) (t : Ty) (n m : Nat) :
    (Val.array (.cons v r)).encode (.array t n) = v.encode t ++ (Val.array r).encode (.array t m) := rfl
theorem C09_layout_struct (f : String) (v : Val) (r : FieldVals) (t : Ty) (ts : Fields) (s : String) :
    (Val.struct s (.cons f v r)).encode (.struct s (.cons f t ts)) =
      v.encode t ++ (Val.struct s r).encode (.struct s ts) := rfl

/-- integers are big-endian two's complement: the numeric value of the bits is the value modulo `2^w` -/
theorem C09_int_bits (i : Int) (w : Nat) : (bitsToNat (intToBits i w) : Int) = i % (2 : Int) ^ w := by
  simp only [intToBits, bitsToNat_natToBits]
  have hpos : (0 : Int) ≤ i % (2 : Int) ^ w := Int.emod_nonneg _ (Int.ne_of_gt (Int.pow_pos (by decide)))
  have hlt : i % (2 : Int) ^ w < (2 : Int) ^ w := Int.emod_lt_of_pos _ (Int.pow_pos (by decide))
  have e : ((i % (2 : Int) ^ w).toNat : Int) = i % (2 : Int) ^ w := Int.toNat_of_nonneg hpos
  have hlt' : (i % (2 : Int) ^ w).toNat < 2 ^ w := by
    have : ((i % (2 : Int) ^ w).toNat : Int) < ((2 ^ w : Nat) : Int) := by rw [e]; push_cast; exact hlt
    exact_mod_cast this
  rw [Nat.mod_eq_of_lt hlt', e]

/-! ### the transliterated `literal.rs` against this specification -/

/-- **a literal the API accepts is safe**: if `is_of_type` accepts a literal for a type (any nesting; `ArrayRepeat`,
`Range`, struct fields in any order, unit and tuple variants), the literal denotes a well-typed value of that
type and `as_bits` emits exactly that value's encoding. `DefsOK`: the struct / enum definitions used for the
encoding are those of the type, struct fields have distinct names, unit variants have no fields. -/
theorem C09_accept_safe (d : Defs) (l : Lit) (t : Ty) (hd : t.DefsOK d) (h : l.isOfType t = true) :
    ∃ v, l.denote t = some v ∧ v.hasType t = true ∧ l.asBits d = v.encode t :=
  Lit.accept d l t hd h

/-- **the decoder undoes the encoding**: `Literal::from_unwrapped_bits` (`Ty.fromBits`) accepts the encoding of every
well-typed value and returns a literal that denotes exactly that value — for every type whose struct field names are
distinct and whose unit variants have no fields (`DefsOK`) -/
theorem C09_decoder_roundtrip (d : Defs) (v : Val) (t : Ty) (hd : t.DefsOK d) (h : v.hasType t = true) :
    ∃ l, t.fromBits (v.encode t) = some l ∧ l.denote t = some v :=
  fromBits_encode d v t hd h

/-- … and therefore to exactly `size(T)` bits that decode to the value it denotes -/
theorem C09_accept_size (d : Defs) (l : Lit) (t : Ty) (hd : t.DefsOK d) (h : l.isOfType t = true) :
    (l.asBits d).length = t.size ∧ ∃ v, l.denote t = some v ∧ t.decode (l.asBits d) = some v := by
  obtain ⟨v, h1, h2, h3⟩ := Lit.accept d l t hd h
  exact ⟨by rw [h3]; exact Val.encode_length v t h2, v, h1, by rw [h3]; exact Val.decode_encode v t h2⟩

/-! ### non-vacuity -/

def demoTy : Ty :=
  .tuple (.cons (.int .i8) (.cons (.enum "E" (.cons "A" true .nil (.cons "B" false (.cons (.int .u16) .nil) .nil))) .nil))
def demoVal : Val := .tuple (.cons (.int (-3)) (.cons (.enum "E" "B" false (.cons (.int 515) .nil)) .nil))

example : demoVal.hasType demoTy = true := by decide +kernel
example : demoVal.encode demoTy =
    [true, true, true, true, true, true, false, true,  true,
     false, false, false, false, false, false, true, false, false, false, false, false, false, false, true, true] := by
  decide +kernel

/-- a struct literal with its fields in another order than the definition, accepted and encoded in definition order -/
def demoDefs : Defs := { structs := [("S", .cons "a" (.int .u8) (.cons "b" .bool .nil))], enums := [] }
def demoStructTy : Ty := .struct "S" (.cons "a" (.int .u8) (.cons "b" .bool .nil))
def demoStructLit : Lit := .struct "S" (.cons "b" .true (.cons "a" (.numU 5 .u8) .nil))

example : demoStructLit.isOfType demoStructTy = true := by decide +kernel
example : demoStructTy.DefsOK demoDefs := by
  simp [demoStructTy, demoDefs, Ty.DefsOK, Fields.DefsOK, Defs.struct?, Fields.names]
example : demoStructLit.asBits demoDefs = [false, false, false, false, false, true, false, true, true] := by
  simp [demoStructLit, demoDefs, Lit.asBits, Defs.struct?, LitFields.asBitsInOrder, LitFields.findBits, natToBits,
    IntTy.bits]

end GV
