import GarbleVerif.Proofs.Encoding
import GarbleVerif.Model.Literal
/-!
# C09 — literal encoding round-trips and matches the documented bit layout

`Val.encode` / `Ty.decode` / `Val.hasType` are the *specification* of the layout (big-endian
two's complement integers; array elements, tuple fields and struct fields concatenated; enums
as a tag followed by the zero-padded payload). For **every** type (any nesting) and every
well-typed value:
-/
namespace GV

/-- encoding yields exactly `size(T)` bits -/
theorem C09_size (v : Val) (t : Ty) (h : v.hasType t = true) : (v.encode t).length = t.size :=
  Val.encode_length v t h

/-- decoding those bits yields the value -/
theorem C09_roundtrip (v : Val) (t : Ty) (h : v.hasType t = true) : t.decode (v.encode t) = some v :=
  Val.decode_encode v t h

/-- the layout, clause by clause (these hold by definition; stated so that a change of the
specification shows up here) -/
theorem C09_layout_int (i : Int) (k : IntTy) : (Val.int i).encode (.int k) = intToBits i k.bits := rfl
theorem C09_layout_tuple (v : Val) (r : ValList) (t : Ty) (ts : TyList) :
    (Val.tuple (.cons v r)).encode (.tuple (.cons t ts)) = v.encode t ++ (Val.tuple r).encode (.tuple ts) := rfl
theorem C09_layout_array (v : Val) (r : ValList) (t : Ty) (n m : Nat) :
    (Val.array (.cons v r)).encode (.array t n) = v.encode t ++ (Val.array r).encode (.array t m) := rfl
theorem C09_layout_struct (f : String) (v : Val) (r : FieldVals) (t : Ty) (ts : Fields) (s : String) :
    (Val.struct s (.cons f v r)).encode (.struct s (.cons f t ts)) =
      v.encode t ++ (Val.struct s r).encode (.struct s ts) := rfl

/-- integers are big-endian two's complement: the numeric value of the bits is the value modulo `2^w` -/
theorem C09_int_bits (i : Int) (w : Nat) : (bitsToNat (intToBits i w) : Int) = i % (2 : Int) ^ w := by
  simp only [intToBits, bitsToNat_natToBits]
  have hpos : (0 : Int) ≤ i % (2 : Int) ^ w := Int.emod_nonneg _ (Int.ne_of_gt (Int.pow_pos (by decide)))
  have hlt : i % (2 : Int) ^ w < (2 : Int) ^ w := Int.emod_lt_of_pos _ (Int.pow_pos (by decide))
  have e : ((i % (2 : Int) ^ w).toNat : Int) = i % (2 : Int) ^ w := Int.toNat_of_nonneg hpos
  have hlt' : (i % (2 : Int) ^ w).toNat < 2 ^ w := by
    have : ((i % (2 : Int) ^ w).toNat : Int) < ((2 ^ w : Nat) : Int) := by rw [e]; push_cast; exact hlt
    exact_mod_cast this
  rw [Nat.mod_eq_of_lt hlt', e]

/-! ### statements about the transliterated `literal.rs` not yet proved (checked by correspondence) -/

/-- a literal the API accepts denotes a well-typed value and encodes to that value's bits -/
def C09_accept_safe_Statement : Prop :=
  ∀ (d : Defs) (l : Lit) (t : Ty), l.isOfType t = true →
    ∃ v, l.denote t = some v ∧ v.hasType t = true ∧ l.asBits d = v.encode t

/-! ### non-vacuity -/

def demoTy : Ty :=
  .tuple (.cons (.int .i8) (.cons (.enum "E" (.cons "A" true .nil (.cons "B" false (.cons (.int .u16) .nil) .nil))) .nil))
def demoVal : Val := .tuple (.cons (.int (-3)) (.cons (.enum "E" "B" false (.cons (.int 515) .nil)) .nil))

example : demoVal.hasType demoTy = true := by decide +kernel
example : demoVal.encode demoTy =
    [true, true, true, true, true, true, false, true,  true,
     false, false, false, false, false, false, true, false, false, false, false, false, false, false, true, true] := by
  decide +kernel

end GV
