import GarbleVerif.Proofs.Reach
import GarbleVerif.Proofs.Requests
import GarbleVerif.Proofs.AndNormal
/-!
# C15 — circuits contain no useless gates

First sentence, first clause ("apart from the two constant gates, every gate of a compiled
circuit contributes to at least one output"): proved for the model of `build` applied to
**any** well-formed builder state, hence for every request sequence.

Second clause ("no AND gate has a constant operand or the same wire twice"): proved likewise
(`C15_and_normal`) — the builder never pushes such a gate (`optimize_and`; the AND-factoring rule of
`push_xor` pairs an operand of an existing AND with a fresh wire), and the renumbering of `build` is
injective on referenced wires and sends only the constants to the constant gates.

Third clause ("with gate de-duplication on no two AND gates have the same pair of operands"):
`C15_and_unique` — every AND gate the builder pushes is entered into the cache under its operands, `push_and`
consults the cache in both orders before it pushes, and the AND pushed by the factoring rule has a fresh wire as
operand.

Not proved: the "consequently" sentence about data-movement programs (it needs the language-level model of the
compiler for aggregates); it is explored by the check on generated copy / re-pack programs.
-/
namespace GV
open Builder Req

/-- every gate of the built circuit, except the two constant gates, reaches an output -/
theorem C15_build_reachable (b : Builder) (ig pw outs : List Nat) (hb : WF b)
    (hshift : b.shift = ig.sum + 2) (hpos : 0 < ig.sum)
    (hroots : ∀ r, r ∈ outs ++ pw → r < b.counter) :
    ∀ i, 2 ≤ i → i < (b.build ig pw outs).gates.length →
      FReach (b.build ig pw outs) ((b.build ig pw outs).totalInputs + i) :=
  build_reach b ig pw outs ⟨hb, hshift, hpos, hroots⟩

/-- … in particular for the circuit compiled from any request sequence -/
theorem C15_requests_reachable (ig : List Nat) (cacheOn : Bool) (reqs : List Req) (outs : List Nat)
    (hpos : 0 < ig.sum) :
    ∀ i, 2 ≤ i → i < (Req.compile ig cacheOn reqs outs).gates.length →
      FReach (Req.compile ig cacheOn reqs outs) ((Req.compile ig cacheOn reqs outs).totalInputs + i) := by
  have hinv := run_inv ig cacheOn reqs
  simp only [Req.compile]
  generalize run ig cacheOn reqs = st at *
  obtain ⟨b, rs⟩ := st
  simp only
  apply build_reach
  refine ⟨hinv.wf, hinv.shift, hpos, ?_⟩
  intro r hr
  simp only [List.mem_append] at hr
  rcases hr with hr | hr
  · simp only [List.mem_filterMap] at hr
    obtain ⟨o, _, ho⟩ := hr
    exact hinv.lt r (List.mem_of_getElem? ho)
  · have hwf : WF b := hinv.wf
    have := c2 hwf
    have h1 : ∀ r, r ∈ okPanicWires → r ≤ 1 := by decide +kernel
    have := h1 r hr
    omega

/-- no AND gate of a circuit has a constant operand or the same wire twice (wires `n`, `n+1`
are the constant gates) -/
def AndNormal (c : Circuit) : Prop :=
  ∀ x y, Gate.and x y ∈ c.gates → x ≠ y ∧ x ≠ c.totalInputs ∧ x ≠ c.totalInputs + 1 ∧
    y ≠ c.totalInputs ∧ y ≠ c.totalInputs + 1

/-- no two AND gates with the same unordered operand pair -/
def AndUnique (c : Circuit) : Prop :=
  ∀ (i j : Nat) x y x' y', c.gates[i]? = some (Gate.and x y) → c.gates[j]? = some (Gate.and x' y') →
    ((x = x' ∧ y = y') ∨ (x = y' ∧ y = x')) → i = j

/-- **no AND gate with a constant operand or the same wire twice**, for the circuit compiled from any request
sequence, with gate de-duplication on or off -/
theorem C15_and_normal (ig : List Nat) (cacheOn : Bool) (reqs : List Req) (outs : List Nat) :
    AndNormal (Req.compile ig cacheOn reqs outs) := by
  have hinv := run_inv ig cacheOn reqs
  intro x y hmem
  simp only [Req.compile] at hmem ⊢
  generalize run ig cacheOn reqs = st at *
  obtain ⟨b, rs⟩ := st
  simp only at hmem ⊢
  have := build_andNormal b ig okPanicWires (outs.filterMap fun o => rs[o]?) hinv.wf hinv.shift x y hmem
  simpa [Builder.build, Circuit.totalInputs] using this

/-- **with gate de-duplication on, no two AND gates over the same pair of operands** (in either order), for the
circuit compiled from any request sequence -/
theorem C15_and_unique (ig : List Nat) (reqs : List Req) (outs : List Nat) :
    AndUnique (Req.compile ig true reqs outs) := by
  have hinv := run_inv ig true reqs
  have hco := run_cacheOn ig true reqs
  intro i j x y x' y' hi hj hsame
  simp only [Req.compile] at hi hj
  generalize run ig true reqs = st at *
  obtain ⟨b, rs⟩ := st
  simp only at hi hj hco
  exact build_andUnique b ig okPanicWires (outs.filterMap fun o => rs[o]?) hinv.wf hco i j x y x' y' hi hj hsame

/-! non-vacuity: a builder state with one live and one dead gate; `build` keeps three gates
(two constants + the live one), so the quantifier of `C15_build_reachable` is inhabited -/
example :
    ((⟨false, 4, [.xor 2 3, .and 2 3], {}, {}⟩ : Builder).build [1, 1] [] [4]).gates =
      [.xor 0 0, .not 2, .xor 0 1] := by
  decide +kernel

end GV
