import GarbleVerif.Proofs.BitStatic
import GarbleVerif.Proofs.BitMain
/-!
# C17 / C05 — a program the compiler model types cannot go wrong

`Bit.fnTyped prog d` runs the model of the compiler (`Model/BitSem.lean`) on the body of `d` with all-zero wires for the
parameters and asks for wires of the declared return type. `Proofs/BitStatic.lean` shows that this verdict does not depend
on the wires (`static_program`), `Proofs/BitMain.lean` that a body inside the model refines the source semantics. Together:

* `C17_typed_never_stuck`: a function that `fnTyped` accepts, called on ANY argument values of its parameter types, never
  gets stuck in the source semantics (none of the rule violations of `Props/C17.lean` can happen at run time), with any
  fuel;
* `C17_typed_result_type`: and if it returns, the value has the declared return type.

This is what the second stream of the C17 check rests on: every program `check.rs` accepts must be typed by `Bit.progTyped`
(applied to the tree `check.rs` itself built). The converse (whatever `fnTyped` rejects is ill-typed) is not a theorem:
the model excludes for-join loops and multiplication by a negative literal, which the check filters out syntactically.
-/
namespace GV
namespace Bit
open Src

/-- the argument values have the parameter types -/
def argsTyped : List (String × Ty) → List Val → Bool
  | [], [] => true
  | (_, t) :: ps, v :: vs => v.hasType t && argsTyped ps vs
  | _, _ => false

/-- their encodings, one party per parameter -/
def encodeArgs : List (String × Ty) → List Val → List (VTy × List Bool)
  | (_, t) :: ps, v :: vs => (VTy.ofTy t, v.encode t) :: encodeArgs ps vs
  | _, _ => []

theorem encodeArgs_spec : ∀ (ps : List (String × Ty)) (vs : List Val), argsTyped ps vs = true →
    ArgsRel vs (encodeArgs ps vs) ∧ (encodeArgs ps vs).map (·.1) = ps.map (fun xt => VTy.ofTy xt.2) ∧ ArgsWF (encodeArgs ps vs)
  | [], [], _ => ⟨trivial, rfl, by intro a ha; simp [encodeArgs] at ha⟩
  | [], _ :: _, h => by simp [argsTyped] at h
  | _ :: _, [], h => by simp [argsTyped] at h
  | (x, t) :: ps, v :: vs, h => by
    simp only [argsTyped, Bool.and_eq_true] at h
    obtain ⟨ih1, ih2, ih3⟩ := encodeArgs_spec ps vs h.2
    refine ⟨⟨VRel.of_hasType h.1, ih1⟩, by simp [encodeArgs, ih2], ?_⟩
    intro a ha
    simp only [encodeArgs, List.mem_cons] at ha
    rcases ha with rfl | ha
    · simp [VTy.toTy_ofTy, Val.encode_length v t h.1]
    · exact ih3 a ha

/-- **a typed function never gets stuck**, whatever well-typed arguments it is called on -/
theorem C17_typed_never_stuck (prog : Prog) (f : String) (d : FnDef) (hfn : prog.fn? f = some d)
    (hty : fnTyped prog d = true) (vs : List Val) (hvs : argsTyped d.params vs = true) (fuel : Nat) :
    ∀ why, runFn fuel prog f vs ≠ .error (.stuck why) := by
  obtain ⟨hrel, htys, hwf⟩ := encodeArgs_spec d.params vs hvs
  obtain ⟨bs, p, hcall⟩ := typed_call prog f d hfn hty _ htys hwf
  have := callAt_sound prog (prog.fns.length + 2) fuel f vs _ _ _ _ hrel hcall
  intro why hw
  rw [hw] at this
  exact this

/-- and what it returns has the declared return type -/
theorem C17_typed_result_type (prog : Prog) (f : String) (d : FnDef) (hfn : prog.fn? f = some d)
    (hty : fnTyped prog d = true) (vs : List Val) (hvs : argsTyped d.params vs = true) (fuel : Nat) (r : Val)
    (hr : runFn fuel prog f vs = .ok r) : r.hasType d.ret = true := by
  obtain ⟨hrel, htys, hwf⟩ := encodeArgs_spec d.params vs hvs
  obtain ⟨bs, p, hcall⟩ := typed_call prog f d hfn hty _ htys hwf
  have := callAt_sound prog (prog.fns.length + 2) fuel f vs _ _ _ _ hrel hcall
  rw [hr] at this
  have h2 := (VRel.hasType_encode this.2).1
  rwa [VTy.toTy_ofTy] at h2

/-- the verdict the check computes (`progTyped`: every function of the program is typed) gives both for every function
that can be called by its name -/
theorem C17_progTyped_sound (prog : Prog) (h : progTyped prog = true) (f : String) (d : FnDef) (hfn : prog.fn? f = some d)
    (vs : List Val) (hvs : argsTyped d.params vs = true) (fuel : Nat) :
    (∀ why, runFn fuel prog f vs ≠ .error (.stuck why)) ∧ (∀ r, runFn fuel prog f vs = .ok r → r.hasType d.ret = true) := by
  have hmem : d ∈ prog.fns := List.mem_of_find?_eq_some hfn
  have hty : fnTyped prog d = true := by
    unfold progTyped at h
    exact List.all_eq_true.mp h d hmem
  exact ⟨C17_typed_never_stuck prog f d hfn hty vs hvs fuel, fun r hr => C17_typed_result_type prog f d hfn hty vs hvs fuel r hr⟩

/-! ### non-vacuity: `fn inc(a: u8) -> u8 { a + 1u8 }` is typed, `fn bad(a: u8) -> u8 { a + true }` is not -/

def C17_inc : FnDef := ⟨"inc", [("a", .int .u8)], .int .u8, .cons (.expr (.bin .add (.int .u8) (.var "a") (.int 1 .u8))) .nil⟩
def C17_bad : FnDef := ⟨"bad", [("a", .int .u8)], .int .u8, .cons (.expr (.bin .add (.int .u8) (.var "a") (.bool true))) .nil⟩

example : fnTyped ⟨[C17_inc], [], [], []⟩ C17_inc = true := by decide
example : fnTyped ⟨[C17_bad], [], [], []⟩ C17_bad = false := by decide
example : argsTyped C17_inc.params [.int 255] = true := by decide

end Bit
end GV
