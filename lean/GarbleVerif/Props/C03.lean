import GarbleVerif.Proofs.ArithMul
import GarbleVerif.Proofs.ArithDiv
import GarbleVerif.Proofs.ArithSMul
import GarbleVerif.Proofs.ArithShift
import GarbleVerif.Proofs.ArithConstMul
/-!
# C03 — integer operators and casts are bit-exact at every width

`Arith` says what the wiring of every operator computes on big-endian bit lists (tied to the
compiled circuits by the behavioural correspondence of `./check C03`). The theorems below
compare it with exact integer arithmetic (`toNat`, `toInt`) — **for every width `n ≥ 1`**, not
only 8/16/32/64, and all operand values.

Proved: `+` (unsigned, signed), `-` (unsigned, signed), unary `-`, `*` (unsigned: array multiplier;
signed: magnitudes multiplied, sign restored, overflow exactly when not representable), `/` and `%`
(unsigned: the restoring divider; signed: magnitudes divided, signs restored, `MIN / -1` excluded),
`<`/`>` (unsigned, signed), `==`/`!=`, `&`/`|`/`^`/`!`, every cast,
`<<` / `>>` (8, 16, 32, 64 bits: overflow ⇔ amount ≥ width, otherwise multiplication / floor division by
`2^amount`).
Multiplication by a literal (`constMul`: the operand is added `n` times, each addition checked; for a negative
literal the sum is negated): exact for unsigned operands and for positive literals; for a negative literal `-n` the
flag is set exactly when `n·y` is not strictly inside `(-2^w, 2^w)` — so the product `MIN` (`n·y = 2^w`) is reported as
an overflow although it is representable. That is the recorded finding of C03; `C03_constMul_neg_finding` states it
exactly: the flag is spurious *only* there.
-/
namespace GV
namespace Arith

/-- unsigned `+`: exact sum unless the flag is set; flag ⇔ the sum needs more than `n` bits -/
theorem C03_add_unsigned (x y : List Bool) (h : x.length = y.length) :
    ((add x y).2.1 = true ↔ 2 ^ x.length ≤ toNat x + toNat y) ∧
    ((add x y).2.1 = false → toNat (add x y).1 = toNat x + toNat y) ∧
    (add x y).1.length = x.length := by
  refine ⟨add_overflow_unsigned x y h, ?_, add_length x y h⟩
  intro hf
  have := add_spec x y h
  simp [hf] at this
  exact this

/-- signed `+` on `n + 1` bits -/
theorem C03_add_signed (a b : Bool) (x y : List Bool) (h : x.length = y.length) :
    let r := add (a :: x) (b :: y)
    ((r.2.1 ^^ r.2.2) = false → toInt r.1 = toInt (a :: x) + toInt (b :: y)) ∧
    ((r.2.1 ^^ r.2.2) = true ↔
      (toInt (a :: x) + toInt (b :: y) < -(2 : Int) ^ x.length ∨
        (2 : Int) ^ x.length ≤ toInt (a :: x) + toInt (b :: y))) :=
  add_signed a b x y h

/-- unsigned `-` -/
theorem C03_sub_unsigned (x y : List Bool) (h : x.length = y.length) :
    ((sub x y false).2 = true ↔ toNat x < toNat y) ∧
    ((sub x y false).2 = false → toNat (sub x y false).1 = toNat x - toNat y) ∧
    (sub x y false).1.length = x.length :=
  sub_unsigned x y h

/-- signed `-` on `n + 1` bits -/
theorem C03_sub_signed (a b : Bool) (x y : List Bool) (h : x.length = y.length) :
    let r := sub (a :: x) (b :: y) true
    (r.2 = true ↔ (toInt (a :: x) - toInt (b :: y) < -(2 : Int) ^ x.length ∨
      (2 : Int) ^ x.length ≤ toInt (a :: x) - toInt (b :: y))) ∧
    (r.2 = false → toInt r.1 = toInt (a :: x) - toInt (b :: y)) ∧
    r.1.length = x.length + 1 :=
  sub_signed a b x y h

/-- unary `-`: panics exactly on the minimum value, otherwise the exact negation -/
theorem C03_neg (a : Bool) (rest : List Bool) :
    let r := negChecked (a :: rest)
    (r.2 = true ↔ toInt (a :: rest) = -(2 : Int) ^ rest.length) ∧
    (r.2 = false → toInt r.1 = - toInt (a :: rest)) :=
  negChecked_spec a rest

/-- unsigned `*` -/
theorem C03_mul_unsigned (x y : List Bool) (h : x.length = y.length) (hn : 0 < x.length) :
    let r := mul x y false
    r.1.length = x.length ∧
    (r.2 = false → toNat r.1 = toNat x * toNat y) ∧
    (r.2 = true ↔ 2 ^ x.length ≤ toNat x * toNat y) :=
  mul_unsigned x y h hn

/-- `<` and `>` on unsigned operands -/
theorem C03_cmp_unsigned (x y : List Bool) (h : x.length = y.length) :
    comparator x false y false = (decide (toNat x < toNat y), decide (toNat y < toNat x)) :=
  comparator_unsigned x y h

/-- `<` and `>` on signed operands -/
theorem C03_cmp_signed (a b : Bool) (x y : List Bool) (h : x.length = y.length) :
    comparator (a :: x) true (b :: y) true =
      (decide (toInt (a :: x) < toInt (b :: y)), decide (toInt (b :: y) < toInt (a :: x))) :=
  comparator_signed a b x y h

/-- `==` (and `!=` as its negation) -/
theorem C03_eq (x y : List Bool) (h : x.length = y.length) : eqBits x y = true ↔ x = y :=
  eqBits_iff x y h

/-- every cast: target width, congruent to the source value modulo `2^k`, never a panic -/
theorem C03_cast (a : Bool) (rest : List Bool) (s : Bool) (k : Nat) :
    (cast (a :: rest) s k).length = k ∧
    ∃ q : Int, valOf s (a :: rest) = (toNat (cast (a :: rest) s k) : Int) + q * (2 : Int) ^ k :=
  ⟨cast_length _ s k (by simp), cast_spec a rest s k⟩

/-- unsigned `/` and `%`, all widths: for a non-zero divisor the restoring divider returns the Euclidean
quotient and remainder (a zero divisor is reported as `DivByZero` by `binop`) -/
theorem C03_udiv (x y : List Bool) (h : x.length = y.length) (hy : 0 < toNat y) :
    toNat x = toNat (udiv x y).1 * toNat y + toNat (udiv x y).2 ∧ toNat (udiv x y).2 < toNat y ∧
    toNat (udiv x y).1 = toNat x / toNat y ∧ toNat (udiv x y).2 = toNat x % toNat y :=
  ⟨(udiv_spec x y h hy).1, (udiv_spec x y h hy).2.1, udiv_div_mod x y h hy⟩

/-- signed `/` and `%` on `n + 1` bits: quotient rounded towards zero, remainder with the sign of the
dividend, for every non-zero divisor except `MIN / -1` (which `binop` reports as `Overflow`) -/
theorem C03_sdiv (a b : Bool) (x y : List Bool) (h : x.length = y.length) (hy : toInt (b :: y) ≠ 0)
    (hmin : ¬ (toInt (a :: x) = -(2 : Int) ^ x.length ∧ toInt (b :: y) = -1)) :
    toInt (sdiv (a :: x) (b :: y)).1 = Int.tdiv (toInt (a :: x)) (toInt (b :: y)) ∧
    toInt (sdiv (a :: x) (b :: y)).2 = Int.tmod (toInt (a :: x)) (toInt (b :: y)) :=
  sdiv_spec a b x y h hy hmin

/-- signed `*` on `n + 1` bits: exact product unless the flag is set; flag ⇔ the exact product is outside
`[-2^n, 2^n)` (so `MIN * 1`, `-1 * MIN`… are handled exactly: `-2^n` is representable, `2^n` is not) -/
theorem C03_mul_signed (a b : Bool) (x y : List Bool) (h : x.length = y.length) :
    let r := mul (a :: x) (b :: y) true
    (r.2 = false → toInt r.1 = toInt (a :: x) * toInt (b :: y)) ∧
    (r.2 = true ↔ (toInt (a :: x) * toInt (b :: y) < -(2 : Int) ^ x.length ∨
      (2 : Int) ^ x.length ≤ toInt (a :: x) * toInt (b :: y))) :=
  mul_signed a b x y h

/-- `<<` and `>>` at the four integer widths: the overflow flag is set exactly when the amount is at least the
width; otherwise `<<` multiplies by `2^amount` modulo `2^n` and `>>` divides by `2^amount` rounding down
(logical shift on unsigned, arithmetic shift on signed operands) -/
theorem C03_shift (left sx : Bool) (x amt : List Bool) (hx : x.length ∈ [8, 16, 32, 64]) (ha : amt.length = 8) :
    ((shift left sx x amt).2 = true ↔ x.length ≤ toNat amt) ∧
    (toNat amt < x.length →
      (left = true → toNat (shift left sx x amt).1 = (toNat x * 2 ^ toNat amt) % 2 ^ x.length) ∧
      (left = false → valOf sx (shift left sx x amt).1 = valOf sx x / (2 : Int) ^ toNat amt)) :=
  shift_spec left sx x amt hx ha

/-- `x * n` for an unsigned `x` and a literal `n ≥ 1` compiled as repeated addition -/
theorem C03_constMul_unsigned (y : List Bool) (n : Nat) (hn : 1 ≤ n) :
    let r := constMul y false n false
    r.1.length = y.length ∧ (r.2 = false → toNat r.1 = n * toNat y) ∧ (r.2 = true ↔ 2 ^ y.length ≤ n * toNat y) :=
  constMul_unsigned y n hn

/-- `x * n` for a signed `x` and a positive literal -/
theorem C03_constMul_signed (b : Bool) (yr : List Bool) (n : Nat) (hn : 1 ≤ n) :
    let r := constMul (b :: yr) true n false
    r.1.length = yr.length + 1 ∧
    (r.2 = false → toInt r.1 = (n : Int) * toInt (b :: yr)) ∧
    (r.2 = true ↔ ((n : Int) * toInt (b :: yr) < -(2 : Int) ^ yr.length ∨
      (2 : Int) ^ yr.length ≤ (n : Int) * toInt (b :: yr))) :=
  constMul_signed_pos b yr n hn

/-- `x * -n`: exact unless flagged; flagged exactly when `n·x` is not strictly inside `(-2^w, 2^w)` -/
theorem C03_constMul_neg (b : Bool) (yr : List Bool) (n : Nat) (hn : 1 ≤ n) :
    let r := constMul (b :: yr) true n true
    (r.2 = false → toInt r.1 = -((n : Int) * toInt (b :: yr))) ∧
    (r.2 = true ↔ ((n : Int) * toInt (b :: yr) ≤ -(2 : Int) ^ yr.length ∨
      (2 : Int) ^ yr.length ≤ (n : Int) * toInt (b :: yr))) :=
  constMul_signed_neg b yr n hn

/-- the recorded finding, exactly: the flag is set although the product is representable iff the product is `MIN` -/
theorem C03_constMul_neg_finding (b : Bool) (yr : List Bool) (n : Nat) (hn : 1 ≤ n) :
    let r := constMul (b :: yr) true n true
    let prod := -((n : Int) * toInt (b :: yr))
    (r.2 = true ∧ -(2 : Int) ^ yr.length ≤ prod ∧ prod < (2 : Int) ^ yr.length) ↔ prod = -(2 : Int) ^ yr.length :=
  constMul_neg_spurious b yr n hn

/-! ### non-vacuity / sanity on concrete operands (8 bits) -/

/-- `64i8 * -2`: the product -128 is representable, the compiled code reports an overflow (the finding) -/
example : (constMul [false, true, false, false, false, false, false, false] true 2 true).2 = true := by decide +kernel


example : toInt [true, false, false, false, false, false, false, false] = -128 := by decide
example : (negChecked [true, false, false, false, false, false, false, false]).2 = true := by decide
example : (mul [false, true, false, false, false, false, false, false]
    [false, false, false, false, false, false, true, false] true).2 = true := by decide +kernel   -- 64 * 2 (signed)
/-- `-7 / 2 = -3`, `-7 % 2 = -1` on 4 bits: the hypotheses of `C03_sdiv` are satisfiable -/
example : toInt [true, false, false, true] = -7 ∧ toInt [false, false, true, false] = 2 ∧
    toInt (sdiv [true, false, false, true] [false, false, true, false]).1 = -3 ∧
    toInt (sdiv [true, false, false, true] [false, false, true, false]).2 = -1 := by decide +kernel
example : (binop .div true true true [true, false, false, false, false, false, false, false]
    [true, true, true, true, true, true, true, true]).2 =
    [(false, .divByZero), (true, .overflow)] := by decide +kernel                      -- MIN / -1

end Arith
end GV
