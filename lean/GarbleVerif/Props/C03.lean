import GarbleVerif.Model.Arith
namespace GV
end GV
