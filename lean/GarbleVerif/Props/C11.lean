import GarbleVerif.Proofs.BristolTotal
/-!
# C11 — Bristol export/import; malformed files are rejected

Proved: **importer totality** — for every file (any list of token lines: mutated exports,
random text, inconsistent or huge counts) the model of `bristol_to_garble` returns a circuit or
one of the importer's error values; the `crash` outcome, which marks every index operation
and subtraction of the Rust code, is unreachable.

Not yet proved (checked by the correspondence and the round-trip / well-formedness oracles of
`./check C11`): `C11_roundtrip_Statement` and the well-formedness of the exported text.
-/
namespace GV
open Bristol

/-- importing any file never panics -/
theorem C11_import_total (lines : List Line) :
    ∀ e, importLines lines = .error e → e.isCrash = false :=
  importLines_no_crash lines

/-- export followed by import preserves the non-panic outputs (NOT yet proved) -/
def C11_roundtrip_Statement : Prop :=
  ∀ (c : Circuit), c.validate = .ok () → 161 ≤ c.outputGates.length →
    (∀ o, o ∈ c.outputGates.drop 161 → c.totalInputs ≤ o) →
    ∃ ls c', exportLines c = .ok ls ∧ importLines ls = .ok c' ∧
      ∀ ins, Circuit.shapeOk c.inputGates ins = true → c'.eval? ins = (c.eval? ins).map (List.drop 161)

/-! ### non-vacuity: malformed headers are errors (more outputs than wires; a wire that no gate
line can produce) -/
example : importLines [[.num 1, .num 3], [.num 1, .num 2], [.num 1, .num 5]] = .error .malformedLine := by
  rfl
example : importLines [[.num 0, .num 9], [.num 1, .num 2], [.num 1, .num 1]] = .error .malformedLine := by
  rfl

end GV
