import GarbleVerif.Proofs.BristolTotal
import GarbleVerif.Proofs.BristolRoundtrip
/-!
# C11 — Bristol export/import; malformed files are rejected

Proved, for the token-level models of `format_as_bristol` / `bristol_to_garble` (`Model/Bristol.lean`):

* **importer totality** (`C11_import_total`) — for every file (any list of token lines: mutated
  exports, random text, inconsistent or huge counts) the importer returns a circuit or one of its
  error values; the `crash` outcome, which marks every index operation and subtraction of the Rust
  code, is unreachable.
* **round trip** (`C11_roundtrip`) — every valid circuit whose outputs are not input wires is exported
  without error, the importer accepts the file, and the imported circuit computes on every input of
  the declared shape the original outputs without the panic record, in the same order.
* **well-formed export** (`C11_export_wellformed`) — the counts of the header are the numbers of
  gate lines and wires, the gate lines are the circuit's gates in their original order followed by
  the copies made for repeated outputs (so every operand is assigned by an earlier line), line `j`
  assigns wire `f (inputs + j)` for an injective renumbering `f` that fixes the input wires and
  sends the `k`-th output — the outputs are pairwise distinct after de-aliasing — to the `k`-th of
  the last wires.

The round trip has one hypothesis beyond the property's text: the exported file must stay within the
importer's limit of `MAX_GATES` wires. `validate` bounds the circuit itself, but every repeated output
adds two gates on export; a circuit with more than 2^31 repeated outputs is exported to a file that
the importer refuses (`malformedLine`) — an error, not a wrong circuit. Decimal printing and parsing
of the tokens is outside the model (harness glue, exercised by the correspondence check).
-/
namespace GV
open Bristol

/-- importing any file never panics -/
theorem C11_import_total (lines : List Line) :
    ∀ e, importLines lines = .error e → e.isCrash = false :=
  importLines_no_crash lines

/-- number of wires the exported file declares: the circuit's wires plus two per repeated output -/
def Bristol.exportedWires (c : Circuit) : Nat :=
  c.gates.length + (dealias (c.outputGates.drop 161) [] (c.gates.length + c.totalInputs) []).2.length
    + c.totalInputs

/-- export followed by import preserves the non-panic outputs on every input -/
theorem C11_roundtrip (c : Circuit) (hv : c.validate = .ok ()) (h161 : 161 ≤ c.outputGates.length)
    (hin : ∀ o, o ∈ c.outputGates.drop 161 → c.totalInputs ≤ o)
    (hmax : exportedWires c ≤ MAX_GATES) :
    ∃ ls c', exportLines c = .ok ls ∧ importLines ls = .ok c' ∧
      ∀ ins, Circuit.shapeOk c.inputGates ins = true → c'.eval? ins = (c.eval? ins).map (List.drop 161) :=
  roundtrip c hv h161 hin hmax

/-- the imported circuit is, gate for gate, the exported one -/
theorem C11_import_of_export (c : Circuit) (hv : c.validate = .ok ()) (h161 : 161 ≤ c.outputGates.length)
    (hin : ∀ o, o ∈ c.outputGates.drop 161 → c.totalInputs ≤ o)
    (hmax : exportedWires c ≤ MAX_GATES) :
    ∃ ls, exportLines c = .ok ls ∧
      importLines ls = .ok
        { inputGates := c.inputGates
          gates := c.gates ++ (dealias (c.outputGates.drop 161) [] (c.gates.length + c.totalInputs) []).2
          outputGates := (dealias (c.outputGates.drop 161) [] (c.gates.length + c.totalInputs) []).1 } :=
  export_import c hv h161 hin hmax

/-- the exported text is well-formed Bristol fashion -/
theorem C11_export_wellformed (c : Circuit) (hv : c.validate = .ok ()) (h161 : 161 ≤ c.outputGates.length)
    (hin : ∀ o, o ∈ c.outputGates.drop 161 → c.totalInputs ≤ o) :
    ∃ (f : Nat → Nat) (outs : List Nat) (gates : List Gate),
      WmOK c.totalInputs (gates.length + c.totalInputs) outs f ∧ outs.Nodup ∧
      outs.length = (c.outputGates.drop 161).length ∧
      Circuit.validateGates gates c.totalInputs = .ok () ∧
      exportLines c = .ok ([[.num gates.length, .num (gates.length + c.totalInputs)],
        .num c.inputGates.length :: c.inputGates.map .num, [.num 1, .num outs.length], []] ++
        linesOf f c.totalInputs gates 0) :=
  export_shape c hv h161 hin

/-! ### non-vacuity -/

/-- a circuit with a repeated and a constant output meets the hypotheses of the round trip -/
def C11_example : Circuit :=
  { inputGates := [1, 1], gates := [.xor 0 0, .and 0 1],
    outputGates := List.replicate 161 2 ++ [3, 2, 3] }

example : C11_example.validate = .ok () ∧ 161 ≤ C11_example.outputGates.length ∧
    (∀ o, o ∈ C11_example.outputGates.drop 161 → C11_example.totalInputs ≤ o) ∧
    exportedWires C11_example ≤ MAX_GATES := by
  have hlen : C11_example.outputGates.length = 164 := by
    simp only [C11_example, List.length_append, List.length_replicate, List.length_cons, List.length_nil]
  have hdrop : C11_example.outputGates.drop 161 = [3, 2, 3] := by
    simp only [C11_example]
    exact List.drop_left' (by simp only [List.length_replicate])
  refine ⟨by rfl, by omega, ?_, ?_⟩
  · intro o ho
    rw [hdrop] at ho
    simp only [List.mem_cons, List.not_mem_nil, or_false] at ho
    have : C11_example.totalInputs = 2 := by rfl
    omega
  · unfold exportedWires
    rw [hdrop]
    decide

/-- malformed headers are errors (more outputs than wires; a wire that no gate line can produce) -/
example : importLines [[.num 1, .num 3], [.num 1, .num 2], [.num 1, .num 5]] = .error .malformedLine := by
  rfl
example : importLines [[.num 0, .num 9], [.num 1, .num 2], [.num 1, .num 1]] = .error .malformedLine := by
  rfl

end GV
