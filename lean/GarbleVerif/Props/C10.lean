import GarbleVerif.Proofs.ConvertSound
/-!
# C10 — the register-based circuit is equivalent to the SSA circuit and safe to execute

`Reg.convert` is the transliteration of `RegisterAllocator::convert_circuit`
(`From<&SsaCircuit> for register_circuit::Circuit`). For **every** SSA circuit that passes
`validate` — any gate list, repeated operands, outputs that are inputs or repeated, unused
gates and inputs, any fan-out — and every input of the declared shape:
-/
namespace GV
open Reg Reg.RCircuit

/-- **C10, main statement.** The conversion never panics; the converted circuit loads every
party's inputs in order, reports the same number of ANDs, declares at most `wires_len`
registers, and its *strict* evaluation (which fails on any read of a register that has not
been written, on any register `≥ max_reg_count` and on any missing input) returns exactly
the outputs of the SSA circuit. -/
theorem C10_equiv (c : Circuit) (hv : c.validate = .ok ()) :
    ∃ r, convert c = some r ∧
      r.inputRegs = c.inputGates ∧
      r.insts.take c.totalInputs = inputInsts c.inputGates 0 0 ∧
      r.andOps = c.andGates ∧
      r.maxRegCount ≤ c.wiresLen ∧
      ∀ ins, Circuit.shapeOk c.inputGates ins = true → r.eval? ins = c.eval? ins := by
  obtain ⟨hg, hout⟩ := validate_facts c hv
  have hlate := late_of_valid c hg
  have hinv0 := init_inv0 c
  obtain ⟨stF, hcF, hiF, hnF, haF, hbF⟩ := convertGates_ok (lastUseMap c) c.wiresLen c.gates
    c.totalInputs (initAlloc c) hinv0 (by simp [Circuit.wiresLen]) hg hlate
  have hN : c.totalInputs + c.gates.length = c.wiresLen := rfl
  rw [hN] at hiF
  -- output registers exist (independently of the inputs): use any register file
  have hpin : ∀ o, o ∈ c.outputGates → (lastUseMap c).getD o .never = .pinned :=
    fun o ho => lastUseMap_output c o ho (hout o ho)
  have houtsome := outputs_mapped hiF c.outputGates hout hpin
  obtain ⟨rs, hrs⟩ := houtsome
  have hconv : convert c = some ⟨c.inputGates, stF.insts, stF.next, rs, stF.andOps⟩ := by
    have hcF' : convertGates (lastUseMap c) c.gates c.totalInputs
        { free := [], next := c.totalInputs,
          wireMap := (List.range c.totalInputs).map some ++ List.replicate c.gates.length none,
          insts := inputInsts c.inputGates 0 0, andOps := 0 } = some stF := hcF
    simp only [convert, hcF', hrs]
  refine ⟨_, hconv, rfl, ?_, ?_, ?_, ?_⟩
  · -- inputs first
    obtain ⟨ws', regs', em, hins, _⟩ := convertGates_sim (lastUseMap c) c.wiresLen [] c.gates c.totalInputs
      (initAlloc c) (List.replicate c.totalInputs false) (List.replicate stF.next (some false)) hinv0
      (by simp [Circuit.wiresLen]) hg hlate (by simp) (by
        intro w r h
        rw [regOf_init] at h
        split at h
        · simp at h; subst h
          have : w < stF.next := by have : (initAlloc c).next = c.totalInputs := rfl; omega
          simp [List.getD_eq_getElem?_getD, List.getElem?_replicate, this, *]
        · simp at h) stF hcF (by simp)
    show stF.insts.take c.totalInputs = _
    rw [hins]
    have : (initAlloc c).insts = inputInsts c.inputGates 0 0 := rfl
    rw [this, List.take_append_of_le_length (by rw [inputInsts_length]; exact Nat.le_refl _)]
    rw [List.take_of_length_le (by rw [inputInsts_length]; exact Nat.le_refl _)]
  · show stF.andOps = c.andGates
    rw [haF, isAnd_sum]
    simp only [initAlloc, Circuit.andGates, Nat.zero_add]
    congr 1
  · show stF.next ≤ c.wiresLen
    have : (initAlloc c).next = c.totalInputs := rfl
    simp only [Circuit.wiresLen]; omega
  · intro ins hs
    have hfl := Circuit.flatten_length_of_shapeOk hs
    have hshape : (ins.drop 0).map List.length = c.inputGates := by
      simpa [Circuit.shapeOk] using hs
    have hnext : (initAlloc c).next = c.totalInputs := rfl
    -- phase 1: the Input instructions
    obtain ⟨regs1, h1, hl1, hv1⟩ := inputs_run ins c.inputGates 0 0 (List.replicate stF.next none) hshape
      (by simp; show c.totalInputs ≤ stF.next; omega)
    have hval1 : Val (initAlloc c) ins.flatten regs1 := by
      intro w r h
      rw [regOf_init] at h
      split at h
      · rename_i hw
        simp at h; subst h
        have : 0 ≤ w ∧ w < 0 + c.inputGates.sum := ⟨Nat.zero_le _, by simpa [Circuit.totalInputs] using hw⟩
        rw [hv1 w, if_pos this]
        simp
      · simp at h
    -- phase 2: the gates
    obtain ⟨ws', regs', em, hins, heg, hst, hvF, hrl, hwl⟩ := convertGates_sim (lastUseMap c) c.wiresLen ins
      c.gates c.totalInputs (initAlloc c) ins.flatten regs1 hinv0 (by simp [Circuit.wiresLen]) hg hlate
      hfl hval1 stF hcF (by rw [hl1]; simp)
    rw [hN] at hwl
    -- phase 3: the outputs
    obtain ⟨rs', hrs', hread⟩ := outputs_sim hiF hvF hwl c.outputGates hout hpin
    rw [hrs] at hrs'
    simp only [Option.some.injEq] at hrs'
    subst hrs'
    have hinsts : stF.insts = inputInsts c.inputGates 0 0 ++ em := hins
    simp only [RCircuit.eval?, Circuit.eval?, hs, Bool.not_true, Bool.false_eq_true, if_false, hinsts,
      strictInsts_append, h1, hst, heg, hread]

/-! ### non-vacuity -/

/-- the unit test of the repository (`convert_ssa_to_register`), now as an instance of the model -/
example :
    convert ⟨[1, 2], [.xor 0 1, .and 0 2, .xor 3 4, .and 4 5], [5, 6]⟩ =
      some ⟨[1, 2],
        [⟨0, .input 0 0⟩, ⟨1, .input 1 0⟩, ⟨2, .input 1 1⟩, ⟨1, .xor 0 1⟩, ⟨0, .and 0 2⟩, ⟨1, .xor 1 0⟩,
          ⟨0, .and 0 1⟩], 3, [1, 0], 2⟩ := by
  decide +kernel

example : (⟨[1, 2], [.xor 0 1, .and 0 2, .xor 3 4, .and 4 5], [5, 6]⟩ : Circuit).validate = .ok () := by rfl

end GV
