import GarbleVerif.Proofs.ConvertSound
import GarbleVerif.Proofs.ConvertValid
/-!
# C10 — the register-based circuit is equivalent to the SSA circuit and safe to execute

`Reg.convert` is the transliteration of `RegisterAllocator::convert_circuit`
(`From<&SsaCircuit> for register_circuit::Circuit`). For **every** SSA circuit that passes
`validate` — any gate list, repeated operands, outputs that are inputs or repeated, unused
gates and inputs, any fan-out — and every input of the declared shape:
-/
namespace GV
open Reg Reg.RCircuit

/-- **C10, main statement.** The conversion never panics; the converted circuit loads every
party's inputs in order, reports the same number of ANDs, declares at most `wires_len`
registers, and its *strict* evaluation (which fails on any read of a register that has not
been written, on any register `≥ max_reg_count` and on any missing input) returns exactly
the outputs of the SSA circuit. -/
theorem C10_equiv (c : Circuit) (hv : c.validate = .ok ()) :
    ∃ r, convert c = some r ∧
      r.inputRegs = c.inputGates ∧
      r.insts.take c.totalInputs = inputInsts c.inputGates 0 0 ∧
      r.andOps = c.andGates ∧
      r.maxRegCount ≤ c.wiresLen ∧
      ∀ ins, Circuit.shapeOk c.inputGates ins = true → r.eval? ins = c.eval? ins := by
  obtain ⟨hg, hout⟩ := validate_facts c hv
  have hlate := late_of_valid c hg
  have hinv0 := init_inv0 c
  obtain ⟨stF, hcF, hiF, hnF, haF, hbF⟩ := convertGates_ok (lastUseMap c) c.wiresLen c.gates
    c.totalInputs (initAlloc c) hinv0 (by simp [Circuit.wiresLen]) hg hlate
  have hN : c.totalInputs + c.gates.length = c.wiresLen := rfl
  rw [hN] at hiF
  -- output registers exist (independently of the inputs): use any register file
  have hpin : ∀ o, o ∈ c.outputGates → (lastUseMap c).getD o .never = .pinned :=
    fun o ho => lastUseMap_output c o ho (hout o ho)
  have houtsome := outputs_mapped hiF c.outputGates hout hpin
  obtain ⟨rs, hrs⟩ := houtsome
  have hconv : convert c = some ⟨c.inputGates, stF.insts, stF.next, rs, stF.andOps⟩ := by
    have hcF' : convertGates (lastUseMap c) c.gates c.totalInputs
        { free := [], next := c.totalInputs,
          wireMap := (List.range c.totalInputs).map some ++ List.replicate c.gates.length none,
          insts := inputInsts c.inputGates 0 0, andOps := 0 } = some stF := hcF
    simp only [convert, hcF', hrs]
  refine ⟨_, hconv, rfl, ?_, ?_, ?_, ?_⟩
  · -- inputs first
    obtain ⟨ws', regs', em, hins, _⟩ := convertGates_sim (lastUseMap c) c.wiresLen [] c.gates c.totalInputs
      (initAlloc c) (List.replicate c.totalInputs false) (List.replicate stF.next (some false)) hinv0
      (by simp [Circuit.wiresLen]) hg hlate (by simp) (by
        intro w r h
        rw [regOf_init] at h
        split at h
        · simp at h; subst h
          have : w < stF.next := by have : (initAlloc c).next = c.totalInputs := rfl; omega
          simp [List.getD_eq_getElem?_getD, List.getElem?_replicate, this, *]
        · simp at h) stF hcF (by simp)
    show stF.insts.take c.totalInputs = _
    rw [hins]
    have : (initAlloc c).insts = inputInsts c.inputGates 0 0 := rfl
    rw [this, List.take_append_of_le_length (by rw [inputInsts_length]; exact Nat.le_refl _)]
    rw [List.take_of_length_le (by rw [inputInsts_length]; exact Nat.le_refl _)]
  · show stF.andOps = c.andGates
    rw [haF, isAnd_sum]
    simp only [initAlloc, Circuit.andGates, Nat.zero_add]
    congr 1
  · show stF.next ≤ c.wiresLen
    have : (initAlloc c).next = c.totalInputs := rfl
    simp only [Circuit.wiresLen]; omega
  · intro ins hs
    have hfl := Circuit.flatten_length_of_shapeOk hs
    have hshape : (ins.drop 0).map List.length = c.inputGates := by
      simpa [Circuit.shapeOk] using hs
    have hnext : (initAlloc c).next = c.totalInputs := rfl
    -- phase 1: the Input instructions
    obtain ⟨regs1, h1, hl1, hv1⟩ := inputs_run ins c.inputGates 0 0 (List.replicate stF.next none) hshape
      (by simp; show c.totalInputs ≤ stF.next; omega)
    have hval1 : Val (initAlloc c) ins.flatten regs1 := by
      intro w r h
      rw [regOf_init] at h
      split at h
      · rename_i hw
        simp at h; subst h
        have : 0 ≤ w ∧ w < 0 + c.inputGates.sum := ⟨Nat.zero_le _, by simpa [Circuit.totalInputs] using hw⟩
        rw [hv1 w, if_pos this]
        simp
      · simp at h
    -- phase 2: the gates
    obtain ⟨ws', regs', em, hins, heg, hst, hvF, hrl, hwl⟩ := convertGates_sim (lastUseMap c) c.wiresLen ins
      c.gates c.totalInputs (initAlloc c) ins.flatten regs1 hinv0 (by simp [Circuit.wiresLen]) hg hlate
      hfl hval1 stF hcF (by rw [hl1]; simp)
    rw [hN] at hwl
    -- phase 3: the outputs
    obtain ⟨rs', hrs', hread⟩ := outputs_sim hiF hvF hwl c.outputGates hout hpin
    rw [hrs] at hrs'
    simp only [Option.some.injEq] at hrs'
    subst hrs'
    have hinsts : stF.insts = inputInsts c.inputGates 0 0 ++ em := hins
    simp only [RCircuit.eval?, Circuit.eval?, hs, Bool.not_true, Bool.false_eq_true, if_false, hinsts,
      strictInsts_append, h1, hst, heg, hread]

/-- **the converted circuit passes its own validation** (`register_circuit::Circuit::validate`): some party has an
input bit, there are outputs, every register index is below the declared count, every `Input` instruction sits at
the position of the register it writes and reads an existing input bit, no instruction reads a register that has
not been written, every output register has been written, and the instruction count is within `MAX_GATES` -/
theorem C10_valid (c : Circuit) (hv : c.validate = .ok ()) :
    ∃ r, convert c = some r ∧ r.validate = .ok () := by
  obtain ⟨r, hconv, hir, _, _, _, heq⟩ := C10_equiv c hv
  refine ⟨r, hconv, ?_⟩
  obtain ⟨hg, hone, hout, hsz⟩ := validate_all c hv
  have hpos := totalInputs_pos c hv
  -- the shape of what `convert` returns
  have hlate := late_of_valid c hg
  have hinv0 := init_inv0 c
  have hconv' := hconv
  unfold convert at hconv'
  simp only at hconv'
  split at hconv'
  · simp at hconv'
  · rename_i stF hcF
    split at hconv'
    · simp at hconv'
    · rename_i outs houts
      simp only [Option.some.injEq] at hconv'
      obtain ⟨em, hem, heml, hemn⟩ := convertGates_emits (lastUseMap c) c.wiresLen c.gates c.totalInputs
        (initAlloc c) hinv0 (by simp [Circuit.wiresLen]) hg hlate stF hcF
      have hinsts : r.insts = inputInsts c.inputGates 0 0 ++ em := by rw [← hconv']; exact hem
      have houtl : r.outputRegs.length = c.outputGates.length := by
        rw [← hconv']; exact mapM_length _ _ _ houts
      -- evaluate on the all-false input
      let ins0 : List (List Bool) := c.inputGates.map fun n => List.replicate n false
      have hs0 : Circuit.shapeOk c.inputGates ins0 = true := by
        simp [Circuit.shapeOk, ins0, List.map_map, Function.comp_def]
      have hfl := Circuit.flatten_length_of_shapeOk hs0
      obtain ⟨ws, hws, hwl⟩ := Circuit.evalGates_some c.gates ins0.flatten (by rw [hfl]; exact hg)
      obtain ⟨out, hout', _⟩ := Circuit.mapM_getElem?_some ws c.outputGates (by
        intro o ho
        have := hout o ho
        simp only [Circuit.wiresLen, Circuit.totalInputs] at this ⊢
        rw [hwl, hfl]; exact this)
      have hev : r.eval? ins0 = some out := by
        rw [heq ins0 hs0]
        simp [Circuit.eval?, hs0, hws, hout']
      -- hence the strict run of the instructions succeeds …
      unfold RCircuit.eval? at hev
      rw [hir] at hev
      simp only [hs0, Bool.not_true, Bool.false_eq_true, if_false] at hev
      cases hst : strictInsts ins0 r.insts (List.replicate r.maxRegCount none) with
      | none => simp [hst] at hev
      | some regsF =>
        simp only [hst] at hev
        -- … and so does the instruction loop of `validate`
        obtain ⟨setF, hvi, hrel, hlen⟩ := strict_validate (inputRegs := c.inputGates) (n := r.maxRegCount) hs0
          r.insts 0 (List.replicate r.maxRegCount false) (List.replicate r.maxRegCount none) regsF
          (Rel2.init _) (by simp) (by
            intro j inst hj hni
            rw [hinsts] at hj
            by_cases hjl : j < (inputInsts c.inputGates 0 0).length
            · rw [List.getElem?_append_left hjl] at hj
              have := inputInsts_out c.inputGates 0 0 j inst hj
              omega
            · rw [List.getElem?_append_right (by omega)] at hj
              exact absurd (hemn inst (List.mem_of_getElem? hj)) hni) hst
        obtain ⟨ho1, ho2⟩ := mapM_readReg_facts hrel r.outputRegs out hev
        rw [hlen] at ho1
        have hne : r.outputRegs.isEmpty = false := by
          cases hr : r.outputRegs with
          | nil =>
            rw [hr] at houtl
            have : c.outputGates = [] := List.eq_nil_of_length_eq_zero houtl.symm
            exact absurd this hone
          | cons _ _ => rfl
        have hlenI : r.insts.length ≤ MAX_GATES := by
          rw [hinsts, List.length_append, inputInsts_length, heml]
          simp only [Circuit.wiresLen, Circuit.totalInputs] at hsz ⊢
          omega
        unfold RCircuit.validate
        rw [hir, all_zero_false c.inputGates hpos, hne]
        simp only [Bool.false_eq_true, if_false, ho1]
        rw [if_neg (by omega), hvi]
        exact ho2

/-! ### non-vacuity -/

/-- the unit test of the repository (`convert_ssa_to_register`), now as an instance of the model -/
example :
    convert ⟨[1, 2], [.xor 0 1, .and 0 2, .xor 3 4, .and 4 5], [5, 6]⟩ =
      some ⟨[1, 2],
        [⟨0, .input 0 0⟩, ⟨1, .input 1 0⟩, ⟨2, .input 1 1⟩, ⟨1, .xor 0 1⟩, ⟨0, .and 0 2⟩, ⟨1, .xor 1 0⟩,
          ⟨0, .and 0 1⟩], 3, [1, 0], 2⟩ := by
  decide +kernel

example : (⟨[1, 2], [.xor 0 1, .and 0 2, .xor 3 4, .and 4 5], [5, 6]⟩ : Circuit).validate = .ok () := by rfl

end GV
