import GarbleVerif.Model.MatchSpec
import GarbleVerif.Proofs.MatchComplete
/-!
# C08 — match: the first matching arm decides; exhaustiveness

The specification side of C08, proved for all values, patterns and arm lists:

* `C08_first_arm` / `C08_skip_arm`: `evalArms` runs exactly the first arm whose pattern matches,
  with that pattern's bindings, and nothing of the arms before it;
* `C08_firstMatch_spec`: `firstMatch v pats = some i` iff arm `i` matches and no earlier arm does;
* `C08_literal_exact`, `C08_range_exact`: a literal pattern matches exactly its number, a range
  pattern exactly the numbers from its lower to its upper bound (both inclusive; the exclusive
  source form `a..b` is `a ..= b-1`);
* `C08_uncovered_sound`: when the reference procedure `uncovered` returns a value, no arm matches
  it — so every "accepts a non-exhaustive match" alarm of the check comes with a real
  counterexample.

* `C08_uncovered_complete`: when `uncovered` returns nothing, every well-typed value of the
  scrutinee's type is matched by some arm — the reference procedure decides exhaustiveness
  exactly (Proofs/MatchComplete.lean: every value has a representative that no pattern over the
  same constants can tell apart from it).

The exhaustiveness algorithm of `check.rs` itself is not modelled; its verdicts and its reported
missing cases are compared with this verified reference on every run.
-/
namespace GV
namespace Src

theorem C08_first_arm (fuel : Nat) (prog : Prog) (env binds : Env) (v : Val) (p : Pat) (e : Expr) (rest : Arms)
    (h : matchPat p v = some binds) :
    evalArms (fuel + 1) prog env v (.cons p e rest) =
      (match evalExpr fuel prog (binds ++ env) e with
       | .error err => .error err
       | .ok (r, env1) => .ok (r, restore env env1)) := by
  rw [evalArms]
  simp only [h]
  cases evalExpr fuel prog (binds ++ env) e with
  | error err => rfl
  | ok x => rfl

theorem C08_skip_arm (fuel : Nat) (prog : Prog) (env : Env) (v : Val) (p : Pat) (e : Expr) (rest : Arms)
    (h : matchPat p v = none) :
    evalArms (fuel + 1) prog env v (.cons p e rest) = evalArms fuel prog env v rest := by
  rw [evalArms]
  simp only [h]

theorem C08_firstMatch_spec (v : Val) (pats : List Pat) (i : Nat) :
    firstMatch v pats = some i ↔
      (∃ p, pats[i]? = some p ∧ (matchPat p v).isSome) ∧ ∀ j, j < i → ∀ q, pats[j]? = some q → matchPat q v = none := by
  induction pats generalizing i with
  | nil => simp [firstMatch]
  | cons p rest ih =>
    simp only [firstMatch]
    cases hp : matchPat p v with
    | some b =>
      simp only [Option.some.injEq]
      constructor
      · intro h; subst h
        exact ⟨⟨p, by simp, by simp [hp]⟩, fun j hj => absurd hj (Nat.not_lt_zero j)⟩
      · intro ⟨_, h2⟩
        cases i with
        | zero => rfl
        | succ i =>
          have := h2 0 (Nat.succ_pos i) p (by simp)
          rw [hp] at this
          exact absurd this (by simp)
    | none =>
      simp only [Option.map_eq_some_iff]
      constructor
      · intro ⟨k, hk, hki⟩
        subst hki
        obtain ⟨h1, h2⟩ := (ih k).mp hk
        refine ⟨by simpa using h1, ?_⟩
        intro j hj q hq
        cases j with
        | zero => simp at hq; subst hq; exact hp
        | succ j => exact h2 j (by omega) q (by simpa using hq)
      · intro ⟨h1, h2⟩
        cases i with
        | zero =>
          obtain ⟨q, hq, hm⟩ := h1
          simp at hq; subst hq
          rw [hp] at hm; simp at hm
        | succ i =>
          refine ⟨i, (ih i).mpr ⟨by simpa using h1, ?_⟩, rfl⟩
          intro j hj q hq
          exact h2 (j + 1) (by omega) q (by simpa using hq)

theorem C08_literal_exact (n m : Int) : (matchPat (.int n) (.int m)).isSome ↔ n = m := by
  simp only [matchPat]
  split <;> simp_all

theorem C08_range_exact (lo hi m : Int) : (matchPat (.range lo hi) (.int m)).isSome ↔ lo ≤ m ∧ m ≤ hi := by
  simp only [matchPat]
  split <;> simp_all

theorem firstMatch_none (v : Val) (pats : List Pat) (h : firstMatch v pats = none) :
    ∀ p, p ∈ pats → matchPat p v = none := by
  induction pats with
  | nil => intro p hp; simp at hp
  | cons q rest ih =>
    simp only [firstMatch] at h
    cases hq : matchPat q v with
    | some b => rw [hq] at h; simp at h
    | none =>
      rw [hq] at h
      have hr : firstMatch v rest = none := by simpa using h
      intro p hp
      simp only [List.mem_cons] at hp
      rcases hp with rfl | hp
      · exact hq
      · exact ih hr p hp

/-- the value `uncovered` returns is a counterexample to exhaustiveness: no arm matches it -/
theorem C08_uncovered_sound (ty : Ty) (pats : List Pat) (v : Val) (h : uncovered ty pats = some v) :
    ∀ p, p ∈ pats → matchPat p v = none := by
  unfold uncovered at h
  have := List.find?_some h
  exact firstMatch_none v pats (by simpa using this)

/-- **the reference procedure is exact**: it returns nothing exactly when the arms cover every
value of the scrutinee's type (patterns can compare an integer only with the constants they
mention, so a value and its representative are matched by the same patterns) -/
theorem C08_uncovered_complete (ty : Ty) (pats : List Pat) (h : uncovered ty pats = none) :
    ∀ v, v.hasType ty = true → ∃ p, p ∈ pats ∧ (matchPat p v).isSome = true :=
  uncovered_complete ty pats h

theorem C08_uncovered_exact (ty : Ty) (pats : List Pat) :
    uncovered ty pats = none ↔
      ∀ v, v ∈ tyReps (pats.flatMap patConsts) ty → ∃ p, p ∈ pats ∧ (matchPat p v).isSome = true := by
  constructor
  · intro h v hv
    unfold uncovered at h
    have hnone := List.find?_eq_none.mp h v hv
    have hsome : (firstMatch v pats).isSome = true := by
      cases hf : firstMatch v pats with
      | none => simp [hf] at hnone
      | some i => rfl
    exact firstMatch_some_mem v pats hsome
  · intro h
    unfold uncovered
    apply List.find?_eq_none.mpr
    intro v hv
    obtain ⟨p, hp, hm⟩ := h v hv
    cases hf : firstMatch v pats with
    | some i => simp
    | none =>
      have := firstMatch_none v pats hf p hp
      rw [this] at hm
      simp at hm

/-- non-vacuity: an `i8` match with a hole at 5 -/
example : uncovered (.int .i8) [.range (-128) 4, .range 6 127] = some (.int 5) := by rfl

example : (uncovered (.int .i8) [.range (-128) 4, .range 5 127]).isNone = true := by rfl

end Src
end GV
