import GarbleVerif.Model.SrcSem
/-!
# C17 — ill-typed programs have no meaning

The source semantics give no value to a program that breaks a static rule: evaluation ends in
`Err.stuck`, which is neither a value nor a panic. These theorems state it rule by rule; they are
the reason why accepting such a program would mean compiling something the specification does not
define. (The type checker `check.rs` itself is not modelled: that it rejects every such program is
explored by the mutation run.)
-/
namespace GV
namespace Src

def IsStuck {α : Type} (r : M α) : Prop := ∃ why, r = .error (.stuck why)

/-- an unknown or out-of-scope identifier -/
theorem C17_unbound_identifier (fuel : Nat) (prog : Prog) (env : Env) (x : String) (h : env.get? x = none) :
    IsStuck (evalExpr (fuel + 1) prog env (.var x)) := by
  rw [evalExpr]; simp only [h]; exact ⟨_, rfl⟩

/-- a condition that is not a Boolean -/
theorem C17_condition_not_bool (fuel : Nat) (prog : Prog) (env env1 : Env) (c t f : Expr) (v : Val)
    (hc : evalExpr fuel prog env c = .ok (v, env1)) (hv : ∀ b, v ≠ .bool b) :
    IsStuck (evalExpr (fuel + 1) prog env (.ite c t f)) := by
  rw [evalExpr]
  simp only [hc]
  cases v with
  | bool b => exact absurd rfl (hv b)
  | int i => exact ⟨_, rfl⟩
  | array vs => exact ⟨_, rfl⟩
  | tuple vs => exact ⟨_, rfl⟩
  | struct n fs => exact ⟨_, rfl⟩
  | enum n v u fs => exact ⟨_, rfl⟩

/-- arithmetic on operands that are not both numbers of the operator's type -/
theorem C17_operand_types (k : IntTy) (b : Bool) (n : Int) :
    IsStuck (binop .add (.int k) (.int n) (.bool b)) ∧ IsStuck (binop .add (.int k) (.bool b) (.int n)) ∧
    IsStuck (binop .lt (.int k) (.int n) (.bool b)) ∧ IsStuck (binop .band .bool (.bool b) (.int n)) ∧
    IsStuck (unop .neg .bool (.bool b)) ∧ IsStuck (unop .not (.int k) (.bool b)) := by
  refine ⟨⟨_, rfl⟩, ⟨_, rfl⟩, ⟨_, rfl⟩, ⟨_, rfl⟩, ⟨_, rfl⟩, ⟨_, rfl⟩⟩

/-- a `let` whose pattern does not match the value (a refutable pattern) -/
theorem C17_refutable_let (fuel : Nat) (prog : Prog) (env env1 : Env) (p : Pat) (e : Expr) (v : Val)
    (he : evalExpr fuel prog env e = .ok (v, env1)) (hp : matchPat p v = none) :
    IsStuck (evalStmt (fuel + 1) prog env (.let_ p e)) := by
  rw [evalStmt]; simp only [he, hp]; exact ⟨_, rfl⟩

/-- a loop whose pattern does not match an element -/
theorem C17_refutable_loop_pattern (fuel : Nat) (prog : Prog) (env : Env) (p : Pat) (v : Val) (rest : ValList)
    (body : StmtList) (hp : matchPat p v = none) :
    IsStuck (evalLoop (fuel + 1) prog env p (.cons v rest) body) := by
  rw [evalLoop]; simp only [hp]; exact ⟨_, rfl⟩

/-- a call of a function that does not exist, or with the wrong number of arguments -/
theorem C17_unknown_function (fuel : Nat) (prog : Prog) (env env1 : Env) (f : String) (args : ExprList) (vs : ValList)
    (ha : evalList fuel prog env args = .ok (vs, env1)) (hf : prog.fn? f = none) :
    IsStuck (evalExpr (fuel + 1) prog env (.call f args)) := by
  rw [evalExpr]; simp only [ha, hf]; exact ⟨_, rfl⟩

theorem C17_argument_count (fuel : Nat) (prog : Prog) (env env1 : Env) (f : String) (args : ExprList) (vs : ValList)
    (d : FnDef) (ha : evalList fuel prog env args = .ok (vs, env1)) (hf : prog.fn? f = some d)
    (hn : d.params.length ≠ vs.length) :
    IsStuck (evalExpr (fuel + 1) prog env (.call f args)) := by
  rw [evalExpr]; simp only [ha, hf]
  have : (d.params.length != vs.length) = true := by simpa using hn
  simp only [this, if_true]; exact ⟨_, rfl⟩

/-- assignment to a name that is not bound -/
theorem C17_assign_unbound (fuel : Nat) (prog : Prog) (env env1 : Env) (x : String) (path : Path) (e : Expr)
    (v : Val) (he : evalExpr fuel prog env e = .ok (v, env1)) (hx : env1.get? x = none) :
    IsStuck (evalStmt (fuel + 1) prog env (.assign x path e)) := by
  rw [evalStmt]; simp only [he, hx]; exact ⟨_, rfl⟩

/-- a match without a matching arm (a non-exhaustive match reaching an uncovered value) -/
theorem C17_no_arm (fuel : Nat) (prog : Prog) (env : Env) (v : Val) :
    IsStuck (evalArms (fuel + 1) prog env v .nil) := by
  rw [evalArms]; exact ⟨_, rfl⟩

end Src
end GV
