import GarbleVerif.Model.SrcSem
/-!
# C13 — for-join loops: what the source semantics prescribe

Theorems about `Src.joinPairs`, the list of pairs a `for .. in join_iter(a, b)` loop visits in
the source semantics the compiled circuits are compared with:

* `C13_visits`: the loop visits, in the order of `a`, exactly those elements `x` of `a` for which
  `b` has an element with an equal key, each once, paired with that element of `b`;
* `C13_visits_in_order`, `C13_ascending`: the visited elements are a sub-sequence of `a`: for sorted input the body
  runs in ascending key order;
* `C13_partner_sound`, `C13_partner_complete`: the partner has an equal key and is an element of
  `b`; if no partner is found no element of `b` has that key;
* `C13_partner_unique`: when the keys of `b` are pairwise different (strictly sorted input) the
  partner is the only element of `b` with that key — so the pairs are exactly the equal-key pairs;
* `C13_loop_is_body_per_pair`: the loop statement is the ordinary loop over these pairs, so the
  body's effects and panics happen for these pairs only, in this order.

The bitonic merge network of `compile.rs` and the `join` built-in are not modelled; they are
compared with this specification (and with the property's conditions on `join`'s output) on
generated programs and sorted inputs on every run.
-/
namespace GV
namespace Src

def pairOf (x y : Val) : Val := .tuple (.cons x (.cons y .nil))

theorem C13_visits : ∀ (xs ys : ValList),
    (joinPairs xs ys).toList =
      xs.toList.filterMap (fun x => (findByKey (joinKey x) ys).map (pairOf x))
  | .nil, _ => rfl
  | .cons x r, ys => by
    simp only [joinPairs, ValList.toList, List.filterMap_cons]
    cases h : findByKey (joinKey x) ys with
    | none => simp only [Option.map_none]; exact C13_visits r ys
    | some y =>
      simp only [Option.map_some, ValList.toList, pairOf]
      rw [C13_visits r ys]

/-- **in ascending key order**: the elements of `a` the loop visits are a sub-sequence of `a` — the loop never
reorders or repeats them, so for an array sorted by key the body runs in ascending key order -/
theorem C13_visits_in_order : ∀ (xs ys : ValList),
    ((joinPairs xs ys).toList.map joinKey).Sublist xs.toList
  | .nil, _ => by simp [joinPairs, ValList.toList]
  | .cons x r, ys => by
    simp only [joinPairs]
    cases h : findByKey (joinKey x) ys with
    | none => exact (C13_visits_in_order r ys).cons x
    | some y =>
      simp only [ValList.toList, List.map_cons, joinKey]
      exact (C13_visits_in_order r ys).cons_cons x

/-- so any order the keys of `a` are in (strictly ascending, for sorted input) is the order of the visits -/
theorem C13_ascending (R : Val → Val → Prop) (xs ys : ValList) (h : xs.toList.Pairwise R) :
    ((joinPairs xs ys).toList.map joinKey).Pairwise R :=
  h.sublist (C13_visits_in_order xs ys)

theorem C13_partner_sound : ∀ (k : Val) (ys : ValList) (y : Val), findByKey k ys = some y →
    y ∈ ys.toList ∧ Val.beq (joinKey y) k = true
  | _, .nil, _, h => by simp [findByKey] at h
  | k, .cons v r, y, h => by
    simp only [findByKey] at h
    split at h
    · rename_i hv
      simp only [Option.some.injEq] at h
      subst h
      exact ⟨by simp [ValList.toList], hv⟩
    · have := C13_partner_sound k r y h
      exact ⟨by simp [ValList.toList, this.1], this.2⟩

theorem C13_partner_complete : ∀ (k : Val) (ys : ValList), findByKey k ys = none →
    ∀ y, y ∈ ys.toList → Val.beq (joinKey y) k = false
  | _, .nil, _, y, hy => by simp [ValList.toList] at hy
  | k, .cons v r, h, y, hy => by
    simp only [findByKey] at h
    split at h
    · simp at h
    · rename_i hv
      simp only [ValList.toList, List.mem_cons] at hy
      rcases hy with rfl | hy
      · simpa using hv
      · exact C13_partner_complete k r h y hy

/-- with pairwise different keys in `b` the partner is the only element of `b` with that key -/
theorem C13_partner_unique : ∀ (k : Val) (ys : ValList) (y y' : Val),
    ys.toList.Pairwise (fun a b => ¬ (Val.beq (joinKey a) k = true ∧ Val.beq (joinKey b) k = true)) →
    findByKey k ys = some y → y' ∈ ys.toList → Val.beq (joinKey y') k = true → y' = y
  | _, .nil, _, _, _, h, _, _ => by simp [findByKey] at h
  | k, .cons v r, y, y', hp, h, hy', hk' => by
    simp only [ValList.toList, List.pairwise_cons] at hp
    simp only [findByKey] at h
    simp only [ValList.toList, List.mem_cons] at hy'
    split at h
    · rename_i hv
      simp only [Option.some.injEq] at h
      subst h
      rcases hy' with rfl | hy'
      · rfl
      · exact absurd ⟨hv, hk'⟩ (hp.1 y' hy')
    · rename_i hv
      rcases hy' with rfl | hy'
      · exact absurd hk' hv
      · exact C13_partner_unique k r y y' hp.2 h hy' hk'

/-- the for-join statement is the loop over the joined pairs -/
theorem C13_loop_is_body_per_pair (fuel : Nat) (prog : Prog) (env env1 env2 : Env) (p : Pat) (a b : Expr)
    (body : StmtList) (xs ys : ValList)
    (ha : evalExpr fuel prog env a = .ok (.array xs, env1))
    (hb : evalExpr fuel prog env1 b = .ok (.array ys, env2)) :
    evalStmt (fuel + 1) prog env (.forJoin p a b body) =
      (match evalLoop fuel prog env2 p (joinPairs xs ys) body with
       | .error e => .error e
       | .ok env3 => .ok (unit, env3)) := by
  rw [evalStmt]
  simp only [ha, hb]
  cases evalLoop fuel prog env2 p (joinPairs xs ys) body <;> rfl

/-- non-vacuity: keys 1, 2, 5 joined with keys 2, 5 -/
example : (joinPairs (.cons (.int 1) (.cons (.int 2) (.cons (.int 5) .nil))) (.cons (.int 2) (.cons (.int 5) .nil))).toList
    = [pairOf (.int 2) (.int 2), pairOf (.int 5) (.int 5)] := by rfl

end Src
end GV
