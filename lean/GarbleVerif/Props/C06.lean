import GarbleVerif.ExtractedSites
import GarbleVerif.Model.Builder
/-!
# C06 — compilation is deterministic

The models are Lean functions of (program, constants, options), so a modelled computation cannot
depend on a hash seed; what has to be shown is that the *Rust* code has no behaviour the models
abstract from. Three obligations:

1. `extracted_hashIterSites` (in `ExtractedSites`): the list of places where `/repo/src` iterates
   over a `HashMap`/`HashSet`, regenerated from the source on every run, equals the audited list,
   every entry of which is annotated with the reason why the order cannot reach the circuit.
2. For the one site inside modelled code (the condition cache of the panic record, a `HashSet`)
   the model keeps a list; `C06_cache_order_irrelevant_*` show that the emitted gates and the record
   depend on the *set* only.
3. The check compiles every program repeatedly in one process and in fresh processes (different
   `RandomState` seeds) and compares the circuits (exploration, not proof).
-/
namespace GV
open Builder

theorem contains_perm {l1 l2 : List Nat} (h : l1.Perm l2) (c : Nat) : l1.contains c = l2.contains c := by
  rw [Bool.eq_iff_iff]
  simp [h.mem_iff]

/-- `push_panic_if`: builder state and record wires depend only on the set of cached conditions -/
theorem C06_cache_order_irrelevant_push (b : Builder) (w : List Nat) (l1 l2 : List Nat) (h : l1.Perm l2)
    (cond reason l0 c0 l1' c1 : Nat) :
    (pushPanicIf b ⟨w, l1⟩ cond reason l0 c0 l1' c1).1.gates = (pushPanicIf b ⟨w, l2⟩ cond reason l0 c0 l1' c1).1.gates ∧
    (pushPanicIf b ⟨w, l1⟩ cond reason l0 c0 l1' c1).2.wires = (pushPanicIf b ⟨w, l2⟩ cond reason l0 c0 l1' c1).2.wires ∧
    (pushPanicIf b ⟨w, l1⟩ cond reason l0 c0 l1' c1).2.cache.Perm (pushPanicIf b ⟨w, l2⟩ cond reason l0 c0 l1' c1).2.cache := by
  simp only [pushPanicIf, contains_perm h cond]
  split
  · exact ⟨rfl, rfl, h⟩
  · exact ⟨rfl, rfl, List.Perm.cons _ h⟩

/-- `mux_panic`: the gates and the merged record do not depend on the order of either cache, and the
merged cache is the same set -/
theorem C06_cache_order_irrelevant_mux (b : Builder) (s : Nat) (wt wf : List Nat) (t1 t2 f1 f2 : List Nat)
    (ht : t1.Perm t2) (hf : f1.Perm f2) :
    (muxPanic b s ⟨wt, t1⟩ ⟨wf, f1⟩).1.gates = (muxPanic b s ⟨wt, t2⟩ ⟨wf, f2⟩).1.gates ∧
    (muxPanic b s ⟨wt, t1⟩ ⟨wf, f1⟩).2.wires = (muxPanic b s ⟨wt, t2⟩ ⟨wf, f2⟩).2.wires ∧
    ∀ c, c ∈ (muxPanic b s ⟨wt, t1⟩ ⟨wf, f1⟩).2.cache ↔ c ∈ (muxPanic b s ⟨wt, t2⟩ ⟨wf, f2⟩).2.cache := by
  refine ⟨rfl, rfl, ?_⟩
  intro c
  simp only [muxPanic, List.mem_filter, List.contains_iff_mem, ht.mem_iff, hf.mem_iff]

end GV
