import GarbleVerif.Proofs.BitMain
/-!
# C01 — the compiled circuit returns exactly the value the source program denotes

**Proved (core fragment, all widths, all inputs).** `Bit.bitExpr` / `Bit.bitStmts` / `Bit.bitStmt`
(Model/BitSem.lean) follow `compile.rs` on

* Booleans and integers of every width: literals, variables, `!`, unary `-`, `+`, `-`, `*`, `/`, `%`, `<<`, `>>`,
  `<`, `>`, `<=`, `>=`, `==`, `!=`, `&`, `|`, `^`, `&&`, `||`, `as` between all these types; `==` / `!=` also on values of any aggregate type;
* tuples, structs, enums and arrays, nested to any depth: tuple, struct and enum literals, `t.i`, `s.f`, array
  literals, `[e; n]`, `lo..hi`, `a[i]` with its bounds check;
* `if`/`else` as expression and as statement, `match` on Booleans, integers, tuples, structs and enums with
  literal, range, binding, tuple, struct and enum patterns nested to any depth, whose arms cover the type (a last arm that binds
  or ignores the value, or any set of arms the verified reference procedure of C08 finds exhaustive), blocks;
* `let` with an irrefutable pattern (a binding, tuples and structs of them, or any pattern the reference procedure
  finds exhaustive), `let mut x`, assignment to a variable and through any chain of `.i` / `.f` / `[i]` accessors
  (`x.0[i].f = e`, every index expression followed by its bounds check), `for pattern in array { … }`;
* calls of functions (inlined to any depth: `callAt`; programs without constants)

— computing, for given inputs, the value every output wire carries, the abstract state of the panic record and
the wires of every variable in scope (the branches of an `if`, every arm of a `match` and the right operand of
`&&` / `||` are compiled unconditionally and every variable is merged afterwards, `mux_envs`; an arm is selected
by `!has_prev_match && is_match`, a range pattern by two comparator circuits, a tuple or struct pattern by the AND
of its components' bits, an enum pattern by comparing the tag; a loop is unrolled). The operators
are the bit-list functions of Model/Arith.lean (tied to `CircuitBuilder` by C03/C04, proved exact in
Proofs/Arith*.lean). Array accesses are modelled by their circuits too: the mux tree of a read (`Arith.indexMux`, one
layer per index bit), the per-element mux chains of a write (`Arith.writeAll`) and the comparator of the bounds
check; Proofs/ArithIndex.lean and Proofs/BitIndex.lean show that they select / replace exactly the element at the
index, for every array length and element size.

`C01_core`: for every program, every inlining depth, every function body of the fragment, every environment of
well-typed values and every fuel, if the source semantics return a value then the bit-level evaluation returns
exactly the encoding of that value and no panic, and the wires of the variables encode the environment the
source semantics end with; if they fail, it reports exactly that failure (the first failing operation: C02 at
program level for the fragment, out-of-bounds accesses included). Both directions together: the panic flag is set
iff the source execution fails. `C01_core_defined`: the source semantics are never stuck on a program of the
fragment (type soundness).

**Explored (whole language).** Everything outside the fragment (multiplication by a negative literal, for-join
loops and `join`, constants, arrays of 2^32 elements or more) is compared on generated programs on every run: circuit output against
`Src.evalStmts`, and — for programs of the fragment — against `Bit.bitStmts` as well, which ties the model of
this theorem to the code.
-/
namespace GV
namespace Bit
open Src

/-- **C01 / C02 for the core fragment** (statement lists: function bodies) -/
theorem C01_core (prog : Prog) (depth fuel : Nat) (env : Src.Env) (benv benv' : BEnv) (body : StmtList)
    (t : VTy) (bits : List Bool) (p : P)
    (henv : EnvRel env benv) (hbits : bitStmts ⟨callAt prog depth, prog.enum?⟩ benv body = some (t, bits, p, benv')) :
    (∀ v env', evalStmts fuel prog env body = .ok (v, env') →
        v.hasType t.toTy = true ∧ bits = v.encode t.toTy ∧ p = none ∧ EnvRel env' benv') ∧
    (∀ k, evalStmts fuel prog env body = .error (.panic k) → p = some k) := by
  have h := (core_all prog ⟨callAt prog depth, prog.enum?⟩ (callAt_sound prog depth) fuel).2.1 body env benv _ bits p benv' henv hbits
  constructor
  · intro v env' hv
    rw [hv] at h
    obtain ⟨hp, hr, he⟩ := h
    exact ⟨(VRel.hasType_encode hr).1, (VRel.hasType_encode hr).2, hp, he⟩
  · intro k hk
    rw [hk] at h
    exact h

/-- the same for expressions; assignments inside the expression are reflected in the variables -/
theorem C01_core_expr (prog : Prog) (depth fuel : Nat) (env : Src.Env) (benv benv' : BEnv) (e : Expr)
    (t : VTy) (bits : List Bool) (p : P)
    (henv : EnvRel env benv) (hbits : bitExpr ⟨callAt prog depth, prog.enum?⟩ benv e = some (t, bits, p, benv')) :
    (∀ v env', evalExpr fuel prog env e = .ok (v, env') →
        v.hasType t.toTy = true ∧ bits = v.encode t.toTy ∧ p = none ∧ EnvRel env' benv') ∧
    (∀ k, evalExpr fuel prog env e = .error (.panic k) → p = some k) := by
  have h := (core_all prog ⟨callAt prog depth, prog.enum?⟩ (callAt_sound prog depth) fuel).1 e env benv _ bits p benv' henv hbits
  constructor
  · intro v env' hv
    rw [hv] at h
    obtain ⟨hp, hr, he⟩ := h
    exact ⟨(VRel.hasType_encode hr).1, (VRel.hasType_encode hr).2, hp, he⟩
  · intro k hk
    rw [hk] at h
    exact h

/-- **the fragment is type-sound**: a program that `bitStmts` accepts never gets stuck in the source
semantics — with enough fuel it returns a value of its type or fails with one of the three panics -/
theorem C01_core_defined (prog : Prog) (depth fuel : Nat) (env : Src.Env) (benv benv' : BEnv) (body : StmtList)
    (t : VTy) (bits : List Bool) (p : P)
    (henv : EnvRel env benv) (hbits : bitStmts ⟨callAt prog depth, prog.enum?⟩ benv body = some (t, bits, p, benv')) :
    ∀ why, evalStmts fuel prog env body ≠ .error (.stuck why) := by
  intro why hw
  have h := (core_all prog ⟨callAt prog depth, prog.enum?⟩ (callAt_sound prog depth) fuel).2.1 body env benv _ bits p benv' henv hbits
  rw [hw] at h
  exact h

/-! ### non-vacuity -/

/-- `x + 1u8` with `x = 255`: the source semantics fail with Overflow, and so does the bit-level
evaluation; with `x = 7` both give 8 -/
example : bitExpr ⟨callAt ⟨[], [], [], []⟩ 0, fun _ => none⟩ [("x", .s (.int .u8), enc .u8 255)] (.bin .add (.int .u8) (.var "x") (.int 1 .u8)) =
    some (.s (.int .u8), enc .u8 0, some .overflow, [("x", .s (.int .u8), enc .u8 255)]) := by rfl

example : bitExpr ⟨callAt ⟨[], [], [], []⟩ 0, fun _ => none⟩ [("x", .s (.int .u8), enc .u8 7)] (.bin .add (.int .u8) (.var "x") (.int 1 .u8)) =
    some (.s (.int .u8), enc .u8 8, none, [("x", .s (.int .u8), enc .u8 7)]) := by rfl

/-- `if c { x = 1u8; } else { }` followed by `x`: the variable is merged by the condition -/
def C01_example_body : StmtList :=
  .cons (.expr (.ite (.var "c") (.block (.cons (.assign "x" .nil (.int 1 .u8)) .nil)) (.block .nil)))
    (.cons (.expr (.var "x")) .nil)

example : bitStmts ⟨callAt ⟨[], [], [], []⟩ 0, fun _ => none⟩ [("c", .s .bool, [true]), ("x", .s (.int .u8), enc .u8 7)] C01_example_body =
    some (.s (.int .u8), enc .u8 1, none, [("c", .s .bool, [true]), ("x", .s (.int .u8), enc .u8 1)]) := by rfl

example : bitStmts ⟨callAt ⟨[], [], [], []⟩ 0, fun _ => none⟩ [("c", .s .bool, [false]), ("x", .s (.int .u8), enc .u8 7)] C01_example_body =
    some (.s (.int .u8), enc .u8 7, none, [("c", .s .bool, [false]), ("x", .s (.int .u8), enc .u8 7)]) := by rfl

/-- a call: `fn inc(a: u8) -> u8 { a + 1u8 }` and the body `inc(x)`; with `x = 255` the callee's overflow is the
caller's panic, and inlining to depth 0 is outside the fragment -/
def C01_example_prog : Prog :=
  ⟨[⟨"inc", [("a", .int .u8)], .int .u8, .cons (.expr (.bin .add (.int .u8) (.var "a") (.int 1 .u8))) .nil⟩], [], [], []⟩

example : bitBody C01_example_prog [("x", .s (.int .u8), enc .u8 7)] (.cons (.expr (.call "inc" (.cons (.var "x") .nil))) .nil) =
    some (.s (.int .u8), enc .u8 8, none, [("x", .s (.int .u8), enc .u8 7)]) := by rfl

example : bitBody C01_example_prog [("x", .s (.int .u8), enc .u8 255)] (.cons (.expr (.call "inc" (.cons (.var "x") .nil))) .nil) =
    some (.s (.int .u8), enc .u8 0, some .overflow, [("x", .s (.int .u8), enc .u8 255)]) := by rfl

example : bitStmts ⟨callAt C01_example_prog 0, fun _ => none⟩ [("x", .s (.int .u8), enc .u8 7)]
    (.cons (.expr (.call "inc" (.cons (.var "x") .nil))) .nil) = none := by rfl

example : EnvRel [("x", .int 7)] [("x", .s (.int .u8), enc .u8 7)] :=
  EnvRel.cons ⟨by decide, rfl⟩ EnvRel.nil

end Bit
end GV
