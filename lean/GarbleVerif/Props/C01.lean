import GarbleVerif.Proofs.BitCore
/-!
# C01 — the compiled circuit returns exactly the value the source program denotes

**Proved (core fragment, all widths, all inputs).** `Bit.bitExpr` / `Bit.bitStmts`
(Model/BitSem.lean) follow `compile.rs` on Booleans and integers of every width — literals,
variables, `!`, unary `-`, `+`, `-`, `<`, `>`, `<=`, `>=`, `==`, `!=`, `&`, `|`, `^` on Booleans, `&&`,
`||`, `as` between all these types, `if`/`else`, blocks with `let` — computing, for given inputs, the value every output wire carries
and the abstract state of the panic record. The operators are the bit-list functions of
Model/Arith.lean (tied to `CircuitBuilder` by C03/C04, proved exact in Proofs/Arith*.lean).

`C01_core`: for every program body of the fragment, every environment of well-typed values and
every fuel, if the source semantics return a value then the bit-level evaluation returns exactly
the encoding of that value and no panic; if they fail, it reports exactly that failure (the first
failing operation: C02 at program level for the fragment). Both directions together: the panic
flag is set iff the source execution fails.

**Explored (whole language).** Everything outside the fragment (`*`, `/`, `%`, shifts,
bitwise operators on integers, aggregates, `match`, loops, mutation, functions) is compared on
generated programs on every run: circuit output against `Src.evalStmts`, and — for programs of
the fragment — against `Bit.bitStmts` as well, which ties the model in this theorem to the code.
-/
namespace GV
namespace Bit
open Src

/-- **C01 / C02 for the core fragment** -/
theorem C01_core (prog : Prog) (fuel : Nat) (env : Src.Env) (benv : BEnv) (body : StmtList)
    (t : STy) (bits : List Bool) (p : P)
    (henv : EnvRel env benv) (hbits : bitStmts benv body = some (t, bits, p)) :
    (∀ v env', evalStmts fuel prog env body = .ok (v, env') →
        v.hasType t.toTy = true ∧ bits = v.encode t.toTy ∧ p = none) ∧
    (∀ k, evalStmts fuel prog env body = .error (.panic k) → p = some k) := by
  have h := (core_all prog fuel fuel (Nat.le_refl _)).2 body env benv t bits p henv hbits
  refine ⟨fun v env' hv => ?_, h.2⟩
  obtain ⟨_, hr, hp⟩ := h.1 v env' hv
  exact ⟨hr.hasType_encode.1, hr.hasType_encode.2, hp⟩

/-- the same for expressions; evaluation leaves the environment unchanged (the fragment has no
assignments) -/
theorem C01_core_expr (prog : Prog) (fuel : Nat) (env : Src.Env) (benv : BEnv) (e : Expr)
    (t : STy) (bits : List Bool) (p : P)
    (henv : EnvRel env benv) (hbits : bitExpr benv e = some (t, bits, p)) :
    (∀ v env', evalExpr fuel prog env e = .ok (v, env') →
        env' = env ∧ v.hasType t.toTy = true ∧ bits = v.encode t.toTy ∧ p = none) ∧
    (∀ k, evalExpr fuel prog env e = .error (.panic k) → p = some k) := by
  have h := (core_all prog fuel fuel (Nat.le_refl _)).1 e env benv t bits p henv hbits
  refine ⟨fun v env' hv => ?_, h.2⟩
  obtain ⟨he, hr, hp⟩ := h.1 v env' hv
  exact ⟨he, hr.hasType_encode.1, hr.hasType_encode.2, hp⟩

/-- **the fragment is type-sound**: a program that `bitStmts` accepts never gets stuck in the source
semantics — with enough fuel it returns a value of its type or fails with one of the three panics -/
theorem C01_core_defined (prog : Prog) (fuel : Nat) (env : Src.Env) (benv : BEnv) (body : StmtList)
    (t : STy) (bits : List Bool) (p : P)
    (henv : EnvRel env benv) (hbits : bitStmts benv body = some (t, bits, p)) :
    ∀ why, evalStmts fuel prog env body ≠ .error (.stuck why) :=
  (noStuck_all prog fuel fuel (Nat.le_refl _)).2 body env benv t bits p henv hbits

/-- non-vacuity: `x + 1u8` with `x = 255`: the source semantics fail with Overflow, and so does the
bit-level evaluation; with `x = 7` both give 8 -/
example : bitExpr [("x", .int .u8, enc .u8 255)] (.bin .add (.int .u8) (.var "x") (.int 1 .u8)) =
    some (.int .u8, enc .u8 0, some .overflow) := by decide

example : bitExpr [("x", .int .u8, enc .u8 7)] (.bin .add (.int .u8) (.var "x") (.int 1 .u8)) =
    some (.int .u8, enc .u8 8, none) := by decide

example : EnvRel [("x", .int 7)] [("x", .int .u8, enc .u8 7)] :=
  EnvRel.cons ⟨by decide, rfl⟩ EnvRel.nil

end Bit
end GV
