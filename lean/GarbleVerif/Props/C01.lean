import GarbleVerif.Model.SrcSem
namespace GV
end GV
