import GarbleVerif.Proofs.SrcFrame
import GarbleVerif.Proofs.BitMain
/-!
# C14 — no shared mutable state

Theorems about the source semantics `Src.evalExpr / evalStmt` (the specification the compiled
circuits are compared with on every run):

* `C14_scope`: evaluating any expression — blocks, `if`, `match`, calls, loops inside blocks —
  leaves the list of bound names exactly as it was: every binding made inside ends with its
  scope, a shadowing binding included; statements only add bindings in front;
* `C14_assign_frame`: an assignment `x… = e` changes no variable other than `x`;
* `C14_element_frame`: `a[i] = v` changes no other element of `a`;
* `C14_call_by_value`: after a call the caller's environment is the one the argument evaluation
  left; nothing the callee does to its parameters is visible;
* `C14_if_taken_branch`, `C14_loop_order`: an `if` runs exactly the branch taken, from the
  state the condition left; a loop runs its body once per element, in order, each iteration
  starting from the state the previous one left.

The merging of variables by the compiler (`mux_envs`) is modelled for the core fragment
(Model/BitSem.lean: scalars, tuples, structs, enums, arrays, `if`, `match`, `&&` / `||`, blocks, `let` with patterns,
`let mut`, assignment to a variable and through `.i` / `.f` / `[i]` accessors, `for` loops, calls):

* `C14_compiled_scope`, `C14_compiled_stmts_scope`: the compiled code keeps the scope stack — after
  an expression exactly the same variables (names, types, order) are in scope, statements only add
  their own bindings in front; so the environments merged after an `if` or the arms of a `match` always line up;
* `C14_merge`: the variable-by-variable merge of two such environments is the environment of the
  branch taken;
* `C14_compiled_element_frame`: an array write leaves the wires of all other elements untouched;
* `C14_compiled_state`: after any statements of the fragment — assignments inside branches, inside match arms, inside
  the right operand of `&&` / `||`, inside nested blocks with shadowing, inside unrolled loop bodies, to single
  elements of arrays and components of tuples — the wires of every
  variable in scope carry exactly the value the source semantics give it.

Outside that fragment (for-join loops, constants) the merging is tied to these
semantics by the correspondence run (programs that return every visible variable).
-/
namespace GV
namespace Src

theorem Env.get?_set_ne (env : Env) (x y : String) (v : Val) (h : y ≠ x) :
    (env.set x v).get? y = env.get? y := by
  induction env with
  | nil => rfl
  | cons b r ih =>
    obtain ⟨n, w⟩ := b
    simp only [Env.set]
    split
    · rename_i hn
      have hn' : n = x := by simpa using hn
      subst hn'
      have : (n == y) = false := by simp; exact fun h' => h h'.symm
      simp [Env.get?, this]
    · simp only [Env.get?]
      split
      · rfl
      · exact ih

theorem Env.get?_set_eq (env : Env) (x : String) (v old : Val) (h : env.get? x = some old) :
    (env.set x v).get? x = some v := by
  induction env with
  | nil => simp [Env.get?] at h
  | cons b r ih =>
    obtain ⟨n, w⟩ := b
    simp only [Env.set]
    split
    · rename_i hn
      simp [Env.get?, hn]
    · rename_i hn
      simp only [Env.get?, hn] at h ⊢
      exact ih h

/-- **scope**: whatever an expression does, afterwards exactly the same names are bound, in the
same order (only values of `mut` variables may have changed); a statement list only adds the
bindings of its own `let`s in front of them -/
theorem C14_scope (prog : Prog) (fuel : Nat) :
    (∀ env e v env', evalExpr fuel prog env e = .ok (v, env') → names env' = names env) ∧
    (∀ env ss v env', evalStmts fuel prog env ss = .ok (v, env') → ∃ pre, names env' = pre ++ names env) :=
  ⟨(frame prog fuel).expr, (frame prog fuel).stmts⟩

/-- **assignment**: `x.path = e` leaves every other variable as the evaluation of `e` and of the
index expressions left it -/
theorem C14_assign_frame (prog : Prog) (fuel : Nat) (env env' : Env) (x : String) (path : Path) (e : Expr)
    (u : Val) (h : evalStmt (fuel + 1) prog env (.assign x path e) = .ok (u, env')) :
    ∃ v env1 old steps env2, evalExpr fuel prog env e = .ok (v, env1) ∧ env1.get? x = some old ∧
      evalPath fuel prog env1 old path = .ok (steps, env2) ∧
      ∀ y, y ≠ x → env'.get? y = env2.get? y := by
  unfold evalStmt at h
  simp only at h
  split at h
  · simp at h
  · rename_i v env1 he
    split at h
    · simp at h
    · rename_i old hold
      split at h
      · simp at h
      · rename_i steps env2 hp
        split at h
        · simp at h
        · simp only [Except.ok.injEq, Prod.mk.injEq] at h
          obtain ⟨_, rfl⟩ := h
          exact ⟨v, env1, old, steps, env2, he, hold, hp, fun y hy => Env.get?_set_ne env2 x y _ hy⟩

theorem ValList'.get?_set_ne : ∀ (vs : ValList) (i j : Nat) (w : Val), j ≠ i →
    ValList'.get? (ValList'.set vs i w) j = ValList'.get? vs j
  | .nil, _, _, _, _ => rfl
  | .cons _ _, 0, 0, _, h => absurd rfl h
  | .cons _ _, 0, _ + 1, _, _ => rfl
  | .cons _ _, _ + 1, 0, _, _ => rfl
  | .cons _ r, i + 1, j + 1, w, h => by
    simp only [ValList'.set, ValList'.get?]
    exact ValList'.get?_set_ne r i j w (by omega)

/-- **elements**: assigning to element `i` of an array leaves every other element as it was -/
theorem C14_element_frame (vs : ValList) (i : Nat) (new : Val) (r : Val)
    (h : updateAt (.array vs) [.index i] new = .ok r) :
    ∃ ws, r = .array ws ∧ ∀ j, j ≠ i → ValList'.get? ws j = ValList'.get? vs j := by
  simp only [updateAt] at h
  split at h
  · simp only [Except.ok.injEq] at h
    subst h
    exact ⟨_, rfl, fun j hj => ValList'.get?_set_ne vs i j new hj⟩
  · simp at h

/-- **by value**: a call leaves the caller with the environment that evaluating the arguments
produced; the callee's final environment is dropped -/
theorem C14_call_by_value (prog : Prog) (fuel : Nat) (env env' : Env) (f : String) (args : ExprList) (r : Val)
    (h : evalExpr (fuel + 1) prog env (.call f args) = .ok (r, env')) :
    ∃ vs, evalList fuel prog env args = .ok (vs, env') := by
  unfold evalExpr at h
  simp only at h
  split at h
  · simp at h
  · rename_i vs env1 hl
    split at h
    · simp at h
    · split at h
      · simp at h
      · split at h
        · simp at h
        · simp only [Except.ok.injEq, Prod.mk.injEq] at h
          obtain ⟨_, rfl⟩ := h
          exact ⟨vs, hl⟩

/-- **control flow**: an `if` is its condition followed by the branch taken -/
theorem C14_if_taken_branch (prog : Prog) (fuel : Nat) (env env1 : Env) (c t f : Expr) (b : Bool)
    (hc : evalExpr fuel prog env c = .ok (.bool b, env1)) :
    evalExpr (fuel + 1) prog env (.ite c t f) = evalExpr fuel prog env1 (if b then t else f) := by
  rw [evalExpr]
  simp only [hc]
  cases b <;> rfl

/-- **loops**: one iteration per element, in order, each from the state the previous one left (with
the iteration's own bindings removed) -/
theorem C14_loop_order (prog : Prog) (fuel : Nat) (env env1 : Env) (p : Pat) (v : Val) (rest : ValList)
    (body : StmtList) (binds : Env) (u : Val)
    (hm : matchPat p v = some binds)
    (hb : evalStmts fuel prog (binds ++ env) body = .ok (u, env1)) :
    evalLoop (fuel + 1) prog env p (.cons v rest) body = evalLoop fuel prog (restore env env1) p rest body := by
  rw [evalLoop]
  simp only [hm, hb]

/-- non-vacuity: a shadowing `let` inside a block; afterwards the outer `x` is visible again -/
example : evalExpr 10 ⟨[], [], [], []⟩ [("x", .int 1)]
    (.block (.cons (.let_ (.ident "x") (.bool true)) (.cons (.expr (.var "x")) .nil))) =
    .ok (.bool true, [("x", .int 1)]) := by rfl

end Src
end GV

namespace GV
namespace Bit
open Src

/-- **the compiled code keeps the scope stack** (expressions) -/
theorem C14_compiled_scope (call : Ctx) (e : Expr) (benv benv' : BEnv) (t : VTy) (bs : List Bool) (p : P)
    (h : bitExpr call benv e = some (t, bs, p, benv')) : shape benv' = shape benv :=
  shapeE call e benv t bs p benv' h

/-- statements only add their own bindings in front of the variables they found -/
theorem C14_compiled_stmts_scope (call : Ctx) (ss : StmtList) (benv benv' : BEnv) (t : VTy) (bs : List Bool) (p : P)
    (h : bitStmts call benv ss = some (t, bs, p, benv')) : ∃ pre, shape benv' = pre ++ shape benv :=
  shapeSS call ss benv t bs p benv' h

/-- **`mux_envs`**: merging, variable by variable, two environments with the same variables gives the
environment of the branch taken -/
theorem C14_merge (c : Bool) (a b : BEnv) (h : shape a = shape b) : muxEnv c a b = if c then a else b :=
  muxEnv_eq c a b h

/-- **no variable is lost or mixed up by control flow**: whatever the statements do, afterwards the wires
of every variable in scope encode the value the source semantics give that variable -/
theorem C14_compiled_state (prog : Prog) (depth fuel : Nat) (env env' : Src.Env) (benv benv' : BEnv) (body : StmtList)
    (t : VTy) (bits : List Bool) (p : P) (v : Val)
    (henv : EnvRel env benv) (hbits : bitStmts ⟨callAt prog depth, prog.enum?⟩ benv body = some (t, bits, p, benv'))
    (hsrc : evalStmts fuel prog env body = .ok (v, env')) : EnvRel env' benv' := by
  have h := (core_all prog ⟨callAt prog depth, prog.enum?⟩ (callAt_sound prog depth) fuel).2.1 body env benv _ bits p benv' henv hbits
  rw [hsrc] at h
  exact h.2.2

/-- **a call cannot touch the caller's variables**: the callee is compiled with its parameters only, and the
caller goes on with the variables its argument expressions left -/
theorem C14_compiled_call_frame (call : Ctx) (fn : String) (args : ExprList) (benv benv' : BEnv) (t : VTy)
    (bs : List Bool) (p : P) (h : bitExpr call benv (.call fn args) = some (t, bs, p, benv')) :
    ∃ vs pargs, bitList call benv args = some (vs, pargs, benv') := by
  simp only [bitExpr] at h
  split at h
  · rename_i vs pargs env1 hl
    split at h
    · simp only [Option.some.injEq, Prod.mk.injEq] at h
      obtain ⟨_, _, _, rfl⟩ := h
      exact ⟨vs, pargs, hl⟩
    · simp at h
  · simp at h

/-- **`a[i] = v` touches one element**: the mux chains of an array write (`Arith.writeAll`, one chain per element and
wire) leave the wires of every element other than the one the index spells exactly as they were — and all of them when
the index is out of bounds -/
theorem C14_compiled_element_frame (sz n : Nat) (idx sub cur : List Bool) (hs : sub.length = sz)
    (hcur : cur.length = n * sz) (hn : n ≤ 2 ^ idx.length) :
    (Arith.writeAll idx sub 0 (chunks sz n cur)).flatten =
      if Arith.toNat idx < n then
        cur.take (Arith.toNat idx * sz) ++ sub ++ cur.drop (Arith.toNat idx * sz + sz)
      else cur := by
  have := writeAll_flat sz idx sub hs n cur 0 hcur (by omega)
  simpa using this

/-- non-vacuity: `if c { x = 1u8; y = x; } else { y = 2u8; }` — both variables are merged -/
example : bitStmts ⟨callAt ⟨[], [], [], []⟩ 0, fun _ => none⟩ [("c", .s .bool, [false]), ("x", .s (.int .u8), enc .u8 7), ("y", .s (.int .u8), enc .u8 0)]
    (.cons (.expr (.ite (.var "c")
      (.block (.cons (.assign "x" .nil (.int 1 .u8)) (.cons (.assign "y" .nil (.var "x")) .nil)))
      (.block (.cons (.assign "y" .nil (.int 2 .u8)) .nil)))) .nil) =
    some (.unit, [], none, [("c", .s .bool, [false]), ("x", .s (.int .u8), enc .u8 7), ("y", .s (.int .u8), enc .u8 2)]) := by
  rfl

end Bit
end GV
