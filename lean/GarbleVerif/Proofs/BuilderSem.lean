import GarbleVerif.Model.Builder
namespace GV
namespace Builder

/-! ### basic facts about `valsFrom` -/

theorem valsFrom_append (init : List Bool) (gs hs : List BGate) :
    valsFrom init (gs ++ hs) = valsFrom (valsFrom init gs) hs := by
  simp [valsFrom, List.foldl_append]

theorem valsFrom_length (init : List Bool) (gs : List BGate) :
    (valsFrom init gs).length = init.length + gs.length := by
  induction gs generalizing init with
  | nil => simp [valsFrom]
  | cons g gs ih =>
    simp only [valsFrom, List.foldl_cons, List.length_cons] at ih ⊢
    rw [ih]; simp [stepVals]; omega

theorem valsFrom_getD_lt (init : List Bool) (gs : List BGate) (i : Nat) (h : i < init.length) (d : Bool) :
    (valsFrom init gs).getD i d = init.getD i d := by
  induction gs generalizing init with
  | nil => simp [valsFrom]
  | cons g gs ih =>
    simp only [valsFrom, List.foldl_cons] at ih ⊢
    rw [ih (stepVals init g) (by simp [stepVals]; omega)]
    simp [stepVals, List.getD_eq_getElem?_getD, List.getElem?_append_left h]

def opsLt (g : BGate) (n : Nat) : Prop :=
  match g with
  | .xor a b => a < n ∧ b < n
  | .and a b => a < n ∧ b < n

theorem opsLt_mono {g : BGate} {n m : Nat} (h : opsLt g n) (hnm : n ≤ m) : opsLt g m := by
  cases g <;> simp only [opsLt] at * <;> omega

/-- `gateVal` only looks at the operands -/
theorem gateVal_congr (vs ws : List Bool) (g : BGate) (n : Nat) (hg : opsLt g n)
    (h : ∀ i, i < n → vs.getD i false = ws.getD i false) : gateVal vs g = gateVal ws g := by
  cases g with
  | xor a b => simp only [opsLt] at hg; simp only [gateVal]; rw [h a hg.1, h b hg.2]
  | and a b => simp only [opsLt] at hg; simp only [gateVal]; rw [h a hg.1, h b hg.2]

theorem vals_length (b : Builder) (inp : List Bool) (h : inp.length + 2 = b.shift) :
    (b.vals inp).length = b.counter := by
  simp [vals, valsFrom_length, counter]; omega

/-- builder `b'` extends `b`: same shift / options, gates appended -/
structure Ext (b b' : Builder) : Prop where
  shift : b'.shift = b.shift
  cacheOn : b'.cacheOn = b.cacheOn
  gates : ∃ extra, b'.gates = b.gates ++ extra

theorem Ext.refl (b : Builder) : Ext b b := ⟨rfl, rfl, ⟨[], by simp⟩⟩

theorem Ext.trans {a b c : Builder} (h1 : Ext a b) (h2 : Ext b c) : Ext a c := by
  obtain ⟨e1, he1⟩ := h1.gates
  obtain ⟨e2, he2⟩ := h2.gates
  exact ⟨by rw [h2.shift, h1.shift], by rw [h2.cacheOn, h1.cacheOn], ⟨e1 ++ e2, by rw [he2, he1]; simp⟩⟩

theorem Ext.counter_le {b b' : Builder} (h : Ext b b') : b.counter ≤ b'.counter := by
  obtain ⟨e, he⟩ := h.gates
  simp [counter, h.shift, he]

theorem Ext.sem_eq {b b' : Builder} (h : Ext b b') (inp : List Bool) (hi : inp.length + 2 = b.shift)
    (w : Nat) (hw : w < b.counter) : b'.sem inp w = b.sem inp w := by
  obtain ⟨e, he⟩ := h.gates
  simp only [sem, vals, he, valsFrom_append]
  exact valsFrom_getD_lt _ _ _ (by rw [← vals, vals_length b inp hi]; exact hw) _

theorem Ext.gateVal_eq {b b' : Builder} (h : Ext b b') (inp : List Bool) (hi : inp.length + 2 = b.shift)
    (g : BGate) (hg : opsLt g b.counter) : gateVal (b'.vals inp) g = gateVal (b.vals inp) g :=
  gateVal_congr _ _ g b.counter hg (fun i hi' => h.sem_eq inp hi i hi')

/-! ### the invariant -/

structure WF (b : Builder) : Prop where
  shift2 : 2 ≤ b.shift
  ops : ∀ i g, b.gates[i]? = some g → opsLt g (b.shift + i)
  cacheSound : ∀ g w, b.cache[g]? = some w →
    w < b.counter ∧ opsLt g b.counter ∧
    ∀ inp, inp.length + 2 = b.shift → b.sem inp w = gateVal (b.vals inp) g
  negSound : ∀ a n, b.negated[a]? = some n →
    a < b.counter ∧ n < b.counter ∧
    ∀ inp, inp.length + 2 = b.shift → b.sem inp n = !b.sem inp a
  /-- no AND gate has a constant operand or the same wire twice -/
  andNorm : ∀ (i x y : Nat), b.gates[i]? = some (BGate.and x y) → x ≠ y ∧ 2 ≤ x ∧ 2 ≤ y
  /-- with de-duplication on, every AND gate is in the cache under its own operands … -/
  cacheCover : b.cacheOn = true → ∀ (i x y : Nat), b.gates[i]? = some (BGate.and x y) →
    (b.cache[BGate.and x y]?).isSome = true
  /-- … and no two AND gates have the same unordered pair of operands -/
  andUniq : b.cacheOn = true → ∀ (i j x y x' y' : Nat), b.gates[i]? = some (BGate.and x y) →
    b.gates[j]? = some (BGate.and x' y') → ((x = x' ∧ y = y') ∨ (x = y' ∧ y = x')) → i = j

theorem sem_zero (b : Builder) (inp : List Bool) : b.sem inp 0 = false := by
  simp only [sem, vals]
  rw [valsFrom_getD_lt _ _ 0 (by simp)]; rfl

theorem sem_one (b : Builder) (inp : List Bool) : b.sem inp 1 = true := by
  simp only [sem, vals]
  rw [valsFrom_getD_lt _ _ 1 (by simp)]; rfl

theorem gateVal_xor (b : Builder) (inp : List Bool) (x y : Nat) :
    gateVal (b.vals inp) (.xor x y) = (b.sem inp x ^^ b.sem inp y) := rfl

theorem gateVal_and (b : Builder) (inp : List Bool) (x y : Nat) :
    gateVal (b.vals inp) (.and x y) = (b.sem inp x && b.sem inp y) := rfl

/-- value of a gate wire -/
theorem sem_gate {b : Builder} (hb : WF b) (inp : List Bool) (hi : inp.length + 2 = b.shift)
    (w : Nat) (g : BGate) (hg : b.gateAt w = some g) :
    w < b.counter ∧ opsLt g w ∧ b.sem inp w = gateVal (b.vals inp) g := by
  simp only [gateAt] at hg
  split at hg
  · simp at hg
  · rename_i hws
    have hws : b.shift ≤ w := Nat.le_of_not_lt hws
    have hlt : w - b.shift < b.gates.length := by
      rcases Nat.lt_or_ge (w - b.shift) b.gates.length with h | h
      · exact h
      · rw [List.getElem?_eq_none h] at hg; simp at hg
    have hops := hb.ops _ _ hg
    have hwi : b.shift + (w - b.shift) = w := by omega
    rw [hwi] at hops
    refine ⟨by simp [counter]; omega, hops, ?_⟩
    -- split the gate list at position w - shift
    have hsplit : b.gates = b.gates.take (w - b.shift) ++ g :: b.gates.drop (w - b.shift + 1) := by
      have := List.getElem?_eq_some_iff.mp hg
      obtain ⟨h1, h2⟩ := this
      rw [← h2]
      simp
    -- prefix builder
    let bp : Builder := { b with gates := b.gates.take (w - b.shift) }
    let bq : Builder := { b with gates := b.gates.take (w - b.shift) ++ [g] }
    have hbpc : bp.counter = w := by simp [bp, counter, List.length_take]; omega
    have hbqc : bq.counter = w + 1 := by simp [bq, counter, List.length_take]; omega
    have e1 : Ext bp bq := ⟨rfl, rfl, ⟨[g], rfl⟩⟩
    have e2 : Ext bq b := ⟨rfl, rfl, ⟨b.gates.drop (w - b.shift + 1), by
      show b.gates = (b.gates.take (w - b.shift) ++ [g]) ++ _
      rw [List.append_assoc]; exact hsplit⟩⟩
    have e3 : Ext bp b := e1.trans e2
    have hi' : inp.length + 2 = bp.shift := hi
    have hiq : inp.length + 2 = bq.shift := hi
    rw [e2.sem_eq inp hiq w (by omega)]
    rw [e3.gateVal_eq inp hi' g (by rw [hbpc]; exact hops)]
    -- value of the last gate of bq
    simp only [sem, vals, bq, valsFrom_append]
    simp only [valsFrom, List.foldl_cons, List.foldl_nil, stepVals]
    have hlen : (List.foldl stepVals (false :: true :: inp) (List.take (w - b.shift) b.gates)).length = w := by
      have := vals_length bp inp hi'
      simp only [vals, valsFrom, bp] at this
      rw [this]; exact hbpc
    rw [List.getD_eq_getElem?_getD, List.getElem?_append_right (by omega)]
    simp [hlen, vals, valsFrom, bp]

end Builder
end GV
