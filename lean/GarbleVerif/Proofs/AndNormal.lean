import GarbleVerif.Proofs.BuildSound
import GarbleVerif.Proofs.Mark
/-!
# No AND gate of a built circuit has a constant operand or the same wire twice

The builder never pushes such a gate (`WF.andNorm`, maintained by `push_and` through `optimize_and` and by the
AND-factoring rule of `push_xor`); removing unused gates and renumbering the wires is injective on the wires
that are still referenced and sends only the two constants to the constant gates.
-/
namespace GV
namespace Builder

/-- the wire renumbering of `build` on a wire that is an input or a kept gate -/
theorem final_wire (shift : Nat) (used : List Bool) (hs : 2 ≤ shift) (w : Nat) (hw : 2 ≤ w)
    (hu : shift ≤ w → used.getD (w - shift) false = true) :
    (w < shift ∧ fIdx shift (remap shift used w) = w - 2) ∨
    (shift ≤ w ∧ fIdx shift (remap shift used w) = shift + newPos used (w - shift)) := by
  rcases Nat.lt_or_ge w shift with hlt | hge
  · left
    have : remap shift used w = w := by simp [remap]; omega
    rw [this, fIdx_inp hw hlt]
    exact ⟨hlt, rfl⟩
  · right
    have hu' := hu hge
    have hp := getD_true_lt hu'
    have hr := remap_used shift used (w - shift) hp (getD_true_getElem hu' hp)
    have e : shift + (w - shift) = w := by omega
    rw [e] at hr
    rw [hr, fIdx_gate hs (by omega)]
    exact ⟨hge, rfl⟩

theorem newPos_inj (used : List Bool) {p q : Nat} (hp : used.getD p false = true) (hq : used.getD q false = true)
    (h : newPos used p = newPos used q) : p = q := by
  have hpl := getD_true_lt hp
  have hql := getD_true_lt hq
  rcases Nat.lt_trichotomy p q with hlt | heq | hgt
  · have := newPos_lt_of_used used hlt hpl (getD_true_getElem hp hpl); omega
  · exact heq
  · have := newPos_lt_of_used used hgt hql (getD_true_getElem hq hql); omega

/-- every AND gate of the circuit `build` returns has two different operands, neither of them a constant gate -/
theorem build_andNormal (b : Builder) (ig pw outs : List Nat) (hb : WF b) (hshift : b.shift = ig.sum + 2) :
    ∀ x y, Gate.and x y ∈ (b.build ig pw outs).gates →
      x ≠ y ∧ x ≠ ig.sum ∧ x ≠ ig.sum + 1 ∧ y ≠ ig.sum ∧ y ≠ ig.sum + 1 := by
  intro x y hmem
  have hs : 2 ≤ b.shift := hb.shift2
  obtain ⟨hlen, hcl, _⟩ := mark_spec b.shift b.gates (outs ++ pw) hb.ops
  simp only [build, List.mem_cons, List.mem_map] at hmem
  rcases hmem with h | h | ⟨g, hg, hconv⟩
  · simp at h
  · simp at h
  · cases g with
    | xor a c =>
      simp only [convGate] at hconv
      split at hconv
      · simp at hconv
      · split at hconv <;> simp at hconv
    | and x' y' =>
      simp only [convGate, Gate.and.injEq] at hconv
      obtain ⟨rfl, rfl⟩ := hconv
      obtain ⟨i, hi⟩ := List.getElem?_of_mem hg
      obtain ⟨p, g0, _, hgp, hup, he, _⟩ := compactFrom_origin b.shift _ b.gates b.gates 0 (by simp) i _ hi
      cases g0 with
      | xor a c => simp [mapOps] at he
      | and a c =>
        simp only [mapOps, BGate.and.injEq] at he
        obtain ⟨rfl, rfl⟩ := he
        obtain ⟨hne, ha2, hc2⟩ := hb.andNorm p a c hgp
        have hua := hcl p _ hgp hup a (Or.inl rfl)
        have huc := hcl p _ hgp hup c (Or.inr rfl)
        rcases final_wire b.shift _ hs a ha2 hua with ⟨a1, a2⟩ | ⟨a1, a2⟩ <;>
        rcases final_wire b.shift _ hs c hc2 huc with ⟨c1, c2⟩ | ⟨c1, c2⟩
        · rw [a2, c2]; omega
        · rw [a2, c2]; omega
        · rw [a2, c2]; omega
        · rw [a2, c2]
          refine ⟨?_, by omega, by omega, by omega, by omega⟩
          intro heq
          have : newPos (mark b.shift b.gates (outs ++ pw)) (a - b.shift) =
              newPos (mark b.shift b.gates (outs ++ pw)) (c - b.shift) := by omega
          have := newPos_inj _ (hua a1) (huc c1) this
          omega

/-- the renumbering is injective on inputs and kept gates -/
theorem final_wire_inj (shift : Nat) (used : List Bool) (hs : 2 ≤ shift) (w1 w2 : Nat) (h1 : 2 ≤ w1) (h2 : 2 ≤ w2)
    (hu1 : shift ≤ w1 → used.getD (w1 - shift) false = true)
    (hu2 : shift ≤ w2 → used.getD (w2 - shift) false = true)
    (h : fIdx shift (remap shift used w1) = fIdx shift (remap shift used w2)) : w1 = w2 := by
  rcases final_wire shift used hs w1 h1 hu1 with ⟨a1, a2⟩ | ⟨a1, a2⟩ <;>
  rcases final_wire shift used hs w2 h2 hu2 with ⟨c1, c2⟩ | ⟨c1, c2⟩
  · rw [a2, c2] at h; omega
  · rw [a2, c2] at h; omega
  · rw [a2, c2] at h; omega
  · rw [a2, c2] at h
    have : newPos used (w1 - shift) = newPos used (w2 - shift) := by omega
    have := newPos_inj used (hu1 a1) (hu2 c1) this
    omega

/-- an AND gate of the built circuit, traced back to the builder's gate list -/
theorem build_and_origin (b : Builder) (ig pw outs : List Nat) (hb : WF b) (i x y : Nat)
    (h : (b.build ig pw outs).gates[i]? = some (Gate.and x y)) :
    ∃ p a c, b.gates[p]? = some (BGate.and a c) ∧
      (mark b.shift b.gates (outs ++ pw)).getD p false = true ∧
      x = fIdx b.shift (remap b.shift (mark b.shift b.gates (outs ++ pw)) a) ∧
      y = fIdx b.shift (remap b.shift (mark b.shift b.gates (outs ++ pw)) c) ∧
      i = newPos (mark b.shift b.gates (outs ++ pw)) p + 2 := by
  simp only [build] at h
  cases i with
  | zero => simp at h
  | succ i =>
    cases i with
    | zero => simp at h
    | succ i =>
      simp only [List.getElem?_cons_succ, List.getElem?_map] at h
      cases hg : (compact b.shift (mark b.shift b.gates (outs ++ pw)) b.gates)[i]? with
      | none => simp [hg] at h
      | some g =>
        simp only [hg, Option.map_some, Option.some.injEq] at h
        cases g with
        | xor a c =>
          simp only [convGate] at h
          split at h
          · simp at h
          · split at h <;> simp at h
        | and x' y' =>
          simp only [convGate, Gate.and.injEq] at h
          obtain ⟨rfl, rfl⟩ := h
          obtain ⟨p, g0, _, hgp, hup, he, hnp⟩ := compactFrom_origin b.shift _ b.gates b.gates 0 (by simp) i _ hg
          cases g0 with
          | xor a c => simp [mapOps] at he
          | and a c =>
            simp only [mapOps, BGate.and.injEq] at he
            obtain ⟨rfl, rfl⟩ := he
            refine ⟨p, a, c, hgp, hup, rfl, rfl, ?_⟩
            have h0 : newPos (mark b.shift b.gates (outs ++ pw)) 0 = 0 := by simp [newPos]
            omega

/-- with de-duplication on, no two AND gates of the built circuit have the same unordered pair of operands -/
theorem build_andUnique (b : Builder) (ig pw outs : List Nat) (hb : WF b) (hc : b.cacheOn = true) :
    ∀ (i j : Nat) x y x' y', (b.build ig pw outs).gates[i]? = some (Gate.and x y) →
      (b.build ig pw outs).gates[j]? = some (Gate.and x' y') →
      ((x = x' ∧ y = y') ∨ (x = y' ∧ y = x')) → i = j := by
  intro i j x y x' y' hi hj hsame
  have hs : 2 ≤ b.shift := hb.shift2
  obtain ⟨hlen, hcl, _⟩ := mark_spec b.shift b.gates (outs ++ pw) hb.ops
  obtain ⟨p, a, c, hgp, hup, rfl, rfl, rfl⟩ := build_and_origin b ig pw outs hb i x y hi
  obtain ⟨q, a', c', hgq, huq, rfl, rfl, rfl⟩ := build_and_origin b ig pw outs hb j x' y' hj
  obtain ⟨_, ha2, hc2⟩ := hb.andNorm p a c hgp
  obtain ⟨_, ha2', hc2'⟩ := hb.andNorm q a' c' hgq
  have hua := hcl p _ hgp hup a (Or.inl rfl)
  have huc := hcl p _ hgp hup c (Or.inr rfl)
  have hua' := hcl q _ hgq huq a' (Or.inl rfl)
  have huc' := hcl q _ hgq huq c' (Or.inr rfl)
  have inj := final_wire_inj b.shift (mark b.shift b.gates (outs ++ pw)) hs
  have hpair : (a = a' ∧ c = c') ∨ (a = c' ∧ c = a') := by
    rcases hsame with ⟨e1, e2⟩ | ⟨e1, e2⟩
    · exact Or.inl ⟨inj a a' ha2 ha2' hua hua' e1, inj c c' hc2 hc2' huc huc' e2⟩
    · exact Or.inr ⟨inj a c' ha2 hc2' hua huc' e1, inj c a' hc2 ha2' huc hua' e2⟩
  have := hb.andUniq hc p q a c a' c' hgp hgq hpair
  subst this
  rfl

end Builder
end GV
