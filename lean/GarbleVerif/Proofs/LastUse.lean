import GarbleVerif.Model.RegAlloc
/-! Facts about `last_use_map` used by the register-allocation proof. -/
namespace GV
namespace Reg

theorem getD_set {α} (l : List α) (i j : Nat) (v d : α) :
    (l.set i v).getD j d = if i = j ∧ i < l.length then v else l.getD j d := by
  simp only [List.getD_eq_getElem?_getD, List.getElem?_set]
  by_cases h : i = j
  · subst h
    by_cases hl : i < l.length
    · simp [hl]
    · simp [hl, List.getElem?_eq_none (Nat.le_of_not_lt hl)]
  · simp [h]

/-- "`m[a]` is a use at or after `t`, or pinned" -/
def LateUse (m : List LastUse) (a t : Nat) : Prop :=
  m.getD a .never = .pinned ∨ ∃ k, t ≤ k ∧ m.getD a .never = .at k

theorem LateUse.weaken {m a t t'} (h : LateUse m a t) (ht : t' ≤ t) : LateUse m a t' := by
  rcases h with h | ⟨k, hk, h⟩
  · exact Or.inl h
  · exact Or.inr ⟨k, by omega, h⟩

theorem lateUse_set_at {m : List LastUse} {a t : Nat} (x id : Nat) (hid : t ≤ id)
    (h : LateUse m a t) : LateUse (m.set x (.at id)) a t := by
  unfold LateUse at *
  rw [getD_set]
  split
  · exact Or.inr ⟨id, hid, rfl⟩
  · exact h

theorem lateUse_foldl_ops {m : List LastUse} {a t : Nat} (ops : List Nat) (id : Nat) (hid : t ≤ id)
    (h : LateUse m a t) : LateUse (ops.foldl (fun m x => m.set x (.at id)) m) a t := by
  induction ops generalizing m with
  | nil => exact h
  | cons x xs ih => exact ih (lateUse_set_at x id hid h)

theorem foldl_ops_length (ops : List Nat) (id : Nat) (m : List LastUse) :
    (ops.foldl (fun m x => m.set x (.at id)) m).length = m.length := by
  induction ops generalizing m with
  | nil => rfl
  | cons x xs ih => simp [List.foldl_cons, ih]

theorem setAll_length {α} (xs : List Nat) (v : α) (m : List α) :
    (xs.foldl (fun m x => m.set x v) m).length = m.length := by
  induction xs generalizing m with
  | nil => rfl
  | cons x xs ih => simp [List.foldl_cons, ih]

theorem setAll_not_mem {α} (xs : List Nat) (v d : α) (m : List α) (a : Nat) (ha : a ∉ xs) :
    (xs.foldl (fun m x => m.set x v) m).getD a d = m.getD a d := by
  induction xs generalizing m with
  | nil => rfl
  | cons x xs ih =>
    simp only [List.foldl_cons]
    simp only [List.mem_cons, not_or] at ha
    rw [ih _ ha.2, getD_set]
    simp [Ne.symm ha.1]

theorem setAll_mem {α} (xs : List Nat) (v d : α) (m : List α) (a : Nat) (ha : a ∈ xs)
    (hl : a < m.length) : (xs.foldl (fun m x => m.set x v) m).getD a d = v := by
  induction xs generalizing m with
  | nil => simp at ha
  | cons x xs ih =>
    simp only [List.foldl_cons]
    by_cases hx : a ∈ xs
    · exact ih _ hx (by simp [hl])
    · simp only [List.mem_cons] at ha
      have hax : a = x := by
        rcases ha with h | h
        · exact h
        · exact absurd h hx
      subst hax
      rw [setAll_not_mem _ _ _ _ _ hx, getD_set]
      simp [hl]

theorem foldl_ops_hit {m : List LastUse} (ops : List Nat) (id a : Nat) (ha : a ∈ ops)
    (hl : a < m.length) : (ops.foldl (fun m x => m.set x (.at id)) m).getD a .never = .at id :=
  setAll_mem ops _ _ m a ha hl

theorem lastUseGates_length (gs : List Gate) (id : Nat) (m : List LastUse) :
    (lastUseGates gs id m).length = m.length := by
  induction gs generalizing id m with
  | nil => rfl
  | cons g gs ih => simp [lastUseGates, ih, foldl_ops_length]

theorem lastUseGates_late (gs : List Gate) (id : Nat) (m : List LastUse) (a t : Nat) (ht : t ≤ id)
    (h : LateUse m a t) : LateUse (lastUseGates gs id m) a t := by
  induction gs generalizing id m with
  | nil => exact h
  | cons g gs ih =>
    simp only [lastUseGates]
    exact ih (id + 1) _ (by omega) (lateUse_foldl_ops _ id ht h)

/-- an operand of the gate at position `j` is (after the gate loop) last used at or after that gate -/
theorem lastUseGates_operand (gs : List Gate) (id : Nat) (m : List LastUse) (j : Nat) (g : Gate)
    (hg : gs[j]? = some g) (a : Nat) (ha : a ∈ gateOperands g) (hl : a < m.length) :
    LateUse (lastUseGates gs id m) a (id + j) := by
  induction gs generalizing id m j with
  | nil => simp at hg
  | cons g0 gs ih =>
    simp only [lastUseGates]
    cases j with
    | zero =>
      simp only [List.getElem?_cons_zero, Option.some.injEq] at hg
      subst hg
      exact lastUseGates_late gs (id + 1) _ a (id + 0) (by omega)
        (Or.inr ⟨id, by omega, foldl_ops_hit _ id a ha hl⟩)
    | succ j =>
      simp only [List.getElem?_cons_succ] at hg
      have := ih (id + 1) ((gateOperands g0).foldl (fun m a => m.set a (.at id)) m) j hg
        (by rw [foldl_ops_length]; exact hl)
      have e : id + 1 + j = id + (j + 1) := by omega
      rw [e] at this
      exact this

theorem foldl_pinned_length (outs : List Nat) (m : List LastUse) :
    (outs.foldl (fun m o => m.set o .pinned) m).length = m.length := by
  induction outs generalizing m with
  | nil => rfl
  | cons x xs ih => simp [List.foldl_cons, ih]

theorem foldl_pinned_late (outs : List Nat) (m : List LastUse) (a t : Nat) (h : LateUse m a t) :
    LateUse (outs.foldl (fun m o => m.set o .pinned) m) a t := by
  induction outs generalizing m with
  | nil => exact h
  | cons x xs ih =>
    apply ih
    unfold LateUse at *
    rw [getD_set]
    split
    · exact Or.inl rfl
    · exact h

theorem foldl_pinned_hit (outs : List Nat) (m : List LastUse) (o : Nat) (ho : o ∈ outs)
    (hl : o < m.length) : (outs.foldl (fun m o => m.set o .pinned) m).getD o .never = .pinned :=
  setAll_mem outs _ _ m o ho hl

/-- **operands are late uses**: every operand of gate `id` is pinned or last used at `k ≥ id` -/
theorem lastUseMap_operand (c : Circuit) (j : Nat) (g : Gate) (hg : c.gates[j]? = some g)
    (a : Nat) (ha : a ∈ gateOperands g) (hl : a < c.wiresLen) :
    LateUse (lastUseMap c) a (c.totalInputs + j) := by
  simp only [lastUseMap]
  apply foldl_pinned_late
  exact lastUseGates_operand c.gates c.totalInputs _ j g hg a ha (by simpa using hl)

theorem lastUseMap_output (c : Circuit) (o : Nat) (ho : o ∈ c.outputGates) (hl : o < c.wiresLen) :
    (lastUseMap c).getD o .never = .pinned := by
  simp only [lastUseMap]
  exact foldl_pinned_hit _ _ o ho (by rw [lastUseGates_length]; simpa using hl)

end Reg
end GV
