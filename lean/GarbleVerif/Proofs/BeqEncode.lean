import GarbleVerif.Model.SrcSem
import GarbleVerif.Proofs.Encoding
/-! Structural equality of well-typed values of one type is equality of their encodings: what `==` on aggregates
compares, bit by bit. -/
namespace GV
namespace Src

theorem append_eq_of_len {α} (a b c d : List α) (h : a.length = c.length) : a ++ b = c ++ d ↔ a = c ∧ b = d := by
  constructor
  · intro he
    exact List.append_inj he h
  · rintro ⟨rfl, rfl⟩; rfl

/-- two variant names with the same tag number are the same name -/
theorem find?_same_index : ∀ (vs : Variants) (a b : String) (i : Nat) (u u' : Bool) (f f' : TyList),
    vs.find? a = some (i, u, f) → vs.find? b = some (i, u', f') → a = b
  | .nil, _, _, _, _, _, _, _, h, _ => by simp [Variants.find?] at h
  | .cons n u0 fs r, a, b, i, u, u', f, f', ha, hb => by
    simp only [Variants.find?] at ha hb
    split at ha
    · rename_i hna
      simp only [Option.some.injEq, Prod.mk.injEq] at ha
      obtain ⟨rfl, _, _⟩ := ha
      split at hb
      · rename_i hnb
        have e1 : n = a := by simpa using hna
        have e2 : n = b := by simpa using hnb
        rw [← e1, ← e2]
      · split at hb
        · simp only [Option.some.injEq, Prod.mk.injEq] at hb
          omega
        · simp at hb
    · split at ha
      · rename_i j u1 f1 hra
        simp only [Option.some.injEq, Prod.mk.injEq] at ha
        obtain ⟨rfl, _, _⟩ := ha
        split at hb
        · simp only [Option.some.injEq, Prod.mk.injEq] at hb
          omega
        · split at hb
          · rename_i j2 u2 f2 hrb
            simp only [Option.some.injEq, Prod.mk.injEq] at hb
            have : j2 = j := by omega
            subst this
            exact find?_same_index r a b j2 u1 u2 f1 f2 hra hrb
          · simp at hb
      · simp at ha

mutual
theorem beq_encode : ∀ (x y : Val) (t : Ty), x.hasType t = true → y.hasType t = true →
    (Val.beq x y = true ↔ x.encode t = y.encode t)
  | .bool a, y, .bool, _, hy => by
    cases y <;> simp [Val.hasType] at hy
    simp [Val.beq, Val.encode]
  | .int a, y, .int k, hx, hy => by
    cases y <;> simp only [Val.hasType] at hy <;> try (simp at hy)
    rename_i b
    simp only [Val.beq, Val.encode, beq_iff_eq]
    constructor
    · rintro rfl; rfl
    · intro he
      have h1 := int_roundtrip k a hx
      have h2 := int_roundtrip k b hy
      rw [he] at h1
      rw [h1] at h2
      exact h2
  | .array vs, y, .array t n, hx, hy => by
    cases y <;> simp only [Val.hasType] at hy <;> try (simp at hy)
    rename_i ws
    simp only [Val.hasType, Bool.and_eq_true, beq_iff_eq] at hx hy
    simp only [Val.beq, Val.encode]
    exact beqAll_encode vs ws t hx.2 hy.2 (by rw [hx.1, hy.1])
  | .tuple vs, y, .tuple ts, hx, hy => by
    cases y <;> simp only [Val.hasType] at hy <;> try (simp at hy)
    rename_i ws
    simp only [Val.hasType] at hx
    simp only [Val.beq, Val.encode]
    exact beqEach_encode vs ws ts hx hy
  | .struct n fvs, y, .struct n' fs, hx, hy => by
    cases y <;> simp only [Val.hasType] at hy <;> try (simp at hy)
    rename_i m fws
    simp only [Val.hasType, Bool.and_eq_true] at hx
    simp only [Val.beq, Val.encode]
    exact beqFields_encode fvs fws fs hx.2 hy.2
  | .enum n v u vs, y, .enum n' variants, hx, hy => by
    cases y <;> simp only [Val.hasType] at hy <;> try (simp at hy)
    rename_i m w u' ws
    simp only [Val.hasType, Bool.and_eq_true] at hx
    obtain ⟨_, hx2⟩ := hx
    obtain ⟨_, hy2⟩ := hy
    split at hx2
    · rename_i i ux fts hf
      split at hy2
      · rename_i j uy gts hg
        simp only [Bool.and_eq_true] at hx2 hy2
        simp only [Val.beq, Val.encode, hf, hg, Bool.and_eq_true, beq_iff_eq]
        have hi := Variants.find?_lt_length variants v i ux fts hf
        have hj := Variants.find?_lt_length variants w j uy gts hg
        have hl := Variants.length_le_pow_tagSize variants
        constructor
        · rintro ⟨rfl, hb⟩
          rw [hf] at hg
          simp only [Option.some.injEq, Prod.mk.injEq] at hg
          obtain ⟨rfl, _, rfl⟩ := hg
          have := (beqEach_encode vs ws fts hx2.2 hy2.2).mp hb
          rw [this]
        · intro he
          rw [List.append_assoc, List.append_assoc,
            append_eq_of_len _ _ _ _ (by rw [natToBits_length, natToBits_length])] at he
          obtain ⟨htag, hrest⟩ := he
          have hij : i = j := by
            have := congrArg bitsToNat htag
            rwa [bitsToNat_natToBits, bitsToNat_natToBits, Nat.mod_eq_of_lt (by omega), Nat.mod_eq_of_lt (by omega)] at this
          subst hij
          -- the same tag number: the same variant
          have hvw : v = w := find?_same_index variants v w i ux uy fts gts hf hg
          subst hvw
          rw [hf] at hg
          simp only [Option.some.injEq, Prod.mk.injEq] at hg
          obtain ⟨_, _, rfl⟩ := hg
          refine ⟨rfl, ?_⟩
          have hlen : (vs.encodeEach fts).length = (ws.encodeEach fts).length := by
            rw [ValList.encodeEach_length vs fts hx2.2, ValList.encodeEach_length ws fts hy2.2]
          rw [append_eq_of_len _ _ _ _ hlen] at hrest
          exact (beqEach_encode vs ws fts hx2.2 hy2.2).mpr hrest.1
      · simp at hy2
    · simp at hx2
  | .bool _, _, .int _, hx, _ => by simp [Val.hasType] at hx
  | .bool _, _, .array _ _, hx, _ => by simp [Val.hasType] at hx
  | .bool _, _, .tuple _, hx, _ => by simp [Val.hasType] at hx
  | .bool _, _, .struct _ _, hx, _ => by simp [Val.hasType] at hx
  | .bool _, _, .enum _ _, hx, _ => by simp [Val.hasType] at hx
  | .int _, _, .bool, hx, _ => by simp [Val.hasType] at hx
  | .int _, _, .array _ _, hx, _ => by simp [Val.hasType] at hx
  | .int _, _, .tuple _, hx, _ => by simp [Val.hasType] at hx
  | .int _, _, .struct _ _, hx, _ => by simp [Val.hasType] at hx
  | .int _, _, .enum _ _, hx, _ => by simp [Val.hasType] at hx
  | .array _, _, .bool, hx, _ => by simp [Val.hasType] at hx
  | .array _, _, .int _, hx, _ => by simp [Val.hasType] at hx
  | .array _, _, .tuple _, hx, _ => by simp [Val.hasType] at hx
  | .array _, _, .struct _ _, hx, _ => by simp [Val.hasType] at hx
  | .array _, _, .enum _ _, hx, _ => by simp [Val.hasType] at hx
  | .tuple _, _, .bool, hx, _ => by simp [Val.hasType] at hx
  | .tuple _, _, .int _, hx, _ => by simp [Val.hasType] at hx
  | .tuple _, _, .array _ _, hx, _ => by simp [Val.hasType] at hx
  | .tuple _, _, .struct _ _, hx, _ => by simp [Val.hasType] at hx
  | .tuple _, _, .enum _ _, hx, _ => by simp [Val.hasType] at hx
  | .struct _ _, _, .bool, hx, _ => by simp [Val.hasType] at hx
  | .struct _ _, _, .int _, hx, _ => by simp [Val.hasType] at hx
  | .struct _ _, _, .array _ _, hx, _ => by simp [Val.hasType] at hx
  | .struct _ _, _, .tuple _, hx, _ => by simp [Val.hasType] at hx
  | .struct _ _, _, .enum _ _, hx, _ => by simp [Val.hasType] at hx
  | .enum _ _ _ _, _, .bool, hx, _ => by simp [Val.hasType] at hx
  | .enum _ _ _ _, _, .int _, hx, _ => by simp [Val.hasType] at hx
  | .enum _ _ _ _, _, .array _ _, hx, _ => by simp [Val.hasType] at hx
  | .enum _ _ _ _, _, .tuple _, hx, _ => by simp [Val.hasType] at hx
  | .enum _ _ _ _, _, .struct _ _, hx, _ => by simp [Val.hasType] at hx
theorem beqAll_encode : ∀ (vs ws : ValList) (t : Ty), vs.allHaveType t = true → ws.allHaveType t = true →
    vs.length = ws.length → (ValList.beq vs ws = true ↔ vs.encodeAll t = ws.encodeAll t)
  | .nil, .nil, _, _, _, _ => by simp [ValList.beq, ValList.encodeAll]
  | .nil, .cons _ _, _, _, _, hl => by simp [ValList.length] at hl
  | .cons _ _, .nil, _, _, _, hl => by simp [ValList.length] at hl
  | .cons v vs, .cons w ws, t, hx, hy, hl => by
    simp only [ValList.allHaveType, Bool.and_eq_true] at hx hy
    simp only [ValList.length, Nat.add_right_cancel_iff] at hl
    simp only [ValList.beq, ValList.encodeAll, Bool.and_eq_true]
    rw [append_eq_of_len _ _ _ _ (by rw [Val.encode_length v t hx.1, Val.encode_length w t hy.1]),
      beq_encode v w t hx.1 hy.1, beqAll_encode vs ws t hx.2 hy.2 hl]
theorem beqEach_encode : ∀ (vs ws : ValList) (ts : TyList), vs.haveTypes ts = true → ws.haveTypes ts = true →
    (ValList.beq vs ws = true ↔ vs.encodeEach ts = ws.encodeEach ts)
  | .nil, .nil, .nil, _, _ => by simp [ValList.beq, ValList.encodeEach]
  | .nil, _, .cons _ _, hx, _ => by simp [ValList.haveTypes] at hx
  | .cons _ _, _, .nil, hx, _ => by simp [ValList.haveTypes] at hx
  | _, .nil, .cons _ _, _, hy => by simp [ValList.haveTypes] at hy
  | _, .cons _ _, .nil, _, hy => by simp [ValList.haveTypes] at hy
  | .cons v vs, .cons w ws, .cons t ts, hx, hy => by
    simp only [ValList.haveTypes, Bool.and_eq_true] at hx hy
    simp only [ValList.beq, ValList.encodeEach, Bool.and_eq_true]
    rw [append_eq_of_len _ _ _ _ (by rw [Val.encode_length v t hx.1, Val.encode_length w t hy.1]),
      beq_encode v w t hx.1 hy.1, beqEach_encode vs ws ts hx.2 hy.2]
theorem beqFields_encode : ∀ (vs ws : FieldVals) (fs : Fields), vs.haveTypes fs = true → ws.haveTypes fs = true →
    (FieldVals.beq vs ws = true ↔ vs.encodeEach fs = ws.encodeEach fs)
  | .nil, .nil, .nil, _, _ => by simp [FieldVals.beq, FieldVals.encodeEach]
  | .nil, _, .cons _ _ _, hx, _ => by simp [FieldVals.haveTypes] at hx
  | .cons _ _ _, _, .nil, hx, _ => by simp [FieldVals.haveTypes] at hx
  | _, .nil, .cons _ _ _, _, hy => by simp [FieldVals.haveTypes] at hy
  | _, .cons _ _ _, .nil, _, hy => by simp [FieldVals.haveTypes] at hy
  | .cons n v vs, .cons m w ws, .cons f t ts, hx, hy => by
    simp only [FieldVals.haveTypes, Bool.and_eq_true, beq_iff_eq] at hx hy
    obtain ⟨⟨rfl, hx1⟩, hx2⟩ := hx
    obtain ⟨⟨rfl, hy1⟩, hy2⟩ := hy
    simp only [FieldVals.beq, FieldVals.encodeEach, Bool.and_eq_true, beq_self_eq_true, true_and]
    rw [append_eq_of_len _ _ _ _ (by rw [Val.encode_length v t hx1, Val.encode_length w t hy1]),
      beq_encode v w t hx1 hy1, beqFields_encode vs ws ts hx2 hy2]
end

end Src
end GV
