import GarbleVerif.Proofs.BuildSound
import GarbleVerif.Proofs.LastUse
/-! C15, first sentence: every gate `build` keeps (apart from the two constant gates)
reaches an output. -/
namespace GV
namespace Builder

/-- builder-level reachability from the roots -/
inductive Reach (shift : Nat) (gates : List BGate) (roots : List Nat) : Nat → Prop where
  | root {r : Nat} : r ∈ roots → Reach shift gates roots r
  | op {w o : Nat} {g : BGate} : Reach shift gates roots w → shift ≤ w → gates[w - shift]? = some g →
      opsOf g o → Reach shift gates roots o

/-- "every marked gate is reachable" -/
def AllReach (shift : Nat) (gates : List BGate) (roots : List Nat) (need : List Bool) : Prop :=
  ∀ p, need.getD p false = true → Reach shift gates roots (shift + p)

theorem markWire_allReach {shift : Nat} {gates : List BGate} {roots : List Nat} {need : List Bool}
    (h : AllReach shift gates roots need) (w : Nat) (hw : Reach shift gates roots w) :
    AllReach shift gates roots (markWire shift need w) := by
  intro p hp
  simp only [markWire] at hp
  split at hp
  · rename_i hs
    rw [Reg.getD_set] at hp
    split at hp
    · rename_i he
      have : shift + p = w := by omega
      rw [this]; exact hw
    · exact h p hp
  · exact h p hp

theorem markStep_allReach {shift : Nat} {gates : List BGate} {roots : List Nat} {need : List Bool}
    (h : AllReach shift gates roots need) (k : Nat) :
    AllReach shift gates roots (markStep shift gates need k) := by
  simp only [markStep]
  split
  · rename_i hk
    split
    · rename_i g hg
      have hr := h k hk
      have hg' : gates[shift + k - shift]? = some g := by simpa using hg
      have r1 : Reach shift gates roots (gateOps g).1 :=
        Reach.op hr (by omega) hg' ((opsOf_gateOps g _).mpr (Or.inl rfl))
      have r2 : Reach shift gates roots (gateOps g).2 :=
        Reach.op hr (by omega) hg' ((opsOf_gateOps g _).mpr (Or.inr rfl))
      exact markWire_allReach (markWire_allReach h _ r1) _ r2
    · exact h
  · exact h

theorem sweep_allReach {shift : Nat} {gates : List BGate} {roots : List Nat} (k : Nat) {need : List Bool}
    (h : AllReach shift gates roots need) : AllReach shift gates roots (sweep shift gates k need) := by
  induction k generalizing need with
  | zero => exact h
  | succ k ih => exact ih (markStep_allReach h k)

/-- **minimality of the marking**: only gates reachable from the roots are kept -/
theorem mark_reach (shift : Nat) (gates : List BGate) (roots : List Nat) :
    AllReach shift gates roots (mark shift gates roots) := by
  apply sweep_allReach
  -- the roots
  suffices ∀ (rs : List Nat) (need : List Bool), (∀ r, r ∈ rs → r ∈ roots) →
      AllReach shift gates roots need → AllReach shift gates roots (rs.foldl (markWire shift) need) from
    this roots _ (fun _ h => h) (by
      intro p hp
      simp [List.getD_eq_getElem?_getD, List.getElem?_replicate] at hp
      split at hp <;> simp at hp)
  intro rs
  induction rs with
  | nil => intro need _ h; exact h
  | cons r rs ih =>
    intro need hsub h
    simp only [List.foldl_cons]
    exact ih _ (fun x hx => hsub x (by simp [hx])) (markWire_allReach h r (Reach.root (hsub r (by simp))))

/-! ### the compacted list contains every used gate at its new position -/

theorem compactFrom_get (shift : Nat) (used : List Bool) (gates : List BGate)
    (gs : List BGate) (k : Nat) (hgs : gs = gates.drop k) (p : Nat) (g : BGate) (hkp : k ≤ p)
    (hg : gates[p]? = some g) (hu : used.getD p false = true) :
    (compactFrom shift used k gs)[newPos used p - newPos used k]? = some (mapOps (remap shift used) g) := by
  induction gs generalizing k with
  | nil =>
    have : gates.length ≤ k := by
      have := congrArg List.length hgs
      simp at this; omega
    rw [List.getElem?_eq_none (by omega)] at hg; simp at hg
  | cons g0 gs ih =>
    have hg0 : gates[k]? = some g0 := by
      have := congrArg (fun l => l[0]?) hgs
      simpa [List.getElem?_drop] using this.symm
    have hgs' : gs = gates.drop (k + 1) := by
      have := congrArg List.tail hgs
      simpa [List.tail_drop] using this
    simp only [compactFrom]
    rcases Nat.lt_or_ge k p with hlt | hge
    · have hmono := newPos_mono used (p := k + 1) (k := p) (by omega)
      split
      · rename_i huk
        have hku := getD_true_lt huk
        have hs := newPos_succ_used used k hku (getD_true_getElem huk hku)
        have := ih (k + 1) hgs' (by omega)
        have e : newPos used p - newPos used k = (newPos used p - newPos used (k + 1)) + 1 := by omega
        rw [e, List.getElem?_cons_succ]
        exact this
      · rename_i huk
        have hs := newPos_succ_unused used k (by simpa using huk)
        have := ih (k + 1) hgs' (by omega)
        rw [hs] at this
        exact this
    · have : p = k := by omega
      subst this
      rw [hg0] at hg
      simp only [Option.some.injEq] at hg
      subst hg
      simp only [hu, if_true, Nat.sub_self, List.getElem?_cons_zero]

theorem compact_get (shift : Nat) (used : List Bool) (gates : List BGate) (p : Nat) (g : BGate)
    (hg : gates[p]? = some g) (hu : used.getD p false = true) :
    (compact shift used gates)[newPos used p]? = some (mapOps (remap shift used) g) := by
  have := compactFrom_get shift used gates gates 0 (by simp) p g (Nat.zero_le _) hg hu
  simpa [compact, newPos] using this

end Builder

/-- reachability from the outputs in an SSA circuit -/
inductive FReach (c : Circuit) : Nat → Prop where
  | out {o : Nat} : o ∈ c.outputGates → FReach c o
  | op {w o : Nat} {g : Gate} : FReach c w → c.totalInputs ≤ w → c.gates[w - c.totalInputs]? = some g →
      o ∈ Reg.gateOperands g → FReach c o

namespace Builder

theorem convGate_operand {shift : Nat} (hs : 2 ≤ shift) (g : BGate) (r : Nat → Nat) (o : Nat)
    (ho : opsOf g o) (hro : shift ≤ r o) :
    fIdx shift (r o) ∈ Reg.gateOperands (convGate shift (mapOps r g)) := by
  have h1 : r o ≠ 1 := by omega
  cases g with
  | xor x y =>
    simp only [opsOf] at ho
    simp only [mapOps, convGate]
    split
    · rename_i hx
      have : o = y := by
        rcases ho with rfl | rfl
        · exact absurd hx h1
        · rfl
      subst this; simp [Reg.gateOperands]
    · split
      · rename_i hy
        have : o = x := by
          rcases ho with rfl | rfl
          · rfl
          · exact absurd hy h1
        subst this; simp [Reg.gateOperands]
      · rcases ho with rfl | rfl <;> simp [Reg.gateOperands]
  | and x y =>
    simp only [opsOf] at ho
    simp only [mapOps, convGate]
    rcases ho with rfl | rfl <;> simp [Reg.gateOperands]

/-- **every kept gate reaches an output** (C15, first sentence, model level) -/
theorem build_reach (b : Builder) (ig pw outs : List Nat) (hp : BuildPre b ig (outs ++ pw)) :
    ∀ i, 2 ≤ i → i < (b.build ig pw outs).gates.length →
      FReach (b.build ig pw outs) ((b.build ig pw outs).totalInputs + i) := by
  have hs2 : 2 ≤ b.shift := hp.wf.shift2
  obtain ⟨hlen, hcl, hroots⟩ := mark_spec b.shift b.gates (outs ++ pw) hp.wf.ops
  have hmr := mark_reach b.shift b.gates (outs ++ pw)
  -- abbreviations (kept as `have … : _ = _` so that `build` can be unfolded in a controlled way)
  generalize hused : mark b.shift b.gates (outs ++ pw) = used at *
  obtain ⟨c, hcdef⟩ : ∃ c, c = b.build ig pw outs := ⟨_, rfl⟩
  rw [← hcdef]
  have hgates : c.gates = .xor 0 0 :: .not (b.shift - 2) :: (compact b.shift used b.gates).map (convGate b.shift) := by
    rw [hcdef]; simp only [build, hused]
  have houts : c.outputGates = pw.map (fun w => fIdx b.shift (remap b.shift used w)) ++
      outs.map (fun w => fIdx b.shift (remap b.shift used w)) := by
    rw [hcdef]; simp only [build, hused]
  have hti : c.totalInputs = b.shift - 2 := by
    rw [hcdef]; simp [build, Circuit.totalInputs, hp.shift]
  -- image of a used gate
  have fused : ∀ p, p < b.gates.length → used.getD p false = true →
      fIdx b.shift (remap b.shift used (b.shift + p)) = b.shift + newPos used p := by
    intro p hpl hu
    have hpu : p < used.length := by rw [hlen]; exact hpl
    rw [remap_used b.shift used p hpu (getD_true_getElem hu hpu), fIdx_gate hs2 (by omega)]
  -- the transport
  have T : ∀ w, Reach b.shift b.gates (outs ++ pw) w → w < b.counter ∧
      (b.shift ≤ w → used.getD (w - b.shift) false = true ∧
        FReach c (b.shift + newPos used (w - b.shift))) := by
    intro w hw
    induction hw with
    | root hr =>
      rename_i r
      have hrc := hp.roots r hr
      refine ⟨hrc, fun hsr => ?_⟩
      have hu := hroots r hr hsr (by simpa [counter] using hrc)
      refine ⟨hu, ?_⟩
      have hpl : r - b.shift < b.gates.length := by simp [counter] at hrc; omega
      have := fused (r - b.shift) hpl hu
      have e : b.shift + (r - b.shift) = r := by omega
      rw [e] at this
      rw [← this]
      apply FReach.out
      rw [houts]
      simp only [List.mem_append, List.mem_map]
      simp only [List.mem_append] at hr
      rcases hr with hr | hr
      · exact Or.inr ⟨r, hr, rfl⟩
      · exact Or.inl ⟨r, hr, rfl⟩
    | op hw hsw hg ho ih =>
      rename_i w o g
      obtain ⟨hwc, ih2⟩ := ih
      obtain ⟨hu, hfr⟩ := ih2 hsw
      have hops := hp.wf.ops (w - b.shift) g hg
      have holt : o < b.shift + (w - b.shift) := by
        cases g <;> simp only [opsOf] at ho <;> simp only [opsLt] at hops <;> omega
      refine ⟨by omega, fun hso => ?_⟩
      have huo := hcl (w - b.shift) g hg hu o (by cases g <;> exact ho) hso
      refine ⟨huo, ?_⟩
      have hpl : w - b.shift < b.gates.length := by simp [counter] at hwc; omega
      have hql : o - b.shift < b.gates.length := by omega
      have himg := fused (o - b.shift) hql huo
      have e : b.shift + (o - b.shift) = o := by omega
      rw [e] at himg
      -- the final gate at the image of `w`
      have hcg := compact_get b.shift used b.gates (w - b.shift) g hg hu
      have hfg : c.gates[b.shift + newPos used (w - b.shift) - c.totalInputs]? =
          some (convGate b.shift (mapOps (remap b.shift used) g)) := by
        rw [hti, hgates]
        have e2 : b.shift + newPos used (w - b.shift) - (b.shift - 2) = newPos used (w - b.shift) + 2 := by omega
        rw [e2]
        simp [List.getElem?_map, hcg]
      have hro : b.shift ≤ remap b.shift used o := by
        have hqu : o - b.shift < used.length := by rw [hlen]; exact hql
        have := remap_used b.shift used (o - b.shift) hqu (getD_true_getElem huo hqu)
        rw [e] at this; omega
      have hmem := convGate_operand hs2 g (remap b.shift used) o ho hro
      rw [himg] at hmem
      exact FReach.op hfr (by rw [hti]; omega) hfg hmem
  -- every gate beyond the two constants is the image of a used gate
  intro i hi2 hil
  rw [hgates] at hil
  simp only [List.length_cons, List.length_map] at hil
  have hil' : i - 2 < (compact b.shift used b.gates).length := by omega
  obtain ⟨p, g, _, hgp, hup, _, hn⟩ := compactFrom_origin b.shift used b.gates b.gates 0 (by simp) (i - 2)
    _ (List.getElem?_eq_getElem hil')
  have hnp0 : newPos used 0 = 0 := by simp [newPos]
  rw [hnp0, Nat.zero_add] at hn
  have hr := hmr p hup
  obtain ⟨_, ht⟩ := T _ hr
  obtain ⟨_, hfr⟩ := ht (by omega)
  simp only [Nat.add_sub_cancel_left] at hfr
  rw [hti]
  have e3 : b.shift - 2 + i = b.shift + newPos used p := by omega
  rw [e3]; exact hfr

end Builder
end GV
