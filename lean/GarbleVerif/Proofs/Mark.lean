import GarbleVerif.Proofs.Compact
/-! The mark phase of `remove_unused_gates`: the backward sweep yields a marking that
contains the roots and is closed under operands. -/
namespace GV
namespace Builder

theorem markWire_length (shift : Nat) (need : List Bool) (w : Nat) :
    (markWire shift need w).length = need.length := by
  simp only [markWire]; split <;> simp

theorem markWire_mono (shift : Nat) (need : List Bool) (w i : Nat)
    (h : need.getD i false = true) : (markWire shift need w).getD i false = true := by
  simp only [markWire]
  split
  · by_cases hi : w - shift = i
    · subst hi
      have hlt : w - shift < need.length := by
        rcases Nat.lt_or_ge (w - shift) need.length with hlt | hge
        · exact hlt
        · simp [List.getD_eq_getElem?_getD, List.getElem?_eq_none hge] at h
      simp [List.getD_eq_getElem?_getD, List.getElem?_set, hlt]
    · simpa [List.getD_eq_getElem?_getD, List.getElem?_set, hi] using h
  · exact h

theorem markWire_hit (shift : Nat) (need : List Bool) (w : Nat) (h1 : shift ≤ w)
    (h2 : w - shift < need.length) : (markWire shift need w).getD (w - shift) false = true := by
  simp [markWire, h1, List.getD_eq_getElem?_getD, List.getElem?_set, h2]

theorem markWire_other (shift : Nat) (need : List Bool) (w i : Nat) (h : w < shift + i) :
    (markWire shift need w).getD i false = need.getD i false := by
  simp only [markWire]
  split
  · have : w - shift ≠ i := by omega
    simp [List.getD_eq_getElem?_getD, List.getElem?_set, this]
  · rfl

def opsOf (g : BGate) (o : Nat) : Prop :=
  match g with
  | .xor a b => o = a ∨ o = b
  | .and a b => o = a ∨ o = b

theorem opsOf_gateOps (g : BGate) (o : Nat) : opsOf g o ↔ o = (gateOps g).1 ∨ o = (gateOps g).2 := by
  cases g <;> simp [opsOf, gateOps]

theorem opsLt_gateOps {g : BGate} {n : Nat} (h : opsLt g n) : (gateOps g).1 < n ∧ (gateOps g).2 < n := by
  cases g <;> exact h

structure StepSpec (shift : Nat) (g : BGate) (k : Nat) (need need' : List Bool) : Prop where
  len : need'.length = need.length
  mono : ∀ i, need.getD i false = true → need'.getD i false = true
  high : ∀ i, k ≤ i → need'.getD i false = need.getD i false
  ops : need.getD k false = true → ∀ o, opsOf g o → shift ≤ o → need'.getD (o - shift) false = true

theorem markStep_spec (shift : Nat) (gates : List BGate) (need : List Bool) (k : Nat) (g : BGate)
    (hk : k < need.length) (hg : gates[k]? = some g) (hops : opsLt g (shift + k)) :
    StepSpec shift g k need (markStep shift gates need k) := by
  obtain ⟨h1, h2⟩ := opsLt_gateOps hops
  simp only [markStep]
  split
  · rename_i hn
    simp only [hg]
    refine ⟨by simp [markWire_length], ?_, ?_, ?_⟩
    · intro i hi
      exact markWire_mono _ _ _ _ (markWire_mono _ _ _ _ hi)
    · intro i hi
      rw [markWire_other _ _ _ _ (by omega), markWire_other _ _ _ _ (by omega)]
    · intro _ o ho hso
      rw [opsOf_gateOps] at ho
      rcases ho with rfl | rfl
      · apply markWire_mono
        exact markWire_hit _ _ _ hso (by omega)
      · exact markWire_hit _ _ _ hso (by rw [markWire_length]; omega)
  · rename_i hn
    exact ⟨rfl, fun _ h => h, fun _ _ => rfl, fun h => absurd h hn⟩

/-- closedness above `k` -/
def ClosedFrom (shift : Nat) (gates : List BGate) (k : Nat) (need : List Bool) : Prop :=
  ∀ p g, k ≤ p → gates[p]? = some g → need.getD p false = true →
    ∀ o, opsOf g o → shift ≤ o → need.getD (o - shift) false = true

theorem sweep_spec (shift : Nat) (gates : List BGate)
    (hwf : ∀ i g, gates[i]? = some g → opsLt g (shift + i))
    (k : Nat) (need : List Bool) (hlen : need.length = gates.length) (hk : k ≤ gates.length)
    (hc : ClosedFrom shift gates k need) :
    (sweep shift gates k need).length = gates.length ∧
    (∀ i, need.getD i false = true → (sweep shift gates k need).getD i false = true) ∧
    ClosedFrom shift gates 0 (sweep shift gates k need) := by
  induction k generalizing need with
  | zero => exact ⟨hlen, fun _ h => h, hc⟩
  | succ k ih =>
    have hkl : k < gates.length := by omega
    have hg : gates[k]? = some gates[k] := List.getElem?_eq_getElem hkl
    have sp := markStep_spec shift gates need k gates[k] (by omega) hg (hwf k _ hg)
    have hc' : ClosedFrom shift gates k (markStep shift gates need k) := by
      intro p g hp hgp hn o ho hso
      rw [sp.high p hp] at hn
      rcases Nat.lt_or_ge k p with hlt | hge
      · exact sp.mono _ (hc p g (by omega) hgp hn o ho hso)
      · have : p = k := by omega
        subst this
        rw [hg] at hgp
        simp only [Option.some.injEq] at hgp
        subst hgp
        exact sp.ops hn o ho hso
    obtain ⟨l, m, c⟩ := ih (markStep shift gates need k) (by rw [sp.len, hlen]) (by omega) hc'
    exact ⟨l, fun i hi => m i (sp.mono i hi), c⟩

theorem foldl_markWire_length (shift : Nat) (roots : List Nat) (need : List Bool) :
    (roots.foldl (markWire shift) need).length = need.length := by
  induction roots generalizing need with
  | nil => rfl
  | cons r rs ih => simp [List.foldl_cons, ih, markWire_length]

theorem foldl_markWire_mono (shift : Nat) (roots : List Nat) (need : List Bool) (i : Nat)
    (h : need.getD i false = true) : (roots.foldl (markWire shift) need).getD i false = true := by
  induction roots generalizing need with
  | nil => exact h
  | cons r rs ih => exact ih _ (markWire_mono _ _ _ _ h)

theorem foldl_markWire_hit (shift : Nat) (roots : List Nat) (need : List Bool) (r : Nat)
    (hr : r ∈ roots) (h1 : shift ≤ r) (h2 : r - shift < need.length) :
    (roots.foldl (markWire shift) need).getD (r - shift) false = true := by
  induction roots generalizing need with
  | nil => simp at hr
  | cons a rs ih =>
    simp only [List.mem_cons] at hr
    simp only [List.foldl_cons]
    rcases hr with rfl | hr
    · exact foldl_markWire_mono _ _ _ _ (markWire_hit _ _ _ h1 h2)
    · exact ih _ hr (by rw [markWire_length]; exact h2)

/-- **the marking is closed under operands and contains the roots** -/
theorem mark_spec (shift : Nat) (gates : List BGate) (roots : List Nat)
    (hwf : ∀ i g, gates[i]? = some g → opsLt g (shift + i)) :
    (mark shift gates roots).length = gates.length ∧
    Closed shift (mark shift gates roots) gates ∧
    ∀ r, r ∈ roots → shift ≤ r → r < shift + gates.length →
      (mark shift gates roots).getD (r - shift) false = true := by
  have hl := foldl_markWire_length shift roots (List.replicate gates.length false)
  obtain ⟨l, m, c⟩ := sweep_spec shift gates hwf gates.length
    (roots.foldl (markWire shift) (List.replicate gates.length false))
    (by rw [hl]; simp) (Nat.le_refl _)
    (by
      intro p g hp hgp
      have : ¬ p < gates.length := by omega
      rw [List.getElem?_eq_none (by omega)] at hgp
      simp at hgp)
  refine ⟨l, ?_, ?_⟩
  · intro p g hgp hu o ho hso
    have ho' : opsOf g o := by cases g <;> exact ho
    exact c p g (Nat.zero_le _) hgp hu o ho' hso
  · intro r hr h1 h2
    exact m _ (foldl_markWire_hit shift roots _ r hr h1 (by rw [List.length_replicate]; omega))

end Builder
end GV
