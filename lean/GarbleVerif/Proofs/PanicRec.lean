import GarbleVerif.Proofs.Requests
/-! The panic record at builder level refines the abstract panic state
`Option info` ("first failure wins"). -/
namespace GV
namespace Builder

theorem zipWith_congr_mem {α β γ} {f g : α → β → γ} (xs : List α) (ys : List β)
    (h : ∀ a, a ∈ xs → ∀ c, c ∈ ys → f a c = g a c) : List.zipWith f xs ys = List.zipWith g xs ys := by
  induction xs generalizing ys with
  | nil => simp
  | cons x xs ih =>
    cases ys with
    | nil => simp
    | cons y ys =>
      simp only [List.zipWith_cons_cons]
      rw [h x (by simp) y (by simp), ih ys (fun a ha c hc => h a (by simp [ha]) c (by simp [hc]))]

theorem zipWith_fst {α β γ} (f : α → γ) (xs : List α) (ys : List β) (h : xs.length = ys.length) :
    List.zipWith (fun x _ => f x) xs ys = xs.map f := by
  induction xs generalizing ys with
  | nil => simp
  | cons x xs ih =>
    cases ys with
    | nil => simp at h
    | cons y ys => simp only [List.zipWith_cons_cons, List.map_cons]; rw [ih ys (by simpa using h)]

theorem zipWith_snd {α β γ} (f : β → γ) (xs : List α) (ys : List β) (h : xs.length = ys.length) :
    List.zipWith (fun _ y => f y) xs ys = ys.map f := by
  induction xs generalizing ys with
  | nil => cases ys <;> simp_all
  | cons x xs ih =>
    cases ys with
    | nil => simp at h
    | cons y ys => simp only [List.zipWith_cons_cons, List.map_cons]; rw [ih ys (by simpa using h)]

/-- post-condition for a list of result wires with values `vs` -/
structure ListPost (b : Builder) (r : List Nat × Builder) (vs : List Bool → List Bool) : Prop where
  wf : WF r.2
  ext : Ext b r.2
  lt : ∀ w, w ∈ r.1 → w < r.2.counter
  sem : ∀ inp, inp.length + 2 = b.shift → r.1.map (r.2.sem inp) = vs inp

theorem muxWires_post {b : Builder} (hb : WF b) {s : Nat} (hs : s < b.counter) :
    ∀ (xs ys : List Nat), (∀ x, x ∈ xs → x < b.counter) → (∀ y, y ∈ ys → y < b.counter) →
    ListPost b (muxWires b s xs ys)
      (fun inp => List.zipWith (fun x y => if b.sem inp s then b.sem inp x else b.sem inp y) xs ys) := by
  intro xs
  induction xs generalizing b with
  | nil => intro ys _ _; exact ⟨hb, Ext.refl b, by simp [muxWires], by simp [muxWires]⟩
  | cons x xs ih =>
    intro ys hx hy
    cases ys with
    | nil => exact ⟨hb, Ext.refl b, by simp [muxWires], by simp [muxWires]⟩
    | cons y ys =>
      have hp := mux_post hb hs (hx x (by simp)) (hy y (by simp))
      simp only [muxWires]
      generalize b.mux s x y = r1 at *
      obtain ⟨w, b1⟩ := r1
      obtain ⟨wf1, e1, hw, s1⟩ := hp
      simp only at wf1 e1 hw s1 ⊢
      have hs1 : s < b1.counter := Nat.lt_of_lt_of_le hs e1.counter_le
      have ih1 := ih wf1 hs1 ys
        (fun a ha => Nat.lt_of_lt_of_le (hx a (by simp [ha])) e1.counter_le)
        (fun a ha => Nat.lt_of_lt_of_le (hy a (by simp [ha])) e1.counter_le)
      generalize muxWires b1 s xs ys = r2 at *
      obtain ⟨ws, b2⟩ := r2
      obtain ⟨wf2, e2, hlt2, s2⟩ := ih1
      simp only at wf2 e2 hlt2 s2 ⊢
      refine ⟨wf2, e1.trans e2, ?_, ?_⟩
      · intro a ha
        simp only [List.mem_cons] at ha
        rcases ha with rfl | ha
        · exact Nat.lt_of_lt_of_le hw e2.counter_le
        · exact hlt2 a ha
      · intro inp hi
        have hi1 : inp.length + 2 = b1.shift := by rw [e1.shift]; exact hi
        simp only [List.map_cons, List.zipWith_cons_cons]
        rw [e2.sem_eq inp hi1 w hw, s1 inp hi, s2 inp hi1]
        congr 1
        apply zipWith_congr_mem
        intro a ha c hc
        rw [e1.sem_eq inp hi s hs, e1.sem_eq inp hi a (hx a (by simp [ha])),
          e1.sem_eq inp hi c (hy c (by simp [hc]))]

/-! ### the abstract panic state -/

/-- decoded panic state on input `inp`: `none` = no panic, `some info` = panicked with these 160
information bits (reason and location of the first failing site) -/
def absOf (b : Builder) (inp : List Bool) (p : PanicSt) : Option (List Bool) :=
  if b.sem inp p.flag then some ((p.wires.drop 1).map (b.sem inp)) else none

/-- "first failure wins" -/
def raiseIf (c : Bool) (info : List Bool) (s : Option (List Bool)) : Option (List Bool) :=
  match s with
  | some i => some i
  | none => if c then some info else none

/-- invariant of a panic record: its wires exist, it has a flag wire, and every cached condition
implies the flag on every input -/
structure PInv (b : Builder) (p : PanicSt) : Prop where
  lt : ∀ w, w ∈ p.wires → w < b.counter
  len : p.wires.length = 161
  cacheLt : ∀ c, c ∈ p.cache → c < b.counter
  cacheImp : ∀ c, c ∈ p.cache → ∀ inp, inp.length + 2 = b.shift →
    b.sem inp c = true → b.sem inp p.flag = true

theorem PInv.mono {b b' : Builder} {p : PanicSt} (h : PInv b p) (e : Ext b b') : PInv b' p := by
  refine ⟨fun w hw => Nat.lt_of_lt_of_le (h.lt w hw) e.counter_le, h.len,
    fun c hc => Nat.lt_of_lt_of_le (h.cacheLt c hc) e.counter_le, ?_⟩
  intro c hc inp hi hs
  have hi' : inp.length + 2 = b.shift := by rw [← e.shift]; exact hi
  have hfl : p.flag < b.counter := by
    cases hw : p.wires with
    | nil => have := h.len; rw [hw] at this; simp at this
    | cons w ws => simp only [PanicSt.flag, hw, List.headD_cons]; exact h.lt w (by simp [hw])
  rw [e.sem_eq inp hi' c (h.cacheLt c hc)] at hs
  rw [e.sem_eq inp hi' p.flag hfl]
  exact h.cacheImp c hc inp hi' hs

theorem PInv.flag_lt {b : Builder} {p : PanicSt} (h : PInv b p) : p.flag < b.counter := by
  cases hw : p.wires with
  | nil => have := h.len; rw [hw] at this; simp at this
  | cons w ws => simp only [PanicSt.flag, hw, List.headD_cons]; exact h.lt w (by simp [hw])

theorem absOf_ext {b b' : Builder} {p : PanicSt} (h : PInv b p) (e : Ext b b') (inp : List Bool)
    (hi : inp.length + 2 = b.shift) : absOf b' inp p = absOf b inp p := by
  simp only [absOf]
  rw [e.sem_eq inp hi p.flag h.flag_lt]
  congr 2
  apply List.map_congr_left
  intro w hw
  exact e.sem_eq inp hi w (h.lt w (List.mem_of_mem_drop hw))

/-- **`mux_panic` refines the conditional**: the merged record decodes to the record of the
path selected by `s`, and the invariant is kept. -/
theorem muxPanic_refines {b : Builder} (hb : WF b) {s : Nat} (hs : s < b.counter) {t f : PanicSt}
    (ht : PInv b t) (hf : PInv b f) :
    WF (muxPanic b s t f).1 ∧ Ext b (muxPanic b s t f).1 ∧ PInv (muxPanic b s t f).1 (muxPanic b s t f).2 ∧
    ∀ inp, inp.length + 2 = b.shift →
      absOf (muxPanic b s t f).1 inp (muxPanic b s t f).2 =
        if b.sem inp s then absOf b inp t else absOf b inp f := by
  have hlen : t.wires.length = f.wires.length := by rw [ht.len, hf.len]
  have hp := muxWires_post hb hs t.wires f.wires ht.lt hf.lt
  simp only [muxPanic]
  generalize muxWires b s t.wires f.wires = r at *
  obtain ⟨ws, b1⟩ := r
  obtain ⟨wf1, e1, hlt, hsem⟩ := hp
  simp only at wf1 e1 hlt hsem ⊢
  -- shape of the wire lists
  obtain ⟨tw, trest, htw⟩ : ∃ a l, t.wires = a :: l := by
    cases h : t.wires with
    | nil => have := ht.len; rw [h] at this; simp at this
    | cons a l => exact ⟨a, l, rfl⟩
  obtain ⟨fw, frest, hfw⟩ : ∃ a l, f.wires = a :: l := by
    cases h : f.wires with
    | nil => have := hf.len; rw [h] at this; simp at this
    | cons a l => exact ⟨a, l, rfl⟩
  have hws : ∀ inp, inp.length + 2 = b.shift → ws.map (b1.sem inp) =
      (if b.sem inp s then b.sem inp tw else b.sem inp fw) ::
        List.zipWith (fun x y => if b.sem inp s then b.sem inp x else b.sem inp y) trest frest := by
    intro inp hi
    rw [hsem inp hi, htw, hfw, List.zipWith_cons_cons]
  obtain ⟨w0, wrest, hw0⟩ : ∃ a l, ws = a :: l := by
    have h := hws (List.replicate (b.shift - 2) false) (dummy_inp hb)
    cases hws' : ws with
    | nil => rw [hws'] at h; simp at h
    | cons a l => exact ⟨a, l, rfl⟩
  subst hw0
  have hwl : (w0 :: wrest).length = 161 := by
    have h := congrArg List.length (hws (List.replicate (b.shift - 2) false) (dummy_inp hb))
    have hl : trest.length = frest.length := by
      have := hlen; rw [htw, hfw] at this; simpa using this
    have h161 := ht.len
    rw [htw] at h161
    simp only [List.length_map, List.length_cons, List.length_zipWith, hl, Nat.min_self] at h h161 ⊢
    omega
  refine ⟨wf1, e1, ⟨hlt, hwl, ?_, ?_⟩, ?_⟩
  · intro c hc
    simp only [List.mem_filter] at hc
    exact Nat.lt_of_lt_of_le (ht.cacheLt c hc.1) e1.counter_le
  · intro c hc inp hi hcv
    simp only [List.mem_filter, List.contains_iff_mem] at hc
    have hi' : inp.length + 2 = b.shift := by rw [← e1.shift]; exact hi
    have h0 := hws inp hi'
    simp only [List.map_cons, List.cons.injEq] at h0
    simp only [PanicSt.flag, List.headD_cons]
    rw [h0.1]
    rw [e1.sem_eq inp hi' c (ht.cacheLt c hc.1)] at hcv
    have h1 := ht.cacheImp c hc.1 inp hi' hcv
    have h2 := hf.cacheImp c hc.2 inp hi' hcv
    simp only [PanicSt.flag, htw, hfw, List.headD_cons] at h1 h2
    split <;> assumption
  · intro inp hi
    have h0 := hws inp hi
    simp only [List.map_cons, List.cons.injEq] at h0
    simp only [absOf, PanicSt.flag, List.headD_cons, List.drop_one, List.tail_cons, htw, hfw]
    rw [h0.1, h0.2]
    have hl : trest.length = frest.length := by
      have := hlen; rw [htw, hfw] at this; simpa using this
    cases b.sem inp s
    · simp only [Bool.false_eq_true, if_false]
      rw [zipWith_snd _ _ _ hl]
    · simp only [if_true]
      rw [zipWith_fst _ _ _ hl]

/-! ### interleaving -/

theorem interleave4_map {α β} (g : α → β) : ∀ (a b c d : List α),
    (interleave4 a b c d).map g = interleave4 (a.map g) (b.map g) (c.map g) (d.map g)
  | x :: a, y :: b, z :: c, w :: d => by simp [interleave4, interleave4_map g a b c d]
  | [], _, _, _ => by simp [interleave4]
  | _ :: _, [], _, _ => by simp [interleave4]
  | _ :: _, _ :: _, [], _ => by simp [interleave4]
  | _ :: _, _ :: _, _ :: _, [] => by simp [interleave4]

theorem deinterleave4_interleave4 {α} : ∀ (a b c d : List α), a.length = b.length → a.length = c.length →
    a.length = d.length → deinterleave4 (interleave4 a b c d) = (a, b, c, d)
  | x :: a, y :: b, z :: c, w :: d, h1, h2, h3 => by
    simp only [List.length_cons, Nat.add_right_cancel_iff] at h1 h2 h3
    simp [interleave4, deinterleave4, deinterleave4_interleave4 a b c d h1 h2 h3]
  | [], [], [], [], _, _, _ => by simp [interleave4, deinterleave4]
  | [], _ :: _, _, _, h, _, _ => by simp at h
  | [], [], _ :: _, _, _, h, _ => by simp at h
  | [], [], [], _ :: _, _, _, h => by simp at h
  | _ :: _, [], _, _, h, _, _ => by simp at h
  | _ :: _, _ :: _, [], _, _, h, _ => by simp at h
  | _ :: _, _ :: _, _ :: _, [], _, _, h => by simp at h

theorem interleave4_length {α} : ∀ (a b c d : List α), a.length = b.length → a.length = c.length →
    a.length = d.length → (interleave4 a b c d).length = 4 * a.length
  | x :: a, y :: b, z :: c, w :: d, h1, h2, h3 => by
    simp only [List.length_cons, Nat.add_right_cancel_iff] at h1 h2 h3
    simp only [interleave4, List.length_cons, interleave4_length a b c d h1 h2 h3]; omega
  | [], _, _, _, _, _, _ => by simp [interleave4]
  | _ :: _, [], _, _, h, _, _ => by simp at h
  | _ :: _, _ :: _, [], _, _, h, _ => by simp at h
  | _ :: _, _ :: _, _ :: _, [], _, _, h => by simp at h

theorem mem_interleave4 {α} {x : α} : ∀ (a b c d : List α), x ∈ interleave4 a b c d →
    x ∈ a ∨ x ∈ b ∨ x ∈ c ∨ x ∈ d
  | y :: a, z :: b, u :: c, w :: d, h => by
    simp only [interleave4, List.mem_cons] at h ⊢
    rcases h with h | h | h | h | h
    · exact Or.inl (Or.inl h)
    · exact Or.inr (Or.inl (Or.inl h))
    · exact Or.inr (Or.inr (Or.inl (Or.inl h)))
    · exact Or.inr (Or.inr (Or.inr (Or.inl h)))
    · rcases mem_interleave4 a b c d h with h | h | h | h
      · exact Or.inl (Or.inr h)
      · exact Or.inr (Or.inl (Or.inr h))
      · exact Or.inr (Or.inr (Or.inl (Or.inr h)))
      · exact Or.inr (Or.inr (Or.inr (Or.inr h)))
  | [], _, _, _, h => by simp [interleave4] at h
  | _ :: _, [], _, _, h => by simp [interleave4] at h
  | _ :: _, _ :: _, [], _, h => by simp [interleave4] at h
  | _ :: _, _ :: _, _ :: _, [], h => by simp [interleave4] at h

theorem mem_interleave4_of_mem {α} {x : α} : ∀ (a b c d : List α), a.length = b.length →
    a.length = c.length → a.length = d.length → (x ∈ a ∨ x ∈ b ∨ x ∈ c ∨ x ∈ d) → x ∈ interleave4 a b c d
  | y :: a, z :: b, u :: c, w :: d, h1, h2, h3, h => by
    simp only [List.length_cons, Nat.add_right_cancel_iff] at h1 h2 h3
    simp only [interleave4, List.mem_cons] at h ⊢
    have ih := mem_interleave4_of_mem (x := x) a b c d h1 h2 h3
    rcases h with (h | h) | (h | h) | (h | h) | (h | h)
    · exact Or.inl h
    · exact Or.inr (Or.inr (Or.inr (Or.inr (ih (Or.inl h)))))
    · exact Or.inr (Or.inl h)
    · exact Or.inr (Or.inr (Or.inr (Or.inr (ih (Or.inr (Or.inl h))))))
    · exact Or.inr (Or.inr (Or.inl h))
    · exact Or.inr (Or.inr (Or.inr (Or.inr (ih (Or.inr (Or.inr (Or.inl h)))))))
    · exact Or.inr (Or.inr (Or.inr (Or.inl h)))
    · exact Or.inr (Or.inr (Or.inr (Or.inr (ih (Or.inr (Or.inr (Or.inr h)))))))
  | [], [], [], [], _, _, _, h => by simp at h
  | [], _ :: _, _, _, h, _, _, _ => by simp at h
  | [], [], _ :: _, _, _, h, _, _ => by simp at h
  | [], [], [], _ :: _, _, _, h, _ => by simp at h
  | _ :: _, [], _, _, h, _, _, _ => by simp at h
  | _ :: _, _ :: _, [], _, _, h, _, _ => by simp at h
  | _ :: _, _ :: _, _ :: _, [], _, _, h, _ => by simp at h

/-- a list of `4n` elements is the interleaving of its de-interleaving -/
theorem deinterleave4_spec {α} : ∀ (n : Nat) (l : List α), l.length = 4 * n →
    (deinterleave4 l).1.length = n ∧ (deinterleave4 l).2.1.length = n ∧ (deinterleave4 l).2.2.1.length = n ∧
    (deinterleave4 l).2.2.2.length = n ∧
    l = interleave4 (deinterleave4 l).1 (deinterleave4 l).2.1 (deinterleave4 l).2.2.1 (deinterleave4 l).2.2.2
  | 0, l, h => by
    have : l = [] := by cases l <;> simp_all
    subst this; simp [deinterleave4, interleave4]
  | n + 1, a :: b :: c :: d :: rest, h => by
    have hr : rest.length = 4 * n := by simp at h; omega
    obtain ⟨h1, h2, h3, h4, h5⟩ := deinterleave4_spec n rest hr
    simp only [deinterleave4, List.length_cons, h1, h2, h3, h4, interleave4, true_and]
    rw [← h5]
  | n + 1, [], h => by simp at h
  | n + 1, [_], h => by simp at h; omega
  | n + 1, [_, _], h => by simp at h; omega
  | n + 1, [_, _, _], h => by simp at h; omega

theorem usizeWires_length (n : Nat) : (usizeWires n).length = 32 := by simp [usizeWires]

theorem usizeWires_le_one (n : Nat) : ∀ w, w ∈ usizeWires n → w ≤ 1 := by
  intro w hw
  simp only [usizeWires, List.mem_map, List.mem_range] at hw
  obtain ⟨i, _, rfl⟩ := hw
  have := Nat.mod_lt (n / 2 ^ (31 - i)) (by decide : 0 < 2)
  omega

theorem interleave4_inj {α} {a b c d a' b' c' d' : List α} (n : Nat)
    (ha : a.length = n) (hb : b.length = n) (hc : c.length = n) (hd : d.length = n)
    (ha' : a'.length = n) (hb' : b'.length = n) (hc' : c'.length = n) (hd' : d'.length = n)
    (h : interleave4 a b c d = interleave4 a' b' c' d') : a = a' ∧ b = b' ∧ c = c' ∧ d = d' := by
  have := congrArg deinterleave4 h
  rw [deinterleave4_interleave4 a b c d (by omega) (by omega) (by omega),
    deinterleave4_interleave4 a' b' c' d' (by omega) (by omega) (by omega)] at this
  simpa using this

theorem split160 {α} (l : List α) (h : l.length = 160) :
    l = l.take 32 ++ ((l.drop 32).take 32 ++ ((l.drop 64).take 32 ++ ((l.drop 96).take 32 ++ (l.drop 128).take 32))) := by
  have e1 := (List.take_append_drop 32 l).symm
  have e2 := (List.take_append_drop 32 (l.drop 32)).symm
  have e3 := (List.take_append_drop 32 (l.drop 64)).symm
  have e4 := (List.take_append_drop 32 (l.drop 96)).symm
  have e5 : (l.drop 128).take 32 = l.drop 128 := List.take_of_length_le (by simp; omega)
  simp only [List.drop_drop] at e2 e3 e4
  rw [e5]
  conv => lhs; rw [e1, e2, e3, e4]

/-- the 160 information bits a site writes (constant wires) -/
def siteInfo (reason l0 c0 l1 c1 : Nat) : List Nat :=
  usizeWires reason ++ (usizeWires l0 ++ (usizeWires c0 ++ (usizeWires l1 ++ usizeWires c1)))

theorem sem_const_ext {b b' : Builder} (hb : WF b) (e : Ext b b') (inp : List Bool)
    (hi : inp.length + 2 = b.shift) (ws : List Nat) (h : ∀ w, w ∈ ws → w ≤ 1) :
    ws.map (b'.sem inp) = ws.map (b.sem inp) := by
  apply List.map_congr_left
  intro w hw
  exact e.sem_eq inp hi w (by have := h w hw; have := c2 hb; omega)

/-- **`push_panic_if` refines `raiseIf`** ("first failure wins"), and the invariant is kept. -/
theorem pushPanicIf_refines {b : Builder} (hb : WF b) {p : PanicSt} (hp : PInv b p) {cond : Nat}
    (hc : cond < b.counter) (reason l0 c0 l1 c1 : Nat) :
    WF (pushPanicIf b p cond reason l0 c0 l1 c1).1 ∧ Ext b (pushPanicIf b p cond reason l0 c0 l1 c1).1 ∧
    PInv (pushPanicIf b p cond reason l0 c0 l1 c1).1 (pushPanicIf b p cond reason l0 c0 l1 c1).2 ∧
    ∀ inp, inp.length + 2 = b.shift →
      absOf (pushPanicIf b p cond reason l0 c0 l1 c1).1 inp (pushPanicIf b p cond reason l0 c0 l1 c1).2 =
        raiseIf (b.sem inp cond) ((siteInfo reason l0 c0 l1 c1).map (b.sem inp)) (absOf b inp p) := by
  simp only [pushPanicIf]
  split
  · -- the condition is already part of the record
    rename_i hhit
    have hmem : cond ∈ p.cache := by simpa using hhit
    refine ⟨hb, Ext.refl b, hp, fun inp hi => ?_⟩
    simp only [absOf, raiseIf]
    cases hfl : b.sem inp p.flag
    · have : b.sem inp cond = false := by
        cases hcv : b.sem inp cond
        · rfl
        · have := hp.cacheImp cond hmem inp hi hcv; rw [hfl] at this; cases this
      simp [this]
    · simp
  · -- a new condition
    obtain ⟨fl, info, hw⟩ : ∃ a l, p.wires = a :: l := by
      cases h : p.wires with
      | nil => have := hp.len; rw [h] at this; simp at this
      | cons a l => exact ⟨a, l, rfl⟩
    have hinfo : info.length = 160 := by have := hp.len; rw [hw] at this; simpa using this
    have hflag : p.flag = fl := by simp [PanicSt.flag, hw]
    have hR : p.reason = info.take 32 := by simp [PanicSt.reason, hw]
    have hSL : p.startLine = (info.drop 32).take 32 := by simp [PanicSt.startLine, hw]
    have hSC : p.startCol = (info.drop 64).take 32 := by simp [PanicSt.startCol, hw]
    have hEL : p.endLine = (info.drop 96).take 32 := by simp [PanicSt.endLine, hw]
    have hEC : p.endCol = (info.drop 128).take 32 := by simp [PanicSt.endCol, hw]
    have hfl : fl < b.counter := hp.lt fl (by simp [hw])
    have hinfolt : ∀ w, w ∈ info → w < b.counter := fun w hm => hp.lt w (by simp [hw, hm])
    rw [hflag, hR, hSL, hSC, hEL, hEC]
    generalize hRd : info.take 32 = R
    generalize hSLd : (info.drop 32).take 32 = SL
    generalize hSCd : (info.drop 64).take 32 = SC
    generalize hELd : (info.drop 96).take 32 = EL
    generalize hECd : (info.drop 128).take 32 = EC
    have hsplit : info = R ++ (SL ++ (SC ++ (EL ++ EC))) := by
      have := split160 info hinfo
      rw [hRd, hSLd, hSCd, hELd, hECd] at this; exact this
    have lR : R.length = 32 := by rw [← hRd]; simp; omega
    have lSL : SL.length = 32 := by rw [← hSLd]; simp; omega
    have lSC : SC.length = 32 := by rw [← hSCd]; simp; omega
    have lEL : EL.length = 32 := by rw [← hELd]; simp; omega
    have lEC : EC.length = 32 := by rw [← hECd]; simp; omega
    have mR : ∀ w, w ∈ R → w < b.counter := fun w h => hinfolt w (by rw [hsplit]; simp [h])
    have mSL : ∀ w, w ∈ SL → w < b.counter := fun w h => hinfolt w (by rw [hsplit]; simp [h])
    have mSC : ∀ w, w ∈ SC → w < b.counter := fun w h => hinfolt w (by rw [hsplit]; simp [h])
    have mEL : ∀ w, w ∈ EL → w < b.counter := fun w h => hinfolt w (by rw [hsplit]; simp [h])
    have mEC : ∀ w, w ∈ EC → w < b.counter := fun w h => hinfolt w (by rw [hsplit]; simp [h])
    -- stage 1: the flag
    have h1 := or_post hb hfl hc
    generalize b.or fl cond = r1 at *
    obtain ⟨flag', b1⟩ := r1
    obtain ⟨wf1, e1, hfl', s1⟩ := h1
    simp only at wf1 e1 hfl' s1 ⊢
    have c21 := c2 hb
    -- stage 2: the location
    have hx2 : ∀ w, w ∈ interleave4 SL SC EL EC → w < b1.counter := by
      intro w hm
      rcases mem_interleave4 _ _ _ _ hm with h | h | h | h
      · exact Nat.lt_of_lt_of_le (mSL w h) e1.counter_le
      · exact Nat.lt_of_lt_of_le (mSC w h) e1.counter_le
      · exact Nat.lt_of_lt_of_le (mEL w h) e1.counter_le
      · exact Nat.lt_of_lt_of_le (mEC w h) e1.counter_le
    have hy2 : ∀ w, w ∈ interleave4 (usizeWires l0) (usizeWires c0) (usizeWires l1) (usizeWires c1) →
        w < b1.counter := by
      intro w hm
      have hle : w ≤ 1 := by
        rcases mem_interleave4 _ _ _ _ hm with h | h | h | h <;> exact usizeWires_le_one _ w h
      have := e1.counter_le; omega
    have h2 := muxWires_post wf1 (Nat.lt_of_lt_of_le hfl e1.counter_le) _ _ hx2 hy2
    generalize muxWires b1 fl (interleave4 SL SC EL EC)
      (interleave4 (usizeWires l0) (usizeWires c0) (usizeWires l1) (usizeWires c1)) = r2 at *
    obtain ⟨loc, b2⟩ := r2
    obtain ⟨wf2, e2, hloclt, s2⟩ := h2
    simp only at wf2 e2 hloclt s2 ⊢
    have e12 := e1.trans e2
    -- stage 3: the reason
    have hx3 : ∀ w, w ∈ R → w < b2.counter := fun w h => Nat.lt_of_lt_of_le (mR w h) e12.counter_le
    have hy3 : ∀ w, w ∈ usizeWires reason → w < b2.counter := by
      intro w hm; have := usizeWires_le_one _ w hm; have := e12.counter_le; omega
    have h3 := muxWires_post wf2 (Nat.lt_of_lt_of_le hfl e12.counter_le) R (usizeWires reason) hx3 hy3
    generalize muxWires b2 fl R (usizeWires reason) = r3 at *
    obtain ⟨rs, b3⟩ := r3
    obtain ⟨wf3, e3, hrslt, s3⟩ := h3
    simp only at wf3 e3 hrslt s3 ⊢
    have e123 := e12.trans e3
    have e23 := e2.trans e3
    -- shape of `loc`
    have hloclen : loc.length = 4 * 32 := by
      have h := congrArg List.length (s2 (List.replicate (b.shift - 2) false)
        (by rw [e1.shift]; exact dummy_inp hb))
      simp only [List.length_map, List.length_zipWith] at h
      rw [interleave4_length _ _ _ _ (by omega) (by omega) (by omega),
        interleave4_length _ _ _ _ (by simp [usizeWires_length]) (by simp [usizeWires_length])
          (by simp [usizeWires_length]), usizeWires_length, lSL] at h
      simpa using h
    obtain ⟨dl1, dl2, dl3, dl4, hlocI⟩ := deinterleave4_spec 32 loc hloclen
    generalize hD : deinterleave4 loc = D at *
    obtain ⟨sl', sc', el', ec'⟩ := D
    simp only at dl1 dl2 dl3 dl4 hlocI ⊢
    have hrslen : rs.length = 32 := by
      have h := congrArg List.length (s3 (List.replicate (b.shift - 2) false)
        (by rw [e12.shift]; exact dummy_inp hb))
      simpa [List.length_zipWith, lR, usizeWires_length] using h
    have hmemloc : ∀ w, (w ∈ sl' ∨ w ∈ sc' ∨ w ∈ el' ∨ w ∈ ec') → w ∈ loc := by
      intro w hm
      rw [hlocI]
      exact mem_interleave4_of_mem _ _ _ _ (by omega) (by omega) (by omega) hm
    have hloc3 : ∀ w, w ∈ loc → w < b3.counter := fun w h => Nat.lt_of_lt_of_le (hloclt w h) e3.counter_le
    -- semantic facts on an input
    have key : ∀ inp, inp.length + 2 = b.shift →
        b3.sem inp flag' = (b.sem inp fl || b.sem inp cond) ∧
        (rs ++ (sl' ++ (sc' ++ (el' ++ ec')))).map (b3.sem inp) =
          if b.sem inp fl then info.map (b.sem inp) else (siteInfo reason l0 c0 l1 c1).map (b.sem inp) := by
      intro inp hi
      have hi1 : inp.length + 2 = b1.shift := by rw [e1.shift]; exact hi
      have hi2 : inp.length + 2 = b2.shift := by rw [e2.shift]; exact hi1
      have hflv1 : b1.sem inp fl = b.sem inp fl := e1.sem_eq inp hi fl hfl
      have hflv2 : b2.sem inp fl = b.sem inp fl := e12.sem_eq inp hi fl hfl
      refine ⟨by rw [e23.sem_eq inp hi1 flag' hfl', s1 inp hi], ?_⟩
      -- reason
      have hrs : rs.map (b3.sem inp) = if b.sem inp fl then R.map (b.sem inp) else (usizeWires reason).map (b.sem inp) := by
        rw [s3 inp hi2, hflv2]
        cases b.sem inp fl
        · simp only [Bool.false_eq_true, if_false]
          rw [zipWith_snd _ _ _ (by rw [lR, usizeWires_length])]
          exact sem_const_ext hb e12 inp hi _ (usizeWires_le_one _)
        · simp only [if_true]
          rw [zipWith_fst _ _ _ (by rw [lR, usizeWires_length])]
          apply List.map_congr_left
          intro w hm; exact e12.sem_eq inp hi w (mR w hm)
      -- location
      have hl2 : loc.map (b3.sem inp) = loc.map (b2.sem inp) := by
        apply List.map_congr_left
        intro w hm; exact e3.sem_eq inp hi2 w (hloclt w hm)
      have hilen : (interleave4 SL SC EL EC).length =
          (interleave4 (usizeWires l0) (usizeWires c0) (usizeWires l1) (usizeWires c1)).length := by
        rw [interleave4_length _ _ _ _ (by omega) (by omega) (by omega),
          interleave4_length _ _ _ _ (by simp [usizeWires_length]) (by simp [usizeWires_length])
            (by simp [usizeWires_length]), usizeWires_length, lSL]
      have hlocv : interleave4 (sl'.map (b3.sem inp)) (sc'.map (b3.sem inp)) (el'.map (b3.sem inp))
          (ec'.map (b3.sem inp)) =
          if b.sem inp fl then interleave4 (SL.map (b.sem inp)) (SC.map (b.sem inp)) (EL.map (b.sem inp))
              (EC.map (b.sem inp))
          else interleave4 ((usizeWires l0).map (b.sem inp)) ((usizeWires c0).map (b.sem inp))
              ((usizeWires l1).map (b.sem inp)) ((usizeWires c1).map (b.sem inp)) := by
        rw [← interleave4_map, ← hlocI, hl2, s2 inp hi1, hflv1]
        cases b.sem inp fl
        · simp only [Bool.false_eq_true, if_false]
          rw [zipWith_snd _ _ _ hilen, ← interleave4_map]
          apply List.map_congr_left
          intro w hm
          have hle : w ≤ 1 := by
            rcases mem_interleave4 _ _ _ _ hm with h | h | h | h <;> exact usizeWires_le_one _ w h
          exact e1.sem_eq inp hi w (by omega)
        · simp only [if_true]
          rw [zipWith_fst _ _ _ hilen, ← interleave4_map]
          apply List.map_congr_left
          intro w hm
          rcases mem_interleave4 _ _ _ _ hm with h | h | h | h
          · exact e1.sem_eq inp hi w (mSL w h)
          · exact e1.sem_eq inp hi w (mSC w h)
          · exact e1.sem_eq inp hi w (mEL w h)
          · exact e1.sem_eq inp hi w (mEC w h)
      simp only [List.map_append, hrs]
      cases hfv : b.sem inp fl
      · simp only [hfv, Bool.false_eq_true, if_false] at hlocv ⊢
        obtain ⟨q1, q2, q3, q4⟩ := interleave4_inj 32 (by simp [dl1]) (by simp [dl2]) (by simp [dl3])
          (by simp [dl4]) (by simp [usizeWires_length]) (by simp [usizeWires_length])
          (by simp [usizeWires_length]) (by simp [usizeWires_length]) hlocv
        rw [q1, q2, q3, q4]
        simp [siteInfo]
      · simp only [hfv, if_true] at hlocv ⊢
        obtain ⟨q1, q2, q3, q4⟩ := interleave4_inj 32 (by simp [dl1]) (by simp [dl2]) (by simp [dl3])
          (by simp [dl4]) (by simp [lSL]) (by simp [lSC]) (by simp [lEL]) (by simp [lEC]) hlocv
        rw [q1, q2, q3, q4, hsplit]
        simp
    refine ⟨wf3, e123, ⟨?_, ?_, ?_, ?_⟩, ?_⟩
    · intro w hm
      simp only [List.mem_cons, List.mem_append] at hm
      rcases hm with rfl | ((((hm | hm) | hm) | hm) | hm)
      · exact Nat.lt_of_lt_of_le hfl' e23.counter_le
      · exact hrslt w hm
      · exact hloc3 w (hmemloc w (Or.inl hm))
      · exact hloc3 w (hmemloc w (Or.inr (Or.inl hm)))
      · exact hloc3 w (hmemloc w (Or.inr (Or.inr (Or.inl hm))))
      · exact hloc3 w (hmemloc w (Or.inr (Or.inr (Or.inr hm))))
    · simp [hrslen, dl1, dl2, dl3, dl4]
    · intro c hm
      simp only [List.mem_cons] at hm
      rcases hm with rfl | hm
      · exact Nat.lt_of_lt_of_le hc e123.counter_le
      · exact Nat.lt_of_lt_of_le (hp.cacheLt c hm) e123.counter_le
    · intro c hm inp hi hcv
      have hi0 : inp.length + 2 = b.shift := by rw [← e123.shift]; exact hi
      simp only [PanicSt.flag, List.headD_cons]
      rw [(key inp hi0).1]
      simp only [List.mem_cons] at hm
      rcases hm with rfl | hm
      · rw [e123.sem_eq inp hi0 c hc] at hcv; simp [hcv]
      · rw [e123.sem_eq inp hi0 c (hp.cacheLt c hm)] at hcv
        have := hp.cacheImp c hm inp hi0 hcv
        rw [hflag] at this
        simp [this]
    · intro inp hi
      obtain ⟨k1, k2⟩ := key inp hi
      simp only [absOf, PanicSt.flag, List.headD_cons, List.drop_one, List.tail_cons, hw, List.append_assoc]
      rw [k1, k2]
      cases b.sem inp fl <;> cases b.sem inp cond <;> simp [raiseIf]

end Builder
end GV
