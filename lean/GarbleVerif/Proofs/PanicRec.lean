import GarbleVerif.Proofs.Requests
/-! The panic record at builder level refines the abstract panic state
`Option info` ("first failure wins"). -/
namespace GV
namespace Builder

theorem zipWith_congr_mem {α β γ} {f g : α → β → γ} (xs : List α) (ys : List β)
    (h : ∀ a, a ∈ xs → ∀ c, c ∈ ys → f a c = g a c) : List.zipWith f xs ys = List.zipWith g xs ys := by
  induction xs generalizing ys with
  | nil => simp
  | cons x xs ih =>
    cases ys with
    | nil => simp
    | cons y ys =>
      simp only [List.zipWith_cons_cons]
      rw [h x (by simp) y (by simp), ih ys (fun a ha c hc => h a (by simp [ha]) c (by simp [hc]))]

/-- post-condition for a list of result wires with values `vs` -/
structure ListPost (b : Builder) (r : List Nat × Builder) (vs : List Bool → List Bool) : Prop where
  wf : WF r.2
  ext : Ext b r.2
  lt : ∀ w, w ∈ r.1 → w < r.2.counter
  sem : ∀ inp, inp.length + 2 = b.shift → r.1.map (r.2.sem inp) = vs inp

theorem muxWires_post {b : Builder} (hb : WF b) {s : Nat} (hs : s < b.counter) :
    ∀ (xs ys : List Nat), (∀ x, x ∈ xs → x < b.counter) → (∀ y, y ∈ ys → y < b.counter) →
    ListPost b (muxWires b s xs ys)
      (fun inp => List.zipWith (fun x y => if b.sem inp s then b.sem inp x else b.sem inp y) xs ys) := by
  intro xs
  induction xs generalizing b with
  | nil => intro ys _ _; exact ⟨hb, Ext.refl b, by simp [muxWires], by simp [muxWires]⟩
  | cons x xs ih =>
    intro ys hx hy
    cases ys with
    | nil => exact ⟨hb, Ext.refl b, by simp [muxWires], by simp [muxWires]⟩
    | cons y ys =>
      have hp := mux_post hb hs (hx x (by simp)) (hy y (by simp))
      simp only [muxWires]
      generalize b.mux s x y = r1 at *
      obtain ⟨w, b1⟩ := r1
      obtain ⟨wf1, e1, hw, s1⟩ := hp
      simp only at wf1 e1 hw s1 ⊢
      have hs1 : s < b1.counter := Nat.lt_of_lt_of_le hs e1.counter_le
      have ih1 := ih wf1 hs1 ys
        (fun a ha => Nat.lt_of_lt_of_le (hx a (by simp [ha])) e1.counter_le)
        (fun a ha => Nat.lt_of_lt_of_le (hy a (by simp [ha])) e1.counter_le)
      generalize muxWires b1 s xs ys = r2 at *
      obtain ⟨ws, b2⟩ := r2
      obtain ⟨wf2, e2, hlt2, s2⟩ := ih1
      simp only at wf2 e2 hlt2 s2 ⊢
      refine ⟨wf2, e1.trans e2, ?_, ?_⟩
      · intro a ha
        simp only [List.mem_cons] at ha
        rcases ha with rfl | ha
        · exact Nat.lt_of_lt_of_le hw e2.counter_le
        · exact hlt2 a ha
      · intro inp hi
        have hi1 : inp.length + 2 = b1.shift := by rw [e1.shift]; exact hi
        simp only [List.map_cons, List.zipWith_cons_cons]
        rw [e2.sem_eq inp hi1 w hw, s1 inp hi, s2 inp hi1]
        congr 1
        apply zipWith_congr_mem
        intro a ha c hc
        rw [e1.sem_eq inp hi s hs, e1.sem_eq inp hi a (hx a (by simp [ha])),
          e1.sem_eq inp hi c (hy c (by simp [hc]))]

end Builder
end GV
