import GarbleVerif.Model.SrcSem
/-! Shape of the environment: evaluation never changes which names are bound, only their values;
statements only add bindings in front. (C14: a shadowing binding ends with its scope; a callee
cannot touch the caller's variables.) -/
namespace GV
namespace Src

def names (env : Env) : List String := env.map Prod.fst

@[simp] theorem names_append (a b : Env) : names (a ++ b) = names a ++ names b := by simp [names]
@[simp] theorem names_cons (x : String) (v : Val) (b : Env) : names ((x, v) :: b) = x :: names b := rfl

theorem names_set (env : Env) (x : String) (v : Val) : names (env.set x v) = names env := by
  induction env with
  | nil => rfl
  | cons b r ih =>
    obtain ⟨n, w⟩ := b
    simp only [Env.set]
    split <;> simp [names] at * <;> exact ih

theorem names_restore {env env1 : Env} {pre : List String} (h : names env1 = pre ++ names env) :
    names (restore env env1) = names env := by
  have hl : env1.length = pre.length + env.length := by
    have := congrArg List.length h
    simpa [names] using this
  unfold restore names
  rw [List.map_drop]
  have : List.map Prod.fst env1 = pre ++ List.map Prod.fst env := h
  rw [this, hl]
  simp

structure FrameAt (fuel : Nat) (prog : Prog) : Prop where
  expr : ∀ env e v env', evalExpr fuel prog env e = .ok (v, env') → names env' = names env
  list : ∀ env es vs env', evalList fuel prog env es = .ok (vs, env') → names env' = names env
  fields : ∀ env fs vs env', evalFields fuel prog env fs = .ok (vs, env') → names env' = names env
  arms : ∀ env v arms r env', evalArms fuel prog env v arms = .ok (r, env') → names env' = names env
  path : ∀ env cur p steps env', evalPath fuel prog env cur p = .ok (steps, env') → names env' = names env
  stmts : ∀ env ss v env', evalStmts fuel prog env ss = .ok (v, env') → ∃ pre, names env' = pre ++ names env
  stmt : ∀ env s v env', evalStmt fuel prog env s = .ok (v, env') → ∃ pre, names env' = pre ++ names env
  loop : ∀ env p vs body env', evalLoop fuel prog env p vs body = .ok env' → names env' = names env

theorem frame_zero (prog : Prog) : FrameAt 0 prog := by
  constructor <;> intros <;> simp_all [evalExpr, evalList, evalFields, evalArms, evalPath, evalStmts, evalStmt, evalLoop]

theorem frame_succ (fuel : Nat) (prog : Prog) (ih : FrameAt fuel prog) : FrameAt (fuel + 1) prog := by
  have hr := @names_restore
  have hs := names_set
  constructor
  · intro env e v env' h
    unfold evalExpr at h
    grind [FrameAt, names_append]
  · intro env es vs env' h
    unfold evalList at h
    grind [FrameAt]
  · intro env es vs env' h
    unfold evalFields at h
    grind [FrameAt]
  · intro env v arms r env' h
    unfold evalArms at h
    grind [FrameAt, names_append]
  · intro env cur p steps env' h
    unfold evalPath at h
    cases p with
    | nil =>
      simp only [Except.ok.injEq, Prod.mk.injEq] at h
      obtain ⟨_, rfl⟩ := h; rfl
    | index i rest =>
      simp only at h
      split at h
      · simp at h
      · rename_i n env1 hi
        split at h
        · simp at h
        · split at h
          · split at h
            · simp at h
            · split at h
              · simp at h
              · rename_i st2 env2 hp
                simp only [Except.ok.injEq, Prod.mk.injEq] at h
                obtain ⟨_, rfl⟩ := h
                rw [ih.path _ _ _ _ _ hp, ih.expr _ _ _ _ hi]
          · simp at h
      · simp at h
    | tup i rest =>
      simp only at h
      split at h
      · split at h
        · simp at h
        · split at h
          · simp at h
          · rename_i st2 env2 hp
            simp only [Except.ok.injEq, Prod.mk.injEq] at h
            obtain ⟨_, rfl⟩ := h
            exact ih.path _ _ _ _ _ hp
      · simp at h
    | fld f rest =>
      simp only at h
      split at h
      · split at h
        · simp at h
        · split at h
          · simp at h
          · rename_i st2 env2 hp
            simp only [Except.ok.injEq, Prod.mk.injEq] at h
            obtain ⟨_, rfl⟩ := h
            exact ih.path _ _ _ _ _ hp
      · simp at h
  · intro env ss v env' h
    unfold evalStmts at h
    split at h
    · simp only [Except.ok.injEq, Prod.mk.injEq] at h
      obtain ⟨_, rfl⟩ := h
      exact ⟨[], by simp⟩
    · split at h
      · simp at h
      · rename_i s rest v1 env1 hs1
        obtain ⟨pre1, h1⟩ := ih.stmt _ _ _ _ hs1
        split at h
        · simp only [Except.ok.injEq, Prod.mk.injEq] at h
          obtain ⟨_, rfl⟩ := h
          exact ⟨pre1, h1⟩
        · obtain ⟨pre2, h2⟩ := ih.stmts _ _ _ _ h
          exact ⟨pre2 ++ pre1, by rw [h2, h1, List.append_assoc]⟩
  · intro env s v env' h
    unfold evalStmt at h
    cases s with
    | let_ p e =>
      simp only at h
      split at h
      · simp at h
      · rename_i v1 env1 he
        split at h
        · rename_i binds hb
          simp only [Except.ok.injEq, Prod.mk.injEq] at h
          obtain ⟨_, rfl⟩ := h
          exact ⟨names binds, by simp [ih.expr _ _ _ _ he]⟩
        · simp at h
    | letMut x e =>
      simp only at h
      split at h
      · simp at h
      · rename_i v1 env1 he
        simp only [Except.ok.injEq, Prod.mk.injEq] at h
        obtain ⟨_, rfl⟩ := h
        exact ⟨[x], by simp [ih.expr _ _ _ _ he]⟩
    | assign x path e =>
      refine ⟨[], ?_⟩
      simp only [List.nil_append]
      simp only at h
      split at h
      · simp at h
      · rename_i v1 env1 he
        split at h
        · simp at h
        · rename_i old hold
          split at h
          · simp at h
          · rename_i steps env2 hp
            split at h
            · simp at h
            · simp only [Except.ok.injEq, Prod.mk.injEq] at h
              obtain ⟨_, rfl⟩ := h
              rw [names_set, ih.path _ _ _ _ _ hp, ih.expr _ _ _ _ he]
    | expr e =>
      refine ⟨[], ?_⟩
      simp only [List.nil_append]
      simp only at h
      grind [FrameAt]
    | for_ p arr body =>
      refine ⟨[], ?_⟩
      simp only [List.nil_append]
      simp only at h
      grind [FrameAt]
    | forJoin p a b body =>
      refine ⟨[], ?_⟩
      simp only [List.nil_append]
      simp only at h
      grind [FrameAt]
  · intro env p vs body env' h
    unfold evalLoop at h
    grind [FrameAt, names_append]

theorem frame (prog : Prog) : ∀ fuel, FrameAt fuel prog
  | 0 => frame_zero prog
  | fuel + 1 => frame_succ fuel prog (frame prog fuel)

end Src
end GV
