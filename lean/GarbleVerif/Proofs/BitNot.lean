import GarbleVerif.Proofs.BitWise
/-! `!` on integers: inverting every wire is `-n - 1` wrapped to the type (the complement of the two's complement
pattern). -/
namespace GV
namespace Bit
open Arith
open Src

theorem natToBits_not (p q : Nat) : ∀ n, (∀ i, i < n → q.testBit i = !p.testBit i) →
    natToBits q n = (natToBits p n).map (!·)
  | 0, _ => rfl
  | n + 1, h => by
    simp only [natToBits, List.map_cons, natToBits_head, h n (Nat.lt_succ_self n),
      natToBits_not p q n (fun i hi => h i (Nat.lt_succ_of_lt hi))]

theorem emod_complement (n M : Int) (hM : 0 < M) : (-n - 1) % M = M - 1 - n % M := by
  have h0 := Int.emod_nonneg n (Int.ne_of_gt hM)
  have h1 := Int.emod_lt_of_pos n hM
  have hn : n = n % M + M * (n / M) := (Int.emod_add_mul_ediv n M).symm
  have : -n - 1 = (M - 1 - n % M) + M * (-(n / M) - 1) := by
    have hx : M * (-(n / M) - 1) = -(M * (n / M)) - M := by
      rw [Int.mul_sub, Int.mul_neg, Int.mul_one]
    rw [hx]
    generalize M * (n / M) = t at hn
    omega
  rw [this, Int.add_mul_emod_self_left]
  exact Int.emod_eq_of_lt (by omega) (by omega)

/-- the wires of `!x` for an integer `x`: every wire inverted -/
theorem enc_not (k : IntTy) (n : Int) : enc k (wrapTo k (-n - 1)) = (enc k n).map (!·) := by
  have hpos : (0 : Int) < (2 : Int) ^ k.bits := Int.pow_pos (by decide)
  have h0 := Int.emod_nonneg n (Int.ne_of_gt hpos)
  have h1 := Int.emod_lt_of_pos n hpos
  unfold enc
  rw [intToBits_congr _ _ _ (wrapTo_emod k _)]
  unfold intToBits
  rw [emod_complement n _ hpos]
  have h2 : ((2 : Int) ^ k.bits) = ((2 ^ k.bits : Nat) : Int) := by simp
  have hm : (n % (2 : Int) ^ k.bits).toNat < 2 ^ k.bits := by
    have : ((n % (2 : Int) ^ k.bits).toNat : Int) < ((2 ^ k.bits : Nat) : Int) := by
      rw [Int.toNat_of_nonneg h0, ← h2]; exact h1
    exact Int.ofNat_lt.mp this
  have hc : ((2 : Int) ^ k.bits - 1 - n % (2 : Int) ^ k.bits).toNat
      = 2 ^ k.bits - ((n % (2 : Int) ^ k.bits).toNat + 1) := by
    have := Int.toNat_of_nonneg h0
    rw [h2] at *
    omega
  rw [hc]
  apply natToBits_not
  intro i hi
  rw [Nat.testBit_two_pow_sub_succ hm]
  simp [hi]

theorem not_inRange (k : IntTy) (n : Int) : k.inRange (wrapTo k (-n - 1)) = true := by
  have := wrapTo_range k (-n - 1)
  simp [IntTy.inRange, this.1, this.2]

end Bit
end GV
