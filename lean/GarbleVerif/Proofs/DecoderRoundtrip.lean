import GarbleVerif.Proofs.LiteralSafe
/-!
# The decoder `Literal::from_unwrapped_bits` undoes the encoding

For every well-typed value, `Ty.fromBits` (the model of `from_unwrapped_bits`) accepts the value's encoding and
returns a literal that denotes the value. Types are well-formed (`DefsOK`: field names of a struct are distinct, a
unit variant has no fields).
-/
namespace GV

/-- positionally: same names, and each literal denotes the field's value -/
def LFRel : LitFields → Fields → FieldVals → Prop
  | .nil, .nil, .nil => True
  | .cons n l r, .cons n' t ts, .cons n'' v vs => n = n' ∧ n' = n'' ∧ l.denote t = some v ∧ LFRel r ts vs
  | _, _, _ => False

theorem LFRel.length : ∀ (lfs : LitFields) (fs : Fields) (fvs : FieldVals), LFRel lfs fs fvs → lfs.length = fs.length
  | .nil, .nil, .nil, _ => rfl
  | .cons _ _ r, .cons _ _ ts, .cons _ _ vs, h => by
    simp only [LFRel] at h
    simp [LitFields.length, Fields.length, LFRel.length r ts vs h.2.2.2]
  | .nil, .nil, .cons _ _ _, h | .nil, .cons _ _ _, _, h | .cons _ _ _, .nil, _, h
  | .cons _ _ _, .cons _ _ _, .nil, h => by simp [LFRel] at h

/-- looking a field up by name in a literal whose earlier fields have other names -/
theorem denoteField_skip (n0 : String) (l0 : Lit) (r : LitFields) (n : String) (t : Ty) (h : n0 ≠ n) :
    (LitFields.cons n0 l0 r).denoteField n t = r.denoteField n t := by
  simp [LitFields.denoteField, h]

/-- with distinct names, the fields of the decoded literal are found in definition order -/
theorem LFRel.denoteInOrder : ∀ (lfs : LitFields) (fs : Fields) (fvs : FieldVals), LFRel lfs fs fvs → fs.names.Nodup →
    ∀ (whole : LitFields), (∀ n t, n ∈ fs.names → whole.denoteField n t = lfs.denoteField n t) →
    whole.denoteInOrder fs = some fvs
  | .nil, .nil, .nil, _, _, whole, _ => by simp [LitFields.denoteInOrder]
  | .cons n l r, .cons n' t ts, .cons n'' v vs, h, hnd, whole, hw => by
    simp only [LFRel] at h
    obtain ⟨rfl, rfl, hl, hr⟩ := h
    simp only [Fields.names, List.nodup_cons] at hnd
    have h1 : whole.denoteField n t = some v := by
      rw [hw n t (by simp [Fields.names])]
      simp [LitFields.denoteField, hl]
    have h2 := LFRel.denoteInOrder r ts vs hr hnd.2 whole (by
      intro m tm hm
      rw [hw m tm (by simp [Fields.names, hm])]
      exact denoteField_skip n l r m tm (by rintro rfl; exact hnd.1 hm))
    simp only [LitFields.denoteInOrder, h1, h2]
  | .nil, .nil, .cons _ _ _, h, _, _, _ | .nil, .cons _ _ _, _, h, _, _, _ | .cons _ _ _, .nil, _, h, _, _, _
  | .cons _ _ _, .cons _ _ _, .nil, h, _, _, _ => by simp [LFRel] at h

/-- the variant at the tag number: what the decoder looks at -/
theorem fromBitsAt_find? : ∀ (vs : Variants) (name : String) (i : Nat) (u : Bool) (fts : TyList) (bits : List Bool),
    vs.find? name = some (i, u, fts) →
    vs.fromBitsAt i bits =
      if u then some (name, Bool.true, .nil) else (fts.fromBitsEach bits).map fun ls => (name, Bool.false, ls)
  | .nil, _, _, _, _, _, h => by simp [Variants.find?] at h
  | .cons n u' fs r, name, i, u, fts, bits, h => by
    simp only [Variants.find?] at h
    split at h
    · rename_i hn
      simp only [Option.some.injEq, Prod.mk.injEq] at h
      obtain ⟨rfl, rfl, rfl⟩ := h
      have : n = name := by simpa using hn
      subst this
      simp only [Variants.fromBitsAt]
      cases u' <;> simp
      cases fs.fromBitsEach bits <;> rfl
    · split at h
      · rename_i i' u'' fts' hr
        simp only [Option.some.injEq, Prod.mk.injEq] at h
        obtain ⟨rfl, rfl, rfl⟩ := h
        simp only [Variants.fromBitsAt]
        exact fromBitsAt_find? r name i' u'' fts' bits hr
      · simp at h

mutual
theorem fromBits_encode (d : Defs) : ∀ (v : Val) (t : Ty), t.DefsOK d → v.hasType t = true →
    ∃ l, t.fromBits (v.encode t) = some l ∧ l.denote t = some v
  | .bool b, .bool, _, _ => by
    cases b <;> simp [Val.encode, Ty.fromBits, Lit.denote]
  | .int i, .int k, _, h => by
    simp only [Val.hasType] at h
    have hr := int_roundtrip k i h
    refine ⟨litOfInt k (intToBits i k.bits), by simp [Val.encode, Ty.fromBits, intToBits_length], ?_⟩
    cases hs : k.signed
    · rw [hs] at hr
      simp only [bitsToInt, Bool.false_and, Bool.false_eq_true, if_false] at hr
      simp [litOfInt, hs, Lit.denote, hr]
    · rw [hs] at hr
      simp [litOfInt, hs, Lit.denote, hr]
  | .array vs, .array t n, hd, h => by
    simp only [Val.hasType, Bool.and_eq_true, beq_iff_eq] at h
    simp only [Ty.DefsOK] at hd
    obtain ⟨ls, h1, h2⟩ := litsN_encodeAll d vs t hd h.2
    refine ⟨.array ls, by simp only [Val.encode, Ty.fromBits, ← h.1, h1], by simp only [Lit.denote, h2]⟩
  | .tuple vs, .tuple ts, hd, h => by
    simp only [Val.hasType] at h
    simp only [Ty.DefsOK] at hd
    obtain ⟨ls, h1, h2⟩ := fromBitsEach_encodeEach d vs ts [] hd h
    simp only [List.append_nil] at h1
    refine ⟨.tuple ls, by simp only [Val.encode, Ty.fromBits, h1], by simp only [Lit.denote, h2]⟩
  | .struct name fvs, .struct name' fs, hd, h => by
    simp only [Val.hasType, Bool.and_eq_true, beq_iff_eq] at h
    simp only [Ty.DefsOK] at hd
    obtain ⟨lfs, h1, h2⟩ := fieldsFromBits_encode d fvs fs [] hd.2.2 h.2
    simp only [List.append_nil] at h1
    refine ⟨.struct name' lfs, by simp only [Val.encode, Ty.fromBits, h1], ?_⟩
    have hlen := LFRel.length lfs fs fvs h2
    have hord := LFRel.denoteInOrder lfs fs fvs h2 hd.2.1 lfs (fun _ _ _ => rfl)
    simp [Lit.denote, hlen, hord, h.1]
  | .enum name variant isUnit vs, .enum name' variants, hd, h => by
    simp only [Val.hasType, Bool.and_eq_true, beq_iff_eq] at h
    simp only [Ty.DefsOK] at hd
    obtain ⟨hname, h2⟩ := h
    cases hf : variants.find? variant with
    | none => rw [hf] at h2; simp at h2
    | some r =>
      obtain ⟨i, u, fts⟩ := r
      rw [hf] at h2
      simp only [Bool.and_eq_true, beq_iff_eq] at h2
      obtain ⟨rfl, hvs⟩ := h2
      have hlt := Variants.find?_lt_length variants variant i u fts hf
      have hpow := Variants.length_le_pow_tagSize variants
      obtain ⟨hfd, hunit⟩ := Variants.find?_DefsOK d variants variant i u fts hd.2 hf
      obtain ⟨ls, h1, h3⟩ := fromBitsEach_encodeEach d vs fts
        (List.replicate (variants.maxPayload - (vs.encodeEach fts).length) false) hfd hvs
      simp only [Val.encode, Ty.fromBits, hf]
      rw [List.append_assoc, take_append_len _ _ _ (natToBits_length _ _),
        drop_append_len _ _ _ (natToBits_length _ _), bitsToNat_natToBits,
        Nat.mod_eq_of_lt (by omega), fromBitsAt_find? variants variant i u fts _ hf]
      cases u with
      | true =>
        have hnil := hunit rfl
        subst hnil
        have hvnil : vs = .nil := by cases vs <;> simp_all [ValList.haveTypes]
        subst hvnil
        exact ⟨.enum name' variant Bool.true .nil, by simp, by simp [Lit.denote, hf, hname]⟩
      | false =>
        refine ⟨.enum name' variant Bool.false ls, by simp [h1], ?_⟩
        simp [Lit.denote, hf, h3, hname]
  | .bool _, .int _, _, h | .bool _, .array _ _, _, h | .bool _, .tuple _, _, h | .bool _, .struct _ _, _, h
  | .bool _, .enum _ _, _, h => by simp [Val.hasType] at h
  | .int _, .bool, _, h | .int _, .array _ _, _, h | .int _, .tuple _, _, h | .int _, .struct _ _, _, h
  | .int _, .enum _ _, _, h => by simp [Val.hasType] at h
  | .array _, .bool, _, h | .array _, .int _, _, h | .array _, .tuple _, _, h | .array _, .struct _ _, _, h
  | .array _, .enum _ _, _, h => by simp [Val.hasType] at h
  | .tuple _, .bool, _, h | .tuple _, .int _, _, h | .tuple _, .array _ _, _, h | .tuple _, .struct _ _, _, h
  | .tuple _, .enum _ _, _, h => by simp [Val.hasType] at h
  | .struct _ _, .bool, _, h | .struct _ _, .int _, _, h | .struct _ _, .array _ _, _, h | .struct _ _, .tuple _, _, h
  | .struct _ _, .enum _ _, _, h => by simp [Val.hasType] at h
  | .enum _ _ _ _, .bool, _, h | .enum _ _ _ _, .int _, _, h | .enum _ _ _ _, .array _ _, _, h
  | .enum _ _ _ _, .tuple _, _, h | .enum _ _ _ _, .struct _ _, _, h => by simp [Val.hasType] at h
theorem litsN_encodeAll (d : Defs) : ∀ (vs : ValList) (t : Ty), t.DefsOK d → vs.allHaveType t = true →
    ∃ ls, litsN t.fromBits t.size vs.length (vs.encodeAll t) = some ls ∧ ls.denoteAll t = some vs
  | .nil, _, _, _ => ⟨.nil, by simp [ValList.length, litsN], by simp [LitList.denoteAll]⟩
  | .cons v r, t, hd, h => by
    simp only [ValList.allHaveType, Bool.and_eq_true] at h
    have hl := Val.encode_length v t h.1
    obtain ⟨l, h1, h2⟩ := fromBits_encode d v t hd h.1
    obtain ⟨ls, h3, h4⟩ := litsN_encodeAll d r t hd h.2
    refine ⟨.cons l ls, ?_, by simp only [LitList.denoteAll, h2, h4]⟩
    simp only [ValList.encodeAll, ValList.length, litsN, List.length_append, hl]
    rw [if_pos (by omega), take_append_len _ _ _ hl, drop_append_len _ _ _ hl, h1, h3]
theorem fromBitsEach_encodeEach (d : Defs) : ∀ (vs : ValList) (ts : TyList) (extra : List Bool), ts.DefsOK d →
    vs.haveTypes ts = true →
    ∃ ls, ts.fromBitsEach (vs.encodeEach ts ++ extra) = some ls ∧ ls.denoteEach ts = some vs
  | .nil, .nil, _, _, _ => ⟨.nil, by simp [TyList.fromBitsEach], by simp [LitList.denoteEach]⟩
  | .cons v r, .cons t ts, extra, hd, h => by
    simp only [ValList.haveTypes, Bool.and_eq_true] at h
    simp only [TyList.DefsOK] at hd
    have hl := Val.encode_length v t h.1
    obtain ⟨l, h1, h2⟩ := fromBits_encode d v t hd.1 h.1
    obtain ⟨ls, h3, h4⟩ := fromBitsEach_encodeEach d r ts extra hd.2 h.2
    refine ⟨.cons l ls, ?_, by simp only [LitList.denoteEach, h2, h4]⟩
    simp only [ValList.encodeEach, TyList.fromBitsEach, List.append_assoc, List.length_append, hl]
    rw [if_pos (by omega), take_append_len _ _ _ hl, drop_append_len _ _ _ hl, h1, h3]
  | .nil, .cons _ _, _, _, h => by simp [ValList.haveTypes] at h
  | .cons _ _, .nil, _, _, h => by simp [ValList.haveTypes] at h
theorem fieldsFromBits_encode (d : Defs) : ∀ (fvs : FieldVals) (fs : Fields) (extra : List Bool), fs.DefsOK d →
    fvs.haveTypes fs = true →
    ∃ lfs, fs.fromBitsEach (fvs.encodeEach fs ++ extra) = some lfs ∧ LFRel lfs fs fvs
  | .nil, .nil, _, _, _ => ⟨.nil, by simp [Fields.fromBitsEach], by simp [LFRel]⟩
  | .cons n v r, .cons n' t ts, extra, hd, h => by
    simp only [FieldVals.haveTypes, Bool.and_eq_true, beq_iff_eq] at h
    simp only [Fields.DefsOK] at hd
    have hl := Val.encode_length v t h.1.2
    obtain ⟨l, h1, h2⟩ := fromBits_encode d v t hd.1 h.1.2
    obtain ⟨lfs, h3, h4⟩ := fieldsFromBits_encode d r ts extra hd.2 h.2
    refine ⟨.cons n' l lfs, ?_, by simp only [LFRel]; exact ⟨by trivial, h.1.1.symm, h2, h4⟩⟩
    simp only [FieldVals.encodeEach, Fields.fromBitsEach, List.append_assoc, List.length_append, hl]
    rw [if_pos (by omega), take_append_len _ _ _ hl, drop_append_len _ _ _ hl, h1, h3]
  | .nil, .cons _ _ _, _, _, h => by simp [FieldVals.haveTypes] at h
  | .cons _ _ _, .nil, _, _, h => by simp [FieldVals.haveTypes] at h
end

end GV
