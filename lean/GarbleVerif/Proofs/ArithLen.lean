import GarbleVerif.Proofs.ArithSMul
import GarbleVerif.Proofs.ArithCmp
/-! Widths: every operator circuit returns as many wires as its operands have, whatever the wires carry. -/
namespace GV
namespace Arith

theorem sub_length (x y : List Bool) (s : Bool) (h : x.length = y.length) : (sub x y s).1.length = x.length := by
  simp only [sub]
  rw [List.length_tail, add_length _ _ (by simp [neg_length, h])]
  simp

theorem udivStep_length (y : List Bool) (q r : List Bool) (s : Nat) (n : Nat) (hq : q.length = n)
    (hr : r.length = n) (hy : y.length = n) (hs : s ≤ n) :
    (udivStep y (q, r) s).1.length = n ∧ (udivStep y (q, r) s).2.length = n := by
  have hys : (y.drop s ++ List.replicate s false).length = n := by
    simp only [List.length_append, List.length_drop, List.length_replicate, hy]; omega
  have hsub := sub_length r (y.drop s ++ List.replicate s false) false (by rw [hr, hys])
  simp only [udivStep]
  exact ⟨by simp [hq], by simp [hsub, hr]⟩

theorem udiv_fold_length (y : List Bool) (n : Nat) (hy : y.length = n) : ∀ (ss : List Nat), (∀ s, s ∈ ss → s ≤ n) →
    ∀ (q r : List Bool), q.length = n → r.length = n →
    (ss.foldl (udivStep y) (q, r)).1.length = n ∧ (ss.foldl (udivStep y) (q, r)).2.length = n
  | [], _, q, r, hq, hr => ⟨hq, hr⟩
  | s :: ss, hss, q, r, hq, hr => by
    have h1 := udivStep_length y q r s n hq hr hy (hss s (by simp))
    simp only [List.foldl_cons]
    have : udivStep y (q, r) s = ((udivStep y (q, r) s).1, (udivStep y (q, r) s).2) := rfl
    rw [this]
    exact udiv_fold_length y n hy ss (fun s' h' => hss s' (by simp [h'])) _ _ h1.1 h1.2

theorem udiv_len (x y : List Bool) (h : x.length = y.length) :
    (udiv x y).1.length = x.length ∧ (udiv x y).2.length = x.length := by
  simp only [udiv]
  exact udiv_fold_length y x.length h.symm _ (by
    intro s hs
    simp only [List.mem_reverse, List.mem_range] at hs
    omega) _ _ (by simp) rfl

theorem absMux_length (c : Bool) (x : List Bool) :
    ((neg x).zip x |>.map fun (p : Bool × Bool) => mux c p.1 p.2).length = x.length := by
  simp [neg_length]

theorem sdiv_len (x y : List Bool) (h : x.length = y.length) :
    (sdiv x y).1.length = x.length ∧ (sdiv x y).2.length = x.length := by
  simp only [sdiv]
  have hxa := absMux_length (x.headD false) x
  have hya := absMux_length (y.headD false) y
  have hu := udiv_len ((neg x).zip x |>.map fun (p : Bool × Bool) => mux (x.headD false) p.1 p.2)
    ((neg y).zip y |>.map fun (p : Bool × Bool) => mux (y.headD false) p.1 p.2) (by rw [hxa, hya, h])
  rw [hxa] at hu
  exact ⟨by rw [absMux_length]; exact hu.1, by rw [absMux_length]; exact hu.2⟩

theorem shiftLayer_length (l : Bool) (f : Bool) (bits : List Bool) (k : Nat) (s : Bool) :
    (shiftLayer l f bits k s).length = bits.length := by
  simp [shiftLayer]

theorem shift_length (l sx : Bool) (x y : List Bool) : (shift l sx x y).1.length = x.length := by
  simp only [shift]
  suffices ∀ (ls : List Nat) (acc : List Bool × Nat), acc.1.length = x.length →
      (ls.foldl (fun (acc : List Bool × Nat) layer =>
        (shiftLayer l (if sx && !l then x.headD false else false) acc.1 acc.2 (y.getD layer false), acc.2 * 2)) acc).1.length
        = x.length from this _ (x, 1) rfl
  intro ls
  induction ls with
  | nil => intro acc h; exact h
  | cons a ls ih => intro acc h; exact ih _ (by simp [shiftLayer_length, h])

theorem negChecked_length (x : List Bool) : (negChecked x).1.length = x.length := by
  simp [negChecked, neg_length]

theorem constMul_length (y : List Bool) (s : Bool) (n : Nat) (neg : Bool) : (constMul y s n neg).1.length = y.length := by
  have key : ∀ (ls : List Nat) (acc : List Bool × Bool), acc.1.length = y.length →
      (ls.foldl (fun (acc : List Bool × Bool) _ =>
        let (sum, carry, prev) := add acc.1 y
        (sum, acc.2 || (if s then carry ^^ prev else carry))) acc).1.length = y.length := by
    intro ls
    induction ls with
    | nil => intro acc h; exact h
    | cons a ls ih =>
      intro acc h
      simp only [List.foldl_cons]
      exact ih _ (by rw [show (add acc.1 y).1.length = acc.1.length from add_length acc.1 y h, h])
  simp only [constMul]
  split
  · rw [negChecked_length]; exact key _ _ rfl
  · exact key _ _ rfl

end Arith
end GV
