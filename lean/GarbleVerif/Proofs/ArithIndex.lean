import GarbleVerif.Proofs.ArithBE
/-! The mux tree of an array read selects the element at the index; the mux chains of an array write replace
exactly that element. All array lengths, all element sizes, any number of index bits. -/
namespace GV
namespace Arith

theorem zipWith_mux (s : Bool) : ∀ (a0 a1 : List Bool), a0.length = a1.length →
    List.zipWith (fun x0 x1 => mux s x1 x0) a0 a1 = if s then a1 else a0
  | [], [], _ => by cases s <;> rfl
  | [], _ :: _, h => by simp at h
  | _ :: _, [], h => by simp at h
  | x :: a0, y :: a1, h => by
    simp only [List.length_cons, Nat.add_right_cancel_iff] at h
    have := zipWith_mux s a0 a1 h
    cases s <;> simp_all [mux_eq]

theorem muxLayer_length (s : Bool) : ∀ (L : List (List Bool)), (muxLayer s L).length = (L.length + 1) / 2
  | [] => rfl
  | [_] => by simp [muxLayer]
  | _ :: _ :: rest => by
    simp only [muxLayer, List.length_cons, muxLayer_length s rest]
    omega

theorem muxLayer_sizes (s : Bool) (sz : Nat) : ∀ (L : List (List Bool)), (∀ a, a ∈ L → a.length = sz) →
    ∀ a, a ∈ muxLayer s L → a.length = sz
  | [], _, a, h => by simp [muxLayer] at h
  | [a0], hl, a, h => by
    simp only [muxLayer, List.mem_singleton] at h
    subst h
    simp [hl a0 (by simp)]
  | a0 :: a1 :: rest, hl, a, h => by
    simp only [muxLayer, List.mem_cons] at h
    rcases h with rfl | h
    · simp [hl a0 (by simp), hl a1 (by simp)]
    · exact muxLayer_sizes s sz rest (fun b hb => hl b (by simp [hb])) a h

/-- one layer: position `m` of the result is position `2m + s` of the input -/
theorem muxLayer_get (s : Bool) (sz : Nat) : ∀ (L : List (List Bool)), (∀ a, a ∈ L → a.length = sz) →
    ∀ m, 2 * m + s.toNat < L.length → (muxLayer s L)[m]? = L[2 * m + s.toNat]?
  | [], _, m, h => by simp at h
  | [a0], _, m, h => by
    simp only [List.length_singleton] at h
    have hm : m = 0 := by omega
    subst hm
    cases s
    · simp [muxLayer, mux_eq]
    · simp at h
  | a0 :: a1 :: rest, hl, 0, _ => by
    simp only [muxLayer, List.getElem?_cons_zero, Nat.mul_zero, Nat.zero_add]
    rw [zipWith_mux s a0 a1 (by rw [hl a0 (by simp), hl a1 (by simp)])]
    cases s <;> simp
  | a0 :: a1 :: rest, hl, m + 1, h => by
    simp only [List.length_cons] at h
    have ih := muxLayer_get s sz rest (fun b hb => hl b (by simp [hb])) m (by omega)
    have e : 2 * (m + 1) + s.toNat = (2 * m + s.toNat) + 1 + 1 := by omega
    simp only [muxLayer, List.getElem?_cons_succ, ih, e]

/-- all layers, least significant index bit first: position `j` of the result is position `j · 2^k + v` of the input,
`v` the number the `k` index bits spell -/
theorem muxLayers_get (sz : Nat) : ∀ (bs : List Bool) (L : List (List Bool)), (∀ a, a ∈ L → a.length = sz) →
    ∀ j, j * 2 ^ bs.length + toNatLE bs < L.length →
      (bs.foldl (fun arr s => muxLayer s arr) L)[j]? = L[j * 2 ^ bs.length + toNatLE bs]?
  | [], L, _, j, _ => by simp [toNatLE]
  | b :: bs, L, hl, j, h => by
    simp only [List.foldl_cons]
    simp only [List.length_cons, toNatLE] at h ⊢
    have e : j * 2 ^ (bs.length + 1) + (b.toNat + 2 * toNatLE bs) = 2 * (j * 2 ^ bs.length + toNatLE bs) + b.toNat := by
      rw [Nat.pow_succ, ← Nat.mul_assoc]; omega
    rw [e] at h ⊢
    have hlen : j * 2 ^ bs.length + toNatLE bs < (muxLayer b L).length := by
      rw [muxLayer_length]; omega
    rw [muxLayers_get sz bs (muxLayer b L) (muxLayer_sizes b sz L hl) j hlen,
      muxLayer_get b sz L hl _ h]

/-- **the mux tree selects the element at the index** -/
theorem indexMux_get (sz : Nat) (idx : List Bool) (L : List (List Bool)) (hl : ∀ a, a ∈ L → a.length = sz)
    (h : toNat idx < L.length) : (indexMux idx L)[0]? = L[toNat idx]? := by
  have := muxLayers_get sz idx.reverse L hl 0 (by simpa [toNat] using h)
  simpa [indexMux, toNat] using this

theorem muxLayers_sizes (sz : Nat) : ∀ (bs : List Bool) (L : List (List Bool)), (∀ a, a ∈ L → a.length = sz) →
    ∀ a, a ∈ bs.foldl (fun arr s => muxLayer s arr) L → a.length = sz
  | [], L, hl, a, h => hl a h
  | b :: bs, L, hl, a, h => muxLayers_sizes sz bs (muxLayer b L) (muxLayer_sizes b sz L hl) a h

theorem indexMux_sizes (sz : Nat) (idx : List Bool) (L : List (List Bool)) (hl : ∀ a, a ∈ L → a.length = sz) :
    ∀ a, a ∈ indexMux idx L → a.length = sz :=
  muxLayers_sizes sz idx.reverse L hl

/-! ### writes -/

theorem bitsOf_length (n : Nat) : ∀ size, (bitsOf n size).length = size
  | 0 => rfl
  | size + 1 => by simp [bitsOf, bitsOf_length n size]

theorem mux_same (c x : Bool) : mux c x x = x := by cases c <;> cases x <;> rfl
theorem mux_false' (x y : Bool) : mux false x y = y := by cases x <;> cases y <;> rfl
theorem mux_true' (x y : Bool) : mux true x y = x := by cases x <;> cases y <;> rfl

/-- once a mux of the chain has taken the old wire, the rest of the chain keeps it -/
theorem writeChain_old (old : Bool) : ∀ (l : List (Bool × Bool)),
    l.foldl (fun x1 ab => mux (if ab.2 then !ab.1 else ab.1) old x1) old = old
  | [] => rfl
  | ab :: l => by
    rw [List.foldl_cons, mux_same]
    exact writeChain_old old l

theorem writeChain (old v : Bool) : ∀ (a b : List Bool), a.length = b.length →
    (a.zip b).foldl (fun x1 ab => mux (if ab.2 then !ab.1 else ab.1) old x1) v = if a = b then v else old
  | [], [], _ => by simp
  | [], _ :: _, h => by simp at h
  | _ :: _, [], h => by simp at h
  | x :: a, y :: b, h => by
    simp only [List.length_cons, Nat.add_right_cancel_iff] at h
    rw [List.zip_cons_cons, List.foldl_cons]
    by_cases hxy : x = y
    · subst hxy
      have : (if (x, x).2 = true then !(x, x).1 else (x, x).1) = false := by cases x <;> rfl
      rw [this, mux_false', writeChain old v a b h]
      simp
    · have : (if (x, y).2 = true then !(x, y).1 else (x, y).1) = true := by cases x <;> cases y <;> simp_all
      rw [this, mux_true', writeChain_old]
      simp [hxy]

/-- **an array write keeps every wire of element `i` unless the index spells `i`** -/
theorem writeBit_spec (idx : List Bool) (i : Nat) (old v : Bool) :
    writeBit idx i old v = if idx = bitsOf i idx.length then v else old :=
  writeChain old v idx (bitsOf i idx.length) (bitsOf_length i idx.length).symm

theorem toNat_bitsOf (n : Nat) : ∀ w, toNat (bitsOf n w) = n % 2 ^ w
  | 0 => by simp [bitsOf, toNat_nil, Nat.mod_one]
  | w + 1 => by
    simp only [bitsOf, toNat_cons, bitsOf_length, toNat_bitsOf n w]
    rw [Nat.pow_succ, Nat.mod_mul]
    have hr : n / 2 ^ w % 2 < 2 := Nat.mod_lt _ (by decide)
    rcases Nat.lt_or_ge (n / 2 ^ w % 2) 1 with h | h
    · have h0 : n / 2 ^ w % 2 = 0 := by omega
      simp [h0]
    · have h1 : n / 2 ^ w % 2 = 1 := by omega
      simp [h1]; omega

theorem idx_eq_bitsOf (idx : List Bool) (i : Nat) (hi : i < 2 ^ idx.length) :
    idx = bitsOf i idx.length ↔ toNat idx = i := by
  constructor
  · intro h
    have := congrArg toNat h
    rwa [toNat_bitsOf, Nat.mod_eq_of_lt hi] at this
  · intro h
    have hlt := toNat_lt idx
    -- equal length and equal value
    have key : ∀ (xs ys : List Bool), xs.length = ys.length → toNat xs = toNat ys → xs = ys := by
      intro xs
      induction xs with
      | nil => intro ys hl _; cases ys <;> simp_all
      | cons a xs ih =>
        intro ys hl ht
        cases ys with
        | nil => simp at hl
        | cons b ys =>
          simp only [List.length_cons, Nat.add_right_cancel_iff] at hl
          rw [toNat_cons, toNat_cons, hl] at ht
          have hx := toNat_lt xs
          have hy := toNat_lt ys
          rw [hl] at hx
          have hab : a = b ∧ toNat xs = toNat ys := by
            generalize (2 : Nat) ^ ys.length = P at *
            cases a <;> cases b <;> simp at ht ⊢ <;> omega
          rw [hab.1, ih ys hl hab.2]
    exact key idx (bitsOf i idx.length) (bitsOf_length i idx.length).symm
      (by rw [toNat_bitsOf, Nat.mod_eq_of_lt hi, h])

theorem zipWith_writeBit (idx : List Bool) (i : Nat) (hi : i < 2 ^ idx.length) : ∀ (old sub : List Bool),
    old.length = sub.length →
    List.zipWith (writeBit idx i) old sub = if toNat idx = i then sub else old := by
  intro old sub h
  have hspec : ∀ o v, writeBit idx i o v = if toNat idx = i then v else o := by
    intro o v
    rw [writeBit_spec]
    by_cases hc : toNat idx = i
    · rw [if_pos ((idx_eq_bitsOf idx i hi).mpr hc), if_pos hc]
    · have : ¬ idx = bitsOf i idx.length := fun he => hc ((idx_eq_bitsOf idx i hi).mp he)
      rw [if_neg this, if_neg hc]
  induction old generalizing sub with
  | nil => cases sub <;> simp_all
  | cons o old ih =>
    cases sub with
    | nil => simp at h
    | cons v sub =>
      simp only [List.length_cons, Nat.add_right_cancel_iff] at h
      rw [List.zipWith_cons_cons, hspec, ih sub h]
      by_cases hc : toNat idx = i <;> simp [hc]

end Arith
end GV
