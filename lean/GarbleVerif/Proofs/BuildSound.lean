import GarbleVerif.Proofs.Mark
import GarbleVerif.Proofs.Renumber
import GarbleVerif.Proofs.SsaEval
/-! Assembly: `build` (mark, compact, renumber) followed by the *checked* SSA evaluator
returns the builder semantics of every requested wire. -/
namespace GV
namespace Builder

/-! ### well-formedness of the compacted gate list -/

theorem getD_true_lt {l : List Bool} {i : Nat} (h : l.getD i false = true) : i < l.length := by
  rcases Nat.lt_or_ge i l.length with hlt | hge
  · exact hlt
  · simp [List.getD_eq_getElem?_getD, List.getElem?_eq_none hge] at h

theorem getD_true_getElem {l : List Bool} {i : Nat} (h : l.getD i false = true) (hi : i < l.length) :
    l[i] = true := by
  simpa [List.getD_eq_getElem?_getD, List.getElem?_eq_getElem hi] using h

theorem newPos_succ_used (used : List Bool) (p : Nat) (hp : p < used.length) (hu : used[p] = true) :
    newPos used (p + 1) = newPos used p + 1 := by
  simp only [newPos]; rw [take_succ_filter used p _ hp]; simp [hu]

theorem newPos_succ_unused (used : List Bool) (p : Nat) (hu : used.getD p false = false) :
    newPos used (p + 1) = newPos used p := by
  rcases Nat.lt_or_ge p used.length with hp | hp
  · have : used[p] = false := by
      simpa [List.getD_eq_getElem?_getD, List.getElem?_eq_getElem hp] using hu
    simp only [newPos]; rw [take_succ_filter used p _ hp]; simp [this]
  · simp only [newPos]
    rw [List.take_of_length_le (by omega), List.take_of_length_le hp]

/-- every gate of the compacted list comes from a used gate of the original list -/
theorem compactFrom_origin (shift : Nat) (used : List Bool) (gates : List BGate)
    (gs : List BGate) (k : Nat) (hgs : gs = gates.drop k) (i : Nat) (g' : BGate)
    (h : (compactFrom shift used k gs)[i]? = some g') :
    ∃ p g, k ≤ p ∧ gates[p]? = some g ∧ used.getD p false = true ∧
      g' = mapOps (remap shift used) g ∧ newPos used p = newPos used k + i := by
  induction gs generalizing k i with
  | nil => simp [compactFrom] at h
  | cons g gs ih =>
    have hg : gates[k]? = some g := by
      have := congrArg (fun l => l[0]?) hgs
      simpa [List.getElem?_drop] using this.symm
    have hgs' : gs = gates.drop (k + 1) := by
      have := congrArg List.tail hgs
      simpa [List.tail_drop] using this
    simp only [compactFrom] at h
    split at h
    · rename_i hu
      cases i with
      | zero =>
        simp only [List.getElem?_cons_zero, Option.some.injEq] at h
        exact ⟨k, g, Nat.le_refl _, hg, hu, h.symm, by simp⟩
      | succ i =>
        simp only [List.getElem?_cons_succ] at h
        obtain ⟨p, g0, hp, hgp, hup, he, hn⟩ := ih (k + 1) hgs' i h
        have hku := getD_true_lt hu
        refine ⟨p, g0, by omega, hgp, hup, he, ?_⟩
        rw [hn, newPos_succ_used used k hku (getD_true_getElem hu hku)]; omega
    · rename_i hu
      obtain ⟨p, g0, hp, hgp, hup, he, hn⟩ := ih (k + 1) hgs' i h
      refine ⟨p, g0, by omega, hgp, hup, he, ?_⟩
      rw [hn, newPos_succ_unused used k (by simpa using hu)]

theorem remap_lt {shift : Nat} {used : List Bool} {gates : List BGate}
    (hlen : used.length = gates.length) {o p : Nat} (ho : o < shift + p) (hp : p ≤ gates.length)
    (hu : shift ≤ o → used.getD (o - shift) false = true) (hpos : ∀ q, q < p → used.getD q false = true → newPos used q < newPos used p ∨ True) :
    remap shift used o < shift + newPos used p ∨ (o < shift ∧ remap shift used o = o) := by
  rcases Nat.lt_or_ge o shift with hlt | hge
  · right; exact ⟨hlt, by simp [remap]; omega⟩
  · left
    have hused := hu hge
    obtain ⟨q, rfl⟩ : ∃ q, o = shift + q := ⟨o - shift, by omega⟩
    have hq : q < p := by omega
    have hql : q < used.length := by omega
    have hused' : used[q] = true := by
      have : used.getD q false = true := by simpa using hused
      exact getD_true_getElem this hql
    rw [remap_used shift used q hql hused']
    have := newPos_lt_of_used used hq hql hused'
    omega

/-- the compacted list is again well-formed -/
theorem compact_wf {shift : Nat} {used : List Bool} {gates : List BGate}
    (hcl : Closed shift used gates) (hlen : used.length = gates.length)
    (hwf : ∀ i g, gates[i]? = some g → opsLt g (shift + i)) :
    ∀ i g, (compact shift used gates)[i]? = some g → opsLt g (shift + i) := by
  intro i g' h
  obtain ⟨p, g, _, hgp, hup, he, hn⟩ := compactFrom_origin shift used gates gates 0 (by simp) i g' h
  have hnp0 : newPos used 0 = 0 := by simp [newPos]
  rw [hnp0, Nat.zero_add] at hn
  have hops := hwf p g hgp
  have hpl : p < gates.length := by
    rcases Nat.lt_or_ge p gates.length with h' | h'
    · exact h'
    · rw [List.getElem?_eq_none h'] at hgp; simp at hgp
  have key : ∀ o, opsOf g o → o < shift + p → remap shift used o < shift + i := by
    intro o ho holt
    have hcl' := hcl p g hgp hup o (by cases g <;> exact ho)
    rcases remap_lt hlen holt (Nat.le_of_lt hpl) hcl' (fun _ _ _ => Or.inr trivial) with h1 | ⟨h1, h2⟩
    · omega
    · omega
  subst he
  cases g with
  | xor a b =>
    obtain ⟨ha, hb⟩ := hops
    exact ⟨key a (Or.inl rfl) ha, key b (Or.inr rfl) hb⟩
  | and a b =>
    obtain ⟨ha, hb⟩ := hops
    exact ⟨key a (Or.inl rfl) ha, key b (Or.inr rfl) hb⟩

/-! ### checked evaluator = `getD` evaluator on well-formed gate lists -/

theorem evalGate_eq_sgateVal {ws : List Bool} {g : Gate} (h : Circuit.gateOk g ws.length = true) :
    Circuit.evalGate ws g = some (sgateVal ws g) := by
  cases g with
  | xor x y =>
    simp only [Circuit.gateOk, Bool.and_eq_true, decide_eq_true_eq] at h
    simp [Circuit.evalGate, sgateVal, List.getD_eq_getElem?_getD, List.getElem?_eq_getElem h.1,
      List.getElem?_eq_getElem h.2]
  | and x y =>
    simp only [Circuit.gateOk, Bool.and_eq_true, decide_eq_true_eq] at h
    simp [Circuit.evalGate, sgateVal, List.getD_eq_getElem?_getD, List.getElem?_eq_getElem h.1,
      List.getElem?_eq_getElem h.2]
  | not x =>
    simp only [Circuit.gateOk, decide_eq_true_eq] at h
    simp [Circuit.evalGate, sgateVal, List.getD_eq_getElem?_getD, List.getElem?_eq_getElem h]

theorem evalGates_eq_svals (gs : List Gate) (ws : List Bool)
    (h : ∀ i g, gs[i]? = some g → Circuit.gateOk g (ws.length + i) = true) :
    Circuit.evalGates gs ws = some (svalsFrom ws gs) := by
  induction gs generalizing ws with
  | nil => simp [Circuit.evalGates, svalsFrom]
  | cons g gs ih =>
    have hg := h 0 g (by simp)
    simp only [Nat.add_zero] at hg
    simp only [Circuit.evalGates, evalGate_eq_sgateVal hg, svalsFrom, List.foldl_cons, sstep]
    apply ih
    intro i g' hi
    have := h (i + 1) g' (by simpa using hi)
    simpa [Nat.add_assoc, Nat.add_comm 1 i] using this

theorem validateGates_of_ok (gs : List Gate) (n : Nat)
    (h : ∀ i g, gs[i]? = some g → Circuit.gateOk g (n + i) = true) :
    Circuit.validateGates gs n = .ok () := by
  induction gs generalizing n with
  | nil => rfl
  | cons g gs ih =>
    have hg := h 0 g (by simp)
    simp only [Nat.add_zero] at hg
    simp only [Circuit.validateGates, hg, if_true]
    apply ih
    intro i g' hi
    have := h (i + 1) g' (by simpa using hi)
    simpa [Nat.add_assoc, Nat.add_comm 1 i] using this

theorem convGate_ok {shift n : Nat} (hs : 2 ≤ shift) (hn : shift ≤ n) {g : BGate} (hg : opsLt g n) :
    Circuit.gateOk (convGate shift g) n = true := by
  cases g with
  | xor x y =>
    obtain ⟨hx, hy⟩ := hg
    simp only [convGate]
    split
    · simp [Circuit.gateOk, fIdx_lt hs hn hy]
    · split
      · simp [Circuit.gateOk, fIdx_lt hs hn hx]
      · simp [Circuit.gateOk, fIdx_lt hs hn hx, fIdx_lt hs hn hy]
  | and x y =>
    obtain ⟨hx, hy⟩ := hg
    simp [convGate, Circuit.gateOk, fIdx_lt hs hn hx, fIdx_lt hs hn hy]

/-- the final gate list only refers to earlier wires -/
theorem finalGates_ok (ninp : Nat) (hpos : 0 < ninp) (cg : List BGate)
    (hwf : ∀ i g, cg[i]? = some g → opsLt g (ninp + 2 + i)) :
    ∀ i g, (Gate.xor 0 0 :: Gate.not ninp :: cg.map (convGate (ninp + 2)))[i]? = some g →
      Circuit.gateOk g (ninp + i) = true := by
  intro i g h
  match i with
  | 0 => simp at h; subst h; simp [Circuit.gateOk, hpos]
  | 1 => simp at h; subst h; simp [Circuit.gateOk]
  | i + 2 =>
    simp only [List.getElem?_cons_succ, List.getElem?_map] at h
    cases hc : cg[i]? with
    | none => simp [hc] at h
    | some g0 =>
      simp [hc] at h
      subst h
      have := hwf i g0 hc
      have e : ninp + (i + 2) = ninp + 2 + i := by omega
      rw [e]
      exact convGate_ok (by omega) (by omega) this

/-! ### the assembled statement -/

structure BuildPre (b : Builder) (inputGates : List Nat) (roots : List Nat) : Prop where
  wf : WF b
  shift : b.shift = inputGates.sum + 2
  pos : 0 < inputGates.sum
  roots : ∀ r, r ∈ roots → r < b.counter

theorem vals_eq_getD (b : Builder) (inp : List Bool) (w : Nat) : b.sem inp w = (b.vals inp).getD w false := rfl

/-- For every root wire, the final circuit (getD evaluator) carries the builder's value. -/
theorem build_wire (b : Builder) (ig : List Nat) (roots : List Nat) (hp : BuildPre b ig roots)
    (inp : List Bool) (hinp : inp.length + 2 = b.shift) :
    let used := mark b.shift b.gates roots
    let cg := compact b.shift used b.gates
    let sv := svalsFrom inp (.xor 0 0 :: .not (b.shift - 2) :: cg.map (convGate b.shift))
    (∀ i g, cg[i]? = some g → opsLt g (b.shift + i)) ∧
    sv.length = b.shift + cg.length ∧
    ∀ r, r ∈ roots → fIdx b.shift (remap b.shift used r) < sv.length ∧
      sv.getD (fIdx b.shift (remap b.shift used r)) false = b.sem inp r := by
  intro used cg sv
  obtain ⟨hlen, hcl, hroots⟩ := mark_spec b.shift b.gates roots hp.wf.ops
  have hcr := compact_sound hcl hlen hp.wf.ops (false :: true :: inp) (by simp; omega)
  have hwf' := compact_wf hcl hlen hp.wf.ops
  have hpos : 0 < inp.length := by have := hp.pos; have := hp.shift; omega
  have hsh : b.shift = inp.length + 2 := hinp.symm
  have hren := renumber_sound inp hpos cg (by rw [← hsh]; exact hwf')
  simp only at hren
  rw [← hsh] at hren
  obtain ⟨hsl, hmap⟩ := hren
  have hcvlen : (valsFrom (false :: true :: inp) cg).length = b.shift + cg.length := by
    rw [valsFrom_length]; simp; omega
  refine ⟨hwf', by rw [hsl, hcvlen], ?_⟩
  intro r hr
  have hrc := hp.roots r hr
  -- value and bound of the remapped wire in the compacted numbering
  have key : remap b.shift used r < b.shift + newPos used b.gates.length ∧
      (valsFrom (false :: true :: inp) cg).getD (remap b.shift used r) false = b.sem inp r := by
    rcases Nat.lt_or_ge r b.shift with hlt | hge
    · have e : remap b.shift used r = r := by simp [remap]; omega
      rw [e]
      exact ⟨by omega, hcr.base r hlt⟩
    · obtain ⟨p, rfl⟩ : ∃ p, r = b.shift + p := ⟨r - b.shift, by omega⟩
      have hpl : p < b.gates.length := by simp [counter] at hrc; omega
      have hu := hroots (b.shift + p) hr (by omega) (by omega)
      simp only [Nat.add_sub_cancel_left] at hu
      have hpu : p < used.length := by rw [hlen]; exact hpl
      have hu' : used[p] = true := getD_true_getElem hu hpu
      rw [remap_used b.shift used p hpu hu']
      exact ⟨by have := newPos_lt_of_used used hpl hpu hu'; omega, hcr.kept p hpl hu⟩
  have hcl2 : (valsFrom (false :: true :: inp) cg).length = b.shift + newPos used b.gates.length := hcr.clen
  have hlt : remap b.shift used r < (valsFrom (false :: true :: inp) cg).length := by rw [hcl2]; exact key.1
  refine ⟨?_, ?_⟩
  · rw [hsl]
    exact fIdx_lt (by omega) (by rw [hcvlen]; omega) hlt
  · rw [hmap _ hlt, key.2]

theorem mapM_roots {ws : List Bool} {rs : List Nat} {f : Nat → Nat} {v : Nat → Bool}
    (h : ∀ r, r ∈ rs → f r < ws.length ∧ ws.getD (f r) false = v r) :
    (rs.map f).mapM (fun o => ws[o]?) = some (rs.map v) := by
  induction rs with
  | nil => simp
  | cons r rs ih =>
    obtain ⟨h1, h2⟩ := h r (by simp)
    have := ih (fun x hx => h x (by simp [hx]))
    simp only [List.map_cons, List.mapM_cons, this]
    have e : ws[f r]? = some (v r) := by
      rw [← h2]; simp [List.getD_eq_getElem?_getD, List.getElem?_eq_getElem h1]
    simp [e]

/-- **`build` is sound** with respect to the checked SSA evaluator. -/
theorem build_sound (b : Builder) (ig : List Nat) (pw outs : List Nat) (hp : BuildPre b ig (outs ++ pw))
    (ins : List (List Bool)) (hs : Circuit.shapeOk ig ins = true) :
    (b.build ig pw outs).eval? ins = some ((pw ++ outs).map (b.sem ins.flatten)) := by
  have hfl := Circuit.flatten_length_of_shapeOk hs
  have hinp : ins.flatten.length + 2 = b.shift := by rw [hfl, hp.shift]
  obtain ⟨hwf', hsvl, hroot⟩ := build_wire b ig (outs ++ pw) hp ins.flatten hinp
  have hpos : 0 < ins.flatten.length := by rw [hfl]; exact hp.pos
  have hsh2 : b.shift - 2 = ins.flatten.length := by omega
  have hok := finalGates_ok ins.flatten.length hpos _ (by rw [hinp]; exact hwf')
  rw [hinp] at hok
  have hev := evalGates_eq_svals _ ins.flatten hok
  rw [hsh2] at hroot
  simp only [Circuit.eval?, build, hs, Bool.not_true, Bool.false_eq_true, if_false]
  rw [hsh2, hev]
  simp only
  rw [← List.map_append]
  apply mapM_roots
  intro r hr
  have hr' : r ∈ outs ++ pw := by
    simp only [List.mem_append] at hr ⊢
    exact hr.symm
  exact hroot r hr'

end Builder
end GV
