import GarbleVerif.Proofs.FindOutReg
import GarbleVerif.Proofs.RegEval
/-! Simulation between SSA evaluation and strict evaluation of the converted register circuit. -/
namespace GV
namespace Reg
open RCircuit

/-- allocator invariant before processing gate `g` (wires `< g` are defined); no values yet -/
structure Inv0 (last : List LastUse) (N g : Nat) (st : Alloc) : Prop where
  mapLen : st.wireMap.length = N
  mapped : ∀ w r, regOf st w = some r → w < g ∧ r < st.next
  live : ∀ w, w < g → LateUse last w g → ∃ r, regOf st w = some r
  inj : ∀ w w' r, regOf st w = some r → regOf st w' = some r → w = w'
  freeNodup : st.free.Nodup
  freeOk : ∀ r, r ∈ st.free → r < st.next ∧ ∀ w, regOf st w ≠ some r

theorem Inv0.pre {last N g st} (h : Inv0 last N g st) : Pre st :=
  ⟨fun w r hr => (h.mapped w r hr).2, h.inj, h.freeNodup, h.freeOk⟩

/-- every mapped wire's register holds the wire's value -/
def Val (st : Alloc) (ws : List Bool) (regs : List (Option Bool)) : Prop :=
  ∀ w r, regOf st w = some r → regs.getD r none = some (ws.getD w false)

/-- the state after a gate: wire `g` is mapped to `out` -/
def bind (st1 : Alloc) (g out : Nat) (insts : List Inst) (ands : Nat) : Alloc :=
  { st1 with wireMap := st1.wireMap.set g (some out), insts := insts, andOps := ands }

theorem regOf_bind (st1 : Alloc) (g out : Nat) (insts : List Inst) (ands : Nat) (w : Nat)
    (hg : g < st1.wireMap.length) :
    regOf (bind st1 g out insts ands) w = if g = w then some out else regOf st1 w := by
  simp only [regOf, bind, getD_set, hg, and_true]

theorem inv0_step {last : List LastUse} {N g : Nat} {st st1 : Alloc} {out : Nat}
    (hinv : Inv0 last N g st) (hf : FSpec last g st out st1) (hg : g < N)
    (insts : List Inst) (ands : Nat) :
    Inv0 last N (g + 1) (bind st1 g out insts ands) := by
  have hgl : g < st1.wireMap.length := by rw [hf.mapLen, hinv.mapLen]; exact hg
  refine ⟨by simp [bind, hf.mapLen, hinv.mapLen], ?_, ?_, ?_, hf.freeNodup, ?_⟩
  · intro w r h
    rw [regOf_bind _ _ _ _ _ _ hgl] at h
    split at h
    · rename_i e; subst e
      simp only [Option.some.injEq] at h; subst h
      exact ⟨Nat.lt_succ_self _, hf.outLt⟩
    · have := hinv.mapped w r (hf.shrink w r h)
      exact ⟨by omega, Nat.lt_of_lt_of_le this.2 hf.nextMono⟩
  · intro w hw hl
    rw [regOf_bind _ _ _ _ _ _ hgl]
    by_cases e : g = w
    · simp [e]
    · simp only [e, if_false]
      have hw' : w < g := by omega
      obtain ⟨r, hr⟩ := hinv.live w hw' (hl.weaken (Nat.le_succ g))
      refine ⟨r, hf.keep w r hr ?_⟩
      intro hat
      rcases hl with hp | ⟨k, hk, hk'⟩
      · rw [hp] at hat; cases hat
      · rw [hk'] at hat
        simp only [LastUse.at.injEq] at hat
        omega
  · intro w w' r h h'
    rw [regOf_bind _ _ _ _ _ _ hgl] at h h'
    by_cases e : g = w <;> by_cases e' : g = w'
    · omega
    · simp only [e, if_true, Option.some.injEq] at h
      simp only [e', if_false] at h'
      subst h
      exact absurd rfl (hf.fresh w' _ h')
    · simp only [e', if_true, Option.some.injEq] at h'
      simp only [e, if_false] at h
      subst h'
      exact absurd rfl (hf.fresh w _ h)
    · simp only [e, if_false] at h
      simp only [e', if_false] at h'
      exact hinv.inj w w' r (hf.shrink w r h) (hf.shrink w' r h')
  · intro r hr
    obtain ⟨h1, h2, h3⟩ := hf.freeOk r hr
    refine ⟨h1, ?_⟩
    intro w h
    rw [regOf_bind _ _ _ _ _ _ hgl] at h
    split at h
    · simp only [Option.some.injEq] at h
      exact h2 h.symm
    · exact h3 w h

theorem val_step {last : List LastUse} {N g : Nat} {st st1 : Alloc} {out : Nat}
    {ws : List Bool} {regs : List (Option Bool)}
    (hinv : Inv0 last N g st) (hf : FSpec last g st out st1) (hg : g < N)
    (hws : ws.length = g) (hval : Val st ws regs) (hout : out < regs.length)
    (insts : List Inst) (ands : Nat) (v : Bool) :
    Val (bind st1 g out insts ands) (ws ++ [v]) (regs.set out (some v)) := by
  have hgl : g < st1.wireMap.length := by rw [hf.mapLen, hinv.mapLen]; exact hg
  intro w r h
  rw [regOf_bind _ _ _ _ _ _ hgl] at h
  split at h
  · rename_i e; subst e
    simp only [Option.some.injEq] at h; subst h
    rw [getD_set]
    simp [hout, List.getD_eq_getElem?_getD, ← hws]
  · have h0 := hf.shrink w r h
    have hne : out ≠ r := Ne.symm (hf.fresh w r h)
    have hw := (hinv.mapped w r h0).1
    rw [getD_set]
    simp only [hne, false_and, if_false]
    rw [hval w r h0]
    simp [List.getD_eq_getElem?_getD, List.getElem?_append_left (by omega : w < ws.length)]

/-- the operation of the emitted instruction: the gate with operand registers looked up -/
def opOf (st : Alloc) : Gate → Option Op
  | .xor a b => do let ra ← regOf st a; let rb ← regOf st b; pure (.xor ra rb)
  | .and a b => do let ra ← regOf st a; let rb ← regOf st b; pure (.and ra rb)
  | .not a => do let ra ← regOf st a; pure (.not ra)

def isAnd : Gate → Nat
  | .and _ _ => 1
  | _ => 0

theorem mem_ops_xor (a b : Nat) : a ∈ gateOperands (.xor a b) ∧ b ∈ gateOperands (.xor a b) := by
  simp [gateOperands]
theorem mem_ops_and (a b : Nat) : a ∈ gateOperands (.and a b) ∧ b ∈ gateOperands (.and a b) := by
  simp [gateOperands]

/-- one gate of the conversion: succeeds, and is described by `FSpec` + `bind` -/
theorem convertGate_spec {last : List LastUse} {N g : Nat} {st : Alloc} (hinv : Inv0 last N g st)
    (gate : Gate) (hok : Circuit.gateOk gate g = true)
    (hlate : ∀ a, a ∈ gateOperands gate → LateUse last a g) :
    ∃ out st1 op, opOf st gate = some op ∧ FSpec last g st out st1 ∧
      convertGate last st g gate =
        some (bind st1 g out (st.insts ++ [⟨out, op⟩]) (st.andOps + isAnd gate)) := by
  cases gate with
  | xor a b =>
    simp only [Circuit.gateOk, Bool.and_eq_true, decide_eq_true_eq] at hok
    obtain ⟨ra, hra⟩ := hinv.live a hok.1 (hlate a (mem_ops_xor a b).1)
    obtain ⟨rb, hrb⟩ := hinv.live b hok.2 (hlate b (mem_ops_xor a b).2)
    obtain ⟨out, st1, hfo, hf⟩ := findOutReg_spec last st g a (some b) hinv.pre hra
    refine ⟨out, st1, .xor ra rb, by simp [opOf, hra, hrb], hf, ?_⟩
    have hra' : st.wireMap.getD a none = some ra := hra
    have hrb' : st.wireMap.getD b none = some rb := hrb
    simp only [convertGate, hra', hrb', hfo, Option.bind_eq_bind, Option.bind_some, Option.pure_def, bind,
      hf.insts, hf.andOps, isAnd, Nat.add_zero]
  | and a b =>
    simp only [Circuit.gateOk, Bool.and_eq_true, decide_eq_true_eq] at hok
    obtain ⟨ra, hra⟩ := hinv.live a hok.1 (hlate a (mem_ops_and a b).1)
    obtain ⟨rb, hrb⟩ := hinv.live b hok.2 (hlate b (mem_ops_and a b).2)
    obtain ⟨out, st1, hfo, hf⟩ := findOutReg_spec last st g a (some b) hinv.pre hra
    refine ⟨out, st1, .and ra rb, by simp [opOf, hra, hrb], hf, ?_⟩
    have hra' : st.wireMap.getD a none = some ra := hra
    have hrb' : st.wireMap.getD b none = some rb := hrb
    simp only [convertGate, hra', hrb', hfo, Option.bind_eq_bind, Option.bind_some, Option.pure_def, bind,
      hf.insts, hf.andOps, isAnd]
  | not a =>
    simp only [Circuit.gateOk, decide_eq_true_eq] at hok
    obtain ⟨ra, hra⟩ := hinv.live a hok (hlate a (by simp [gateOperands]))
    obtain ⟨out, st1, hfo, hf⟩ := findOutReg_spec last st g a none hinv.pre hra
    refine ⟨out, st1, .not ra, by simp [opOf, hra], hf, ?_⟩
    have hra' : st.wireMap.getD a none = some ra := hra
    simp only [convertGate, hra', hfo, Option.bind_eq_bind, Option.bind_some, Option.pure_def, bind,
      hf.insts, hf.andOps, isAnd, Nat.add_zero]

theorem readReg_of_getD {regs : List (Option Bool)} {r : Nat} {x : Bool}
    (h : regs.getD r none = some x) : readReg regs r = some x := by
  unfold readReg
  cases hq : regs[r]? with
  | none => simp [List.getD_eq_getElem?_getD, hq] at h
  | some o => simp [List.getD_eq_getElem?_getD, hq] at h; subst h; rfl

theorem getElem?_of_lt_getD {ws : List Bool} {a : Nat} (h : a < ws.length) :
    ws[a]? = some (ws.getD a false) := by
  simp [List.getD_eq_getElem?_getD, List.getElem?_eq_getElem h]

/-- the emitted operation computes, on the registers, the value of the gate on the wires -/
theorem strictOp_opOf {st : Alloc} {ws : List Bool} {regs : List (Option Bool)} {gate : Gate} {op : Op}
    (ins : List (List Bool)) (hok : Circuit.gateOk gate ws.length = true) (hv : Val st ws regs)
    (ho : opOf st gate = some op) :
    ∃ v, Circuit.evalGate ws gate = some v ∧ strictOp ins regs op = some v := by
  cases gate with
  | xor a b =>
    simp only [Circuit.gateOk, Bool.and_eq_true, decide_eq_true_eq] at hok
    simp only [opOf] at ho
    cases hra : regOf st a with
    | none => simp [hra] at ho
    | some ra =>
      cases hrb : regOf st b with
      | none => simp [hra, hrb] at ho
      | some rb =>
        simp [hra, hrb] at ho; subst ho
        refine ⟨ws.getD a false ^^ ws.getD b false, ?_, ?_⟩
        · simp only [Circuit.evalGate, getElem?_of_lt_getD hok.1, getElem?_of_lt_getD hok.2]
          rfl
        · simp only [strictOp, readReg_of_getD (hv a ra hra), readReg_of_getD (hv b rb hrb)]
          rfl
  | and a b =>
    simp only [Circuit.gateOk, Bool.and_eq_true, decide_eq_true_eq] at hok
    simp only [opOf] at ho
    cases hra : regOf st a with
    | none => simp [hra] at ho
    | some ra =>
      cases hrb : regOf st b with
      | none => simp [hra, hrb] at ho
      | some rb =>
        simp [hra, hrb] at ho; subst ho
        refine ⟨ws.getD a false && ws.getD b false, ?_, ?_⟩
        · simp only [Circuit.evalGate, getElem?_of_lt_getD hok.1, getElem?_of_lt_getD hok.2]
          rfl
        · simp only [strictOp, readReg_of_getD (hv a ra hra), readReg_of_getD (hv b rb hrb)]
          rfl
  | not a =>
    simp only [Circuit.gateOk, decide_eq_true_eq] at hok
    simp only [opOf] at ho
    cases hra : regOf st a with
    | none => simp [hra] at ho
    | some ra =>
      simp [hra] at ho; subst ho
      refine ⟨!ws.getD a false, ?_, ?_⟩
      · simp only [Circuit.evalGate, getElem?_of_lt_getD hok]
        rfl
      · simp only [strictOp, readReg_of_getD (hv a ra hra)]
        rfl

/-- **Lemma A**: the gate loop never panics; bookkeeping facts about its result. -/
theorem convertGates_ok (last : List LastUse) (N : Nat) (gs : List Gate) (g : Nat) (st : Alloc)
    (hinv : Inv0 last N g st) (hN : g + gs.length ≤ N)
    (hval : Circuit.validateGates gs g = .ok ())
    (hlate : ∀ j gate, gs[j]? = some gate → ∀ a, a ∈ gateOperands gate → LateUse last a (g + j)) :
    ∃ stF, convertGates last gs g st = some stF ∧ Inv0 last N (g + gs.length) stF ∧
      st.next ≤ stF.next ∧ stF.andOps = st.andOps + (gs.map isAnd).sum ∧
      stF.next ≤ st.next + gs.length := by
  induction gs generalizing g st with
  | nil => exact ⟨st, rfl, by simpa using hinv, Nat.le_refl _, by simp, by simp⟩
  | cons gate rest ih =>
    simp only [Circuit.validateGates] at hval
    split at hval
    · rename_i hok
      obtain ⟨out, st1, op, _, hf, hc⟩ := convertGate_spec hinv gate hok
        (fun a ha => by simpa using hlate 0 gate (by simp) a ha)
      have hg : g < N := by simp at hN; omega
      have hinv' := inv0_step hinv hf hg (st.insts ++ [⟨out, op⟩]) (st.andOps + isAnd gate)
      obtain ⟨stF, hcF, hiF, hnF, haF, hbF⟩ := ih (g + 1) _ hinv' (by simp at hN ⊢; omega) hval
        (fun j gt hj a ha => by
          have := hlate (j + 1) gt (by simpa using hj) a ha
          have e : g + (j + 1) = g + 1 + j := by omega
          rw [e] at this; exact this)
      refine ⟨stF, by simp [convertGates, hc, hcF], ?_, ?_, ?_, ?_⟩
      · have e : g + (gate :: rest).length = g + 1 + rest.length := by simp; omega
        rw [e]; exact hiF
      · have : st.next ≤ st1.next := hf.nextMono
        have h2 : (bind st1 g out (st.insts ++ [⟨out, op⟩]) (st.andOps + isAnd gate)).next = st1.next := rfl
        omega
      · rw [haF]; simp [bind]; omega
      · have : st1.next ≤ st.next + 1 := hf.nextLe
        have h2 : (bind st1 g out (st.insts ++ [⟨out, op⟩]) (st.andOps + isAnd gate)).next = st1.next := rfl
        simp only [List.length_cons]
        omega
    · simp at hval

theorem strictInsts_append (ins : List (List Bool)) (xs ys : List Inst) (regs : List (Option Bool)) :
    strictInsts ins (xs ++ ys) regs =
      match strictInsts ins xs regs with
      | none => none
      | some regs' => strictInsts ins ys regs' := by
  induction xs generalizing regs with
  | nil => simp [strictInsts]
  | cons x xs ih =>
    simp only [List.cons_append, strictInsts]
    split
    · rfl
    · split
      · exact ih _
      · rfl

/-- **Lemma B**: the emitted instructions simulate the SSA gates. -/
theorem convertGates_sim (last : List LastUse) (N : Nat) (ins : List (List Bool)) (gs : List Gate)
    (g : Nat) (st : Alloc) (ws : List Bool) (regs : List (Option Bool))
    (hinv : Inv0 last N g st) (hN : g + gs.length ≤ N)
    (hval : Circuit.validateGates gs g = .ok ())
    (hlate : ∀ j gate, gs[j]? = some gate → ∀ a, a ∈ gateOperands gate → LateUse last a (g + j))
    (hws : ws.length = g) (hv : Val st ws regs)
    (stF : Alloc) (hc : convertGates last gs g st = some stF) (hM : stF.next ≤ regs.length) :
    ∃ ws' regs' em, stF.insts = st.insts ++ em ∧ Circuit.evalGates gs ws = some ws' ∧
      strictInsts ins em regs = some regs' ∧ Val stF ws' regs' ∧ regs'.length = regs.length ∧
      ws'.length = g + gs.length := by
  induction gs generalizing g st ws regs with
  | nil =>
    simp only [convertGates, Option.some.injEq] at hc
    subst hc
    exact ⟨ws, regs, [], by simp, rfl, rfl, hv, rfl, by simpa using hws⟩
  | cons gate rest ih =>
    simp only [Circuit.validateGates] at hval
    split at hval
    · rename_i hok
      obtain ⟨out, st1, op, hop, hf, hcg⟩ := convertGate_spec hinv gate hok
        (fun a ha => by simpa using hlate 0 gate (by simp) a ha)
      have hg : g < N := by simp at hN; omega
      simp only [convertGates, hcg] at hc
      have hinv' := inv0_step hinv hf hg (st.insts ++ [⟨out, op⟩]) (st.andOps + isAnd gate)
      have hlate' : ∀ j gt, rest[j]? = some gt → ∀ a, a ∈ gateOperands gt → LateUse last a (g + 1 + j) :=
        fun j gt hj a ha => by
          have := hlate (j + 1) gt (by simpa using hj) a ha
          have e : g + (j + 1) = g + 1 + j := by omega
          rw [e] at this; exact this
      -- the rest succeeds from the bound state, so `next` only grows towards `stF.next`
      obtain ⟨stF', hcF', _, hnF', _, _⟩ := convertGates_ok last N rest (g + 1) _ hinv'
        (by simp at hN ⊢; omega) hval hlate'
      rw [hc] at hcF'
      simp only [Option.some.injEq] at hcF'
      subst hcF'
      have hout : out < regs.length := by
        have h1 := hf.outLt
        have h2 : (bind st1 g out (st.insts ++ [⟨out, op⟩]) (st.andOps + isAnd gate)).next = st1.next := rfl
        omega
      obtain ⟨v, hev, hso⟩ := strictOp_opOf ins (by rw [hws]; exact hok) hv hop
      have hv' := val_step hinv hf hg hws hv hout (st.insts ++ [⟨out, op⟩]) (st.andOps + isAnd gate) v
      obtain ⟨ws', regs', em, hins, heg, hst, hvF, hrl, hwl⟩ := ih (g + 1) _ (ws ++ [v])
        (regs.set out (some v)) hinv' (by simp at hN ⊢; omega) hval hlate' (by simp [hws]) hv' hc
        (by simpa using hM)
      refine ⟨ws', regs', ⟨out, op⟩ :: em, ?_, ?_, ?_, hvF, by simpa using hrl, ?_⟩
      · rw [hins]; simp [bind]
      · simp [Circuit.evalGates, hev, heg]
      · simp [strictInsts, hso, hout, hst]
      · simp at hwl ⊢; omega
    · simp at hval

end Reg
end GV
