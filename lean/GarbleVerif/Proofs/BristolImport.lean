import GarbleVerif.Proofs.BristolWm
import GarbleVerif.Proofs.BristolDealias
/-!
# Importing what the exporter wrote gives back the exported gates
-/
namespace GV
namespace Bristol
open Circuit

/-- the gate line the exporter writes, with the renumbering as a function -/
def lineOf (f : Nat → Nat) (g : Gate) (out : Nat) : Line :=
  match g with
  | .xor x y => [.num 2, .num 1, .num (f x), .num (f y), .num out, .word "XOR"]
  | .and x y => [.num 2, .num 1, .num (f x), .num (f y), .num out, .word "AND"]
  | .not x => [.num 1, .num 1, .num (f x), .num out, .word "INV"]

def linesOf (f : Nat → Nat) (TI : Nat) : List Gate → Nat → List Line
  | [], _ => []
  | g :: gs, i => lineOf f g (f (i + TI)) :: linesOf f TI gs (i + 1)

theorem map_getElem? (f : Nat → Nat) (TW i : Nat) (h : i < TW) :
    ((List.range TW).map f)[i]? = some (f i) := by
  simp [List.getElem?_map, List.getElem?_range h]

theorem gateLine_eq (f : Nat → Nat) (TW : Nat) (g : Gate) (out i : Nat) (hi : i ≤ TW)
    (hg : gateOk g i = true) : gateLine ((List.range TW).map f) g out = some (lineOf f g out) := by
  cases g with
  | xor x y =>
    simp only [gateOk, Bool.and_eq_true, decide_eq_true_eq] at hg
    simp [gateLine, lineOf, map_getElem? f TW x (by omega), map_getElem? f TW y (by omega)]
  | and x y =>
    simp only [gateOk, Bool.and_eq_true, decide_eq_true_eq] at hg
    simp [gateLine, lineOf, map_getElem? f TW x (by omega), map_getElem? f TW y (by omega)]
  | not x =>
    simp only [gateOk, decide_eq_true_eq] at hg
    simp [gateLine, lineOf, map_getElem? f TW x (by omega)]

theorem lines_eq (f : Nat → Nat) (TI TW : Nat) (gs : List Gate) : ∀ (i : Nat),
    validateGates gs (i + TI) = .ok () → i + gs.length + TI ≤ TW →
    exportLines.lines TI ((List.range TW).map f) gs i = .ok (linesOf f TI gs i) := by
  induction gs with
  | nil => intro i _ _; simp [exportLines.lines, linesOf]
  | cons g gs ih =>
    intro i hv hl
    simp only [validateGates] at hv
    split at hv
    · rename_i hg
      simp only [List.length_cons] at hl
      have h1 := map_getElem? f TW (i + TI) (by omega)
      have h2 := gateLine_eq f TW g (f (i + TI)) (i + TI) (by omega) hg
      have h3 := ih (i + 1) (by rw [show i + 1 + TI = i + TI + 1 by omega]; exact hv) (by omega)
      simp only [exportLines.lines, h1, h2, h3, linesOf]
    · simp at hv


/-! ### the importer on one exported gate line -/

theorem parse_bin (TW a b out : Nat) (s : String) (ha : a < TW) (hb : b < TW) (ho : out < TW) :
    parseGateLine TW [.num 2, .num 1, .num a, .num b, .num out, .word s] = .ok ([a, b], out, .word s) := by
  have h1 : ¬ a ≥ TW := by omega
  have h2 : ¬ b ≥ TW := by omega
  have h3 : ¬ out ≥ TW := by omega
  simp [parseGateLine, tokNum, List.mapM_cons, List.mapM_nil, bind, Except.bind, pure, Except.pure, h1, h2, h3]

theorem parse_un (TW a out : Nat) (s : String) (ha : a < TW) (ho : out < TW) :
    parseGateLine TW [.num 1, .num 1, .num a, .num out, .word s] = .ok ([a], out, .word s) := by
  have h1 : ¬ a ≥ TW := by omega
  have h3 : ¬ out ≥ TW := by omega
  simp [parseGateLine, tokNum, List.mapM_cons, List.mapM_nil, bind, Except.bind, pure, Except.pure, h1, h3]

/-- the importer state after a gate line whose output wire is `ow` -/
def nextSt (TI TW nOut : Nat) (st : ImportSt) (ow : Nat) (g : Gate) : ImportSt :=
  { wiresMap := st.wiresMap.set (ow - TI) st.nextWire
    nextWire := st.nextWire + 1
    gates := st.gates ++ [g]
    outputGates := if ow ≥ TW - nOut then st.outputGates.set (ow - (TW - nOut)) st.nextWire else st.outputGates }

section apply
variable (TI TW nOut : Nat) (st : ImportSt) (ow : Nat)
  (h1 : TI ≤ ow) (h2 : ow < TW) (h3 : st.wiresMap.length = TW - TI) (h4 : st.outputGates.length = nOut)
  (h5 : nOut ≤ TW)
include h1 h2 h3 h4 h5

theorem applyGate_xor (a b x y : Nat)
    (ha : mapWire TI (st.wiresMap.set (ow - TI) st.nextWire) a = .ok x)
    (hb : mapWire TI (st.wiresMap.set (ow - TI) st.nextWire) b = .ok y) :
    applyGate TW TI nOut st [a, b] ow (.word "XOR") = .ok (nextSt TI TW nOut st ow (.xor x y)) := by
  have g1 : ¬ (ow ≥ TW - nOut ∧ ¬ (ow - (TW - nOut) < st.outputGates.length)) := by rw [h4]; omega
  have g2 : ow - TI < st.wiresMap.length := by rw [h3]; omega
  have g3 : ow ≥ TI := h1
  simp only [applyGate, g1, g2, g3, if_false, if_true, ha, hb, nextSt, true_and, not_true_eq_false]

theorem applyGate_and (a b x y : Nat)
    (ha : mapWire TI (st.wiresMap.set (ow - TI) st.nextWire) a = .ok x)
    (hb : mapWire TI (st.wiresMap.set (ow - TI) st.nextWire) b = .ok y) :
    applyGate TW TI nOut st [a, b] ow (.word "AND") = .ok (nextSt TI TW nOut st ow (.and x y)) := by
  have g1 : ¬ (ow ≥ TW - nOut ∧ ¬ (ow - (TW - nOut) < st.outputGates.length)) := by rw [h4]; omega
  have g2 : ow - TI < st.wiresMap.length := by rw [h3]; omega
  have g3 : ow ≥ TI := h1
  simp only [applyGate, g1, g2, g3, if_false, if_true, ha, hb, nextSt, true_and, not_true_eq_false]

theorem applyGate_inv (a x : Nat)
    (ha : mapWire TI (st.wiresMap.set (ow - TI) st.nextWire) a = .ok x) :
    applyGate TW TI nOut st [a] ow (.word "INV") = .ok (nextSt TI TW nOut st ow (.not x)) := by
  have g1 : ¬ (ow ≥ TW - nOut ∧ ¬ (ow - (TW - nOut) < st.outputGates.length)) := by rw [h4]; omega
  have g2 : ow - TI < st.wiresMap.length := by rw [h3]; omega
  have g3 : ow ≥ TI := h1
  simp only [applyGate, g1, g2, g3, if_false, if_true, ha, nextSt, true_and, not_true_eq_false]
end apply

/-- the importer's state after the first `j` exported gates -/
structure Inv (TI : Nat) (outs : List Nat) (f : Nat → Nat) (gates : List Gate) (j : Nat) (st : ImportSt) : Prop where
  next : st.nextWire = TI + j
  gatesEq : st.gates = gates.take j
  wmLen : st.wiresMap.length = gates.length
  wm : ∀ w, TI ≤ w → w < TI + j → st.wiresMap[f w - TI]? = some w
  outLen : st.outputGates.length = outs.length
  out : ∀ k (hk : k < outs.length), outs[k] < TI + j → st.outputGates[k]? = some outs[k]

section step
variable {TI TW : Nat} {outs : List Nat} {f : Nat → Nat} {gates : List Gate}
  (hf : WmOK TI TW outs f) (hTW : TW = gates.length + TI)
include hf hTW

/-- reading an operand that was defined before wire `TI + j` -/
theorem read_operand {j : Nat} {st : ImportSt} (hj : j < gates.length) (hinv : Inv TI outs f gates j st)
    (x : Nat) (hx : x < TI + j) :
    mapWire TI (st.wiresMap.set (f (TI + j) - TI) st.nextWire) (f x) = .ok x := by
  unfold mapWire
  by_cases h : f x < TI
  · have : x < TI := by
      by_cases hx' : x < TI
      · exact hx'
      · have := (hf.range x (by omega) (by omega)).1; omega
    rw [hf.inputs x this]; simp [this]
  · have hxTI : TI ≤ x := by
      by_cases hx' : x < TI
      · have := hf.inputs x hx'; omega
      · omega
    have hne : f (TI + j) ≠ f x := by
      intro e
      have := hf.inj (TI + j) x (by omega) (by omega) e
      omega
    have r1 := hf.range x hxTI (by omega)
    have r2 := hf.range (TI + j) (by omega) (by omega)
    simp only [h, if_false]
    rw [List.getElem?_set]
    rw [if_neg (by omega), hinv.wm x hxTI hx]

theorem inv_next {j : Nat} {st : ImportSt} (hj : j < gates.length) (hinv : Inv TI outs f gates j st) (g : Gate)
    (hg : gates[j] = g) :
    Inv TI outs f gates (j + 1) (nextSt TI TW outs.length st (f (TI + j)) g) := by
  have r2 := hf.range (TI + j) (by omega) (by omega)
  have hle := hf.outs_le
  refine ⟨?_, ?_, ?_, ?_, ?_, ?_⟩
  · simp [nextSt, hinv.next]; omega
  · simp only [nextSt, hinv.gatesEq]
    rw [← hg, List.take_append_getElem]
  · simp [nextSt, hinv.wmLen]
  · intro w hw1 hw2
    simp only [nextSt]
    rw [List.getElem?_set]
    by_cases hw : w = TI + j
    · subst hw
      simp only [if_true]
      rw [if_pos (by rw [hinv.wmLen]; omega), hinv.next]
    · have hne : f (TI + j) ≠ f w := by
        intro e
        exact hw (hf.inj (TI + j) w (by omega) (by omega) e).symm
      have r1 := hf.range w hw1 (by omega)
      rw [if_neg (by omega)]
      exact hinv.wm w hw1 (by omega)
  · simp only [nextSt]
    split <;> simp [hinv.outLen]
  · intro k hk hlt
    simp only [nextSt]
    by_cases hw : outs[k] = TI + j
    · have hfo := hf.outs_at k hk
      rw [hw] at hfo
      rw [if_pos (by omega), List.getElem?_set]
      rw [if_pos (by omega), if_pos (by rw [hinv.outLen]; omega), hinv.next, hw]
    · have hold := hinv.out k hk (by omega)
      by_cases hge : f (TI + j) ≥ TW - outs.length
      · rw [if_pos hge, List.getElem?_set]
        -- the wire is an output, at another position
        have hmem : (TI + j) ∈ outs := by
          by_cases hm : (TI + j) ∈ outs
          · exact hm
          · have := hf.non_outs (TI + j) (by omega) (by omega) hm; omega
        obtain ⟨k', hk', hk'e⟩ := List.getElem_of_mem hmem
        have hfo := hf.outs_at k' hk'
        rw [hk'e] at hfo
        have : k' ≠ k := by
          intro e; subst e; exact hw hk'e
        rw [if_neg (by omega)]
        exact hold
      · rw [if_neg hge]; exact hold

/-- one exported gate line is read back as the gate it was written from -/
theorem importGate_step {j : Nat} {st : ImportSt} (hj : j < gates.length) (hinv : Inv TI outs f gates j st)
    (hg : gateOk gates[j] (TI + j) = true) :
    ∃ st', importGate TW TI outs.length st (lineOf f gates[j] (f (TI + j))) = .ok st' ∧
      Inv TI outs f gates (j + 1) st' := by
  have r2 := hf.range (TI + j) (by omega) (by omega)
  have hle := hf.outs_le
  have hfx : ∀ x, x < TI + j → f x < TW := by
    intro x hx
    by_cases hx' : x < TI
    · rw [hf.inputs x hx']; omega
    · exact (hf.range x (by omega) (by omega)).2
  have hwl : st.wiresMap.length = TW - TI := by rw [hinv.wmLen]; omega
  cases hgj : gates[j] with
  | xor x y =>
    rw [hgj] at hg
    simp only [gateOk, Bool.and_eq_true, decide_eq_true_eq] at hg
    refine ⟨_, ?_, inv_next hf hTW hj hinv _ hgj⟩
    simp only [importGate, lineOf, List.isEmpty_cons, Bool.false_eq_true, if_false,
      parse_bin TW (f x) (f y) (f (TI + j)) "XOR" (hfx x hg.1) (hfx y hg.2) r2.2]
    exact applyGate_xor TI TW outs.length st (f (TI + j)) r2.1 r2.2 hwl hinv.outLen (by omega) _ _ x y
      (read_operand hf hTW hj hinv x hg.1) (read_operand hf hTW hj hinv y hg.2)
  | and x y =>
    rw [hgj] at hg
    simp only [gateOk, Bool.and_eq_true, decide_eq_true_eq] at hg
    refine ⟨_, ?_, inv_next hf hTW hj hinv _ hgj⟩
    simp only [importGate, lineOf, List.isEmpty_cons, Bool.false_eq_true, if_false,
      parse_bin TW (f x) (f y) (f (TI + j)) "AND" (hfx x hg.1) (hfx y hg.2) r2.2]
    exact applyGate_and TI TW outs.length st (f (TI + j)) r2.1 r2.2 hwl hinv.outLen (by omega) _ _ x y
      (read_operand hf hTW hj hinv x hg.1) (read_operand hf hTW hj hinv y hg.2)
  | not x =>
    rw [hgj] at hg
    simp only [gateOk, decide_eq_true_eq] at hg
    refine ⟨_, ?_, inv_next hf hTW hj hinv _ hgj⟩
    simp only [importGate, lineOf, List.isEmpty_cons, Bool.false_eq_true, if_false,
      parse_un TW (f x) (f (TI + j)) "INV" (hfx x hg) r2.2]
    exact applyGate_inv TI TW outs.length st (f (TI + j)) r2.1 r2.2 hwl hinv.outLen (by omega) _ x
      (read_operand hf hTW hj hinv x hg)

end step

end Bristol
end GV
