import GarbleVerif.Proofs.BitCore
import GarbleVerif.Proofs.BitShape
import GarbleVerif.Proofs.BitMatch
import GarbleVerif.Proofs.MatchComplete
/-!
# The bit-level evaluation of the core fragment refines the source semantics

One induction on the fuel of the source interpreter: whenever `bitExpr` / `bitStmts` / `bitStmt` is
defined (the program is in the fragment), the source evaluation from a related environment

* returns a value `v` and an environment `env'` ⇒ no panic is recorded, the bits are the encoding
  of `v`, and the variables after the expression encode `env'` (assignments inside conditionally
  executed code included: `mux_envs`),
* panics with `k` ⇒ the first recorded panic is `k`,
* is never stuck (type soundness of the fragment);
* running out of fuel says nothing.
-/
namespace GV
namespace Bit
open Src

def VRel (t : VTy) (v : Val) (bs : List Bool) : Prop :=
  match t with
  | .s st => Rel st v bs
  | .unit => v = Src.unit ∧ bs = []

def ResRel (r : M (Val × Src.Env)) (t : VTy) (bs : List Bool) (p : P) (benv' : BEnv) : Prop :=
  match r with
  | .ok (v, env') => p = none ∧ VRel t v bs ∧ EnvRel env' benv'
  | .error (.panic k) => p = some k
  | .error (.stuck _) => False
  | .error .fuel => True

/-! ### environments -/

theorem EnvRel.length_eq {env : Src.Env} {benv : BEnv} (h : EnvRel env benv) : env.length = benv.length := by
  induction h with
  | nil => rfl
  | cons _ _ ih => simp [ih]

theorem EnvRel.drop {env : Src.Env} {benv : BEnv} (h : EnvRel env benv) (n : Nat) :
    EnvRel (env.drop n) (benv.drop n) := by
  induction h generalizing n with
  | nil => simpa using EnvRel.nil
  | cons hr hrest ih =>
    cases n with
    | zero => exact EnvRel.cons hr hrest
    | succ n => simpa using ih n

theorem EnvRel.restore {env env1 : Src.Env} {benv benv1 : BEnv} (h0 : EnvRel env benv) (h1 : EnvRel env1 benv1) :
    EnvRel (Src.restore env env1) (restoreB benv benv1) := by
  unfold Src.restore restoreB
  rw [h0.length_eq, h1.length_eq]
  exact h1.drop _

theorem EnvRel.set {env : Src.Env} {benv : BEnv} (h : EnvRel env benv) (x : String) (t : STy) (old bs : List Bool)
    (v : Val) (hg : benv.get? x = some (t, old)) (hr : Rel t v bs) :
    (∃ ov, env.get? x = some ov) ∧ EnvRel (env.set x v) (benv.set x bs) := by
  induction h with
  | nil => simp [BEnv.get?] at hg
  | cons hr0 hrest ih =>
    rename_i y v0 t0 bs0 env0 benv0
    simp only [BEnv.get?] at hg
    by_cases hy : (y == x) = true
    · simp only [hy, if_true, Option.some.injEq, Prod.mk.injEq] at hg
      obtain ⟨rfl, rfl⟩ := hg
      refine ⟨⟨v0, by simp [Src.Env.get?, hy]⟩, ?_⟩
      simp only [Src.Env.set, BEnv.set, hy, if_true]
      exact EnvRel.cons hr hrest
    · simp only [hy, if_false] at hg
      obtain ⟨hov, hset⟩ := ih hg
      refine ⟨by simpa [Src.Env.get?, hy] using hov, ?_⟩
      simp only [Src.Env.set, BEnv.set, hy, if_false]
      exact EnvRel.cons hr0 hset

theorem EnvRel.mux {envT : Src.Env} {benvT benvF : BEnv} (c : Bool) (hs : shape benvT = shape benvF)
    (h : EnvRel envT (if c then benvT else benvF)) : EnvRel envT (muxEnv c benvT benvF) := by
  rw [muxEnv_eq c _ _ hs]; exact h

def ExprOK (prog : Prog) (call : CallFn) (fuel : Nat) : Prop :=
  ∀ e env benv t bs p benv', EnvRel env benv → bitExpr call benv e = some (t, bs, p, benv') →
    ResRel (evalExpr fuel prog env e) t bs p benv'

def StmtsOK (prog : Prog) (call : CallFn) (fuel : Nat) : Prop :=
  ∀ ss env benv t bs p benv', EnvRel env benv → bitStmts call benv ss = some (t, bs, p, benv') →
    ResRel (evalStmts fuel prog env ss) t bs p benv'

def StmtOK (prog : Prog) (call : CallFn) (fuel : Nat) : Prop :=
  ∀ s env benv t bs p benv', EnvRel env benv → bitStmt call benv s = some (t, bs, p, benv') →
    ResRel (evalStmt fuel prog env s) t bs p benv'

/-- argument values and their wires -/
def ArgsRel : List Val → List (STy × List Bool) → Prop
  | [], [] => True
  | v :: vs, (t, bs) :: rest => Rel t v bs ∧ ArgsRel vs rest
  | _, _ => False

/-- what the compiled code assumes about a call: on the encodings of well-typed arguments the callee's wires carry
the value the source-level call (`runFn` with fuel `f`) returns, or record its first failure -/
def CallSound (prog : Prog) (call : CallFn) (f : Nat) : Prop :=
  ∀ fn vs args t bs p, ArgsRel vs args → call fn args = some (t, bs, p) →
    match runFn f prog fn vs with
    | .ok r => p = none ∧ VRel t r bs
    | .error (.panic k) => p = some k
    | .error (.stuck _) => False
    | .error .fuel => True

def ListOK (prog : Prog) (call : CallFn) (fuel : Nat) : Prop :=
  ∀ es env benv args p benv', EnvRel env benv → bitList call benv es = some (args, p, benv') →
    match evalList fuel prog env es with
    | .ok (vs, env') => p = none ∧ ArgsRel vs.toList args ∧ EnvRel env' benv'
    | .error (.panic k) => p = some k
    | .error (.stuck _) => False
    | .error .fuel => True

theorem ValList.length_toList : ∀ (vs : ValList), vs.toList.length = vs.length
  | .nil => rfl
  | .cons _ r => by simp [ValList.toList, ValList.length, ValList.length_toList r]

/-- a call expression: the arguments, then the function on their values; the caller keeps its variables -/
theorem evalExpr_call (fuel : Nat) (prog : Prog) (env : Src.Env) (fn : String) (args : ExprList) :
    evalExpr (fuel + 1) prog env (.call fn args) =
      match evalList fuel prog env args with
      | .error e => .error e
      | .ok (vs, env1) =>
        match runFn fuel prog fn vs.toList with
        | .error e => .error e
        | .ok r => .ok (r, env1) := by
  rw [evalExpr]
  cases evalList fuel prog env args with
  | error e => rfl
  | ok res =>
    obtain ⟨vs, env1⟩ := res
    simp only [runFn, ValList.length_toList]
    cases prog.fn? fn with
    | none => rfl
    | some d =>
      simp only
      split
      · rfl
      · cases evalStmts fuel prog (((List.map (fun x => x.fst) d.params).zip vs.toList).reverse ++ prog.consts) d.body with
        | error e => rfl
        | ok r => rfl

theorem evalExpr_bin (fuel : Nat) (prog : Prog) (env : Src.Env) (op : Src.BinOp) (ty : Ty) (a b : Expr)
    (h1 : op ≠ .land) (h2 : op ≠ .lor) :
    evalExpr (fuel + 1) prog env (.bin op ty a b) =
      (match evalExpr fuel prog env a with
       | .error e => .error e
       | .ok (x, env1) =>
         match evalExpr fuel prog env1 b with
         | .error e => .error e
         | .ok (y, env2) =>
           match Src.binop op ty x y with
           | .ok r => .ok (r, env2)
           | .error e => .error e) := by
  cases op
  case land => exact absurd rfl h1
  case lor => exact absurd rfl h2
  all_goals
    rw [evalExpr]
    rotate_left
    · exact h1
    · exact h2
    rcases evalExpr fuel prog env a with e | ⟨x, env1⟩
    · rfl
    · dsimp only
      rcases evalExpr fuel prog env1 b with e | ⟨y, env2⟩
      · rfl
      · dsimp only
        rcases Src.binop _ ty x y with e | r <;> rfl

/-- a failed subterm decides the result -/
theorem ResRel.error_of {er : Err} {t : VTy} {bs : List Bool} {p : P} {benv' : BEnv} {t2 : VTy} {bs2 : List Bool}
    {benv2 : BEnv} (h : ResRel (.error er) t bs p benv') (q : P → P) (hq : ∀ k, q (some k) = some k) :
    ResRel (.error er) t2 bs2 (q p) benv2 := by
  cases er with
  | panic k => simp only [ResRel] at h ⊢; rw [h, hq]
  | stuck w => exact h.elim
  | fuel => trivial

/-- the operator step of a strict binary operator whose operands evaluated without a panic -/
theorem binop_res (op : Src.BinOp) (t : STy) (x y : List Bool) (va vb : Val) (tr : STy) (r : List Bool)
    (panics : List (Bool × Arith.PanicKind)) (env2 : Src.Env) (benv2 : BEnv)
    (hra : Rel t va x) (hrb : Rel t vb y) (hbin : binBits op t x y = some (tr, r, panics))
    (henv2 : EnvRel env2 benv2) :
    ResRel (match Src.binop op t.toTy va vb with
      | .ok rv => .ok (rv, env2)
      | .error e => .error e) (.s tr) r (seqP none (seqP none (firstOf panics))) benv2 := by
  have hsnd := binBits_sound _ _ x y va vb tr r panics hra hrb hbin
  have hns := binBits_not_stuck _ _ x y va vb tr r panics hra hrb hbin
  cases hop : Src.binop op t.toTy va vb with
  | ok rv =>
    obtain ⟨hr, hp⟩ := hsnd.1 rv hop
    exact ⟨by simp [seqP, hp], hr, henv2⟩
  | error er =>
    cases er with
    | panic k => simp [ResRel, seqP, hsnd.2 k hop]
    | stuck w => exact (hns.1 w hop).elim
    | fuel => exact (hns.2 hop).elim

/-- the operator step of a shift whose operands evaluated without a panic -/
theorem shift_res_rel (left : Bool) (k : IntTy) (x y : List Bool) (va vb : Val) (env2 : Src.Env) (benv2 : BEnv)
    (hra : Rel (.int k) va x) (hrb : Rel (.int .u8) vb y) (henv2 : EnvRel env2 benv2) :
    ResRel (match Src.binop (if left then .shl else .shr) (STy.int k).toTy va vb with
      | .ok rv => .ok (rv, env2)
      | .error e => .error e) (.s (.int k))
      (Arith.binop (if left then .shl else .shr) k.signed false k.signed x y).1
      (seqP none (seqP none (firstOf (Arith.binop (if left then .shl else .shr) k.signed false k.signed x y).2)))
      benv2 := by
  obtain ⟨a, rfl, ha, rfl⟩ := hra.int_inv
  obtain ⟨s, rfl, hs, rfl⟩ := hrb.int_inv
  cases left
  · have h := binop_shr k a s ha hs
    simp only at h
    simp only [Bool.false_eq_true, if_false, Src.binop, STy.toTy]
    by_cases hc : s < 0 ∨ s ≥ k.bits
    · simp [hc, ResRel, seqP, h.1 hc]
    · obtain ⟨h0, h1, h2⟩ := h.2 hc
      simp only [hc, if_false, ResRel, VRel, Rel, seqP]
      exact ⟨h2, ⟨h0, h1⟩, henv2⟩
  · have h := binop_shl k a s ha hs
    simp only at h
    simp only [if_true, Src.binop, STy.toTy]
    by_cases hc : s < 0 ∨ s ≥ k.bits
    · simp [hc, ResRel, seqP, h.1 hc]
    · obtain ⟨h1, h2⟩ := h.2 hc
      simp only [hc, if_false, ResRel, VRel, Rel, seqP]
      refine ⟨h2, ⟨?_, h1⟩, henv2⟩
      rw [inRange_iff]; exact Src.wrapTo_range k _

theorem litFactor_some {e : Expr} {neg : Bool} {n : Nat} {k : IntTy} (h : litFactor e = some (neg, n, k)) :
    ∃ n0 : Int, e = .int n0 k ∧ n0 ≠ 0 ∧ n = n0.natAbs ∧ neg = decide (n0 < 0) := by
  cases e <;> simp only [litFactor] at h <;> try (simp at h; done)
  rename_i n0 k0
  split at h
  · rename_i hc
    simp only [Option.some.injEq, Prod.mk.injEq] at h
    obtain ⟨rfl, rfl, rfl⟩ := h
    exact ⟨n0, rfl, hc.1, rfl, rfl⟩
  · simp at h

/-- the product step of a multiplication by a small positive literal -/
theorem litMul_res_rel (k : IntTy) (n0 : Int) (hpos : 0 < n0) (y : List Bool) (vb : Val) (env2 : Src.Env) (benv2 : BEnv)
    (hrb : Rel (.int k) vb y) (henv2 : EnvRel env2 benv2) (litFirst : Bool) :
    ResRel (match (if litFirst then Src.binop .mul (STy.int k).toTy (.int n0) vb
        else Src.binop .mul (STy.int k).toTy vb (.int n0)) with
      | .ok rv => .ok (rv, env2)
      | .error e => .error e) (.s (.int k))
      (Arith.constMul y k.signed n0.natAbs false).1
      (seqP none (if (Arith.constMul y k.signed n0.natAbs false).2 then some .overflow else none)) benv2 := by
  obtain ⟨v, rfl, hv, rfl⟩ := hrb.int_inv
  have hn : 1 ≤ n0.natAbs := by omega
  have hcast : ((n0.natAbs : Nat) : Int) = n0 := by omega
  obtain ⟨h1, h2⟩ := constMul_enc k v n0.natAbs hv hn
  rw [hcast] at h1 h2
  have hcomm : v * n0 = n0 * v := Int.mul_comm _ _
  cases litFirst <;> simp only [Bool.false_eq_true, if_false, if_true, Src.binop, STy.toTy, intOp, checked, hcomm]
  all_goals
    cases hr : k.inRange (n0 * v)
    · simp [ResRel, seqP, h2 hr]
    · rw [h1 hr]
      simp [ResRel, VRel, Rel, seqP, hr, henv2]

/-! ### the arm loop of `match` -/

theorem EnvRel.arm {env1 : Src.Env} {benv1 : BEnv} (henv : EnvRel env1 benv1) (bind : Option String) (ts : STy)
    (v : Val) (sb : List Bool) (hrel : Rel ts v sb) : EnvRel (bindsOf bind v ++ env1) (Bit.armEnv bind ts sb benv1) := by
  cases bind with
  | none => simpa [bindsOf, Bit.armEnv] using henv
  | some x => simpa [bindsOf, Bit.armEnv] using EnvRel.cons hrel henv

theorem armOut_eq_restoreB (bind : Option String) (ts : STy) (sb : List Bool) (benv1 enve : BEnv)
    (hs : shape enve = shape (armEnv bind ts sb benv1)) : armOut bind enve = restoreB benv1 enve := by
  have hl : enve.length = (armEnv bind ts sb benv1).length := by
    rw [← shape_length enve, hs, shape_length]
  cases bind with
  | none => simp [armOut, restoreB, armEnv] at hl ⊢; simp [hl]
  | some x =>
    simp only [armEnv, List.length_cons] at hl
    simp only [armOut, restoreB, hl]
    congr 1; omega

/-- once an arm has matched, the remaining arms change nothing -/
theorem arms_after_match (call : CallFn) : ∀ (arms : Arms) (benv1 : BEnv) (ts : STy) (sb : List Bool) (tr : VTy) (rb : List Bool)
    (pacc : P) (envAcc : BEnv) (st' : ArmSt),
    bitArms call benv1 ts sb arms (true, some (tr, rb), pacc, envAcc) = some st' → shape envAcc = shape benv1 →
    st' = (true, some (tr, rb), pacc, envAcc)
  | .nil, _, _, _, _, _, _, _, st', h, _ => by
    simp only [bitArms, Option.some.injEq] at h; exact h.symm
  | .cons p e rest, benv1, ts, sb, tr, rb, pacc, envAcc, st', h, hs => by
    simp only [bitArms] at h
    split at h
    · simp at h
    · rename_i m bind hpb
      split at h
      · simp at h
      · rename_i te be pe enve he
        have hse := shapeE call e _ _ _ _ _ he
        have hout : shape (armOut bind enve) = shape benv1 := by
          rw [armOut_eq_restoreB bind ts sb benv1 enve hse]
          cases bind with
          | none => exact shape_restoreB _ _ [] (by simpa [armEnv] using hse)
          | some x => exact shape_restoreB _ _ [(x, ts)] (by simpa [armEnv] using hse)
        simp only [Bool.not_true, Bool.false_and, Bool.false_eq_true, if_false, Bool.true_or] at h
        rw [muxEnv_false _ _ (by rw [hout]; exact hs.symm)] at h
        split at h
        · exact arms_after_match call rest benv1 ts sb tr rb pacc envAcc st' h hs
        · simp at h

/-- the arm loop against `evalArms`: the first arm whose pattern matches decides value, panic and variables -/
theorem lastIsCatchAll_mem : ∀ (arms : Arms), lastIsCatchAll arms = true → ∃ x, Pat.ident x ∈ armPats arms
  | .nil, h => by simp [lastIsCatchAll] at h
  | .cons p e .nil, h => by
    cases p with
    | ident x => exact ⟨x, by simp [armPats]⟩
    | _ => simp [lastIsCatchAll] at h
  | .cons p e (.cons p2 e2 rest), h => by
    have h' : lastIsCatchAll (.cons p2 e2 rest) = true := by
      cases p <;> simpa [lastIsCatchAll] using h
    obtain ⟨x, hx⟩ := lastIsCatchAll_mem _ h'
    exact ⟨x, by simp only [armPats, List.mem_cons] at hx ⊢; exact Or.inr hx⟩

theorem arms_ok (prog : Prog) (call : CallFn) (N : Nat) (ihLow : ∀ f, f ≤ N → ExprOK prog call f) :
    ∀ (arms : Arms) (f : Nat), f ≤ N + 1 → ∀ (env1 : Src.Env) (benv1 : BEnv) (ts : STy) (v : Val) (sb : List Bool),
      Rel ts v sb → EnvRel env1 benv1 → ∀ (ret : Option (VTy × List Bool)) (st' : ArmSt),
      bitArms call benv1 ts sb arms (false, ret, none, benv1) = some st' →
      match evalArms f prog env1 v arms with
      | .ok (r, env2) => st'.1 = true ∧ ∃ t bs, st'.2.1 = some (t, bs) ∧ VRel t r bs ∧ st'.2.2.1 = none ∧
          EnvRel env2 st'.2.2.2
      | .error (.panic k) => st'.2.2.1 = some k
      | .error (.stuck _) => ∀ q, q ∈ armPats arms → matchPat q v = none
      | .error .fuel => True
  | .nil, f, _, env1, benv1, ts, v, sb, _, _, ret, st', _ => by
    cases f <;> simp [evalArms, armPats]
  | .cons p e rest, f, hf, env1, benv1, ts, v, sb, hrel, henv, ret, st', h => by
    cases f with
    | zero => simp [evalArms]
    | succ f =>
      simp only [bitArms] at h
      split at h
      · simp at h
      · rename_i m bind hpb
        have hmp := patBits_sound p ts v sb m bind hrel hpb
        split at h
        · simp at h
        · rename_i te be pe enve he
          have hse := shapeE call e _ _ _ _ _ he
          have hout : shape (armOut bind enve) = shape benv1 := by
            rw [armOut_eq_restoreB bind ts sb benv1 enve hse]
            cases bind with
            | none => exact shape_restoreB _ _ [] (by simpa [armEnv] using hse)
            | some x => exact shape_restoreB _ _ [(x, ts)] (by simpa [armEnv] using hse)
          rw [evalArms, hmp]
          cases m with
          | false =>
            -- the pattern does not match: nothing is selected, go on with the rest
            simp only [Bool.false_eq_true, if_false, Bool.not_false, Bool.and_false, Bool.or_false] at h ⊢
            rw [muxEnv_false _ _ (by rw [hout])] at h
            have hp_none : matchPat p v = none := by simpa using hmp
            have ih : ∀ ret', bitArms call benv1 ts sb rest (false, ret', none, benv1) = some st' →
                match evalArms f prog env1 v rest with
                | .ok (r, env2) => st'.1 = true ∧ ∃ t bs, st'.2.1 = some (t, bs) ∧ VRel t r bs ∧ st'.2.2.1 = none ∧
                    EnvRel env2 st'.2.2.2
                | .error (.panic k) => st'.2.2.1 = some k
                | .error (.stuck _) => ∀ q, q ∈ armPats (.cons p e rest) → matchPat q v = none
                | .error .fuel => True := by
              intro ret' hh
              have X := arms_ok prog call N ihLow rest f (by omega) env1 benv1 ts v sb hrel henv ret' st' hh
              revert X
              cases evalArms f prog env1 v rest with
              | ok res => exact id
              | error er =>
                cases er with
                | panic k => exact id
                | stuck w =>
                  intro X q hq
                  simp only [armPats, List.mem_cons] at hq
                  rcases hq with rfl | hq
                  · exact hp_none
                  · exact X q hq
                | fuel => exact id
            split at h
            · split at h
              · exact ih _ h
              · simp at h
            · exact ih _ h
          | true =>
            -- the pattern matches: this arm decides
            simp only [if_true, Bool.not_false, Bool.and_true, Bool.or_true, Bool.true_and, Bool.false_or] at h ⊢
            rw [muxEnv_true _ _ (by rw [← shape_length, hout, shape_length])] at h
            have hfin : st' = (true, some (te, be), pe, armOut bind enve) := by
              split at h
              · split at h
                · rename_i htr; subst htr
                  exact arms_after_match call rest benv1 ts sb _ _ _ _ st' h hout
                · simp at h
              · exact arms_after_match call rest benv1 ts sb _ _ _ _ st' h hout
            subst hfin
            have ihe := ihLow f (by omega) e (bindsOf bind v ++ env1) (armEnv bind ts sb benv1) te be pe enve
              (henv.arm bind ts v sb hrel) he
            cases hev : evalExpr f prog (bindsOf bind v ++ env1) e with
            | error er =>
              rw [hev] at ihe
              cases er with
              | panic k => exact ihe
              | stuck w => exact ihe.elim
              | fuel => trivial
            | ok res =>
              obtain ⟨r, env2⟩ := res
              rw [hev] at ihe
              obtain ⟨hp0, hvr, henv2⟩ := ihe
              refine ⟨rfl, te, be, rfl, hvr, hp0, ?_⟩
              rw [armOut_eq_restoreB bind ts sb benv1 enve hse]
              exact EnvRel.restore henv henv2

theorem exprOK_succ (prog : Prog) (call : CallFn) (fuel : Nat) (ihE : ExprOK prog call fuel) (ihS : StmtsOK prog call fuel)
    (ihLow : ∀ f, f ≤ fuel → ExprOK prog call f) (ihL : ListOK prog call fuel) (hcall : CallSound prog call fuel) :
    ExprOK prog call (fuel + 1) := by
  intro e env benv t bs p benv' henv hb
  cases e with
  | bool b =>
    simp only [bitExpr, Option.some.injEq, Prod.mk.injEq] at hb
    obtain ⟨rfl, rfl, rfl, rfl⟩ := hb
    simp [evalExpr, ResRel, VRel, Rel, henv]
  | int n k =>
    simp only [bitExpr] at hb
    split at hb
    · rename_i hr
      simp only [Option.some.injEq, Prod.mk.injEq] at hb
      obtain ⟨rfl, rfl, rfl, rfl⟩ := hb
      simp [evalExpr, ResRel, VRel, Rel, henv, hr, enc]
    · simp at hb
  | var x =>
    simp only [bitExpr] at hb
    split at hb
    · rename_i t' bs' hg
      simp only [Option.some.injEq, Prod.mk.injEq] at hb
      obtain ⟨rfl, rfl, rfl, rfl⟩ := hb
      obtain ⟨v0, hv0, hrel⟩ := henv.lookup x _ _ hg
      simp [evalExpr, hv0, ResRel, VRel, hrel, henv]
    · simp at hb
  | un op ty a =>
    cases op with
    | not =>
      cases ty <;> simp only [bitExpr] at hb
      case bool =>
        split at hb
        · rename_i b p1 env1 ha
          simp only [Option.some.injEq, Prod.mk.injEq] at hb
          obtain ⟨rfl, rfl, rfl, rfl⟩ := hb
          have ih := ihE a env benv _ _ _ _ henv ha
          rw [evalExpr]
          cases hev : evalExpr fuel prog env a with
          | error er => rw [hev] at ih; exact ih.error_of id (fun _ => rfl)
          | ok res =>
            obtain ⟨va, enva⟩ := res
            rw [hev] at ih
            obtain ⟨rfl, hrel, henv1⟩ := ih
            obtain ⟨b', rfl, hbs⟩ := Rel.bool_inv hrel
            simp only [List.cons.injEq, and_true] at hbs
            subst hbs
            simp [unop, ResRel, VRel, Rel, henv1]
        · simp at hb
      all_goals (simp at hb)
    | neg =>
      cases ty <;> simp only [bitExpr] at hb
      case int k =>
        split at hb
        · rename_i hs
          split at hb
          · rename_i k' bs' p1 env1 ha
            split at hb
            · rename_i hk
              subst hk
              simp only [Option.some.injEq, Prod.mk.injEq] at hb
              obtain ⟨rfl, rfl, rfl, rfl⟩ := hb
              have ih := ihE a env benv _ _ _ _ henv ha
              rw [evalExpr]
              cases hev : evalExpr fuel prog env a with
              | error er =>
                rw [hev] at ih
                exact ih.error_of (fun p => seqP p _) (fun _ => rfl)
              | ok res =>
                obtain ⟨va, enva⟩ := res
                rw [hev] at ih
                obtain ⟨rfl, hrel, henv1⟩ := ih
                obtain ⟨n, rfl, hn, rfl⟩ := Rel.int_inv hrel
                have hng := negChecked_enc k' n hs hn
                simp only [unop, checked]
                cases hr : k'.inRange (-n)
                · simp only [Bool.false_eq_true, if_false, ResRel]
                  simp [hng.2 hr, seqP]
                · simp only [if_true, ResRel, VRel]
                  rw [hng.1 hr]
                  exact ⟨by simp [seqP], ⟨hr, rfl⟩, henv1⟩
            · simp at hb
          · simp at hb
        · simp at hb
      all_goals (simp at hb)
  | cast src dst a =>
    simp only [bitExpr] at hb
    split at hb
    · rename_i ts td hs hd
      split at hb
      · rename_i ta x p1 env1 ha
        split at hb
        · rename_i hts
          subst hts
          simp only [Option.some.injEq, Prod.mk.injEq] at hb
          obtain ⟨rfl, rfl, rfl, rfl⟩ := hb
          have ih := ihE a env benv _ _ _ _ henv ha
          have hsrc := ofTy_some hs
          have hdst := ofTy_some hd
          subst hsrc
          subst hdst
          rw [evalExpr]
          cases hev : evalExpr fuel prog env a with
          | error er => rw [hev] at ih; exact ih.error_of id (fun _ => rfl)
          | ok res =>
            obtain ⟨va, enva⟩ := res
            rw [hev] at ih
            obtain ⟨rfl, hrel, henv1⟩ := ih
            obtain ⟨w, hw, hrw⟩ := cast_sound ta td va x hrel
            simp only [hw, ResRel, VRel]
            exact ⟨trivial, hrw, henv1⟩
        · simp at hb
      · simp at hb
    · simp at hb
  | ite c tb fb =>
    simp only [bitExpr] at hb
    split at hb
    · rename_i cb pc env1 hc
      split at hb
      · rename_i tt tbits pt envT tf fbits pf envF hT hF
        split at hb
        · rename_i htt
          subst htt
          simp only [Option.some.injEq, Prod.mk.injEq] at hb
          obtain ⟨rfl, rfl, rfl, rfl⟩ := hb
          have ihc := ihE c env benv _ _ _ _ henv hc
          have hshape : shape envT = shape envF := by
            rw [shapeE call tb _ _ _ _ _ hT, shapeE call fb _ _ _ _ _ hF]
          rw [evalExpr]
          cases hev : evalExpr fuel prog env c with
          | error er => rw [hev] at ihc; exact ihc.error_of (fun p => seqP p _) (fun _ => rfl)
          | ok res =>
            obtain ⟨vc, envc⟩ := res
            rw [hev] at ihc
            obtain ⟨rfl, hrel, henv1⟩ := ihc
            obtain ⟨b', rfl, hbs⟩ := Rel.bool_inv hrel
            simp only [List.cons.injEq, and_true] at hbs
            subst hbs
            cases cb with
            | true =>
              have iht := ihE tb envc env1 _ _ _ _ henv1 hT
              simp only [seqP, if_true]
              cases hevt : evalExpr fuel prog envc tb with
              | error er => rw [hevt] at iht; exact iht.error_of id (fun _ => rfl)
              | ok rest =>
                obtain ⟨vt, envt⟩ := rest
                rw [hevt] at iht
                obtain ⟨rfl, hrt, henvt⟩ := iht
                exact ⟨rfl, hrt, EnvRel.mux true hshape henvt⟩
            | false =>
              have ihf := ihE fb envc env1 _ _ _ _ henv1 hF
              simp only [seqP, Bool.false_eq_true, if_false]
              cases hevf : evalExpr fuel prog envc fb with
              | error er => rw [hevf] at ihf; exact ihf.error_of id (fun _ => rfl)
              | ok resf =>
                obtain ⟨vf, envf⟩ := resf
                rw [hevf] at ihf
                obtain ⟨rfl, hrf, henvf⟩ := ihf
                exact ⟨rfl, hrf, EnvRel.mux false hshape henvf⟩
        · simp at hb
      · simp at hb
    · simp at hb
  | block ss =>
    simp only [bitExpr] at hb
    split at hb
    · rename_i t' bs' p' env1 hs
      simp only [Option.some.injEq, Prod.mk.injEq] at hb
      obtain ⟨rfl, rfl, rfl, rfl⟩ := hb
      have ih := ihS ss env benv _ _ _ _ henv hs
      rw [evalExpr]
      cases hev : evalStmts fuel prog env ss with
      | error er => rw [hev] at ih; exact ih.error_of id (fun _ => rfl)
      | ok res =>
        obtain ⟨v, envs⟩ := res
        rw [hev] at ih
        obtain ⟨rfl, hrel, henv1⟩ := ih
        exact ⟨rfl, hrel, EnvRel.restore henv henv1⟩
    · simp at hb
  | bin op ty a b =>
    cases op
    case land =>
      simp only [bitExpr] at hb
      split at hb
      · rename_i x p1 env1 ha
        split at hb
        · rename_i y p2 env2 hbb
          simp only [Option.some.injEq, Prod.mk.injEq] at hb
          obtain ⟨rfl, rfl, rfl, rfl⟩ := hb
          have iha := ihE a env benv _ _ _ _ henv ha
          have hshape : shape env2 = shape env1 := shapeE call b _ _ _ _ _ hbb
          rw [evalExpr]
          cases hev : evalExpr fuel prog env a with
          | error er => rw [hev] at iha; exact iha.error_of (fun p => seqP p _) (fun _ => rfl)
          | ok res =>
            obtain ⟨va, enva⟩ := res
            rw [hev] at iha
            obtain ⟨rfl, hrel, henv1⟩ := iha
            obtain ⟨x', rfl, hbs⟩ := Rel.bool_inv hrel
            simp only [List.cons.injEq, and_true] at hbs
            subst hbs
            cases x with
            | false =>
              simp only [ResRel, VRel, Rel, seqP, Bool.false_and, Bool.false_eq_true, if_false]
              exact ⟨trivial, trivial, EnvRel.mux false hshape henv1⟩
            | true =>
              have ihb := ihE b enva env1 _ _ _ _ henv1 hbb
              simp only [seqP, if_true, Bool.true_and]
              cases hevb : evalExpr fuel prog enva b with
              | error er => rw [hevb] at ihb; exact ihb.error_of id (fun _ => rfl)
              | ok resb =>
                obtain ⟨vb, envb⟩ := resb
                rw [hevb] at ihb
                obtain ⟨rfl, hrb, henv2⟩ := ihb
                exact ⟨rfl, hrb, EnvRel.mux true hshape henv2⟩
        · simp at hb
      · simp at hb
    case lor =>
      simp only [bitExpr] at hb
      split at hb
      · rename_i x p1 env1 ha
        split at hb
        · rename_i y p2 env2 hbb
          simp only [Option.some.injEq, Prod.mk.injEq] at hb
          obtain ⟨rfl, rfl, rfl, rfl⟩ := hb
          have iha := ihE a env benv _ _ _ _ henv ha
          have hshape : shape env1 = shape env2 := (shapeE call b _ _ _ _ _ hbb).symm
          rw [evalExpr]
          cases hev : evalExpr fuel prog env a with
          | error er => rw [hev] at iha; exact iha.error_of (fun p => seqP p _) (fun _ => rfl)
          | ok res =>
            obtain ⟨va, enva⟩ := res
            rw [hev] at iha
            obtain ⟨rfl, hrel, henv1⟩ := iha
            obtain ⟨x', rfl, hbs⟩ := Rel.bool_inv hrel
            simp only [List.cons.injEq, and_true] at hbs
            subst hbs
            cases x with
            | true =>
              simp only [ResRel, VRel, Rel, seqP, Bool.true_or, if_true]
              exact ⟨trivial, trivial, EnvRel.mux true hshape henv1⟩
            | false =>
              have ihb := ihE b enva env1 _ _ _ _ henv1 hbb
              simp only [seqP, Bool.false_eq_true, if_false, Bool.false_or]
              cases hevb : evalExpr fuel prog enva b with
              | error er => rw [hevb] at ihb; exact ihb.error_of id (fun _ => rfl)
              | ok resb =>
                obtain ⟨vb, envb⟩ := resb
                rw [hevb] at ihb
                obtain ⟨rfl, hrb, henv2⟩ := ihb
                exact ⟨rfl, hrb, EnvRel.mux false hshape henv2⟩
        · simp at hb
      · simp at hb
    case shl =>
      simp only [bitExpr] at hb
      split at hb
      · rename_i k hty
        split at hb
        · rename_i k' x p1 env1 ha
          split at hb
          · rename_i y p2 env2 hbb
            split at hb
            · rename_i hk
              subst hk
              simp only [Option.some.injEq, Prod.mk.injEq] at hb
              obtain ⟨rfl, rfl, rfl, rfl⟩ := hb
              have iha := ihE a env benv _ _ _ _ henv ha
              have hty' := ofTy_some hty
              subst hty'
              rw [evalExpr_bin _ _ _ _ _ _ _ (by decide) (by decide)]
              cases hev : evalExpr fuel prog env a with
              | error er => rw [hev] at iha; exact iha.error_of (fun p => seqP p _) (fun _ => rfl)
              | ok res =>
                obtain ⟨va, enva⟩ := res
                rw [hev] at iha
                obtain ⟨rfl, hra, henv1⟩ := iha
                have ihb := ihE b enva env1 _ _ _ _ henv1 hbb
                dsimp only
                cases hevb : evalExpr fuel prog enva b with
                | error er =>
                  rw [hevb] at ihb
                  exact ihb.error_of (fun p => seqP none (seqP p _)) (fun _ => rfl)
                | ok resb =>
                  obtain ⟨vb, envb⟩ := resb
                  rw [hevb] at ihb
                  obtain ⟨rfl, hrb, henv2⟩ := ihb
                  exact shift_res_rel true k' x y va vb envb env2 hra hrb henv2
            · simp at hb
          · simp at hb
        · simp at hb
      · simp at hb
    case shr =>
      simp only [bitExpr] at hb
      split at hb
      · rename_i k hty
        split at hb
        · rename_i k' x p1 env1 ha
          split at hb
          · rename_i y p2 env2 hbb
            split at hb
            · rename_i hk
              subst hk
              simp only [Option.some.injEq, Prod.mk.injEq] at hb
              obtain ⟨rfl, rfl, rfl, rfl⟩ := hb
              have iha := ihE a env benv _ _ _ _ henv ha
              have hty' := ofTy_some hty
              subst hty'
              rw [evalExpr_bin _ _ _ _ _ _ _ (by decide) (by decide)]
              cases hev : evalExpr fuel prog env a with
              | error er => rw [hev] at iha; exact iha.error_of (fun p => seqP p _) (fun _ => rfl)
              | ok res =>
                obtain ⟨va, enva⟩ := res
                rw [hev] at iha
                obtain ⟨rfl, hra, henv1⟩ := iha
                have ihb := ihE b enva env1 _ _ _ _ henv1 hbb
                dsimp only
                cases hevb : evalExpr fuel prog enva b with
                | error er =>
                  rw [hevb] at ihb
                  exact ihb.error_of (fun p => seqP none (seqP p _)) (fun _ => rfl)
                | ok resb =>
                  obtain ⟨vb, envb⟩ := resb
                  rw [hevb] at ihb
                  obtain ⟨rfl, hrb, henv2⟩ := ihb
                  exact shift_res_rel false k' x y va vb envb env2 hra hrb henv2
            · simp at hb
          · simp at hb
        · simp at hb
      · simp at hb
    case mul =>
      simp only [bitExpr, if_true] at hb
      split at hb
      · -- the left operand is the literal: only `b` is compiled
        rename_i neg n k hfa
        obtain ⟨hneg, hty, y, p2, hbb, rfl, rfl, rfl⟩ := litMul_some hb
        obtain ⟨n0, rfl, hn0, rfl, hd⟩ := litFactor_some (by simpa using hfa)
        subst hneg
        have hpos : 0 < n0 := by
          have : ¬ n0 < 0 := by simpa using hd.symm
          omega
        have hty' := ofTy_some hty
        subst hty'
        rw [evalExpr_bin _ _ _ _ _ _ _ (by decide) (by decide)]
        cases fuel with
        | zero => simp [evalExpr, ResRel]
        | succ f =>
          have ihb := ihE b env benv _ _ _ _ henv hbb
          rw [show evalExpr (f + 1) prog env (.int n0 k) = .ok (.int n0, env) from by simp [evalExpr]]
          dsimp only
          cases hevb : evalExpr (f + 1) prog env b with
          | error er =>
            rw [hevb] at ihb
            exact ihb.error_of (fun p => seqP p _) (fun _ => rfl)
          | ok resb =>
            obtain ⟨vb, envb⟩ := resb
            rw [hevb] at ihb
            obtain ⟨rfl, hrb, henv2⟩ := ihb
            exact litMul_res_rel k n0 hpos y vb envb _ hrb henv2 true
      · -- the right operand is the literal: only `a` is compiled
        rename_i neg n k _ hfb
        obtain ⟨hneg, hty, y, p2, hba, rfl, rfl, rfl⟩ := litMul_some hb
        obtain ⟨n0, rfl, hn0, rfl, hd⟩ := litFactor_some (by simpa using hfb)
        subst hneg
        have hpos : 0 < n0 := by
          have : ¬ n0 < 0 := by simpa using hd.symm
          omega
        have hty' := ofTy_some hty
        subst hty'
        have iha := ihE a env benv _ _ _ _ henv hba
        rw [evalExpr_bin _ _ _ _ _ _ _ (by decide) (by decide)]
        cases heva : evalExpr fuel prog env a with
        | error er =>
          rw [heva] at iha
          exact iha.error_of (fun p => seqP p _) (fun _ => rfl)
        | ok resa =>
          obtain ⟨va, enva⟩ := resa
          rw [heva] at iha
          obtain ⟨rfl, hra, henv1⟩ := iha
          dsimp only
          cases fuel with
          | zero => simp [evalExpr] at heva
          | succ f =>
            rw [show evalExpr (f + 1) prog enva (.int n0 k) = .ok (.int n0, enva) from by simp [evalExpr]]
            dsimp only
            exact litMul_res_rel k n0 hpos y va enva _ hra henv1 false
      · split at hb
        · simp at hb
        · rename_i t' hty
          split at hb
          · rename_i ta x p1 env1 ha
            split at hb
            · rename_i tb' y p2 env2 hbb
              split at hb
              · rename_i hts
                obtain ⟨rfl, rfl⟩ := hts
                split at hb
                · rename_i tr r panics hbin
                  simp only [Option.some.injEq, Prod.mk.injEq] at hb
                  obtain ⟨rfl, rfl, rfl, rfl⟩ := hb
                  have iha := ihE a env benv _ _ _ _ henv ha
                  have hty' := ofTy_some hty
                  subst hty'
                  rw [evalExpr_bin _ _ _ _ _ _ _ (by decide) (by decide)]
                  cases hev : evalExpr fuel prog env a with
                  | error er => rw [hev] at iha; exact iha.error_of (fun p => seqP p _) (fun _ => rfl)
                  | ok res =>
                    obtain ⟨va, enva⟩ := res
                    rw [hev] at iha
                    obtain ⟨rfl, hra, henv1⟩ := iha
                    have ihb := ihE b enva env1 _ _ _ _ henv1 hbb
                    dsimp only
                    cases hevb : evalExpr fuel prog enva b with
                    | error er =>
                      rw [hevb] at ihb
                      exact ihb.error_of (fun p => seqP none (seqP p _)) (fun _ => rfl)
                    | ok resb =>
                      obtain ⟨vb, envb⟩ := resb
                      rw [hevb] at ihb
                      obtain ⟨rfl, hrb, henv2⟩ := ihb
                      exact binop_res _ _ x y va vb tr r panics envb env2 hra hrb hbin henv2
                · simp at hb
              · simp at hb
            · simp at hb
          · simp at hb
    all_goals
      simp only [bitExpr] at hb
      split at hb
      · rename_i heq; simp at heq
      · rename_i heq; simp at heq
      split at hb
      · simp at hb
      · rename_i t' hty
        split at hb
        · rename_i ta x p1 env1 ha
          split at hb
          · rename_i tb' y p2 env2 hbb
            split at hb
            · rename_i hts
              obtain ⟨rfl, rfl⟩ := hts
              split at hb
              · rename_i tr r panics hbin
                simp only [Option.some.injEq, Prod.mk.injEq] at hb
                obtain ⟨rfl, rfl, rfl, rfl⟩ := hb
                have iha := ihE a env benv _ _ _ _ henv ha
                have hty' := ofTy_some hty
                subst hty'
                rw [evalExpr_bin _ _ _ _ _ _ _ (by decide) (by decide)]
                cases hev : evalExpr fuel prog env a with
                | error er => rw [hev] at iha; exact iha.error_of (fun p => seqP p _) (fun _ => rfl)
                | ok res =>
                  obtain ⟨va, enva⟩ := res
                  rw [hev] at iha
                  obtain ⟨rfl, hra, henv1⟩ := iha
                  have ihb := ihE b enva env1 _ _ _ _ henv1 hbb
                  dsimp only
                  cases hevb : evalExpr fuel prog enva b with
                  | error er =>
                    rw [hevb] at ihb
                    exact ihb.error_of (fun p => seqP none (seqP p _)) (fun _ => rfl)
                  | ok resb =>
                    obtain ⟨vb, envb⟩ := resb
                    rw [hevb] at ihb
                    obtain ⟨rfl, hrb, henv2⟩ := ihb
                    exact binop_res _ _ x y va vb tr r panics envb env2 hra hrb hbin henv2
              · simp at hb
            · simp at hb
          · simp at hb
        · simp at hb
  | tuple es =>
    cases es with
    | nil =>
      simp only [bitExpr, Option.some.injEq, Prod.mk.injEq] at hb
      obtain ⟨rfl, rfl, rfl, rfl⟩ := hb
      rw [evalExpr]
      cases fuel with
      | zero => simp [evalList, ResRel]
      | succ f =>
        simp only [evalList, ResRel, VRel]
        exact ⟨trivial, by first | trivial | exact ⟨rfl, rfl⟩, henv⟩
    | cons _ _ => simp [bitExpr] at hb
  | match_ scrut arms =>
    simp only [bitExpr] at hb
    split at hb
    · rename_i ts sb ps env1 hs
      split at hb
      · rename_i hlast
        split at hb
        · rename_i hp t' bs' pa envF ha
          simp only [Option.some.injEq, Prod.mk.injEq] at hb
          obtain ⟨rfl, rfl, rfl, rfl⟩ := hb
          have ihs := ihE scrut env benv _ _ _ _ henv hs
          rw [evalExpr]
          cases hev : evalExpr fuel prog env scrut with
          | error er => rw [hev] at ihs; exact ihs.error_of (fun p => seqP p _) (fun _ => rfl)
          | ok res =>
            obtain ⟨v, enva⟩ := res
            rw [hev] at ihs
            obtain ⟨rfl, hrel, henv1⟩ := ihs
            have harms := arms_ok prog call fuel ihLow arms fuel (by omega) enva env1 ts v sb hrel henv1 none _ ha
            simp only
            cases hea : evalArms fuel prog enva v arms with
            | error er =>
              rw [hea] at harms
              cases er with
              | panic k => simp only [ResRel, seqP]; exact harms
              | stuck w =>
                -- no arm matches a value of the scrutinee's type: impossible, the arms cover it
                simp only at harms
                exfalso
                simp only [matchCovers, Bool.or_eq_true] at hlast
                rcases hlast with hl | hu
                · obtain ⟨x, hx⟩ := lastIsCatchAll_mem arms hl
                  have := harms _ hx
                  simp [matchPat] at this
                · have hnone : uncovered ts.toTy (armPats arms) = none := by
                    cases hu' : uncovered ts.toTy (armPats arms) with
                    | none => rfl
                    | some w => rw [hu'] at hu; simp at hu
                  obtain ⟨q, hq, hs⟩ := uncovered_complete ts.toTy (armPats arms) hnone v hrel.hasType_encode.1
                  rw [harms q hq] at hs
                  simp at hs
              | fuel => trivial
            | ok resa =>
              obtain ⟨r, env2⟩ := resa
              rw [hea] at harms
              obtain ⟨_, t2, bs2, hsome, hvr, hpn, henv2⟩ := harms
              simp only [Option.some.injEq, Prod.mk.injEq] at hsome
              obtain ⟨rfl, rfl⟩ := hsome
              simp only at hpn henv2
              subst hpn
              exact ⟨rfl, hvr, henv2⟩
        · simp at hb
      · simp at hb
    · simp at hb
  | call fn args =>
    simp only [bitExpr] at hb
    split at hb
    · rename_i vs pargs env1 hl
      split at hb
      · rename_i t' bs' pb hc
        simp only [Option.some.injEq, Prod.mk.injEq] at hb
        obtain ⟨rfl, rfl, rfl, rfl⟩ := hb
        have ihl := ihL args env benv _ _ _ henv hl
        rw [evalExpr_call]
        cases hel : evalList fuel prog env args with
        | error er =>
          rw [hel] at ihl
          cases er with
          | panic k => simp only [ResRel, seqP] at ihl ⊢; rw [ihl]
          | stuck w => exact ihl.elim
          | fuel => trivial
        | ok res =>
          obtain ⟨avs, enva⟩ := res
          rw [hel] at ihl
          obtain ⟨rfl, hargs, henv1⟩ := ihl
          have hcs := hcall fn avs.toList vs _ _ _ hargs hc
          simp only
          cases hrf : runFn fuel prog fn avs.toList with
          | error er =>
            rw [hrf] at hcs
            cases er with
            | panic k => simp only [ResRel, seqP]; exact hcs
            | stuck w => exact hcs.elim
            | fuel => trivial
          | ok r =>
            rw [hrf] at hcs
            obtain ⟨rfl, hvr⟩ := hcs
            exact ⟨rfl, hvr, henv1⟩
      · simp at hb
    · simp at hb
  | _ => simp [bitExpr] at hb

theorem listOK_succ (prog : Prog) (call : CallFn) (fuel : Nat) (ihE : ExprOK prog call fuel) (ihL : ListOK prog call fuel) :
    ListOK prog call (fuel + 1) := by
  intro es env benv args p benv' henv hb
  cases es with
  | nil =>
    simp only [bitList, Option.some.injEq, Prod.mk.injEq] at hb
    obtain ⟨rfl, rfl, rfl⟩ := hb
    simp only [evalList, ValList.toList, ArgsRel]
    exact ⟨by trivial, by trivial, henv⟩
  | cons e rest =>
    simp only [bitList] at hb
    split at hb
    · rename_i t bs p1 env1 he
      split at hb
      · rename_i vs2 p2 env2 hr
        simp only [Option.some.injEq, Prod.mk.injEq] at hb
        obtain ⟨rfl, rfl, rfl⟩ := hb
        have ih1 := ihE e env benv _ _ _ _ henv he
        rw [evalList]
        cases hev : evalExpr fuel prog env e with
        | error er =>
          rw [hev] at ih1
          cases er with
          | panic k => simp only [ResRel] at ih1; simp only [seqP, ih1]
          | stuck w => exact ih1.elim
          | fuel => trivial
        | ok res =>
          obtain ⟨v, enva⟩ := res
          rw [hev] at ih1
          obtain ⟨rfl, hrel, henv1⟩ := ih1
          have ih2 := ihL rest enva env1 _ _ _ henv1 hr
          simp only
          cases hel : evalList fuel prog enva rest with
          | error er =>
            rw [hel] at ih2
            cases er with
            | panic k => simp only [seqP]; exact ih2
            | stuck w => exact ih2.elim
            | fuel => trivial
          | ok res2 =>
            obtain ⟨vs, envb⟩ := res2
            rw [hel] at ih2
            obtain ⟨rfl, hargs, henv2⟩ := ih2
            exact ⟨rfl, ⟨hrel, hargs⟩, henv2⟩
      · simp at hb
    · simp at hb


theorem stmtOK_succ (prog : Prog) (call : CallFn) (fuel : Nat) (ihE : ExprOK prog call fuel) : StmtOK prog call (fuel + 1) := by
  intro st env benv t bs p benv' henv hb
  cases st with
  | let_ pat e =>
    cases pat <;> simp only [bitStmt] at hb
    case ident x =>
      split at hb
      · rename_i t1 bs1 p1 env1 he
        simp only [Option.some.injEq, Prod.mk.injEq] at hb
        obtain ⟨rfl, rfl, rfl, rfl⟩ := hb
        have ih := ihE e env benv _ _ _ _ henv he
        rw [evalStmt]
        cases hev : evalExpr fuel prog env e with
        | error er => rw [hev] at ih; exact ih.error_of id (fun _ => rfl)
        | ok res =>
          obtain ⟨v, enve⟩ := res
          rw [hev] at ih
          obtain ⟨rfl, hrel, henv1⟩ := ih
          simp only [matchPat, ResRel, VRel, List.singleton_append]
          exact ⟨trivial, by first | trivial | exact ⟨rfl, rfl⟩, EnvRel.cons hrel henv1⟩
      · simp at hb
    all_goals (simp at hb)
  | letMut x e =>
    simp only [bitStmt] at hb
    split at hb
    · rename_i t1 bs1 p1 env1 he
      simp only [Option.some.injEq, Prod.mk.injEq] at hb
      obtain ⟨rfl, rfl, rfl, rfl⟩ := hb
      have ih := ihE e env benv _ _ _ _ henv he
      rw [evalStmt]
      cases hev : evalExpr fuel prog env e with
      | error er => rw [hev] at ih; exact ih.error_of id (fun _ => rfl)
      | ok res =>
        obtain ⟨v, enve⟩ := res
        rw [hev] at ih
        obtain ⟨rfl, hrel, henv1⟩ := ih
        exact ⟨rfl, ⟨rfl, rfl⟩, EnvRel.cons hrel henv1⟩
    · simp at hb
  | assign x path e =>
    cases path <;> simp only [bitStmt] at hb
    case nil =>
      split at hb
      · rename_i t1 bs1 p1 env1 he
        split at hb
        · rename_i t' old hg
          split at hb
          · rename_i htt
            subst htt
            simp only [Option.some.injEq, Prod.mk.injEq] at hb
            obtain ⟨rfl, rfl, rfl, rfl⟩ := hb
            have ih := ihE e env benv _ _ _ _ henv he
            rw [evalStmt]
            cases hev : evalExpr fuel prog env e with
            | error er => rw [hev] at ih; exact ih.error_of id (fun _ => rfl)
            | ok res =>
              obtain ⟨v, enve⟩ := res
              rw [hev] at ih
              obtain ⟨rfl, hrel, henv1⟩ := ih
              obtain ⟨⟨ov, hov⟩, hset⟩ := henv1.set x t' old bs1 v hg hrel
              simp only [hov]
              cases fuel with
              | zero => simp [evalPath, ResRel]
              | succ f =>
                simp only [evalPath, updateAt, ResRel, VRel]
                exact ⟨trivial, by first | trivial | exact ⟨rfl, rfl⟩, hset⟩
          · simp at hb
        · simp at hb
      · simp at hb
    all_goals (simp at hb)
  | expr e =>
    simp only [bitStmt] at hb
    rw [evalStmt]
    exact ihE e env benv _ _ _ _ henv hb
  | _ => simp [bitStmt] at hb

theorem stmtsOK_succ (prog : Prog) (call : CallFn) (fuel : Nat) (ihS : StmtsOK prog call fuel) (ihSt : StmtOK prog call fuel) :
    StmtsOK prog call (fuel + 1) := by
  intro ss env benv t bs p benv' henv hb
  cases ss with
  | nil =>
    simp only [bitStmts, Option.some.injEq, Prod.mk.injEq] at hb
    obtain ⟨rfl, rfl, rfl, rfl⟩ := hb
    simp only [evalStmts, ResRel, VRel]
    exact ⟨trivial, by first | trivial | exact ⟨rfl, rfl⟩, henv⟩
  | cons st rest =>
    cases rest with
    | nil =>
      simp only [bitStmts] at hb
      have ih := ihSt st env benv _ _ _ _ henv hb
      rw [evalStmts]
      cases hev : evalStmt fuel prog env st with
      | error er => rw [hev] at ih; exact ih
      | ok res =>
        obtain ⟨v, env1⟩ := res
        rw [hev] at ih
        exact ih
    | cons s2 rest2 =>
      simp only [bitStmts] at hb
      split at hb
      · rename_i t1 bs1 p1 env1 hs
        split at hb
        · rename_i t2 bs2 p2 env2 hr
          simp only [Option.some.injEq, Prod.mk.injEq] at hb
          obtain ⟨rfl, rfl, rfl, rfl⟩ := hb
          have ih1 := ihSt st env benv _ _ _ _ henv hs
          rw [evalStmts]
          cases hev : evalStmt fuel prog env st with
          | error er => rw [hev] at ih1; exact ih1.error_of (fun p => seqP p _) (fun _ => rfl)
          | ok res =>
            obtain ⟨v, enva⟩ := res
            rw [hev] at ih1
            obtain ⟨rfl, _, henv1⟩ := ih1
            exact ihS (.cons s2 rest2) enva env1 _ _ _ _ henv1 hr
        · simp at hb
      · simp at hb

theorem all_zero (prog : Prog) (call : CallFn) :
    ExprOK prog call 0 ∧ StmtsOK prog call 0 ∧ StmtOK prog call 0 ∧ ListOK prog call 0 := by
  refine ⟨?_, ?_, ?_, ?_⟩
  · intro e env benv t bs p benv' _ _; simp [evalExpr, ResRel]
  · intro e env benv t bs p benv' _ _; simp [evalStmts, ResRel]
  · intro e env benv t bs p benv' _ _; simp [evalStmt, ResRel]
  · intro es env benv args p benv' _ _; simp [evalList]

/-- the refinement, for every fuel (strong induction: the arms of a `match` are evaluated with less fuel), for any
call oracle that is sound at every fuel -/
theorem core_all_le (prog : Prog) (call : CallFn) (hcall : ∀ f, CallSound prog call f) :
    ∀ n f, f ≤ n → ExprOK prog call f ∧ StmtsOK prog call f ∧ StmtOK prog call f ∧ ListOK prog call f
  | 0, f, hf => by
    have : f = 0 := by omega
    subst this; exact all_zero prog call
  | n + 1, f, hf => by
    have ih := core_all_le prog call hcall n
    rcases Nat.lt_or_ge f (n + 1) with hlt | hge
    · exact ih f (by omega)
    · have : f = n + 1 := by omega
      subst this
      have ihn := ih n (Nat.le_refl _)
      exact ⟨exprOK_succ prog call n ihn.1 ihn.2.1 (fun f' hf' => (ih f' hf').1) ihn.2.2.2 (hcall n),
        stmtsOK_succ prog call n ihn.2.1 ihn.2.2.1, stmtOK_succ prog call n ihn.1, listOK_succ prog call n ihn.1 ihn.2.2.2⟩

theorem core_all (prog : Prog) (call : CallFn) (hcall : ∀ f, CallSound prog call f) (fuel : Nat) :
    ExprOK prog call fuel ∧ StmtsOK prog call fuel ∧ StmtOK prog call fuel ∧ ListOK prog call fuel :=
  core_all_le prog call hcall fuel fuel (Nat.le_refl _)

/-! ### calls inlined to a fixed depth -/

theorem EnvRel.append {a : Src.Env} {b : BEnv} {c : Src.Env} {d : BEnv} (h1 : EnvRel a b) (h2 : EnvRel c d) :
    EnvRel (a ++ c) (b ++ d) := by
  induction h1 with
  | nil => exact h2
  | cons hr _ ih => exact EnvRel.cons hr ih

/-- the callee's scope: parameter names bound to the argument values / wires, in the same order on both sides -/
theorem bindParams_rel : ∀ (ps : List (String × Ty)) (args : List (STy × List Bool)) (vs : List Val) (callee : BEnv),
    bindParams ps args = some callee → ArgsRel vs args →
      ps.length = vs.length ∧ EnvRel ((ps.map (·.1)).zip vs).reverse callee
  | [], [], vs, callee, h, ha => by
    cases vs with
    | nil => simp only [bindParams, Option.some.injEq] at h; subst h; exact ⟨rfl, EnvRel.nil⟩
    | cons _ _ => simp [ArgsRel] at ha
  | [], _ :: _, vs, callee, h, _ => by simp [bindParams] at h
  | _ :: _, [], vs, callee, h, _ => by simp [bindParams] at h
  | (x, ty) :: ps, (t, bs) :: as, vs, callee, h, ha => by
    cases vs with
    | nil => simp [ArgsRel] at ha
    | cons v vs =>
      simp only [bindParams] at h
      split at h
      · split at h
        · rename_i env henv
          simp only [Option.some.injEq] at h; subst h
          obtain ⟨hl, hrel⟩ := bindParams_rel ps as vs env henv ha.2
          refine ⟨by simp [hl], ?_⟩
          simp only [List.map_cons, List.zip_cons_cons, List.reverse_cons]
          exact hrel.append (EnvRel.cons ha.1 EnvRel.nil)
        · simp at h
      · simp at h

/-- **the inlined calls are sound at every depth and every fuel** -/
theorem callAt_sound (prog : Prog) : ∀ (n f : Nat), CallSound prog (callAt prog n) f
  | 0, f => by
    intro fn vs args t bs p _ hc
    simp [callAt] at hc
  | n + 1, f => by
    intro fn vs args t bs p hargs hc
    have hS := (core_all prog (callAt prog n) (callAt_sound prog n) f).2.1
    simp only [callAt] at hc
    split at hc
    · simp at hc
    · rename_i d hfn
      split at hc
      · rename_i hcs
        have hcons : prog.consts = [] := by simpa using hcs
        split at hc
        · rename_i callee hbp
          split at hc
          · rename_i t' bs' p' envB hbody
            simp only [Option.some.injEq, Prod.mk.injEq] at hc
            obtain ⟨rfl, rfl, rfl⟩ := hc
            obtain ⟨hlen, hrel⟩ := bindParams_rel d.params args vs callee hbp hargs
            have hres := hS d.body (((d.params.map (·.1)).zip vs).reverse ++ prog.consts) callee _ _ _ _
              (by rw [hcons, List.append_nil]; exact hrel) hbody
            simp only [runFn, hfn, hlen, bne_self_eq_false, Bool.false_eq_true, if_false]
            cases hev : evalStmts f prog (((d.params.map (·.1)).zip vs).reverse ++ prog.consts) d.body with
            | error er =>
              rw [hev] at hres
              cases er with
              | panic k => exact hres
              | stuck w => exact hres.elim
              | fuel => trivial
            | ok res =>
              obtain ⟨r, envr⟩ := res
              rw [hev] at hres
              exact ⟨hres.1, hres.2.1⟩
          · simp at hc
        · simp at hc
      · simp at hc

end Bit
end GV
