import GarbleVerif.Proofs.BitCore
import GarbleVerif.Proofs.BitShape
import GarbleVerif.Proofs.BitMatch
import GarbleVerif.Proofs.BitAgg
import GarbleVerif.Proofs.BeqEncode
import GarbleVerif.Proofs.BitIndex
import GarbleVerif.Proofs.BitNot
import GarbleVerif.Proofs.MatchComplete
/-!
# The bit-level evaluation of the core fragment refines the source semantics

One induction on the fuel of the source interpreter: whenever `bitExpr` / `bitStmts` / `bitStmt` is
defined (the program is in the fragment), the source evaluation from a related environment

* returns a value `v` and an environment `env'` ⇒ no panic is recorded, the bits are the encoding
  of `v`, and the variables after the expression encode `env'` (assignments inside conditionally
  executed code included: `mux_envs`),
* panics with `k` ⇒ the first recorded panic is `k`,
* is never stuck (type soundness of the fragment);
* running out of fuel says nothing.
-/
namespace GV
namespace Bit
open Src

def ResRel (r : M (Val × Src.Env)) (t : VTy) (bs : List Bool) (p : P) (benv' : BEnv) : Prop :=
  match r with
  | .ok (v, env') => p = none ∧ VRel t v bs ∧ EnvRel env' benv'
  | .error (.panic k) => p = some k
  | .error (.stuck _) => False
  | .error .fuel => True

/-! ### environments -/

theorem EnvRel.length_eq {env : Src.Env} {benv : BEnv} (h : EnvRel env benv) : env.length = benv.length := by
  induction h with
  | nil => rfl
  | cons _ _ ih => simp [ih]

theorem EnvRel.drop {env : Src.Env} {benv : BEnv} (h : EnvRel env benv) (n : Nat) :
    EnvRel (env.drop n) (benv.drop n) := by
  induction h generalizing n with
  | nil => simpa using EnvRel.nil
  | cons hr hrest ih =>
    cases n with
    | zero => exact EnvRel.cons hr hrest
    | succ n => simpa using ih n

theorem EnvRel.restore {env env1 : Src.Env} {benv benv1 : BEnv} (h0 : EnvRel env benv) (h1 : EnvRel env1 benv1) :
    EnvRel (Src.restore env env1) (restoreB benv benv1) := by
  unfold Src.restore restoreB
  rw [h0.length_eq, h1.length_eq]
  exact h1.drop _

theorem EnvRel.set {env : Src.Env} {benv : BEnv} (h : EnvRel env benv) (x : String) (t : VTy) (old bs : List Bool)
    (v : Val) (hg : benv.get? x = some (t, old)) (hr : VRel t v bs) :
    (∃ ov, env.get? x = some ov) ∧ EnvRel (env.set x v) (benv.set x bs) := by
  induction h with
  | nil => simp [BEnv.get?] at hg
  | cons hr0 hrest ih =>
    rename_i y v0 t0 bs0 env0 benv0
    simp only [BEnv.get?] at hg
    by_cases hy : (y == x) = true
    · simp only [hy, if_true, Option.some.injEq, Prod.mk.injEq] at hg
      obtain ⟨rfl, rfl⟩ := hg
      refine ⟨⟨v0, by simp [Src.Env.get?, hy]⟩, ?_⟩
      simp only [Src.Env.set, BEnv.set, hy, if_true]
      exact EnvRel.cons hr hrest
    · simp only [hy, if_false] at hg
      obtain ⟨hov, hset⟩ := ih hg
      refine ⟨by simpa [Src.Env.get?, hy] using hov, ?_⟩
      simp only [Src.Env.set, BEnv.set, hy, if_false]
      exact EnvRel.cons hr0 hset

theorem EnvRel.mux {envT : Src.Env} {benvT benvF : BEnv} (c : Bool) (hs : shape benvT = shape benvF)
    (h : EnvRel envT (if c then benvT else benvF)) : EnvRel envT (muxEnv c benvT benvF) := by
  rw [muxEnv_eq c _ _ hs]; exact h

def ExprOK (prog : Prog) (call : Ctx) (fuel : Nat) : Prop :=
  ∀ e env benv t bs p benv', EnvRel env benv → bitExpr call benv e = some (t, bs, p, benv') →
    ResRel (evalExpr fuel prog env e) t bs p benv'

def StmtsOK (prog : Prog) (call : Ctx) (fuel : Nat) : Prop :=
  ∀ ss env benv t bs p benv', EnvRel env benv → bitStmts call benv ss = some (t, bs, p, benv') →
    ResRel (evalStmts fuel prog env ss) t bs p benv'

def StmtOK (prog : Prog) (call : Ctx) (fuel : Nat) : Prop :=
  ∀ s env benv t bs p benv', EnvRel env benv → bitStmt call benv s = some (t, bs, p, benv') →
    ResRel (evalStmt fuel prog env s) t bs p benv'

/-- what the compiled code assumes about a call: on the encodings of well-typed arguments the callee's wires carry
the value the source-level call (`runFn` with fuel `f`) returns, or record its first failure -/
def CallSound (prog : Prog) (call : Ctx) (f : Nat) : Prop :=
  ∀ fn vs args t bs p, ArgsRel vs args → call.fn fn args = some (t, bs, p) →
    match runFn f prog fn vs with
    | .ok r => p = none ∧ VRel t r bs
    | .error (.panic k) => p = some k
    | .error (.stuck _) => False
    | .error .fuel => True

def ListOK (prog : Prog) (call : Ctx) (fuel : Nat) : Prop :=
  ∀ es env benv args p benv', EnvRel env benv → bitList call benv es = some (args, p, benv') →
    match evalList fuel prog env es with
    | .ok (vs, env') => p = none ∧ ArgsRel vs.toList args ∧ EnvRel env' benv'
    | .error (.panic k) => p = some k
    | .error (.stuck _) => False
    | .error .fuel => True

def FieldsOK (prog : Prog) (call : Ctx) (fuel : Nat) : Prop :=
  ∀ fs env benv args p benv', EnvRel env benv → bitFields call benv fs = some (args, p, benv') →
    match evalFields fuel prog env fs with
    | .ok (fvs, env') => p = none ∧ FArgsRel fvs args ∧ EnvRel env' benv'
    | .error (.panic k) => p = some k
    | .error (.stuck _) => False
    | .error .fuel => True

/-- assignment targets: the accessors evaluated left to right, the component replaced -/
def PathOK (prog : Prog) (call : Ctx) (fuel : Nat) : Prop :=
  ∀ path env benv t cur vt vb out p benv', EnvRel env benv → cur.hasType t = true →
    bitUpd call benv t (cur.encode t) vt vb path = some (out, p, benv') →
    match evalPath fuel prog env cur path with
    | .ok (steps, env') => p = none ∧ EnvRel env' benv' ∧
        ∀ v, VRel vt v vb → ∃ new, updateAt cur steps v = .ok new ∧ new.hasType t = true ∧ out = new.encode t
    | .error (.panic k) => p = some k
    | .error (.stuck _) => False
    | .error .fuel => True

theorem ValList.length_toList : ∀ (vs : ValList), vs.toList.length = vs.length
  | .nil => rfl
  | .cons _ r => by simp [ValList.toList, ValList.length, ValList.length_toList r]

/-- a call expression: the arguments, then the function on their values; the caller keeps its variables -/
theorem evalExpr_call (fuel : Nat) (prog : Prog) (env : Src.Env) (fn : String) (args : ExprList) :
    evalExpr (fuel + 1) prog env (.call fn args) =
      match evalList fuel prog env args with
      | .error e => .error e
      | .ok (vs, env1) =>
        match runFn fuel prog fn vs.toList with
        | .error e => .error e
        | .ok r => .ok (r, env1) := by
  rw [evalExpr]
  cases evalList fuel prog env args with
  | error e => rfl
  | ok res =>
    obtain ⟨vs, env1⟩ := res
    simp only [runFn, ValList.length_toList]
    cases prog.fn? fn with
    | none => rfl
    | some d =>
      simp only
      split
      · rfl
      · cases evalStmts fuel prog (((List.map (fun x => x.fst) d.params).zip vs.toList).reverse ++ prog.consts) d.body with
        | error e => rfl
        | ok r => rfl

theorem evalExpr_bin (fuel : Nat) (prog : Prog) (env : Src.Env) (op : Src.BinOp) (ty : Ty) (a b : Expr)
    (h1 : op ≠ .land) (h2 : op ≠ .lor) :
    evalExpr (fuel + 1) prog env (.bin op ty a b) =
      (match evalExpr fuel prog env a with
       | .error e => .error e
       | .ok (x, env1) =>
         match evalExpr fuel prog env1 b with
         | .error e => .error e
         | .ok (y, env2) =>
           match Src.binop op ty x y with
           | .ok r => .ok (r, env2)
           | .error e => .error e) := by
  cases op
  case land => exact absurd rfl h1
  case lor => exact absurd rfl h2
  all_goals
    rw [evalExpr]
    rotate_left
    · exact h1
    · exact h2
    rcases evalExpr fuel prog env a with e | ⟨x, env1⟩
    · rfl
    · dsimp only
      rcases evalExpr fuel prog env1 b with e | ⟨y, env2⟩
      · rfl
      · dsimp only
        rcases Src.binop _ ty x y with e | r <;> rfl

/-- a failed subterm decides the result -/
theorem ResRel.error_of {er : Err} {t : VTy} {bs : List Bool} {p : P} {benv' : BEnv} {t2 : VTy} {bs2 : List Bool}
    {benv2 : BEnv} (h : ResRel (.error er) t bs p benv') (q : P → P) (hq : ∀ k, q (some k) = some k) :
    ResRel (.error er) t2 bs2 (q p) benv2 := by
  cases er with
  | panic k => simp only [ResRel] at h ⊢; rw [h, hq]
  | stuck w => exact h.elim
  | fuel => trivial

/-- the operator step of a strict binary operator whose operands evaluated without a panic -/
theorem binop_res (op : Src.BinOp) (t : STy) (x y : List Bool) (va vb : Val) (tr : STy) (r : List Bool)
    (panics : List (Bool × Arith.PanicKind)) (env2 : Src.Env) (benv2 : BEnv)
    (hra : Rel t va x) (hrb : Rel t vb y) (hbin : binBits op t x y = some (tr, r, panics))
    (henv2 : EnvRel env2 benv2) :
    ResRel (match Src.binop op t.toTy va vb with
      | .ok rv => .ok (rv, env2)
      | .error e => .error e) (.s tr) r (seqP none (seqP none (firstOf panics))) benv2 := by
  have hsnd := binBits_sound _ _ x y va vb tr r panics hra hrb hbin
  have hns := binBits_not_stuck _ _ x y va vb tr r panics hra hrb hbin
  cases hop : Src.binop op t.toTy va vb with
  | ok rv =>
    obtain ⟨hr, hp⟩ := hsnd.1 rv hop
    exact ⟨by simp [seqP, hp], hr, henv2⟩
  | error er =>
    cases er with
    | panic k => simp [ResRel, seqP, hsnd.2 k hop]
    | stuck w => exact (hns.1 w hop).elim
    | fuel => exact (hns.2 hop).elim

/-- the operator step of a shift whose operands evaluated without a panic -/
theorem shift_res_rel (left : Bool) (k : IntTy) (x y : List Bool) (va vb : Val) (env2 : Src.Env) (benv2 : BEnv)
    (hra : Rel (.int k) va x) (hrb : Rel (.int .u8) vb y) (henv2 : EnvRel env2 benv2) :
    ResRel (match Src.binop (if left then .shl else .shr) (STy.int k).toTy va vb with
      | .ok rv => .ok (rv, env2)
      | .error e => .error e) (.s (.int k))
      (Arith.binop (if left then .shl else .shr) k.signed false k.signed x y).1
      (seqP none (seqP none (firstOf (Arith.binop (if left then .shl else .shr) k.signed false k.signed x y).2)))
      benv2 := by
  obtain ⟨a, rfl, ha, rfl⟩ := hra.int_inv
  obtain ⟨s, rfl, hs, rfl⟩ := hrb.int_inv
  cases left
  · have h := binop_shr k a s ha hs
    simp only at h
    simp only [Bool.false_eq_true, if_false, Src.binop, STy.toTy]
    by_cases hc : s < 0 ∨ s ≥ k.bits
    · simp [hc, ResRel, seqP, h.1 hc]
    · obtain ⟨h0, h1, h2⟩ := h.2 hc
      simp only [hc, if_false, ResRel, VRel, Rel, seqP]
      exact ⟨h2, ⟨h0, h1⟩, henv2⟩
  · have h := binop_shl k a s ha hs
    simp only at h
    simp only [if_true, Src.binop, STy.toTy]
    by_cases hc : s < 0 ∨ s ≥ k.bits
    · simp [hc, ResRel, seqP, h.1 hc]
    · obtain ⟨h1, h2⟩ := h.2 hc
      simp only [hc, if_false, ResRel, VRel, Rel, seqP]
      refine ⟨h2, ⟨?_, h1⟩, henv2⟩
      rw [inRange_iff]; exact Src.wrapTo_range k _

theorem litFactor_some {e : Expr} {neg : Bool} {n : Nat} {k : IntTy} (h : litFactor e = some (neg, n, k)) :
    ∃ n0 : Int, e = .int n0 k ∧ n0 ≠ 0 ∧ n = n0.natAbs ∧ neg = decide (n0 < 0) := by
  cases e <;> simp only [litFactor] at h <;> try (simp at h; done)
  rename_i n0 k0
  split at h
  · rename_i hc
    simp only [Option.some.injEq, Prod.mk.injEq] at h
    obtain ⟨rfl, rfl, rfl⟩ := h
    exact ⟨n0, rfl, hc.1, rfl, rfl⟩
  · simp at h

/-- the product step of a multiplication by a small positive literal -/
theorem litMul_res_rel (k : IntTy) (n0 : Int) (hpos : 0 < n0) (y : List Bool) (vb : Val) (env2 : Src.Env) (benv2 : BEnv)
    (hrb : Rel (.int k) vb y) (henv2 : EnvRel env2 benv2) (litFirst : Bool) :
    ResRel (match (if litFirst then Src.binop .mul (STy.int k).toTy (.int n0) vb
        else Src.binop .mul (STy.int k).toTy vb (.int n0)) with
      | .ok rv => .ok (rv, env2)
      | .error e => .error e) (.s (.int k))
      (Arith.constMul y k.signed n0.natAbs false).1
      (seqP none (if (Arith.constMul y k.signed n0.natAbs false).2 then some .overflow else none)) benv2 := by
  obtain ⟨v, rfl, hv, rfl⟩ := hrb.int_inv
  have hn : 1 ≤ n0.natAbs := by omega
  have hcast : ((n0.natAbs : Nat) : Int) = n0 := by omega
  obtain ⟨h1, h2⟩ := constMul_enc k v n0.natAbs hv hn
  rw [hcast] at h1 h2
  have hcomm : v * n0 = n0 * v := Int.mul_comm _ _
  cases litFirst <;> simp only [Bool.false_eq_true, if_false, if_true, Src.binop, STy.toTy, intOp, checked, hcomm]
  all_goals
    cases hr : k.inRange (n0 * v)
    · simp [ResRel, seqP, h2 hr]
    · rw [h1 hr]
      simp [ResRel, VRel, Rel, seqP, hr, henv2]

/-! ### the arm loop of `match` -/

theorem armOut_eq_restoreB (bb benv1 enve : BEnv)
    (hs : shape enve = shape (armEnv bb benv1)) : armOut bb enve = restoreB benv1 enve := by
  have hl : enve.length = bb.length + benv1.length := by
    rw [← shape_length enve, hs, shape_length, armEnv, List.length_append]
  simp only [armOut, restoreB, hl]
  congr 1; omega

/-- once an arm has matched, the remaining arms change nothing -/
theorem arms_after_match (call : Ctx) : ∀ (arms : Arms) (benv1 : BEnv) (ts : Ty) (sb : List Bool) (tr : VTy) (rb : List Bool)
    (pacc : P) (envAcc : BEnv) (st' : ArmSt),
    bitArms call benv1 ts sb arms (true, some (tr, rb), pacc, envAcc) = some st' → shape envAcc = shape benv1 →
    st' = (true, some (tr, rb), pacc, envAcc)
  | .nil, _, _, _, _, _, _, _, st', h, _ => by
    simp only [bitArms, Option.some.injEq] at h; exact h.symm
  | .cons p e rest, benv1, ts, sb, tr, rb, pacc, envAcc, st', h, hs => by
    simp only [bitArms] at h
    split at h
    · simp at h
    · rename_i m bind hpb
      split at h
      · simp at h
      · rename_i te be pe enve he
        have hse := shapeE call e _ _ _ _ _ he
        have hout : shape (armOut bind enve) = shape benv1 := shape_armOut bind benv1 enve hse
        simp only [Bool.not_true, Bool.false_and, Bool.false_eq_true, if_false, Bool.true_or] at h
        rw [muxEnv_false _ _ (by rw [hout]; exact hs.symm)] at h
        split at h
        · exact arms_after_match call rest benv1 ts sb tr rb pacc envAcc st' h hs
        · simp at h

/-- the arm loop against `evalArms`: the first arm whose pattern matches decides value, panic and variables -/
theorem lastIsCatchAll_mem : ∀ (arms : Arms), lastIsCatchAll arms = true → ∃ x, Pat.ident x ∈ armPats arms
  | .nil, h => by simp [lastIsCatchAll] at h
  | .cons p e .nil, h => by
    cases p with
    | ident x => exact ⟨x, by simp [armPats]⟩
    | _ => simp [lastIsCatchAll] at h
  | .cons p e (.cons p2 e2 rest), h => by
    have h' : lastIsCatchAll (.cons p2 e2 rest) = true := by
      cases p <;> simpa [lastIsCatchAll] using h
    obtain ⟨x, hx⟩ := lastIsCatchAll_mem _ h'
    exact ⟨x, by simp only [armPats, List.mem_cons] at hx ⊢; exact Or.inr hx⟩

theorem arms_ok (prog : Prog) (call : Ctx) (N : Nat) (ihLow : ∀ f, f ≤ N → ExprOK prog call f) :
    ∀ (arms : Arms) (f : Nat), f ≤ N + 1 → ∀ (env1 : Src.Env) (benv1 : BEnv) (ts : Ty) (v : Val),
      v.hasType ts = true → EnvRel env1 benv1 → ∀ (ret : Option (VTy × List Bool)) (st' : ArmSt),
      bitArms call benv1 ts (v.encode ts) arms (false, ret, none, benv1) = some st' →
      match evalArms f prog env1 v arms with
      | .ok (r, env2) => st'.1 = true ∧ ∃ t bs, st'.2.1 = some (t, bs) ∧ VRel t r bs ∧ st'.2.2.1 = none ∧
          EnvRel env2 st'.2.2.2
      | .error (.panic k) => st'.2.2.1 = some k
      | .error (.stuck _) => ∀ q, q ∈ armPats arms → matchPat q v = none
      | .error .fuel => True
  | .nil, f, _, env1, benv1, ts, v, _, _, ret, st', _ => by
    cases f <;> simp [evalArms, armPats]
  | .cons p e rest, f, hf, env1, benv1, ts, v, hrel, henv, ret, st', h => by
    cases f with
    | zero => simp [evalArms]
    | succ f =>
      simp only [bitArms] at h
      split at h
      · simp at h
      · rename_i m bb hpb
        have hmp := patG_sound p ts v m bb hrel hpb
        split at h
        · simp at h
        · rename_i te be pe enve he
          have hse := shapeE call e _ _ _ _ _ he
          have hout : shape (armOut bb enve) = shape benv1 := shape_armOut bb benv1 enve hse
          rw [evalArms]
          cases m with
          | false =>
            -- the pattern does not match: nothing is selected, go on with the rest
            have hp_none : matchPat p v = none := hmp.2 rfl
            rw [hp_none]
            simp only [Bool.false_eq_true, if_false, Bool.not_false, Bool.and_false, Bool.or_false] at h ⊢
            rw [muxEnv_false _ _ (by rw [hout])] at h
            have ih : ∀ ret', bitArms call benv1 ts (v.encode ts) rest (false, ret', none, benv1) = some st' →
                match evalArms f prog env1 v rest with
                | .ok (r, env2) => st'.1 = true ∧ ∃ t bs, st'.2.1 = some (t, bs) ∧ VRel t r bs ∧ st'.2.2.1 = none ∧
                    EnvRel env2 st'.2.2.2
                | .error (.panic k) => st'.2.2.1 = some k
                | .error (.stuck _) => ∀ q, q ∈ armPats (.cons p e rest) → matchPat q v = none
                | .error .fuel => True := by
              intro ret' hh
              have X := arms_ok prog call N ihLow rest f (by omega) env1 benv1 ts v hrel henv ret' st' hh
              revert X
              cases evalArms f prog env1 v rest with
              | ok res => exact id
              | error er =>
                cases er with
                | panic k => exact id
                | stuck w =>
                  intro X q hq
                  simp only [armPats, List.mem_cons] at hq
                  rcases hq with rfl | hq
                  · exact hp_none
                  · exact X q hq
                | fuel => exact id
            split at h
            · split at h
              · exact ih _ h
              · simp at h
            · exact ih _ h
          | true =>
            -- the pattern matches: this arm decides
            obtain ⟨binds, hmpb, hbr⟩ := hmp.1 rfl
            rw [hmpb]
            simp only [if_true, Bool.not_false, Bool.and_true, Bool.or_true, Bool.true_and, Bool.false_or] at h ⊢
            rw [muxEnv_true _ _ (by rw [← shape_length, hout, shape_length])] at h
            have hfin : st' = (true, some (te, be), pe, armOut bb enve) := by
              split at h
              · split at h
                · rename_i htr; subst htr
                  exact arms_after_match call rest benv1 ts _ _ _ _ _ st' h hout
                · simp at h
              · exact arms_after_match call rest benv1 ts _ _ _ _ _ st' h hout
            subst hfin
            have ihe := ihLow f (by omega) e (binds ++ env1) (armEnv bb benv1) te be pe enve
              (hbr.append henv) he
            cases hev : evalExpr f prog (binds ++ env1) e with
            | error er =>
              rw [hev] at ihe
              cases er with
              | panic k => exact ihe
              | stuck w => exact ihe.elim
              | fuel => trivial
            | ok res =>
              obtain ⟨r, env2⟩ := res
              rw [hev] at ihe
              obtain ⟨hp0, hvr, henv2⟩ := ihe
              refine ⟨rfl, te, be, rfl, hvr, hp0, ?_⟩
              rw [armOut_eq_restoreB bb benv1 enve hse]
              exact EnvRel.restore henv henv2

/-- `==` / `!=` on aggregates: comparing all wires is structural equality of the values -/
theorem aggEq_ok (prog : Prog) (call : Ctx) (fuel : Nat) (ihE : ExprOK prog call fuel) (op : Src.BinOp) (ty : Ty) (a b : Expr)
    (env : Src.Env) (benv : BEnv) (t : VTy) (bs : List Bool) (p : P) (benv' : BEnv) (henv : EnvRel env benv)
    (h : aggEq op ty (bitExpr call benv a) (fun env1 => bitExpr call env1 b) = some (t, bs, p, benv')) :
    ResRel (evalExpr (fuel + 1) prog env (.bin op ty a b)) t bs p benv' := by
  unfold aggEq at h
  split at h
  · rename_i hop
    split at h
    · rename_i ta x p1 env1 ha
      split at h
      · rename_i tb y p2 env2 hb
        split at h
        · rename_i hty
          obtain ⟨rfl, rfl⟩ := hty
          simp only [Option.some.injEq, Prod.mk.injEq] at h
          obtain ⟨rfl, rfl, rfl, rfl⟩ := h
          have iha := ihE a env benv _ _ _ _ henv ha
          rw [evalExpr_bin _ _ _ _ _ _ _ (by rcases hop with rfl | rfl <;> decide) (by rcases hop with rfl | rfl <;> decide)]
          cases hev : evalExpr fuel prog env a with
          | error er => rw [hev] at iha; exact iha.error_of (fun p => seqP p _) (fun _ => rfl)
          | ok res =>
            obtain ⟨va, enva⟩ := res
            rw [hev] at iha
            obtain ⟨rfl, hra, henv1⟩ := iha
            have ihb := ihE b enva env1 _ _ _ _ henv1 hb
            dsimp only
            cases hevb : evalExpr fuel prog enva b with
            | error er => rw [hevb] at ihb; exact ihb.error_of (fun p => seqP none p) (fun _ => rfl)
            | ok resb =>
              obtain ⟨vb, envb⟩ := resb
              rw [hevb] at ihb
              obtain ⟨rfl, hrb, henv2⟩ := ihb
              obtain ⟨ha1, rfl⟩ := hra
              obtain ⟨hb1, rfl⟩ := hrb
              have hlen : (va.encode tb).length = (vb.encode tb).length := by
                rw [Val.encode_length va tb ha1, Val.encode_length vb tb hb1]
              have hiff := Arith.eqBits_iff (va.encode tb) (vb.encode tb) hlen
              have hbe := beq_encode va vb tb ha1 hb1
              have heq : Arith.eqBits (va.encode tb) (vb.encode tb) = Val.beq va vb := by
                cases hc : Val.beq va vb
                · cases hd : Arith.eqBits (va.encode tb) (vb.encode tb)
                  · rfl
                  · have := hbe.mpr (hiff.mp hd); rw [hc] at this; exact absurd this (by simp)
                · exact hiff.mpr (hbe.mp hc)
              rcases hop with rfl | rfl
              · simp only [Src.binop, ResRel, seqP, if_true, heq]
                exact ⟨trivial, by simp [VRel, Rel], henv2⟩
              · simp only [Src.binop, ResRel, seqP, heq]
                exact ⟨trivial, by simp [VRel, Rel], henv2⟩
        · simp at h
      · simp at h
    · simp at h
  · simp at h

theorem exprOK_succ (prog : Prog) (call : Ctx) (fuel : Nat) (ihE : ExprOK prog call fuel) (ihS : StmtsOK prog call fuel)
    (ihLow : ∀ f, f ≤ fuel → ExprOK prog call f) (ihL : ListOK prog call fuel) (hcall : CallSound prog call fuel)
    (ihF : FieldsOK prog call fuel) :
    ExprOK prog call (fuel + 1) := by
  intro e env benv t bs p benv' henv hb
  cases e with
  | bool b =>
    simp only [bitExpr, Option.some.injEq, Prod.mk.injEq] at hb
    obtain ⟨rfl, rfl, rfl, rfl⟩ := hb
    simp [evalExpr, ResRel, VRel, Rel, henv]
  | int n k =>
    simp only [bitExpr] at hb
    split at hb
    · rename_i hr
      simp only [Option.some.injEq, Prod.mk.injEq] at hb
      obtain ⟨rfl, rfl, rfl, rfl⟩ := hb
      simp [evalExpr, ResRel, VRel, Rel, henv, hr, enc]
    · simp at hb
  | var x =>
    simp only [bitExpr] at hb
    split at hb
    · rename_i t' bs' hg
      simp only [Option.some.injEq, Prod.mk.injEq] at hb
      obtain ⟨rfl, rfl, rfl, rfl⟩ := hb
      obtain ⟨v0, hv0, hrel⟩ := henv.lookup x _ _ hg
      simp only [evalExpr, hv0, ResRel]
      exact ⟨trivial, hrel, henv⟩
    · simp at hb
  | un op ty a =>
    cases op with
    | not =>
      cases ty <;> simp only [bitExpr] at hb
      case bool =>
        split at hb
        · rename_i b p1 env1 ha
          simp only [Option.some.injEq, Prod.mk.injEq] at hb
          obtain ⟨rfl, rfl, rfl, rfl⟩ := hb
          have ih := ihE a env benv _ _ _ _ henv ha
          rw [evalExpr]
          cases hev : evalExpr fuel prog env a with
          | error er => rw [hev] at ih; exact ih.error_of id (fun _ => rfl)
          | ok res =>
            obtain ⟨va, enva⟩ := res
            rw [hev] at ih
            obtain ⟨rfl, hrel, henv1⟩ := ih
            obtain ⟨b', rfl, hbs⟩ := Rel.bool_inv hrel
            simp only [List.cons.injEq, and_true] at hbs
            subst hbs
            simp [unop, ResRel, VRel, Rel, henv1]
        · simp at hb
      case int k =>
        split at hb
        · rename_i k' bs' p1 env1 ha
          split at hb
          · rename_i hk
            subst hk
            simp only [Option.some.injEq, Prod.mk.injEq] at hb
            obtain ⟨rfl, rfl, rfl, rfl⟩ := hb
            have ih := ihE a env benv _ _ _ _ henv ha
            rw [evalExpr]
            cases hev : evalExpr fuel prog env a with
            | error er => rw [hev] at ih; exact ih.error_of id (fun _ => rfl)
            | ok res =>
              obtain ⟨va, enva⟩ := res
              rw [hev] at ih
              obtain ⟨rfl, hrel, henv1⟩ := ih
              obtain ⟨n, rfl, hn, rfl⟩ := Rel.int_inv hrel
              simp only [unop, ResRel, VRel]
              exact ⟨trivial, ⟨not_inRange k' n, (enc_not k' n).symm⟩, henv1⟩
          · simp at hb
        · simp at hb
      all_goals (simp at hb)
    | neg =>
      cases ty <;> simp only [bitExpr] at hb
      case int k =>
        split at hb
        · rename_i hs
          split at hb
          · rename_i k' bs' p1 env1 ha
            split at hb
            · rename_i hk
              subst hk
              simp only [Option.some.injEq, Prod.mk.injEq] at hb
              obtain ⟨rfl, rfl, rfl, rfl⟩ := hb
              have ih := ihE a env benv _ _ _ _ henv ha
              rw [evalExpr]
              cases hev : evalExpr fuel prog env a with
              | error er =>
                rw [hev] at ih
                exact ih.error_of (fun p => seqP p _) (fun _ => rfl)
              | ok res =>
                obtain ⟨va, enva⟩ := res
                rw [hev] at ih
                obtain ⟨rfl, hrel, henv1⟩ := ih
                obtain ⟨n, rfl, hn, rfl⟩ := Rel.int_inv hrel
                have hng := negChecked_enc k' n hs hn
                simp only [unop, checked]
                cases hr : k'.inRange (-n)
                · simp only [Bool.false_eq_true, if_false, ResRel]
                  simp [hng.2 hr, seqP]
                · simp only [if_true, ResRel, VRel]
                  rw [hng.1 hr]
                  exact ⟨by simp [seqP], ⟨hr, rfl⟩, henv1⟩
            · simp at hb
          · simp at hb
        · simp at hb
      all_goals (simp at hb)
  | cast src dst a =>
    simp only [bitExpr] at hb
    split at hb
    · rename_i ts td hs hd
      split at hb
      · rename_i ta x p1 env1 ha
        split at hb
        · rename_i hts
          subst hts
          simp only [Option.some.injEq, Prod.mk.injEq] at hb
          obtain ⟨rfl, rfl, rfl, rfl⟩ := hb
          have ih := ihE a env benv _ _ _ _ henv ha
          have hsrc := ofTy_some hs
          have hdst := ofTy_some hd
          subst hsrc
          subst hdst
          rw [evalExpr]
          cases hev : evalExpr fuel prog env a with
          | error er => rw [hev] at ih; exact ih.error_of id (fun _ => rfl)
          | ok res =>
            obtain ⟨va, enva⟩ := res
            rw [hev] at ih
            obtain ⟨rfl, hrel, henv1⟩ := ih
            obtain ⟨w, hw, hrw⟩ := cast_sound ta td va x hrel
            simp only [hw, ResRel, VRel]
            exact ⟨trivial, hrw, henv1⟩
        · simp at hb
      · simp at hb
    · simp at hb
  | ite c tb fb =>
    simp only [bitExpr] at hb
    split at hb
    · rename_i cb pc env1 hc
      split at hb
      · rename_i tt tbits pt envT tf fbits pf envF hT hF
        split at hb
        · rename_i htt
          subst htt
          simp only [Option.some.injEq, Prod.mk.injEq] at hb
          obtain ⟨rfl, rfl, rfl, rfl⟩ := hb
          have ihc := ihE c env benv _ _ _ _ henv hc
          have hshape : shape envT = shape envF := by
            rw [shapeE call tb _ _ _ _ _ hT, shapeE call fb _ _ _ _ _ hF]
          rw [evalExpr]
          cases hev : evalExpr fuel prog env c with
          | error er => rw [hev] at ihc; exact ihc.error_of (fun p => seqP p _) (fun _ => rfl)
          | ok res =>
            obtain ⟨vc, envc⟩ := res
            rw [hev] at ihc
            obtain ⟨rfl, hrel, henv1⟩ := ihc
            obtain ⟨b', rfl, hbs⟩ := Rel.bool_inv hrel
            simp only [List.cons.injEq, and_true] at hbs
            subst hbs
            cases cb with
            | true =>
              have iht := ihE tb envc env1 _ _ _ _ henv1 hT
              simp only [seqP, if_true]
              cases hevt : evalExpr fuel prog envc tb with
              | error er => rw [hevt] at iht; exact iht.error_of id (fun _ => rfl)
              | ok rest =>
                obtain ⟨vt, envt⟩ := rest
                rw [hevt] at iht
                obtain ⟨rfl, hrt, henvt⟩ := iht
                exact ⟨rfl, hrt, EnvRel.mux true hshape henvt⟩
            | false =>
              have ihf := ihE fb envc env1 _ _ _ _ henv1 hF
              simp only [seqP, Bool.false_eq_true, if_false]
              cases hevf : evalExpr fuel prog envc fb with
              | error er => rw [hevf] at ihf; exact ihf.error_of id (fun _ => rfl)
              | ok resf =>
                obtain ⟨vf, envf⟩ := resf
                rw [hevf] at ihf
                obtain ⟨rfl, hrf, henvf⟩ := ihf
                exact ⟨rfl, hrf, EnvRel.mux false hshape henvf⟩
        · simp at hb
      · simp at hb
    · simp at hb
  | block ss =>
    simp only [bitExpr] at hb
    split at hb
    · rename_i t' bs' p' env1 hs
      simp only [Option.some.injEq, Prod.mk.injEq] at hb
      obtain ⟨rfl, rfl, rfl, rfl⟩ := hb
      have ih := ihS ss env benv _ _ _ _ henv hs
      rw [evalExpr]
      cases hev : evalStmts fuel prog env ss with
      | error er => rw [hev] at ih; exact ih.error_of id (fun _ => rfl)
      | ok res =>
        obtain ⟨v, envs⟩ := res
        rw [hev] at ih
        obtain ⟨rfl, hrel, henv1⟩ := ih
        exact ⟨rfl, hrel, EnvRel.restore henv henv1⟩
    · simp at hb
  | bin op ty a b =>
    cases op
    case land =>
      simp only [bitExpr] at hb
      split at hb
      · rename_i x p1 env1 ha
        split at hb
        · rename_i y p2 env2 hbb
          simp only [Option.some.injEq, Prod.mk.injEq] at hb
          obtain ⟨rfl, rfl, rfl, rfl⟩ := hb
          have iha := ihE a env benv _ _ _ _ henv ha
          have hshape : shape env2 = shape env1 := shapeE call b _ _ _ _ _ hbb
          rw [evalExpr]
          cases hev : evalExpr fuel prog env a with
          | error er => rw [hev] at iha; exact iha.error_of (fun p => seqP p _) (fun _ => rfl)
          | ok res =>
            obtain ⟨va, enva⟩ := res
            rw [hev] at iha
            obtain ⟨rfl, hrel, henv1⟩ := iha
            obtain ⟨x', rfl, hbs⟩ := Rel.bool_inv hrel
            simp only [List.cons.injEq, and_true] at hbs
            subst hbs
            cases x with
            | false =>
              simp only [ResRel, VRel, Rel, seqP, Bool.false_and, Bool.false_eq_true, if_false]
              exact ⟨trivial, trivial, EnvRel.mux false hshape henv1⟩
            | true =>
              have ihb := ihE b enva env1 _ _ _ _ henv1 hbb
              simp only [seqP, if_true, Bool.true_and]
              cases hevb : evalExpr fuel prog enva b with
              | error er => rw [hevb] at ihb; exact ihb.error_of id (fun _ => rfl)
              | ok resb =>
                obtain ⟨vb, envb⟩ := resb
                rw [hevb] at ihb
                obtain ⟨rfl, hrb, henv2⟩ := ihb
                exact ⟨rfl, hrb, EnvRel.mux true hshape henv2⟩
        · simp at hb
      · simp at hb
    case lor =>
      simp only [bitExpr] at hb
      split at hb
      · rename_i x p1 env1 ha
        split at hb
        · rename_i y p2 env2 hbb
          simp only [Option.some.injEq, Prod.mk.injEq] at hb
          obtain ⟨rfl, rfl, rfl, rfl⟩ := hb
          have iha := ihE a env benv _ _ _ _ henv ha
          have hshape : shape env1 = shape env2 := (shapeE call b _ _ _ _ _ hbb).symm
          rw [evalExpr]
          cases hev : evalExpr fuel prog env a with
          | error er => rw [hev] at iha; exact iha.error_of (fun p => seqP p _) (fun _ => rfl)
          | ok res =>
            obtain ⟨va, enva⟩ := res
            rw [hev] at iha
            obtain ⟨rfl, hrel, henv1⟩ := iha
            obtain ⟨x', rfl, hbs⟩ := Rel.bool_inv hrel
            simp only [List.cons.injEq, and_true] at hbs
            subst hbs
            cases x with
            | true =>
              simp only [ResRel, VRel, Rel, seqP, Bool.true_or, if_true]
              exact ⟨trivial, trivial, EnvRel.mux true hshape henv1⟩
            | false =>
              have ihb := ihE b enva env1 _ _ _ _ henv1 hbb
              simp only [seqP, Bool.false_eq_true, if_false, Bool.false_or]
              cases hevb : evalExpr fuel prog enva b with
              | error er => rw [hevb] at ihb; exact ihb.error_of id (fun _ => rfl)
              | ok resb =>
                obtain ⟨vb, envb⟩ := resb
                rw [hevb] at ihb
                obtain ⟨rfl, hrb, henv2⟩ := ihb
                exact ⟨rfl, hrb, EnvRel.mux false hshape henv2⟩
        · simp at hb
      · simp at hb
    case shl =>
      simp only [bitExpr] at hb
      split at hb
      · rename_i k hty
        split at hb
        · rename_i k' x p1 env1 ha
          split at hb
          · rename_i y p2 env2 hbb
            split at hb
            · rename_i hk
              subst hk
              simp only [Option.some.injEq, Prod.mk.injEq] at hb
              obtain ⟨rfl, rfl, rfl, rfl⟩ := hb
              have iha := ihE a env benv _ _ _ _ henv ha
              have hty' := ofTy_some hty
              subst hty'
              rw [evalExpr_bin _ _ _ _ _ _ _ (by decide) (by decide)]
              cases hev : evalExpr fuel prog env a with
              | error er => rw [hev] at iha; exact iha.error_of (fun p => seqP p _) (fun _ => rfl)
              | ok res =>
                obtain ⟨va, enva⟩ := res
                rw [hev] at iha
                obtain ⟨rfl, hra, henv1⟩ := iha
                have ihb := ihE b enva env1 _ _ _ _ henv1 hbb
                dsimp only
                cases hevb : evalExpr fuel prog enva b with
                | error er =>
                  rw [hevb] at ihb
                  exact ihb.error_of (fun p => seqP none (seqP p _)) (fun _ => rfl)
                | ok resb =>
                  obtain ⟨vb, envb⟩ := resb
                  rw [hevb] at ihb
                  obtain ⟨rfl, hrb, henv2⟩ := ihb
                  exact shift_res_rel true k' x y va vb envb env2 hra hrb henv2
            · simp at hb
          · simp at hb
        · simp at hb
      · simp at hb
    case shr =>
      simp only [bitExpr] at hb
      split at hb
      · rename_i k hty
        split at hb
        · rename_i k' x p1 env1 ha
          split at hb
          · rename_i y p2 env2 hbb
            split at hb
            · rename_i hk
              subst hk
              simp only [Option.some.injEq, Prod.mk.injEq] at hb
              obtain ⟨rfl, rfl, rfl, rfl⟩ := hb
              have iha := ihE a env benv _ _ _ _ henv ha
              have hty' := ofTy_some hty
              subst hty'
              rw [evalExpr_bin _ _ _ _ _ _ _ (by decide) (by decide)]
              cases hev : evalExpr fuel prog env a with
              | error er => rw [hev] at iha; exact iha.error_of (fun p => seqP p _) (fun _ => rfl)
              | ok res =>
                obtain ⟨va, enva⟩ := res
                rw [hev] at iha
                obtain ⟨rfl, hra, henv1⟩ := iha
                have ihb := ihE b enva env1 _ _ _ _ henv1 hbb
                dsimp only
                cases hevb : evalExpr fuel prog enva b with
                | error er =>
                  rw [hevb] at ihb
                  exact ihb.error_of (fun p => seqP none (seqP p _)) (fun _ => rfl)
                | ok resb =>
                  obtain ⟨vb, envb⟩ := resb
                  rw [hevb] at ihb
                  obtain ⟨rfl, hrb, henv2⟩ := ihb
                  exact shift_res_rel false k' x y va vb envb env2 hra hrb henv2
            · simp at hb
          · simp at hb
        · simp at hb
      · simp at hb
    case mul =>
      simp only [bitExpr, if_true] at hb
      split at hb
      · -- the left operand is the literal: only `b` is compiled
        rename_i neg n k hfa
        obtain ⟨hneg, hty, y, p2, hbb, rfl, rfl, rfl⟩ := litMul_some hb
        obtain ⟨n0, rfl, hn0, rfl, hd⟩ := litFactor_some (by simpa using hfa)
        subst hneg
        have hpos : 0 < n0 := by
          have : ¬ n0 < 0 := by simpa using hd.symm
          omega
        have hty' := ofTy_some hty
        subst hty'
        rw [evalExpr_bin _ _ _ _ _ _ _ (by decide) (by decide)]
        cases fuel with
        | zero => simp [evalExpr, ResRel]
        | succ f =>
          have ihb := ihE b env benv _ _ _ _ henv hbb
          rw [show evalExpr (f + 1) prog env (.int n0 k) = .ok (.int n0, env) from by simp [evalExpr]]
          dsimp only
          cases hevb : evalExpr (f + 1) prog env b with
          | error er =>
            rw [hevb] at ihb
            exact ihb.error_of (fun p => seqP p _) (fun _ => rfl)
          | ok resb =>
            obtain ⟨vb, envb⟩ := resb
            rw [hevb] at ihb
            obtain ⟨rfl, hrb, henv2⟩ := ihb
            exact litMul_res_rel k n0 hpos y vb envb _ hrb henv2 true
      · -- the right operand is the literal: only `a` is compiled
        rename_i neg n k _ hfb
        obtain ⟨hneg, hty, y, p2, hba, rfl, rfl, rfl⟩ := litMul_some hb
        obtain ⟨n0, rfl, hn0, rfl, hd⟩ := litFactor_some (by simpa using hfb)
        subst hneg
        have hpos : 0 < n0 := by
          have : ¬ n0 < 0 := by simpa using hd.symm
          omega
        have hty' := ofTy_some hty
        subst hty'
        have iha := ihE a env benv _ _ _ _ henv hba
        rw [evalExpr_bin _ _ _ _ _ _ _ (by decide) (by decide)]
        cases heva : evalExpr fuel prog env a with
        | error er =>
          rw [heva] at iha
          exact iha.error_of (fun p => seqP p _) (fun _ => rfl)
        | ok resa =>
          obtain ⟨va, enva⟩ := resa
          rw [heva] at iha
          obtain ⟨rfl, hra, henv1⟩ := iha
          dsimp only
          cases fuel with
          | zero => simp [evalExpr] at heva
          | succ f =>
            rw [show evalExpr (f + 1) prog enva (.int n0 k) = .ok (.int n0, enva) from by simp [evalExpr]]
            dsimp only
            exact litMul_res_rel k n0 hpos y va enva _ hra henv1 false
      · split at hb
        · exact aggEq_ok prog call fuel ihE _ ty a b env benv t bs p benv' henv hb
        · rename_i t' hty
          split at hb
          · rename_i ta x p1 env1 ha
            split at hb
            · rename_i tb' y p2 env2 hbb
              split at hb
              · rename_i hts
                obtain ⟨rfl, rfl⟩ := hts
                split at hb
                · rename_i tr r panics hbin
                  simp only [Option.some.injEq, Prod.mk.injEq] at hb
                  obtain ⟨rfl, rfl, rfl, rfl⟩ := hb
                  have iha := ihE a env benv _ _ _ _ henv ha
                  have hty' := ofTy_some hty
                  subst hty'
                  rw [evalExpr_bin _ _ _ _ _ _ _ (by decide) (by decide)]
                  cases hev : evalExpr fuel prog env a with
                  | error er => rw [hev] at iha; exact iha.error_of (fun p => seqP p _) (fun _ => rfl)
                  | ok res =>
                    obtain ⟨va, enva⟩ := res
                    rw [hev] at iha
                    obtain ⟨rfl, hra, henv1⟩ := iha
                    have ihb := ihE b enva env1 _ _ _ _ henv1 hbb
                    dsimp only
                    cases hevb : evalExpr fuel prog enva b with
                    | error er =>
                      rw [hevb] at ihb
                      exact ihb.error_of (fun p => seqP none (seqP p _)) (fun _ => rfl)
                    | ok resb =>
                      obtain ⟨vb, envb⟩ := resb
                      rw [hevb] at ihb
                      obtain ⟨rfl, hrb, henv2⟩ := ihb
                      exact binop_res _ _ x y va vb tr r panics envb env2 hra hrb hbin henv2
                · simp at hb
              · simp at hb
            · simp at hb
          · simp at hb
    all_goals
      simp only [bitExpr] at hb
      split at hb
      · rename_i heq; simp at heq
      · rename_i heq; simp at heq
      split at hb
      · exact aggEq_ok prog call fuel ihE _ ty a b env benv t bs p benv' henv hb
      · rename_i t' hty
        split at hb
        · rename_i ta x p1 env1 ha
          split at hb
          · rename_i tb' y p2 env2 hbb
            split at hb
            · rename_i hts
              obtain ⟨rfl, rfl⟩ := hts
              split at hb
              · rename_i tr r panics hbin
                simp only [Option.some.injEq, Prod.mk.injEq] at hb
                obtain ⟨rfl, rfl, rfl, rfl⟩ := hb
                have iha := ihE a env benv _ _ _ _ henv ha
                have hty' := ofTy_some hty
                subst hty'
                rw [evalExpr_bin _ _ _ _ _ _ _ (by decide) (by decide)]
                cases hev : evalExpr fuel prog env a with
                | error er => rw [hev] at iha; exact iha.error_of (fun p => seqP p _) (fun _ => rfl)
                | ok res =>
                  obtain ⟨va, enva⟩ := res
                  rw [hev] at iha
                  obtain ⟨rfl, hra, henv1⟩ := iha
                  have ihb := ihE b enva env1 _ _ _ _ henv1 hbb
                  dsimp only
                  cases hevb : evalExpr fuel prog enva b with
                  | error er =>
                    rw [hevb] at ihb
                    exact ihb.error_of (fun p => seqP none (seqP p _)) (fun _ => rfl)
                  | ok resb =>
                    obtain ⟨vb, envb⟩ := resb
                    rw [hevb] at ihb
                    obtain ⟨rfl, hrb, henv2⟩ := ihb
                    exact binop_res _ _ x y va vb tr r panics envb env2 hra hrb hbin henv2
              · simp at hb
            · simp at hb
          · simp at hb
        · simp at hb
  | tuple es =>
    cases es with
    | nil =>
      simp only [bitExpr, Option.some.injEq, Prod.mk.injEq] at hb
      obtain ⟨rfl, rfl, rfl, rfl⟩ := hb
      rw [evalExpr]
      cases fuel with
      | zero => simp [evalList, ResRel]
      | succ f =>
        simp only [evalList, ResRel, VRel]
        exact ⟨trivial, by first | trivial | exact ⟨rfl, rfl⟩, henv⟩
    | cons e0 es0 =>
      simp only [bitExpr] at hb
      split at hb
      · rename_i vs p1 env1 hl
        simp only [Option.some.injEq, Prod.mk.injEq] at hb
        obtain ⟨rfl, rfl, rfl, rfl⟩ := hb
        have ihl := ihL (.cons e0 es0) env benv _ _ _ henv hl
        rw [evalExpr]
        cases hel : evalList fuel prog env (.cons e0 es0) with
        | error er =>
          rw [hel] at ihl
          cases er with
          | panic k => exact ihl
          | stuck w => exact ihl.elim
          | fuel => trivial
        | ok res =>
          obtain ⟨avs, enva⟩ := res
          rw [hel] at ihl
          obtain ⟨hp, hargs, henv1⟩ := ihl
          obtain ⟨h1, h2⟩ := ArgsRel.tuple avs vs hargs
          exact ⟨hp, ⟨by simpa [Val.hasType] using h1, by simpa [Val.encode] using h2⟩, henv1⟩
      · simp at hb
  | tupleGet a i =>
    simp only [bitExpr] at hb
    split at hb
    · rename_i ts bs1 p1 env1 ha
      split at hb
      · rename_i off ti hn
        simp only [Option.some.injEq, Prod.mk.injEq] at hb
        obtain ⟨rfl, rfl, rfl, rfl⟩ := hb
        have iha := ihE a env benv _ _ _ _ henv ha
        rw [evalExpr]
        cases hev : evalExpr fuel prog env a with
        | error er => rw [hev] at iha; exact iha.error_of id (fun _ => rfl)
        | ok res =>
          obtain ⟨v, enva⟩ := res
          rw [hev] at iha
          obtain ⟨hp, hrel, henv1⟩ := iha
          obtain ⟨vs, vi, rfl, hg, hvi⟩ := VRel.tupleGet hrel i off ti hn
          simp only [hg]
          exact ⟨hp, hvi, henv1⟩
      · simp at hb
    · simp at hb
  | match_ scrut arms =>
    simp only [bitExpr] at hb
    split at hb
    · rename_i ts sb ps env1 hs
      split at hb
      · rename_i hlast
        split at hb
        · rename_i hp t' bs' pa envF ha
          simp only [Option.some.injEq, Prod.mk.injEq] at hb
          obtain ⟨rfl, rfl, rfl, rfl⟩ := hb
          have ihs := ihE scrut env benv _ _ _ _ henv hs
          rw [evalExpr]
          cases hev : evalExpr fuel prog env scrut with
          | error er => rw [hev] at ihs; exact ihs.error_of (fun p => seqP p _) (fun _ => rfl)
          | ok res =>
            obtain ⟨v, enva⟩ := res
            rw [hev] at ihs
            obtain ⟨rfl, hrel, henv1⟩ := ihs
            obtain ⟨hv1, hv2⟩ := hrel.hasType_encode
            subst hv2
            have harms := arms_ok prog call fuel ihLow arms fuel (by omega) enva env1 ts.toTy v hv1 henv1 none _ ha
            simp only
            cases hea : evalArms fuel prog enva v arms with
            | error er =>
              rw [hea] at harms
              cases er with
              | panic k => simp only [ResRel, seqP]; exact harms
              | stuck w =>
                -- no arm matches a value of the scrutinee's type: impossible, the arms cover it
                simp only at harms
                exfalso
                simp only [matchCovers, Bool.or_eq_true] at hlast
                rcases hlast with hl | hu
                · obtain ⟨x, hx⟩ := lastIsCatchAll_mem arms hl
                  have := harms _ hx
                  simp [matchPat] at this
                · have hnone : uncovered ts.toTy (armPats arms) = none := by
                    cases hu' : uncovered ts.toTy (armPats arms) with
                    | none => rfl
                    | some w => rw [hu'] at hu; simp at hu
                  obtain ⟨q, hq, hs⟩ := uncovered_complete ts.toTy (armPats arms) hnone v hv1
                  rw [harms q hq] at hs
                  simp at hs
              | fuel => trivial
            | ok resa =>
              obtain ⟨r, env2⟩ := resa
              rw [hea] at harms
              obtain ⟨_, t2, bs2, hsome, hvr, hpn, henv2⟩ := harms
              simp only [Option.some.injEq, Prod.mk.injEq] at hsome
              obtain ⟨rfl, rfl⟩ := hsome
              simp only at hpn henv2
              subst hpn
              exact ⟨rfl, hvr, henv2⟩
        · simp at hb
      · simp at hb
    · simp at hb
  | call fn args =>
    simp only [bitExpr] at hb
    split at hb
    · rename_i vs pargs env1 hl
      split at hb
      · rename_i t' bs' pb hc
        simp only [Option.some.injEq, Prod.mk.injEq] at hb
        obtain ⟨rfl, rfl, rfl, rfl⟩ := hb
        have ihl := ihL args env benv _ _ _ henv hl
        rw [evalExpr_call]
        cases hel : evalList fuel prog env args with
        | error er =>
          rw [hel] at ihl
          cases er with
          | panic k => simp only [ResRel, seqP] at ihl ⊢; rw [ihl]
          | stuck w => exact ihl.elim
          | fuel => trivial
        | ok res =>
          obtain ⟨avs, enva⟩ := res
          rw [hel] at ihl
          obtain ⟨rfl, hargs, henv1⟩ := ihl
          have hcs := hcall fn avs.toList vs _ _ _ hargs hc
          simp only
          cases hrf : runFn fuel prog fn avs.toList with
          | error er =>
            rw [hrf] at hcs
            cases er with
            | panic k => simp only [ResRel, seqP]; exact hcs
            | stuck w => exact hcs.elim
            | fuel => trivial
          | ok r =>
            rw [hrf] at hcs
            obtain ⟨rfl, hvr⟩ := hcs
            exact ⟨rfl, hvr, henv1⟩
      · simp at hb
    · simp at hb
  | array es =>
    cases es with
    | nil => simp [bitExpr] at hb
    | cons e0 es0 =>
      simp only [bitExpr] at hb
      split at hb
      · rename_i t0 b0 vs p1 env1 hl
        split at hb
        · rename_i hall
          simp only [Option.some.injEq, Prod.mk.injEq] at hb
          obtain ⟨rfl, rfl, rfl, rfl⟩ := hb
          have ihl := ihL (.cons e0 es0) env benv _ _ _ henv hl
          rw [evalExpr]
          cases hel : evalList fuel prog env (.cons e0 es0) with
          | error er =>
            rw [hel] at ihl
            cases er with
            | panic k => exact ihl
            | stuck w => exact ihl.elim
            | fuel => trivial
          | ok res =>
            obtain ⟨avs, enva⟩ := res
            rw [hel] at ihl
            obtain ⟨hp, hargs, henv1⟩ := ihl
            obtain ⟨h1, h2, h3⟩ := ArgsRel.array t0 avs ((t0, b0) :: vs) hargs (by
              intro x hx
              simp only [List.mem_cons] at hx
              rcases hx with rfl | hx
              · rfl
              · simpa using (List.all_eq_true.mp hall) x hx)
            refine ⟨hp, ⟨?_, ?_⟩, henv1⟩
            · simp only [Val.hasType, h1, List.length_cons, beq_self_eq_true, h2, Bool.and_self]
            · simpa [Val.encode] using h3
        · simp at hb
      · simp at hb
  | repeat_ a n =>
    simp only [bitExpr] at hb
    split at hb
    · rename_i t1 bs1 p1 env1 ha
      simp only [Option.some.injEq, Prod.mk.injEq] at hb
      obtain ⟨rfl, rfl, rfl, rfl⟩ := hb
      have iha := ihE a env benv _ _ _ _ henv ha
      rw [evalExpr]
      cases hev : evalExpr fuel prog env a with
      | error er => rw [hev] at iha; exact iha.error_of id (fun _ => rfl)
      | ok res =>
        obtain ⟨v, enva⟩ := res
        rw [hev] at iha
        obtain ⟨hp, hrel, henv1⟩ := iha
        obtain ⟨h1, h2⟩ := hrel.hasType_encode
        refine ⟨hp, ⟨?_, ?_⟩, henv1⟩
        · simp only [Val.hasType, replicate_length, beq_self_eq_true, replicate_allHaveType n v _ h1, Bool.and_self]
        · simp only [Val.encode, encodeAll_replicate, ← h2]
    · simp at hb
  | range lo hi k =>
    simp only [bitExpr] at hb
    split at hb
    · rename_i hr
      simp only [Option.some.injEq, Prod.mk.injEq] at hb
      obtain ⟨rfl, rfl, rfl, rfl⟩ := hb
      have hspec := rangeVals_spec k (hi - lo) lo (by
        rcases hr with h | h
        · exact Or.inl (by omega)
        · rcases Nat.lt_or_ge lo hi with hlt | hge
          · refine Or.inr ⟨h.1, ?_⟩
            have : ((lo + (hi - lo) : Nat) : Int) - 1 = (hi : Int) - 1 := by
              have : lo + (hi - lo) = hi := by omega
              rw [this]
            rw [this]; exact h.2
          · exact Or.inl (by omega))
      rw [evalExpr]
      refine ⟨rfl, ⟨?_, ?_⟩, henv⟩
      · simp only [Val.hasType, hspec.1, beq_self_eq_true, hspec.2.1, Bool.and_self]
      · simp only [Val.encode, hspec.2.2]
    · simp at hb
  | index a i =>
    simp only [bitExpr] at hb
    split at hb
    · rename_i te n abits pa env1 ha
      split at hb
      · rename_i ibits pi env2 hi
        split at hb
        · rename_i hn
          simp only [Option.some.injEq, Prod.mk.injEq] at hb
          obtain ⟨rfl, rfl, rfl, rfl⟩ := hb
          have iha := ihE a env benv _ _ _ _ henv ha
          rw [evalExpr]
          cases hev : evalExpr fuel prog env a with
          | error er => rw [hev] at iha; exact iha.error_of (fun p => seqP p _) (fun _ => rfl)
          | ok res =>
            obtain ⟨va, enva⟩ := res
            rw [hev] at iha
            obtain ⟨rfl, hrela, henv1⟩ := iha
            have hal : abits.length = n * te.size := by
              have := hrela.length
              simpa [VTy.toTy, Ty.size, Nat.mul_comm] using this
            obtain ⟨vs, rfl, hin, hout⟩ := VRel.index hrela
            have ihi := ihE i enva env1 _ _ _ _ henv1 hi
            simp only
            cases hei : evalExpr fuel prog enva i with
            | error er => rw [hei] at ihi; exact ihi.error_of (fun p => seqP none (seqP p _)) (fun _ => rfl)
            | ok res2 =>
              obtain ⟨vi, envb⟩ := res2
              rw [hei] at ihi
              obtain ⟨rfl, hreli, henv2⟩ := ihi
              obtain ⟨m, rfl, hm0, hmn⟩ := Rel.usize_index hreli
              simp only [show ¬ m < 0 by omega, if_false, index_lt ibits n hn, hmn]
              rcases Nat.lt_or_ge m.toNat n with hlt | hge
              · obtain ⟨ve, hg, hve⟩ := hin m.toNat hlt
                have hsel := index_sel te.size n abits ibits hal (by rw [← bitsToNat_eq_toNat, hmn]; exact hlt)
                rw [← bitsToNat_eq_toNat, hmn] at hsel
                simp only [hg, hlt, decide_true, if_true, ResRel, seqP]
                rw [hsel]
                exact ⟨trivial, hve, henv2⟩
              · simp only [hout m.toNat hge, ResRel, seqP, show ¬ m.toNat < n by omega, decide_false,
                  Bool.false_eq_true, if_false]
        · simp at hb
      · simp at hb
    · simp at hb
  | struct name fs =>
    simp only [bitExpr] at hb
    split at hb
    · rename_i vs p1 env1 hf
      simp only [Option.some.injEq, Prod.mk.injEq] at hb
      obtain ⟨rfl, rfl, rfl, rfl⟩ := hb
      have ihf := ihF fs env benv _ _ _ henv hf
      rw [evalExpr]
      cases hef : evalFields fuel prog env fs with
      | error er =>
        rw [hef] at ihf
        cases er with
        | panic k => exact ihf
        | stuck w => exact ihf.elim
        | fuel => trivial
      | ok res =>
        obtain ⟨fvs, enva⟩ := res
        rw [hef] at ihf
        obtain ⟨hp, hargs, henv1⟩ := ihf
        obtain ⟨h1, h2⟩ := FArgsRel.struct fvs vs hargs
        exact ⟨hp, ⟨by simp [Val.hasType, h1], by simpa [Val.encode] using h2⟩, henv1⟩
    · simp at hb
  | field a fname =>
    simp only [bitExpr] at hb
    split at hb
    · rename_i sn fs bs1 p1 env1 ha
      split at hb
      · rename_i off ti hn
        simp only [Option.some.injEq, Prod.mk.injEq] at hb
        obtain ⟨rfl, rfl, rfl, rfl⟩ := hb
        have iha := ihE a env benv _ _ _ _ henv ha
        rw [evalExpr]
        cases hev : evalExpr fuel prog env a with
        | error er => rw [hev] at iha; exact iha.error_of id (fun _ => rfl)
        | ok res =>
          obtain ⟨v, enva⟩ := res
          rw [hev] at iha
          obtain ⟨hp, hrel, henv1⟩ := iha
          obtain ⟨sn', fvs, vi, rfl, hg, hvi⟩ := VRel.field hrel fname off ti hn
          simp only [hg]
          exact ⟨hp, hvi, henv1⟩
      · simp at hb
    · simp at hb
  | enumLit ename variant isUnit es =>
    simp only [bitExpr] at hb
    split at hb
    · rename_i variants hdef
      split at hb
      · rename_i i u fts hf
        split at hb
        · rename_i vs p1 env1 hl
          split at hb
          · rename_i hty
            simp only [Option.some.injEq, Prod.mk.injEq] at hb
            obtain ⟨rfl, rfl, rfl, rfl⟩ := hb
            have ihl := ihL es env benv _ _ _ henv hl
            rw [evalExpr]
            cases hel : evalList fuel prog env es with
            | error er =>
              rw [hel] at ihl
              cases er with
              | panic k => exact ihl
              | stuck w => exact ihl.elim
              | fuel => trivial
            | ok res =>
              obtain ⟨avs, enva⟩ := res
              rw [hel] at ihl
              obtain ⟨hp, hargs, henv1⟩ := ihl
              obtain ⟨h1, h2⟩ := ArgsRel.typed avs fts vs hargs hty.2
              refine ⟨hp, ⟨?_, ?_⟩, henv1⟩
              · simp [Val.hasType, hf, hty.1, h1]
              · simp only [Val.encode, hf, h2]
          · simp at hb
        · simp at hb
      · simp at hb
    · simp at hb

theorem fieldsOK_succ (prog : Prog) (call : Ctx) (fuel : Nat) (ihE : ExprOK prog call fuel) (ihF : FieldsOK prog call fuel) :
    FieldsOK prog call (fuel + 1) := by
  intro fs env benv args p benv' henv hb
  cases fs with
  | nil =>
    simp only [bitFields, Option.some.injEq, Prod.mk.injEq] at hb
    obtain ⟨rfl, rfl, rfl⟩ := hb
    simp only [evalFields, FArgsRel]
    exact ⟨by trivial, by trivial, henv⟩
  | cons n e rest =>
    simp only [bitFields] at hb
    split at hb
    · rename_i t bs p1 env1 he
      split at hb
      · rename_i vs2 p2 env2 hr
        simp only [Option.some.injEq, Prod.mk.injEq] at hb
        obtain ⟨rfl, rfl, rfl⟩ := hb
        have ih1 := ihE e env benv _ _ _ _ henv he
        rw [evalFields]
        cases hev : evalExpr fuel prog env e with
        | error er =>
          rw [hev] at ih1
          cases er with
          | panic k => simp only [ResRel] at ih1; simp only [seqP, ih1]
          | stuck w => exact ih1.elim
          | fuel => trivial
        | ok res =>
          obtain ⟨v, enva⟩ := res
          rw [hev] at ih1
          obtain ⟨rfl, hrel, henv1⟩ := ih1
          have ih2 := ihF rest enva env1 _ _ _ henv1 hr
          simp only
          cases hel : evalFields fuel prog enva rest with
          | error er =>
            rw [hel] at ih2
            cases er with
            | panic k => simp only [seqP]; exact ih2
            | stuck w => exact ih2.elim
            | fuel => trivial
          | ok res2 =>
            obtain ⟨vs, envb⟩ := res2
            rw [hel] at ih2
            obtain ⟨rfl, hargs, henv2⟩ := ih2
            exact ⟨rfl, ⟨rfl, hrel, hargs⟩, henv2⟩
      · simp at hb
    · simp at hb

theorem listOK_succ (prog : Prog) (call : Ctx) (fuel : Nat) (ihE : ExprOK prog call fuel) (ihL : ListOK prog call fuel) :
    ListOK prog call (fuel + 1) := by
  intro es env benv args p benv' henv hb
  cases es with
  | nil =>
    simp only [bitList, Option.some.injEq, Prod.mk.injEq] at hb
    obtain ⟨rfl, rfl, rfl⟩ := hb
    simp only [evalList, ValList.toList, ArgsRel]
    exact ⟨by trivial, by trivial, henv⟩
  | cons e rest =>
    simp only [bitList] at hb
    split at hb
    · rename_i t bs p1 env1 he
      split at hb
      · rename_i vs2 p2 env2 hr
        simp only [Option.some.injEq, Prod.mk.injEq] at hb
        obtain ⟨rfl, rfl, rfl⟩ := hb
        have ih1 := ihE e env benv _ _ _ _ henv he
        rw [evalList]
        cases hev : evalExpr fuel prog env e with
        | error er =>
          rw [hev] at ih1
          cases er with
          | panic k => simp only [ResRel] at ih1; simp only [seqP, ih1]
          | stuck w => exact ih1.elim
          | fuel => trivial
        | ok res =>
          obtain ⟨v, enva⟩ := res
          rw [hev] at ih1
          obtain ⟨rfl, hrel, henv1⟩ := ih1
          have ih2 := ihL rest enva env1 _ _ _ henv1 hr
          simp only
          cases hel : evalList fuel prog enva rest with
          | error er =>
            rw [hel] at ih2
            cases er with
            | panic k => simp only [seqP]; exact ih2
            | stuck w => exact ih2.elim
            | fuel => trivial
          | ok res2 =>
            obtain ⟨vs, envb⟩ := res2
            rw [hel] at ih2
            obtain ⟨rfl, hargs, henv2⟩ := ih2
            exact ⟨rfl, ⟨hrel, hargs⟩, henv2⟩
      · simp at hb
    · simp at hb


theorem pathOK_succ (prog : Prog) (call : Ctx) (fuel : Nat) (ihE : ExprOK prog call fuel) (ihP : PathOK prog call fuel) :
    PathOK prog call (fuel + 1) := by
  intro path env benv t cur vt vb out p benv' henv hcur hb
  cases path with
  | nil =>
    simp only [bitUpd] at hb
    split at hb
    · rename_i hvt
      simp only [Option.some.injEq, Prod.mk.injEq] at hb
      obtain ⟨rfl, rfl, rfl⟩ := hb
      simp only [evalPath]
      refine ⟨trivial, henv, ?_⟩
      intro v hv
      subst hvt
      obtain ⟨h1, h2⟩ := hv.hasType_encode
      rw [VTy.toTy_ofTy] at h1 h2
      exact ⟨v, rfl, h1, h2⟩
    · simp at hb
  | tup i rest =>
    simp only [bitUpd] at hb
    split at hb
    · rename_i ts
      split at hb
      · rename_i off ti hn
        split at hb
        · rename_i sub p1 env1 hu
          simp only [Option.some.injEq, Prod.mk.injEq] at hb
          obtain ⟨rfl, rfl, rfl⟩ := hb
          cases cur with
          | tuple vs =>
            simp only [Val.hasType] at hcur
            obtain ⟨c, hg, hc, hslice⟩ := haveTypes_nth vs ts i off ti hcur hn
            simp only [Val.encode] at hu ⊢
            rw [hslice] at hu
            have ih := ihP rest env benv ti c vt vb sub p1 env1 henv hc hu
            simp only [evalPath, hg]
            cases hev : evalPath fuel prog env c rest with
            | error er =>
              rw [hev] at ih
              cases er with
              | panic k => exact ih
              | stuck w => exact ih.elim
              | fuel => trivial
            | ok res =>
              obtain ⟨steps, enva⟩ := res
              rw [hev] at ih
              obtain ⟨hp, henv1, hupd⟩ := ih
              refine ⟨hp, henv1, ?_⟩
              intro v hv
              obtain ⟨w, hw1, hw2, hw3⟩ := hupd v hv
              obtain ⟨hs1, hs2⟩ := haveTypes_set vs ts i off ti w hcur hn hw2
              refine ⟨.tuple (ValList'.set vs i w), by simp [updateAt, hg, hw1], by simpa [Val.hasType] using hs1, ?_⟩
              simp only [Val.encode, hs2, hw3]
          | _ => simp [Val.hasType] at hcur
        · simp at hb
      · simp at hb
    · simp at hb
  | index ie rest =>
    simp only [bitUpd] at hb
    split at hb
    · rename_i te n
      split at hb
      · rename_i ibits pi env1 hi
        split at hb
        · rename_i hn
          split at hb
          · rename_i sub p1 env2 hu
            simp only [Option.some.injEq, Prod.mk.injEq] at hb
            obtain ⟨rfl, rfl, rfl⟩ := hb
            have ihi := ihE ie env benv _ _ _ _ henv hi
            simp only [evalPath]
            cases hei : evalExpr fuel prog env ie with
            | error er =>
              rw [hei] at ihi
              cases er with
              | panic k => simp only [ResRel] at ihi; subst ihi; rfl
              | stuck w => exact ihi.elim
              | fuel => trivial
            | ok res =>
              obtain ⟨vi, enva⟩ := res
              rw [hei] at ihi
              obtain ⟨rfl, hreli, henv1⟩ := ihi
              obtain ⟨m, rfl, hm0, hmn⟩ := Rel.usize_index hreli
              simp only [show ¬ m < 0 by omega, if_false]
              cases cur with
              | array vs =>
                have h1 : vs.length = n ∧ vs.allHaveType te = true := by simpa [Val.hasType] using hcur
                have hal : ((Val.array vs).encode (.array te n)).length = n * te.size := by
                  have := Val.encode_length (.array vs) (.array te n) hcur
                  simpa [Ty.size, Nat.mul_comm] using this
                have htn : Arith.toNat ibits = m.toNat := by rw [← bitsToNat_eq_toNat, hmn]
                rw [index_lt ibits n hn, hmn]
                rcases Nat.lt_or_ge m.toNat n with hlt | hge
                · obtain ⟨c, hg, hc, hslice⟩ := allHaveType_nth te vs m.toNat h1.2 (by omega)
                  have hsel := index_sel te.size n _ ibits hal (by rw [htn]; exact hlt)
                  rw [htn] at hsel
                  rw [hsel] at hu
                  simp only [Val.encode] at hu hslice ⊢
                  rw [hslice] at hu
                  have ih := ihP rest enva env1 te c vt vb sub p1 env2 henv1 hc hu
                  simp only [hg, hlt, decide_true, if_true]
                  cases hev : evalPath fuel prog enva c rest with
                  | error er =>
                    rw [hev] at ih
                    cases er with
                    | panic k => simpa [seqP] using ih
                    | stuck w => exact ih.elim
                    | fuel => trivial
                  | ok res2 =>
                    obtain ⟨steps, envb⟩ := res2
                    rw [hev] at ih
                    obtain ⟨hp, henv2, hupd⟩ := ih
                    refine ⟨by simp [seqP, hp], henv2, ?_⟩
                    intro v hv
                    obtain ⟨w, hw1, hw2, hw3⟩ := hupd v hv
                    obtain ⟨hs0, hs1, hs2⟩ := allHaveType_set te vs m.toNat w h1.2 (by omega) hw2
                    refine ⟨.array (ValList'.set vs m.toNat w), by simp [updateAt, hg, hw1], ?_, ?_⟩
                    · simp [Val.hasType, hs0, h1.1, hs1]
                    · have hsub : sub.length = te.size := by rw [hw3]; exact Val.encode_length w te hw2
                      have hwf := writeAll_flat te.size ibits sub hsub n (vs.encodeAll te) 0
                        (by simpa [Val.encode] using hal) (by omega)
                      simp only [Val.encode, hs2, ← hw3]
                      rw [hwf, htn, if_pos ⟨Nat.zero_le _, by omega⟩]
                      simp
                · simp only [get?_none_of_le vs m.toNat (by omega), show ¬ m.toNat < n by omega, decide_false,
                    Bool.false_eq_true, if_false, seqP]
              | _ => simp [Val.hasType] at hcur
          · simp at hb
        · simp at hb
      · simp at hb
    · simp at hb
  | fld f rest =>
    simp only [bitUpd] at hb
    split at hb
    · rename_i sn fs
      split at hb
      · rename_i off ti hn
        split at hb
        · rename_i sub p1 env1 hu
          simp only [Option.some.injEq, Prod.mk.injEq] at hb
          obtain ⟨rfl, rfl, rfl⟩ := hb
          cases cur with
          | struct sn' fvs =>
            have hcur' : fvs.haveTypes fs = true := by
              simp only [Val.hasType, Bool.and_eq_true] at hcur
              exact hcur.2
            have hname : (sn' == sn) = true := by
              simp only [Val.hasType, Bool.and_eq_true] at hcur
              exact hcur.1
            obtain ⟨c, hg, hc, hslice⟩ := fields_nth fvs fs f off ti hcur' hn
            simp only [Val.encode] at hu ⊢
            rw [hslice] at hu
            have ih := ihP rest env benv ti c vt vb sub p1 env1 henv hc hu
            simp only [evalPath, hg]
            cases hev : evalPath fuel prog env c rest with
            | error er =>
              rw [hev] at ih
              cases er with
              | panic k => exact ih
              | stuck w => exact ih.elim
              | fuel => trivial
            | ok res =>
              obtain ⟨steps, enva⟩ := res
              rw [hev] at ih
              obtain ⟨hp, henv1, hupd⟩ := ih
              refine ⟨hp, henv1, ?_⟩
              intro v hv
              obtain ⟨w, hw1, hw2, hw3⟩ := hupd v hv
              obtain ⟨hs1, hs2⟩ := fields_set fvs fs f off ti w hcur' hn hw2
              refine ⟨.struct sn' (FieldVals'.set fvs f w), by simp [updateAt, hg, hw1], by simp [Val.hasType, hname, hs1], ?_⟩
              simp only [Val.encode, hs2, hw3]
          | _ => simp [Val.hasType] at hcur
        · simp at hb
      · simp at hb
    · simp at hb

theorem get?_of_shape {b1 b2 : BEnv} {x : String} {t : VTy} {bs : List Bool} (hs : shape b2 = shape b1)
    (hg : b1.get? x = some (t, bs)) : ∃ bs2, b2.get? x = some (t, bs2) := by
  induction b1 generalizing b2 with
  | nil => simp [BEnv.get?] at hg
  | cons hd tl ih =>
    obtain ⟨n, t1, bs1⟩ := hd
    cases b2 with
    | nil => simp [shape] at hs
    | cons hd2 tl2 =>
      obtain ⟨n2, t2, bs2⟩ := hd2
      simp only [shape_cons, List.cons.injEq, Prod.mk.injEq] at hs
      obtain ⟨⟨rfl, rfl⟩, hs'⟩ := hs
      simp only [BEnv.get?] at hg ⊢
      split at hg
      · rename_i hx
        simp only [Option.some.injEq, Prod.mk.injEq] at hg
        obtain ⟨rfl, _⟩ := hg
        exact ⟨bs2, by simp [hx]⟩
      · rename_i hx
        simp only [hx]
        exact ih hs' hg

/-- a variable that is assigned through an accessor has an aggregate type, in its one representation -/
theorem bitUpd_canon_index {call : Ctx} {benv : BEnv} {tx : VTy} {cur : List Bool} {vt : VTy} {vb : List Bool}
    {i : Expr} {rest : Path} {r : List Bool × P × BEnv}
    (h : bitUpd call benv tx.toTy cur vt vb (.index i rest) = some r) : VTy.ofTy tx.toTy = tx := by
  cases tx with
  | s t => cases t <;> simp [VTy.toTy, STy.toTy, bitUpd] at h
  | unit => simp [VTy.toTy, bitUpd] at h
  | agg t => cases t <;> simp [VTy.toTy, bitUpd] at h <;> rfl

theorem bitUpd_canon_tup {call : Ctx} {benv : BEnv} {tx : VTy} {cur : List Bool} {vt : VTy} {vb : List Bool}
    {i : Nat} {rest : Path} {r : List Bool × P × BEnv}
    (h : bitUpd call benv tx.toTy cur vt vb (.tup i rest) = some r) : VTy.ofTy tx.toTy = tx := by
  cases tx with
  | s t => cases t <;> simp [VTy.toTy, STy.toTy, bitUpd] at h
  | unit => simp [VTy.toTy, bitUpd, TyList.nth?] at h
  | agg t =>
    cases t with
    | tuple ts => cases ts <;> simp [VTy.toTy, bitUpd, TyList.nth?] at h <;> rfl
    | _ => simp [VTy.toTy, bitUpd] at h

theorem bitUpd_canon_fld {call : Ctx} {benv : BEnv} {tx : VTy} {cur : List Bool} {vt : VTy} {vb : List Bool}
    {f : String} {rest : Path} {r : List Bool × P × BEnv}
    (h : bitUpd call benv tx.toTy cur vt vb (.fld f rest) = some r) : VTy.ofTy tx.toTy = tx := by
  cases tx with
  | s t => cases t <;> simp [VTy.toTy, STy.toTy, bitUpd] at h
  | unit => simp [VTy.toTy, bitUpd] at h
  | agg t => cases t <;> simp [VTy.toTy, bitUpd] at h <;> rfl

theorem seqP_none_right (p : P) : seqP p none = p := by cases p <;> rfl

theorem seqP_some (k : Src.PanicKind) (p : P) : seqP (some k) p = some k := rfl

/-- once a panic is recorded the rest of an unrolled loop cannot change it -/
theorem foldLoop_panic (f : List Bool → BEnv → Option (P × BEnv)) (k : Src.PanicKind) :
    ∀ (els : List (List Bool)) (e0 : BEnv) (p2 : P) (env2 : BEnv),
      foldLoop f els (some k, e0) = some (p2, env2) → p2 = some k
  | [], e0, p2, env2, h => by
    simp only [foldLoop, Option.some.injEq, Prod.mk.injEq] at h; exact h.1.symm
  | el :: rest, e0, p2, env2, h => by
    simp only [foldLoop] at h
    split at h
    · exact foldLoop_panic f k rest _ _ _ h
    · simp at h

/-- **the unrolled loop is the loop**: the body once per element, in order, each iteration from the variables the
previous one left -/
theorem loop_ok (prog : Prog) (call : Ctx) (N : Nat) (ihLow : ∀ f, f ≤ N → StmtsOK prog call f) (pat : Pat) (te : Ty)
    (hirr : irrefutable te pat = true) (body : StmtList) :
    ∀ (vs : ValList) (els : List (List Bool)) (f : Nat), f ≤ N + 1 → ∀ (env : Src.Env) (benv : BEnv) (pacc p' : P) (benv' : BEnv),
      ArgsRel vs.toList (els.map fun el => (VTy.ofTy te, el)) → EnvRel env benv →
      foldLoop (fun el env =>
          match patG pat te el with
          | some (_, bb) =>
            match bitStmts call (bb ++ env) body with
            | some (_, _, pb, envb) => some (pb, envb)
            | none => none
          | none => none) els (pacc, benv) = some (p', benv') →
      match evalLoop f prog env pat vs body with
      | .ok env2 => p' = pacc ∧ EnvRel env2 benv'
      | .error (.panic k) => p' = seqP pacc (some k)
      | .error (.stuck _) => False
      | .error .fuel => True
  | vs, els, 0, _, env, benv, pacc, p', benv', _, _, _ => by simp [evalLoop]
  | .nil, [], f + 1, _, env, benv, pacc, p', benv', _, henv, h => by
    simp only [foldLoop, Option.some.injEq, Prod.mk.injEq] at h
    obtain ⟨rfl, rfl⟩ := h
    simp only [evalLoop]
    exact ⟨by trivial, henv⟩
  | .nil, _ :: _, f + 1, _, env, benv, pacc, p', benv', ha, _, _ => by simp [ValList.toList, ArgsRel] at ha
  | .cons _ _, [], f + 1, _, env, benv, pacc, p', benv', ha, _, _ => by simp [ValList.toList, ArgsRel] at ha
  | .cons v vs, el :: els, f + 1, hf, env, benv, pacc, p', benv', ha, henv, h => by
    simp only [ValList.toList, List.map_cons, ArgsRel] at ha
    simp only [foldLoop] at h
    split at h
    · rename_i pb envb hstep
      split at hstep
      · rename_i m bb hpat
        split at hstep
        · rename_i t1 b1 pb1 envb1 hbody
          simp only [Option.some.injEq, Prod.mk.injEq] at hstep
          obtain ⟨rfl, rfl⟩ := hstep
          obtain ⟨hv1, hv2⟩ := ha.1.hasType_encode
          rw [VTy.toTy_ofTy] at hv1 hv2
          subst hv2
          obtain ⟨binds, hmp, hbr⟩ := irrefutable_bit hirr hv1 hpat
          have hres := ihLow f (by omega) body (binds ++ env) (bb ++ benv) _ _ _ _ (hbr.append henv) hbody
          simp only [evalLoop, hmp]
          cases hev : evalStmts f prog (binds ++ env) body with
          | error er =>
            rw [hev] at hres
            cases er with
            | panic k =>
              simp only [ResRel] at hres
              subst hres
              cases pacc with
              | none => exact foldLoop_panic _ k els _ _ _ h
              | some k0 => exact foldLoop_panic _ k0 els _ _ _ h
            | stuck w => exact hres.elim
            | fuel => trivial
          | ok res =>
            obtain ⟨r, env1⟩ := res
            rw [hev] at hres
            obtain ⟨rfl, _, henv1⟩ := hres
            rw [seqP_none_right] at h
            exact loop_ok prog call N ihLow pat te hirr body vs els f (by omega) (restore env env1) (restoreB benv envb1) pacc p' benv'
              ha.2 (EnvRel.restore henv henv1) h
        · simp at hstep
      · simp at hstep
    · simp at h

theorem stmtOK_succ (prog : Prog) (call : Ctx) (fuel : Nat) (ihE : ExprOK prog call fuel)
    (ihLowS : ∀ f, f ≤ fuel → StmtsOK prog call f) (ihP : PathOK prog call fuel) : StmtOK prog call (fuel + 1) := by
  intro st env benv t bs p benv' henv hb
  cases st with
  | let_ pat e =>
    cases pat <;> simp only [bitStmt] at hb
    case ident x =>
      split at hb
      · rename_i t1 bs1 p1 env1 he
        simp only [Option.some.injEq, Prod.mk.injEq] at hb
        obtain ⟨rfl, rfl, rfl, rfl⟩ := hb
        have ih := ihE e env benv _ _ _ _ henv he
        rw [evalStmt]
        cases hev : evalExpr fuel prog env e with
        | error er => rw [hev] at ih; exact ih.error_of id (fun _ => rfl)
        | ok res =>
          obtain ⟨v, enve⟩ := res
          rw [hev] at ih
          obtain ⟨rfl, hrel, henv1⟩ := ih
          simp only [matchPat, ResRel, VRel, List.singleton_append]
          exact ⟨trivial, by first | trivial | exact ⟨rfl, rfl⟩, EnvRel.cons hrel henv1⟩
      · simp at hb
    case tuple ps =>
      split at hb
      · rename_i t1 bs1 p1 env1 he
        split at hb
        · rename_i hirr
          split at hb
          · rename_i m bb hpat
            simp only [Option.some.injEq, Prod.mk.injEq] at hb
            obtain ⟨rfl, rfl, rfl, rfl⟩ := hb
            have ih := ihE e env benv _ _ _ _ henv he
            rw [evalStmt]
            cases hev : evalExpr fuel prog env e with
            | error er => rw [hev] at ih; exact ih.error_of id (fun _ => rfl)
            | ok res =>
              obtain ⟨v, enve⟩ := res
              rw [hev] at ih
              obtain ⟨rfl, hrel, henv1⟩ := ih
              obtain ⟨hv1, hv2⟩ := hrel.hasType_encode
              subst hv2
              obtain ⟨binds, hmp, hbr⟩ := irrefutable_bit hirr hv1 hpat
              simp only [hmp]
              exact ⟨rfl, ⟨rfl, rfl⟩, hbr.append henv1⟩
          · simp at hb
        · simp at hb
      · simp at hb
    case struct sn fps =>
      split at hb
      · rename_i t1 bs1 p1 env1 he
        split at hb
        · rename_i hirr
          split at hb
          · rename_i m bb hpat
            simp only [Option.some.injEq, Prod.mk.injEq] at hb
            obtain ⟨rfl, rfl, rfl, rfl⟩ := hb
            have ih := ihE e env benv _ _ _ _ henv he
            rw [evalStmt]
            cases hev : evalExpr fuel prog env e with
            | error er => rw [hev] at ih; exact ih.error_of id (fun _ => rfl)
            | ok res =>
              obtain ⟨v, enve⟩ := res
              rw [hev] at ih
              obtain ⟨rfl, hrel, henv1⟩ := ih
              obtain ⟨hv1, hv2⟩ := hrel.hasType_encode
              subst hv2
              obtain ⟨binds, hmp, hbr⟩ := irrefutable_bit hirr hv1 hpat
              simp only [hmp]
              exact ⟨rfl, ⟨rfl, rfl⟩, hbr.append henv1⟩
          · simp at hb
        · simp at hb
      · simp at hb
    case enumTuple en vn ps =>
      split at hb
      · rename_i t1 bs1 p1 env1 he
        split at hb
        · rename_i hirr
          split at hb
          · rename_i m bb hpat
            simp only [Option.some.injEq, Prod.mk.injEq] at hb
            obtain ⟨rfl, rfl, rfl, rfl⟩ := hb
            have ih := ihE e env benv _ _ _ _ henv he
            rw [evalStmt]
            cases hev : evalExpr fuel prog env e with
            | error er => rw [hev] at ih; exact ih.error_of id (fun _ => rfl)
            | ok res =>
              obtain ⟨v, enve⟩ := res
              rw [hev] at ih
              obtain ⟨rfl, hrel, henv1⟩ := ih
              obtain ⟨hv1, hv2⟩ := hrel.hasType_encode
              subst hv2
              obtain ⟨binds, hmp, hbr⟩ := irrefutable_bit hirr hv1 hpat
              simp only [hmp]
              exact ⟨rfl, ⟨rfl, rfl⟩, hbr.append henv1⟩
          · simp at hb
        · simp at hb
      · simp at hb
    all_goals (simp at hb)
  | letMut x e =>
    simp only [bitStmt] at hb
    split at hb
    · rename_i t1 bs1 p1 env1 he
      simp only [Option.some.injEq, Prod.mk.injEq] at hb
      obtain ⟨rfl, rfl, rfl, rfl⟩ := hb
      have ih := ihE e env benv _ _ _ _ henv he
      rw [evalStmt]
      cases hev : evalExpr fuel prog env e with
      | error er => rw [hev] at ih; exact ih.error_of id (fun _ => rfl)
      | ok res =>
        obtain ⟨v, enve⟩ := res
        rw [hev] at ih
        obtain ⟨rfl, hrel, henv1⟩ := ih
        exact ⟨rfl, ⟨rfl, rfl⟩, EnvRel.cons hrel henv1⟩
    · simp at hb
  | assign x path e =>
    cases path <;> simp only [bitStmt] at hb
    case nil =>
      split at hb
      · rename_i t1 bs1 p1 env1 he
        split at hb
        · rename_i t' old hg
          split at hb
          · rename_i htt
            subst htt
            simp only [Option.some.injEq, Prod.mk.injEq] at hb
            obtain ⟨rfl, rfl, rfl, rfl⟩ := hb
            have ih := ihE e env benv _ _ _ _ henv he
            rw [evalStmt]
            cases hev : evalExpr fuel prog env e with
            | error er => rw [hev] at ih; exact ih.error_of id (fun _ => rfl)
            | ok res =>
              obtain ⟨v, enve⟩ := res
              rw [hev] at ih
              obtain ⟨rfl, hrel, henv1⟩ := ih
              obtain ⟨⟨ov, hov⟩, hset⟩ := henv1.set x t' old bs1 v hg hrel
              simp only [hov]
              cases fuel with
              | zero => simp [evalPath, ResRel]
              | succ f =>
                simp only [evalPath, updateAt, ResRel, VRel]
                exact ⟨trivial, by first | trivial | exact ⟨rfl, rfl⟩, hset⟩
          · simp at hb
        · simp at hb
      · simp at hb
    case index i rest =>
      split at hb
      · rename_i t1 bs1 p1 env1 he
        split at hb
        · rename_i tx xbits hg
          split at hb
          · rename_i xb' p2 env2 hu
            simp only [Option.some.injEq, Prod.mk.injEq] at hb
            obtain ⟨rfl, rfl, rfl, rfl⟩ := hb
            have ih := ihE e env benv _ _ _ _ henv he
            rw [evalStmt]
            cases hev : evalExpr fuel prog env e with
            | error er => rw [hev] at ih; exact ih.error_of (fun p => seqP p _) (fun _ => rfl)
            | ok res =>
              obtain ⟨v, enve⟩ := res
              rw [hev] at ih
              obtain ⟨rfl, hrel, henv1⟩ := ih
              obtain ⟨old, hold, hrelx⟩ := henv1.lookup x _ _ hg
              obtain ⟨hx1, hx2⟩ := hrelx.hasType_encode
              subst hx2
              have ihp := ihP (.index i rest) enve env1 tx.toTy old t1 bs1 xb' p2 env2 henv1 hx1 hu
              simp only [hold]
              cases hpe : evalPath fuel prog enve old (.index i rest) with
              | error er =>
                rw [hpe] at ihp
                cases er with
                | panic k => simpa [ResRel, seqP] using ihp
                | stuck w => exact ihp.elim
                | fuel => trivial
              | ok res2 =>
                obtain ⟨steps, envp⟩ := res2
                rw [hpe] at ihp
                obtain ⟨rfl, henv2, hupd⟩ := ihp
                obtain ⟨new, hn1, hn2, hn3⟩ := hupd v hrel
                simp only [hn1]
                have hshape : shape env2 = shape env1 := shapeU call (.index i rest) _ _ _ _ _ _ _ _ hu
                obtain ⟨xb2, hgx⟩ := get?_of_shape hshape hg
                have hnew : VRel tx new xb' := by
                  subst hn3
                  have := VRel.of_hasType hn2
                  rwa [bitUpd_canon_index hu] at this
                obtain ⟨_, hset⟩ := henv2.set x tx xb2 xb' new hgx hnew
                exact ⟨rfl, ⟨rfl, rfl⟩, hset⟩
          · simp at hb
        · simp at hb
      · simp at hb
    case tup i rest =>
      split at hb
      · rename_i t1 bs1 p1 env1 he
        split at hb
        · rename_i tx xbits hg
          split at hb
          · rename_i xb' p2 env2 hu
            simp only [Option.some.injEq, Prod.mk.injEq] at hb
            obtain ⟨rfl, rfl, rfl, rfl⟩ := hb
            have ih := ihE e env benv _ _ _ _ henv he
            rw [evalStmt]
            cases hev : evalExpr fuel prog env e with
            | error er => rw [hev] at ih; exact ih.error_of (fun p => seqP p _) (fun _ => rfl)
            | ok res =>
              obtain ⟨v, enve⟩ := res
              rw [hev] at ih
              obtain ⟨rfl, hrel, henv1⟩ := ih
              obtain ⟨old, hold, hrelx⟩ := henv1.lookup x _ _ hg
              obtain ⟨hx1, hx2⟩ := hrelx.hasType_encode
              subst hx2
              have ihp := ihP (.tup i rest) enve env1 tx.toTy old t1 bs1 xb' p2 env2 henv1 hx1 hu
              simp only [hold]
              cases hpe : evalPath fuel prog enve old (.tup i rest) with
              | error er =>
                rw [hpe] at ihp
                cases er with
                | panic k => simpa [ResRel, seqP] using ihp
                | stuck w => exact ihp.elim
                | fuel => trivial
              | ok res2 =>
                obtain ⟨steps, envp⟩ := res2
                rw [hpe] at ihp
                obtain ⟨rfl, henv2, hupd⟩ := ihp
                obtain ⟨new, hn1, hn2, hn3⟩ := hupd v hrel
                simp only [hn1]
                have hshape : shape env2 = shape env1 := shapeU call (.tup i rest) _ _ _ _ _ _ _ _ hu
                obtain ⟨xb2, hgx⟩ := get?_of_shape hshape hg
                have hnew : VRel tx new xb' := by
                  subst hn3
                  have := VRel.of_hasType hn2
                  rwa [bitUpd_canon_tup hu] at this
                obtain ⟨_, hset⟩ := henv2.set x tx xb2 xb' new hgx hnew
                exact ⟨rfl, ⟨rfl, rfl⟩, hset⟩
          · simp at hb
        · simp at hb
      · simp at hb
    case fld i rest =>
      split at hb
      · rename_i t1 bs1 p1 env1 he
        split at hb
        · rename_i tx xbits hg
          split at hb
          · rename_i xb' p2 env2 hu
            simp only [Option.some.injEq, Prod.mk.injEq] at hb
            obtain ⟨rfl, rfl, rfl, rfl⟩ := hb
            have ih := ihE e env benv _ _ _ _ henv he
            rw [evalStmt]
            cases hev : evalExpr fuel prog env e with
            | error er => rw [hev] at ih; exact ih.error_of (fun p => seqP p _) (fun _ => rfl)
            | ok res =>
              obtain ⟨v, enve⟩ := res
              rw [hev] at ih
              obtain ⟨rfl, hrel, henv1⟩ := ih
              obtain ⟨old, hold, hrelx⟩ := henv1.lookup x _ _ hg
              obtain ⟨hx1, hx2⟩ := hrelx.hasType_encode
              subst hx2
              have ihp := ihP (.fld i rest) enve env1 tx.toTy old t1 bs1 xb' p2 env2 henv1 hx1 hu
              simp only [hold]
              cases hpe : evalPath fuel prog enve old (.fld i rest) with
              | error er =>
                rw [hpe] at ihp
                cases er with
                | panic k => simpa [ResRel, seqP] using ihp
                | stuck w => exact ihp.elim
                | fuel => trivial
              | ok res2 =>
                obtain ⟨steps, envp⟩ := res2
                rw [hpe] at ihp
                obtain ⟨rfl, henv2, hupd⟩ := ihp
                obtain ⟨new, hn1, hn2, hn3⟩ := hupd v hrel
                simp only [hn1]
                have hshape : shape env2 = shape env1 := shapeU call (.fld i rest) _ _ _ _ _ _ _ _ hu
                obtain ⟨xb2, hgx⟩ := get?_of_shape hshape hg
                have hnew : VRel tx new xb' := by
                  subst hn3
                  have := VRel.of_hasType hn2
                  rwa [bitUpd_canon_fld hu] at this
                obtain ⟨_, hset⟩ := henv2.set x tx xb2 xb' new hgx hnew
                exact ⟨rfl, ⟨rfl, rfl⟩, hset⟩
          · simp at hb
        · simp at hb
      · simp at hb
    all_goals (simp at hb)
  | expr e =>
    simp only [bitStmt] at hb
    rw [evalStmt]
    exact ihE e env benv _ _ _ _ henv hb
  | for_ pat arr body =>
    simp only [bitStmt] at hb
    split at hb
    · rename_i te n abits pa env1 ha
      split at hb
      · rename_i hirr
        split at hb
        · rename_i p2 env2 hl
          simp only [Option.some.injEq, Prod.mk.injEq] at hb
          obtain ⟨rfl, rfl, rfl, rfl⟩ := hb
          have iha := ihE arr env benv _ _ _ _ henv ha
          rw [evalStmt]
          cases hev : evalExpr fuel prog env arr with
          | error er =>
            rw [hev] at iha
            cases er with
            | panic k =>
              simp only [ResRel] at iha
              subst iha
              exact foldLoop_panic _ k _ _ _ _ hl
            | stuck w => exact iha.elim
            | fuel => trivial
          | ok res =>
            obtain ⟨va, enva⟩ := res
            rw [hev] at iha
            obtain ⟨rfl, hrela, henv1⟩ := iha
            obtain ⟨vs, rfl, hels⟩ := VRel.array_elems hrela
            have hloop := loop_ok prog call fuel ihLowS pat te hirr body vs _ fuel (by omega) enva env1 none p2 env2 hels henv1 hl
            simp only
            cases hlp : evalLoop fuel prog enva pat vs body with
            | error er =>
              rw [hlp] at hloop
              cases er with
              | panic k => simpa [ResRel, seqP] using hloop
              | stuck w => exact hloop.elim
              | fuel => trivial
            | ok envl =>
              rw [hlp] at hloop
              exact ⟨hloop.1, ⟨rfl, rfl⟩, hloop.2⟩
        · simp at hb
      · simp at hb
    · simp at hb
  | _ => simp [bitStmt] at hb

theorem stmtsOK_succ (prog : Prog) (call : Ctx) (fuel : Nat) (ihS : StmtsOK prog call fuel) (ihSt : StmtOK prog call fuel) :
    StmtsOK prog call (fuel + 1) := by
  intro ss env benv t bs p benv' henv hb
  cases ss with
  | nil =>
    simp only [bitStmts, Option.some.injEq, Prod.mk.injEq] at hb
    obtain ⟨rfl, rfl, rfl, rfl⟩ := hb
    simp only [evalStmts, ResRel, VRel]
    exact ⟨trivial, by first | trivial | exact ⟨rfl, rfl⟩, henv⟩
  | cons st rest =>
    cases rest with
    | nil =>
      simp only [bitStmts] at hb
      have ih := ihSt st env benv _ _ _ _ henv hb
      rw [evalStmts]
      cases hev : evalStmt fuel prog env st with
      | error er => rw [hev] at ih; exact ih
      | ok res =>
        obtain ⟨v, env1⟩ := res
        rw [hev] at ih
        exact ih
    | cons s2 rest2 =>
      simp only [bitStmts] at hb
      split at hb
      · rename_i t1 bs1 p1 env1 hs
        split at hb
        · rename_i t2 bs2 p2 env2 hr
          simp only [Option.some.injEq, Prod.mk.injEq] at hb
          obtain ⟨rfl, rfl, rfl, rfl⟩ := hb
          have ih1 := ihSt st env benv _ _ _ _ henv hs
          rw [evalStmts]
          cases hev : evalStmt fuel prog env st with
          | error er => rw [hev] at ih1; exact ih1.error_of (fun p => seqP p _) (fun _ => rfl)
          | ok res =>
            obtain ⟨v, enva⟩ := res
            rw [hev] at ih1
            obtain ⟨rfl, _, henv1⟩ := ih1
            exact ihS (.cons s2 rest2) enva env1 _ _ _ _ henv1 hr
        · simp at hb
      · simp at hb

theorem all_zero (prog : Prog) (call : Ctx) :
    ExprOK prog call 0 ∧ StmtsOK prog call 0 ∧ StmtOK prog call 0 ∧ ListOK prog call 0 ∧ PathOK prog call 0 ∧
      FieldsOK prog call 0 := by
  refine ⟨?_, ?_, ?_, ?_, ?_, ?_⟩
  · intro e env benv t bs p benv' _ _; simp [evalExpr, ResRel]
  · intro e env benv t bs p benv' _ _; simp [evalStmts, ResRel]
  · intro e env benv t bs p benv' _ _; simp [evalStmt, ResRel]
  · intro es env benv args p benv' _ _; simp [evalList]
  · intro path env benv t cur vt vb out p benv' _ _ _; simp [evalPath]
  · intro fs env benv args p benv' _ _; simp [evalFields]

/-- the refinement, for every fuel (strong induction: the arms of a `match` are evaluated with less fuel), for any
call oracle that is sound at every fuel -/
theorem core_all_le (prog : Prog) (call : Ctx) (hcall : ∀ f, CallSound prog call f) :
    ∀ n f, f ≤ n → ExprOK prog call f ∧ StmtsOK prog call f ∧ StmtOK prog call f ∧ ListOK prog call f ∧ PathOK prog call f ∧
      FieldsOK prog call f
  | 0, f, hf => by
    have : f = 0 := by omega
    subst this; exact all_zero prog call
  | n + 1, f, hf => by
    have ih := core_all_le prog call hcall n
    rcases Nat.lt_or_ge f (n + 1) with hlt | hge
    · exact ih f (by omega)
    · have : f = n + 1 := by omega
      subst this
      have ihn := ih n (Nat.le_refl _)
      exact ⟨exprOK_succ prog call n ihn.1 ihn.2.1 (fun f' hf' => (ih f' hf').1) ihn.2.2.2.1 (hcall n) ihn.2.2.2.2.2,
        stmtsOK_succ prog call n ihn.2.1 ihn.2.2.1, stmtOK_succ prog call n ihn.1 (fun f' hf' => (ih f' hf').2.1) ihn.2.2.2.2.1,
        listOK_succ prog call n ihn.1 ihn.2.2.2.1, pathOK_succ prog call n ihn.1 ihn.2.2.2.2.1,
        fieldsOK_succ prog call n ihn.1 ihn.2.2.2.2.2⟩

theorem core_all (prog : Prog) (call : Ctx) (hcall : ∀ f, CallSound prog call f) (fuel : Nat) :
    ExprOK prog call fuel ∧ StmtsOK prog call fuel ∧ StmtOK prog call fuel ∧ ListOK prog call fuel ∧ PathOK prog call fuel ∧
      FieldsOK prog call fuel :=
  core_all_le prog call hcall fuel fuel (Nat.le_refl _)

/-! ### calls inlined to a fixed depth -/

/-- the callee's scope: parameter names bound to the argument values / wires, in the same order on both sides -/
theorem bindParams_rel : ∀ (ps : List (String × Ty)) (args : List (VTy × List Bool)) (vs : List Val) (callee : BEnv),
    bindParams ps args = some callee → ArgsRel vs args →
      ps.length = vs.length ∧ EnvRel ((ps.map (·.1)).zip vs).reverse callee
  | [], [], vs, callee, h, ha => by
    cases vs with
    | nil => simp only [bindParams, Option.some.injEq] at h; subst h; exact ⟨rfl, EnvRel.nil⟩
    | cons _ _ => simp [ArgsRel] at ha
  | [], _ :: _, vs, callee, h, _ => by simp [bindParams] at h
  | _ :: _, [], vs, callee, h, _ => by simp [bindParams] at h
  | (x, ty) :: ps, (t, bs) :: as, vs, callee, h, ha => by
    cases vs with
    | nil => simp [ArgsRel] at ha
    | cons v vs =>
      simp only [bindParams] at h
      split at h
      · split at h
        · rename_i env henv
          simp only [Option.some.injEq] at h; subst h
          obtain ⟨hl, hrel⟩ := bindParams_rel ps as vs env henv ha.2
          refine ⟨by simp [hl], ?_⟩
          simp only [List.map_cons, List.zip_cons_cons, List.reverse_cons]
          exact hrel.append (EnvRel.cons ha.1 EnvRel.nil)
        · simp at h
      · simp at h

/-- the constants as variables: their wires encode their values -/
theorem constEnvOf_rel (tys : List (String × Ty)) : ∀ (cs : List (String × Val)) (cb : BEnv),
    constEnvOf tys cs = some cb → EnvRel cs cb
  | [], cb, h => by
    simp only [constEnvOf, Option.some.injEq] at h; subst h; exact EnvRel.nil
  | (x, v) :: rest, cb, h => by
    simp only [constEnvOf] at h
    split at h
    · rename_i y ty cb' hfind hrest
      split at h
      · rename_i hv
        simp only [Option.some.injEq] at h; subst h
        exact EnvRel.cons (VRel.of_hasType hv) (constEnvOf_rel tys rest cb' hrest)
      · simp at h
    · simp at h

/-- **the inlined calls are sound at every depth and every fuel** -/
theorem callAt_sound (prog : Prog) : ∀ (n f : Nat), CallSound prog ⟨callAt prog n, prog.enum?⟩ f
  | 0, f => by
    intro fn vs args t bs p _ hc
    simp [callAt] at hc
  | n + 1, f => by
    intro fn vs args t bs p hargs hc
    have hS := (core_all prog ⟨callAt prog n, prog.enum?⟩ (callAt_sound prog n) f).2.1
    simp only [callAt] at hc
    split at hc
    · simp at hc
    · rename_i d hfn
      split at hc
      · rename_i cb callee hcb hbp
        split at hc
        · rename_i t' bs' p' envB hbody
          simp only [Option.some.injEq, Prod.mk.injEq] at hc
          obtain ⟨rfl, rfl, rfl⟩ := hc
          obtain ⟨hlen, hrel⟩ := bindParams_rel d.params args vs callee hbp hargs
          have hres := hS d.body (((d.params.map (·.1)).zip vs).reverse ++ prog.consts) (callee ++ cb) _ _ _ _
            (hrel.append (constEnvOf_rel prog.constTys prog.consts cb hcb)) hbody
          simp only [runFn, hfn, hlen, bne_self_eq_false, Bool.false_eq_true, if_false]
          cases hev : evalStmts f prog (((d.params.map (·.1)).zip vs).reverse ++ prog.consts) d.body with
          | error er =>
            rw [hev] at hres
            cases er with
            | panic k => exact hres
            | stuck w => exact hres.elim
            | fuel => trivial
          | ok res =>
            obtain ⟨r, envr⟩ := res
            rw [hev] at hres
            exact ⟨hres.1, hres.2.1⟩
        · simp at hc
      · simp at hc

end Bit
end GV
