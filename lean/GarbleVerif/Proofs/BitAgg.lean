import GarbleVerif.Proofs.BitCore
import GarbleVerif.Proofs.Encoding
import GarbleVerif.Proofs.LiteralSafe
/-! Aggregates in the bit-level model: one relation between a value, its type and its wires. -/
namespace GV
namespace Bit
open Src

theorem VTy.toTy_ofTy (t : Ty) : (VTy.ofTy t).toTy = t := by
  cases t with
  | tuple ts => cases ts <;> rfl
  | _ => rfl

theorem STy.toTy_ofTy (t : STy) : VTy.ofTy t.toTy = .s t := by
  cases t <;> rfl

/-- whatever the representation of the type: the value has the type and the wires carry its encoding -/
theorem VRel.hasType_encode {t : VTy} {v : Val} {bs : List Bool} (h : VRel t v bs) :
    v.hasType t.toTy = true ∧ bs = v.encode t.toTy := by
  cases t with
  | s st => exact Rel.hasType_encode h
  | unit =>
    obtain ⟨rfl, rfl⟩ := h
    simp [VTy.toTy, Src.unit, Val.hasType, ValList.haveTypes, Val.encode, ValList.encodeEach]
  | agg t => exact h

theorem Rel.of_hasType {t : STy} {v : Val} (h : v.hasType t.toTy = true) : Rel t v (v.encode t.toTy) := by
  cases t with
  | bool => cases v <;> simp_all [Rel, STy.toTy, Val.hasType, Val.encode]
  | int k => cases v <;> simp_all [Rel, STy.toTy, Val.hasType, Val.encode, enc]

/-- and back: a well-typed value with its encoding is related at the canonical representation of the type -/
theorem VRel.of_hasType {t : Ty} {v : Val} (h : v.hasType t = true) : VRel (VTy.ofTy t) v (v.encode t) := by
  cases t with
  | bool => exact Rel.of_hasType (t := .bool) h
  | int k => exact Rel.of_hasType (t := .int k) h
  | tuple ts =>
    cases ts with
    | nil =>
      cases v <;> simp [Val.hasType] at h
      rename_i vs
      cases vs <;> simp [ValList.haveTypes] at h
      exact ⟨rfl, by simp [Val.encode, ValList.encodeEach]⟩
    | cons t r => exact ⟨h, rfl⟩
  | array e n => exact ⟨h, rfl⟩
  | struct n fs => exact ⟨h, rfl⟩
  | enum n vs => exact ⟨h, rfl⟩

theorem VRel.length {t : VTy} {v : Val} {bs : List Bool} (h : VRel t v bs) : bs.length = t.toTy.size := by
  obtain ⟨h1, rfl⟩ := h.hasType_encode
  exact Val.encode_length v _ h1

theorem EnvRel.append {a : Src.Env} {b : BEnv} {c : Src.Env} {d : BEnv} (h1 : EnvRel a b) (h2 : EnvRel c d) :
    EnvRel (a ++ c) (b ++ d) := by
  induction h1 with
  | nil => exact h2
  | cons hr _ ih => exact EnvRel.cons hr ih

/-- argument values (components of a tuple, elements of an array) and their wires -/
def ArgsRel : List Val → List (VTy × List Bool) → Prop
  | [], [] => True
  | v :: vs, (t, bs) :: rest => VRel t v bs ∧ ArgsRel vs rest
  | _, _ => False

/-- a tuple literal: the components' wires one after the other are the encoding of the tuple -/
theorem ArgsRel.tuple : ∀ (vs : ValList) (args : List (VTy × List Bool)), ArgsRel vs.toList args →
    vs.haveTypes (TyList.ofList (args.map (·.1.toTy))) = true ∧
      args.flatMap (·.2) = vs.encodeEach (TyList.ofList (args.map (·.1.toTy)))
  | .nil, [], _ => by simp [ValList.haveTypes, TyList.ofList, ValList.encodeEach]
  | .nil, _ :: _, h => by simp [ValList.toList, ArgsRel] at h
  | .cons _ _, [], h => by simp [ValList.toList, ArgsRel] at h
  | .cons v vs, (t, bs) :: rest, h => by
    simp only [ValList.toList, ArgsRel] at h
    obtain ⟨h1, h2⟩ := h.1.hasType_encode
    obtain ⟨h3, h4⟩ := ArgsRel.tuple vs rest h.2
    simp only [List.map_cons, TyList.ofList, ValList.haveTypes, h1, h3, Bool.and_self, List.flatMap_cons,
      ValList.encodeEach, ← h2, h4, true_and]

/-- component `i` of a well-typed tuple: its value, and where its wires are -/
theorem haveTypes_nth : ∀ (vs : ValList) (ts : TyList) (i off : Nat) (ti : Ty), vs.haveTypes ts = true →
    TyList.nth? ts i = some (off, ti) →
    ∃ vi, ValList'.get? vs i = some vi ∧ vi.hasType ti = true ∧
      ((vs.encodeEach ts).drop off).take ti.size = vi.encode ti
  | .nil, .nil, _, _, _, _, h => by simp [TyList.nth?] at h
  | .nil, .cons _ _, _, _, _, h, _ => by simp [ValList.haveTypes] at h
  | .cons _ _, .nil, _, _, _, h, _ => by simp [ValList.haveTypes] at h
  | .cons v vs, .cons t ts, 0, off, ti, h, hn => by
    simp only [TyList.nth?, Option.some.injEq, Prod.mk.injEq] at hn
    obtain ⟨rfl, rfl⟩ := hn
    simp only [ValList.haveTypes, Bool.and_eq_true] at h
    refine ⟨v, rfl, h.1, ?_⟩
    simp only [ValList.encodeEach, List.drop_zero]
    rw [List.take_append_of_le_length (by rw [Val.encode_length v _ h.1]; exact Nat.le_refl _),
      List.take_of_length_le (by rw [Val.encode_length v _ h.1]; exact Nat.le_refl _)]
  | .cons v vs, .cons t ts, i + 1, off, ti, h, hn => by
    simp only [TyList.nth?] at hn
    split at hn
    · rename_i off' ti' hn'
      simp only [Option.some.injEq, Prod.mk.injEq] at hn
      obtain ⟨rfl, rfl⟩ := hn
      simp only [ValList.haveTypes, Bool.and_eq_true] at h
      obtain ⟨vi, hg, ht, he⟩ := haveTypes_nth vs ts i off' ti' h.2 hn'
      refine ⟨vi, by simpa [ValList'.get?] using hg, ht, ?_⟩
      simp only [ValList.encodeEach]
      rw [← he, List.drop_append, Val.encode_length v _ h.1]
      have : t.size + off' - t.size = off' := by omega
      rw [List.drop_of_length_le (by rw [Val.encode_length v _ h.1]; omega), this, List.nil_append]
    · simp at hn

/-- `t.i` on the wires of a tuple -/
theorem VRel.tupleGet {ts : TyList} {v : Val} {bs : List Bool} (h : VRel (.agg (.tuple ts)) v bs) (i off : Nat) (ti : Ty)
    (hn : TyList.nth? ts i = some (off, ti)) :
    ∃ vs vi, v = .tuple vs ∧ ValList'.get? vs i = some vi ∧ VRel (VTy.ofTy ti) vi ((bs.drop off).take ti.size) := by
  obtain ⟨h1, rfl⟩ := h
  cases v <;> simp only [Val.hasType] at h1 <;> try (simp at h1)
  rename_i vs
  obtain ⟨vi, hg, ht, he⟩ := haveTypes_nth vs ts i off ti h1 hn
  refine ⟨vs, vi, rfl, hg, ?_⟩
  simp only [Val.encode, he]
  exact VRel.of_hasType ht

/-- arguments of prescribed types (the fields of an enum variant) -/
theorem ArgsRel.typed : ∀ (vs : ValList) (ts : TyList) (args : List (VTy × List Bool)), ArgsRel vs.toList args →
    args.map (·.1) = ts.toList.map VTy.ofTy →
    vs.haveTypes ts = true ∧ args.flatMap (·.2) = vs.encodeEach ts
  | .nil, .nil, [], _, _ => by simp [ValList.haveTypes, ValList.encodeEach]
  | .nil, _, _ :: _, h, _ => by simp [ValList.toList, ArgsRel] at h
  | .cons _ _, _, [], h, _ => by simp [ValList.toList, ArgsRel] at h
  | .nil, .cons _ _, [], _, ht => by simp [TyList.toList] at ht
  | .cons _ _, .nil, _ :: _, _, ht => by simp [TyList.toList] at ht
  | .cons v vs, .cons t ts, (t', bs) :: rest, h, ht => by
    simp only [ValList.toList, ArgsRel] at h
    simp only [List.map_cons, TyList.toList, List.cons.injEq] at ht
    obtain ⟨ht1, ht2⟩ := ht
    subst ht1
    obtain ⟨h1, h2⟩ := h.1.hasType_encode
    rw [VTy.toTy_ofTy] at h1 h2
    obtain ⟨h3, h4⟩ := ArgsRel.typed vs ts rest h.2 ht2
    simp only [ValList.haveTypes, h1, h3, Bool.and_self, List.flatMap_cons, ValList.encodeEach, ← h2, h4, true_and]

/-! ### arrays -/

/-- an array literal: elements of one type -/
theorem ArgsRel.array (t : VTy) : ∀ (vs : ValList) (args : List (VTy × List Bool)), ArgsRel vs.toList args →
    (∀ x, x ∈ args → x.1 = t) →
    vs.length = args.length ∧ vs.allHaveType t.toTy = true ∧ args.flatMap (·.2) = vs.encodeAll t.toTy
  | .nil, [], _, _ => by simp [ValList.length, ValList.allHaveType, ValList.encodeAll]
  | .nil, _ :: _, h, _ => by simp [ValList.toList, ArgsRel] at h
  | .cons _ _, [], h, _ => by simp [ValList.toList, ArgsRel] at h
  | .cons v vs, (t', bs) :: rest, h, hall => by
    simp only [ValList.toList, ArgsRel] at h
    have ht : t' = t := hall (t', bs) (by simp)
    subst ht
    obtain ⟨h1, h2⟩ := h.1.hasType_encode
    obtain ⟨h3, h4, h5⟩ := ArgsRel.array t' vs rest h.2 (fun x hx => hall x (by simp [hx]))
    simp only [ValList.length, h3, List.length_cons, ValList.allHaveType, h1, h4, Bool.and_self, List.flatMap_cons,
      ValList.encodeAll, ← h2, h5, true_and]

theorem encodeAll_replicate (n : Nat) (v : Val) (t : Ty) :
    (ValList.replicate n v).encodeAll t = (List.replicate n (v.encode t)).flatten := by
  induction n with
  | zero => rfl
  | succ n ih => simp [ValList.replicate, ValList.encodeAll, List.replicate_succ, ih]

theorem rangeVals_spec (k : IntTy) : ∀ (n lo : Nat), (n = 0 ∨ (k.inRange (lo : Int) = true ∧ k.inRange ((lo + n : Nat) - 1 : Int) = true)) →
    (rangeVals' lo n).length = n ∧ (rangeVals' lo n).allHaveType (.int k) = true ∧
      (rangeVals' lo n).encodeAll (.int k) = ((List.range n).map fun j => intToBits ((lo + j : Nat) : Int) k.bits).flatten
  | 0, lo, _ => by simp [rangeVals', ValList.length, ValList.allHaveType, ValList.encodeAll]
  | n + 1, lo, h => by
    have hr : k.inRange (lo : Int) = true ∧ k.inRange ((lo + (n + 1) : Nat) - 1 : Int) = true := by
      rcases h with h | h
      · omega
      · exact h
    have hrec : n = 0 ∨ (k.inRange ((lo + 1 : Nat) : Int) = true ∧ k.inRange (((lo + 1) + n : Nat) - 1 : Int) = true) := by
      rcases Nat.eq_zero_or_pos n with h0 | hp
      · exact Or.inl h0
      · refine Or.inr ⟨?_, ?_⟩
        · simp only [IntTy.inRange, Bool.and_eq_true, decide_eq_true_eq] at hr ⊢
          push_cast at hr ⊢
          omega
        · have : (lo + 1 + n : Nat) = lo + (n + 1) := by omega
          rw [this]; exact hr.2
    obtain ⟨h1, h2, h3⟩ := rangeVals_spec k n (lo + 1) hrec
    refine ⟨by simp [rangeVals', ValList.length, h1], by simp [rangeVals', ValList.allHaveType, Val.hasType, hr.1, h2], ?_⟩
    simp only [rangeVals', ValList.encodeAll, Val.encode, h3, List.range_succ_eq_map, List.map_cons, List.flatten_cons,
      List.map_map, Nat.add_zero]
    congr 2
    apply List.map_congr_left
    intro j _
    simp only [Function.comp]
    congr 2
    omega

/-- element `i` of a well-typed array: its value, and where its wires are -/
theorem allHaveType_nth (t : Ty) : ∀ (vs : ValList) (i : Nat), vs.allHaveType t = true → i < vs.length →
    ∃ vi, ValList'.get? vs i = some vi ∧ vi.hasType t = true ∧
      ((vs.encodeAll t).drop (i * t.size)).take t.size = vi.encode t
  | .nil, _, _, h => by simp [ValList.length] at h
  | .cons v vs, 0, h, _ => by
    simp only [ValList.allHaveType, Bool.and_eq_true] at h
    refine ⟨v, rfl, h.1, ?_⟩
    simp only [ValList.encodeAll, Nat.zero_mul, List.drop_zero]
    rw [List.take_append_of_le_length (by rw [Val.encode_length v _ h.1]; exact Nat.le_refl _),
      List.take_of_length_le (by rw [Val.encode_length v _ h.1]; exact Nat.le_refl _)]
  | .cons v vs, i + 1, h, hl => by
    simp only [ValList.allHaveType, Bool.and_eq_true] at h
    simp only [ValList.length] at hl
    obtain ⟨vi, hg, ht, he⟩ := allHaveType_nth t vs i h.2 (by omega)
    refine ⟨vi, by simpa [ValList'.get?] using hg, ht, ?_⟩
    simp only [ValList.encodeAll]
    rw [← he, List.drop_append, Val.encode_length v _ h.1]
    have : (i + 1) * t.size - t.size = i * t.size := by rw [Nat.succ_mul]; omega
    rw [List.drop_of_length_le (by rw [Val.encode_length v _ h.1, Nat.succ_mul]; omega), this, List.nil_append]

theorem get?_none_of_le : ∀ (vs : ValList) (i : Nat), vs.length ≤ i → ValList'.get? vs i = none
  | .nil, _, _ => rfl
  | .cons _ vs, 0, h => by simp [ValList.length] at h
  | .cons _ vs, i + 1, h => by
    simp only [ValList.length] at h
    simpa [ValList'.get?] using get?_none_of_le vs i (by omega)

/-- `a[i]` on the wires of an array -/
theorem VRel.index {te : Ty} {n : Nat} {v : Val} {bs : List Bool} (h : VRel (.agg (.array te n)) v bs) :
    ∃ vs, v = .array vs ∧
      (∀ i, i < n → ∃ vi, ValList'.get? vs i = some vi ∧ VRel (VTy.ofTy te) vi ((bs.drop (i * te.size)).take te.size)) ∧
      (∀ i, n ≤ i → ValList'.get? vs i = none) := by
  obtain ⟨h0, rfl⟩ := h
  cases v with
  | array vs =>
  have h1 : vs.length = n ∧ vs.allHaveType te = true := by simpa [Val.hasType] using h0
  refine ⟨vs, rfl, ?_, ?_⟩
  · intro i hi
    obtain ⟨vi, hg, ht, he⟩ := allHaveType_nth te vs i h1.2 (by omega)
    refine ⟨vi, hg, ?_⟩
    simp only [Val.encode, he]
    exact VRel.of_hasType ht
  · intro i hi
    exact get?_none_of_le vs i (by omega)
  | _ => simp [Val.hasType] at h0

/-- the elements of a well-typed array and the chunks of its wires -/
theorem chunks_rel (t : Ty) : ∀ (vs : ValList), vs.allHaveType t = true →
    ArgsRel vs.toList ((chunks t.size vs.length (vs.encodeAll t)).map fun el => (VTy.ofTy t, el))
  | .nil, _ => by simp [ValList.toList, ValList.length, chunks, ArgsRel]
  | .cons v vs, h => by
    simp only [ValList.allHaveType, Bool.and_eq_true] at h
    have hl := Val.encode_length v _ h.1
    simp only [ValList.toList, ValList.length, chunks, ValList.encodeAll, List.map_cons, ArgsRel]
    rw [List.take_append_of_le_length (by rw [hl]; exact Nat.le_refl _), List.take_of_length_le (by rw [hl]; exact Nat.le_refl _),
      List.drop_append, List.drop_of_length_le (by rw [hl]; exact Nat.le_refl _), hl, Nat.sub_self, List.drop_zero,
      List.nil_append]
    exact ⟨VRel.of_hasType h.1, chunks_rel t vs h.2⟩

theorem VRel.array_elems {te : Ty} {n : Nat} {v : Val} {bs : List Bool} (h : VRel (.agg (.array te n)) v bs) :
    ∃ vs, v = .array vs ∧ ArgsRel vs.toList ((chunks te.size n bs).map fun el => (VTy.ofTy te, el)) := by
  obtain ⟨h0, rfl⟩ := h
  cases v with
  | array vs =>
    have h1 : vs.length = n ∧ vs.allHaveType te = true := by simpa [Val.hasType] using h0
    refine ⟨vs, rfl, ?_⟩
    rw [← h1.1]
    exact chunks_rel te vs h1.2
  | _ => simp [Val.hasType] at h0

/-! ### replacing a component -/

theorem splice_append {α} (a b : List α) (off sz : Nat) (x : List α) :
    (a ++ b).take (a.length + off) ++ x ++ (a ++ b).drop (a.length + off + sz) =
      a ++ (b.take off ++ x ++ b.drop (off + sz)) := by
  induction a with
  | nil => simp
  | cons h t ih =>
    have e1 : (h :: t).length + off = (t.length + off) + 1 := by simp; omega
    have e2 : (h :: t).length + off + sz = (t.length + off + sz) + 1 := by simp; omega
    rw [e2, e1]
    simp only [List.cons_append, List.take_succ_cons, List.drop_succ_cons, ih]

/-! ### structs -/

/-- field values and their wires, name by name -/
def FArgsRel : FieldVals → List (String × VTy × List Bool) → Prop
  | .nil, [] => True
  | .cons n v r, (n', t, bs) :: rest => n = n' ∧ VRel t v bs ∧ FArgsRel r rest
  | _, _ => False

theorem FArgsRel.struct : ∀ (fvs : FieldVals) (args : List (String × VTy × List Bool)), FArgsRel fvs args →
    fvs.haveTypes (Fields.ofList (args.map fun x => (x.1, x.2.1.toTy))) = true ∧
      args.flatMap (·.2.2) = fvs.encodeEach (Fields.ofList (args.map fun x => (x.1, x.2.1.toTy)))
  | .nil, [], _ => by simp [FieldVals.haveTypes, Fields.ofList, FieldVals.encodeEach]
  | .nil, _ :: _, h => by simp [FArgsRel] at h
  | .cons _ _ _, [], h => by simp [FArgsRel] at h
  | .cons n v r, (n', t, bs) :: rest, h => by
    simp only [FArgsRel] at h
    obtain ⟨rfl, hv, hr⟩ := h
    obtain ⟨h1, h2⟩ := hv.hasType_encode
    obtain ⟨h3, h4⟩ := FArgsRel.struct r rest hr
    simp only [List.map_cons, Fields.ofList, FieldVals.haveTypes, beq_self_eq_true, h1, h3, Bool.and_self,
      List.flatMap_cons, FieldVals.encodeEach, ← h2, h4, true_and]

/-- field `x` of a well-typed struct: its value, and where its wires are -/
theorem fields_nth : ∀ (fvs : FieldVals) (fs : Fields) (x : String) (off : Nat) (ti : Ty), fvs.haveTypes fs = true →
    Fields.nth? fs x = some (off, ti) →
    ∃ vi, FieldVals'.get? fvs x = some vi ∧ vi.hasType ti = true ∧
      ((fvs.encodeEach fs).drop off).take ti.size = vi.encode ti
  | .nil, .nil, _, _, _, _, h => by simp [Fields.nth?] at h
  | .nil, .cons _ _ _, _, _, _, h, _ => by simp [FieldVals.haveTypes] at h
  | .cons _ _ _, .nil, _, _, _, h, _ => by simp [FieldVals.haveTypes] at h
  | .cons n v r, .cons n' t fs, x, off, ti, h, hn => by
    simp only [FieldVals.haveTypes, Bool.and_eq_true, beq_iff_eq] at h
    obtain ⟨⟨rfl, hv⟩, hr⟩ := h
    have hl := Val.encode_length v _ hv
    simp only [Fields.nth?] at hn
    split at hn
    · rename_i hx
      simp only [Option.some.injEq, Prod.mk.injEq] at hn
      obtain ⟨rfl, rfl⟩ := hn
      refine ⟨v, by simp [FieldVals'.get?, hx], hv, ?_⟩
      simp only [FieldVals.encodeEach, List.drop_zero]
      rw [List.take_append_of_le_length (by rw [hl]; exact Nat.le_refl _), List.take_of_length_le (by rw [hl]; exact Nat.le_refl _)]
    · rename_i hx
      split at hn
      · rename_i off' ti' hn'
        simp only [Option.some.injEq, Prod.mk.injEq] at hn
        obtain ⟨rfl, rfl⟩ := hn
        obtain ⟨vi, hg, ht, he⟩ := fields_nth r fs x off' ti' hr hn'
        refine ⟨vi, by simp [FieldVals'.get?, hx, hg], ht, ?_⟩
        simp only [FieldVals.encodeEach]
        rw [← he, List.drop_append, hl]
        have : t.size + off' - t.size = off' := by omega
        rw [List.drop_of_length_le (by rw [hl]; omega), this, List.nil_append]
      · simp at hn

theorem fields_set : ∀ (fvs : FieldVals) (fs : Fields) (x : String) (off : Nat) (ti : Ty) (w : Val), fvs.haveTypes fs = true →
    Fields.nth? fs x = some (off, ti) → w.hasType ti = true →
    (FieldVals'.set fvs x w).haveTypes fs = true ∧
      (FieldVals'.set fvs x w).encodeEach fs =
        (fvs.encodeEach fs).take off ++ w.encode ti ++ (fvs.encodeEach fs).drop (off + ti.size)
  | .nil, .nil, _, _, _, _, _, h, _ => by simp [Fields.nth?] at h
  | .nil, .cons _ _ _, _, _, _, _, h, _, _ => by simp [FieldVals.haveTypes] at h
  | .cons _ _ _, .nil, _, _, _, _, h, _, _ => by simp [FieldVals.haveTypes] at h
  | .cons n v r, .cons n' t fs, x, off, ti, w, h, hn, hw => by
    simp only [FieldVals.haveTypes, Bool.and_eq_true, beq_iff_eq] at h
    obtain ⟨⟨rfl, hv⟩, hr⟩ := h
    have hl := Val.encode_length v _ hv
    simp only [Fields.nth?] at hn
    split at hn
    · rename_i hx
      simp only [Option.some.injEq, Prod.mk.injEq] at hn
      obtain ⟨rfl, rfl⟩ := hn
      refine ⟨by simp [FieldVals'.set, hx, FieldVals.haveTypes, hw, hr], ?_⟩
      simp only [FieldVals'.set, hx, if_true, FieldVals.encodeEach, List.take_zero, List.nil_append, Nat.zero_add]
      rw [List.drop_append, List.drop_of_length_le (by rw [hl]; exact Nat.le_refl _), hl, Nat.sub_self, List.drop_zero,
        List.nil_append]
    · rename_i hx
      split at hn
      · rename_i off' ti' hn'
        simp only [Option.some.injEq, Prod.mk.injEq] at hn
        obtain ⟨rfl, rfl⟩ := hn
        obtain ⟨h1, h2⟩ := fields_set r fs x off' ti' w hr hn' hw
        refine ⟨by simp [FieldVals'.set, hx, FieldVals.haveTypes, hv, h1], ?_⟩
        have hx' : (n == x) = false := by simpa using hx
        simp only [FieldVals'.set, hx', Bool.false_eq_true, if_false, FieldVals.encodeEach, h2]
        rw [← hl, splice_append]
      · simp at hn

/-- `s.f` on the wires of a struct -/
theorem VRel.field {sn : String} {fs : Fields} {v : Val} {bs : List Bool} (h : VRel (.agg (.struct sn fs)) v bs) (x : String)
    (off : Nat) (ti : Ty) (hn : Fields.nth? fs x = some (off, ti)) :
    ∃ sn' fvs vi, v = .struct sn' fvs ∧ FieldVals'.get? fvs x = some vi ∧
      VRel (VTy.ofTy ti) vi ((bs.drop off).take ti.size) := by
  obtain ⟨h0, rfl⟩ := h
  cases v with
  | struct sn' fvs =>
    have h1 : fvs.haveTypes fs = true := by
      simp only [Val.hasType, Bool.and_eq_true] at h0
      exact h0.2
    obtain ⟨vi, hg, ht, he⟩ := fields_nth fvs fs x off ti h1 hn
    refine ⟨sn', fvs, vi, rfl, hg, ?_⟩
    simp only [Val.encode, he]
    exact VRel.of_hasType ht
  | _ => simp [Val.hasType] at h0

/-- a tuple with component `i` replaced: still of the type, and only that component's wires change -/
theorem haveTypes_set : ∀ (vs : ValList) (ts : TyList) (i off : Nat) (ti : Ty) (w : Val), vs.haveTypes ts = true →
    TyList.nth? ts i = some (off, ti) → w.hasType ti = true →
    (ValList'.set vs i w).haveTypes ts = true ∧
      (ValList'.set vs i w).encodeEach ts =
        (vs.encodeEach ts).take off ++ w.encode ti ++ (vs.encodeEach ts).drop (off + ti.size)
  | .nil, .nil, _, _, _, _, _, h, _ => by simp [TyList.nth?] at h
  | .nil, .cons _ _, _, _, _, _, h, _, _ => by simp [ValList.haveTypes] at h
  | .cons _ _, .nil, _, _, _, _, h, _, _ => by simp [ValList.haveTypes] at h
  | .cons v vs, .cons t ts, 0, off, ti, w, h, hn, hw => by
    simp only [TyList.nth?, Option.some.injEq, Prod.mk.injEq] at hn
    obtain ⟨rfl, rfl⟩ := hn
    simp only [ValList.haveTypes, Bool.and_eq_true] at h
    have hl := Val.encode_length v _ h.1
    refine ⟨by simp [ValList'.set, ValList.haveTypes, hw, h.2], ?_⟩
    simp only [ValList'.set, ValList.encodeEach, List.take_zero, List.nil_append, Nat.zero_add]
    rw [List.drop_append, List.drop_of_length_le (by rw [hl]; exact Nat.le_refl _), hl, Nat.sub_self, List.drop_zero,
      List.nil_append]
  | .cons v vs, .cons t ts, i + 1, off, ti, w, h, hn, hw => by
    simp only [TyList.nth?] at hn
    split at hn
    · rename_i off' ti' hn'
      simp only [Option.some.injEq, Prod.mk.injEq] at hn
      obtain ⟨rfl, rfl⟩ := hn
      simp only [ValList.haveTypes, Bool.and_eq_true] at h
      have hl := Val.encode_length v _ h.1
      obtain ⟨h1, h2⟩ := haveTypes_set vs ts i off' ti' w h.2 hn' hw
      refine ⟨by simp [ValList'.set, ValList.haveTypes, h.1, h1], ?_⟩
      simp only [ValList'.set, ValList.encodeEach, h2]
      rw [← hl, splice_append]
    · simp at hn

/-- an array with element `i` replaced -/
theorem allHaveType_set (t : Ty) : ∀ (vs : ValList) (i : Nat) (w : Val), vs.allHaveType t = true → i < vs.length →
    w.hasType t = true →
    (ValList'.set vs i w).length = vs.length ∧ (ValList'.set vs i w).allHaveType t = true ∧
      (ValList'.set vs i w).encodeAll t =
        (vs.encodeAll t).take (i * t.size) ++ w.encode t ++ (vs.encodeAll t).drop (i * t.size + t.size)
  | .nil, _, _, _, h, _ => by simp [ValList.length] at h
  | .cons v vs, 0, w, h, _, hw => by
    simp only [ValList.allHaveType, Bool.and_eq_true] at h
    have hl := Val.encode_length v _ h.1
    refine ⟨by simp [ValList'.set, ValList.length], by simp [ValList'.set, ValList.allHaveType, hw, h.2], ?_⟩
    simp only [ValList'.set, ValList.encodeAll, Nat.zero_mul, List.take_zero, List.nil_append, Nat.zero_add]
    rw [List.drop_append, List.drop_of_length_le (by rw [hl]; exact Nat.le_refl _), hl, Nat.sub_self, List.drop_zero,
      List.nil_append]
  | .cons v vs, i + 1, w, h, hi, hw => by
    simp only [ValList.allHaveType, Bool.and_eq_true] at h
    simp only [ValList.length] at hi
    have hl := Val.encode_length v _ h.1
    obtain ⟨h0, h1, h2⟩ := allHaveType_set t vs i w h.2 (by omega) hw
    refine ⟨by simp [ValList'.set, ValList.length, h0], by simp [ValList'.set, ValList.allHaveType, h.1, h1], ?_⟩
    simp only [ValList'.set, ValList.encodeAll, h2]
    have e1 : (i + 1) * t.size = (v.encode t).length + i * t.size := by rw [Nat.succ_mul, hl]; omega
    rw [e1, splice_append]

/-- a `usize` index: the number its wires carry -/
theorem Rel.usize_index {v : Val} {bs : List Bool} (h : Rel (.int .usize) v bs) :
    ∃ m : Int, v = .int m ∧ 0 ≤ m ∧ bitsToNat bs = m.toNat := by
  obtain ⟨m, rfl, hm, rfl⟩ := h.int_inv
  refine ⟨m, rfl, ?_, ?_⟩
  · simp only [IntTy.inRange, IntTy.lo, IntTy.signed, Bool.and_eq_true, decide_eq_true_eq] at hm
    simpa using hm.1
  · simp only [IntTy.inRange, IntTy.lo, IntTy.hi, IntTy.signed, IntTy.bits, Bool.and_eq_true, decide_eq_true_eq] at hm
    simp only [enc, intToBits, IntTy.bits, bitsToNat_natToBits]
    have h0 : 0 ≤ m := by simpa using hm.1
    have h1 : m < (2 : Int) ^ 32 := by have := hm.2; simp at this; omega
    rw [Int.emod_eq_of_lt h0 h1]
    have : m.toNat < 2 ^ 32 := by omega
    exact Nat.mod_eq_of_lt this

end Bit
end GV
