import GarbleVerif.Proofs.PushSound
namespace GV
namespace Builder

theorem optimizeAnd_sound {b : Builder} (hb : WF b) (x y w : Nat) (hx : x < b.counter) (hy : y < b.counter)
    (h : b.optimizeAnd x y = some w) :
    w < b.counter ∧ ∀ inp, inp.length + 2 = b.shift → b.sem inp w = (b.sem inp x && b.sem inp y) := by
  have hc2 := c2 hb
  simp only [optimizeAnd] at h
  split at h
  · rename_i h0; simp at h; subst h
    refine ⟨by omega, fun inp _ => ?_⟩
    rcases h0 with rfl | rfl <;> simp [sem_zero]
  split at h
  · rename_i hx1; simp at h; subst h; subst hx1
    exact ⟨hy, fun inp _ => by simp [sem_one]⟩
  split at h
  · rename_i h1; simp at h; subst h
    refine ⟨hx, fun inp _ => ?_⟩
    rcases h1 with rfl | rfl
    · simp [sem_one]
    · simp
  split at h
  · rename_i w' hv
    simp at h; subst h
    split at hv
    · rename_i xn hxn
      have hn := hb.negSound x xn hxn
      split at hv
      · rename_i e; simp at hv; subst hv; subst e
        exact ⟨by omega, fun inp hi => by rw [sem_zero, hn.2.2 inp hi]; cases b.sem inp x <;> rfl⟩
      · simp at hv
    · split at hv
      · rename_i yn hyn
        have hn := hb.negSound y yn hyn
        split at hv
        · rename_i e; simp at hv; subst hv; subst e
          exact ⟨by omega, fun inp hi => by rw [sem_zero, hn.2.2 inp hi]; cases b.sem inp y <;> rfl⟩
        · simp at hv
      · simp at hv
  · have := getCached_sound hb _ w h
    exact ⟨this.1, fun inp hi => by rw [this.2 inp hi, gateVal_and]⟩

/-- what is left when `optimize_and` finds nothing: two different non-constant wires -/
theorem optimizeAnd_none {b : Builder} {x y : Nat} (h : b.optimizeAnd x y = none) :
    (x ≠ y ∧ 2 ≤ x ∧ 2 ≤ y) ∧ b.getCached (.and x y) = none := by
  unfold optimizeAnd at h
  split at h
  · simp at h
  · rename_i h0
    split at h
    · simp at h
    · rename_i h1
      split at h
      · simp at h
      · rename_i h2
        refine ⟨by omega, ?_⟩
        simp only at h
        split at h
        · simp at h
        · exact h

/-- with de-duplication on, a cache miss in both orders means that no AND gate over this pair exists yet -/
theorem fresh_pair {b : Builder} (hb : WF b) {x y : Nat} (hc : b.cacheOn = true) (hm : b.getCached (.and x y) = none)
    (i x' y' : Nat) (hi : b.gates[i]? = some (BGate.and x' y')) : ¬ samePair x y x' y' := by
  intro hs
  have hcov := hb.cacheCover hc i x' y' hi
  simp only [getCached, hc, Bool.not_true, Bool.false_eq_true, if_false] at hm
  cases h1 : b.cache[BGate.and x y]? with
  | some w => simp [h1] at hm
  | none =>
    simp only [h1] at hm
    rcases hs with ⟨rfl, rfl⟩ | ⟨rfl, rfl⟩
    · rw [h1] at hcov; simp at hcov
    · rw [hm] at hcov; simp at hcov

theorem pushAndRaw_post {b : Builder} (hb : WF b) (x y : Nat) (hx : x < b.counter) (hy : y < b.counter)
    (hn : (x ≠ y ∧ 2 ≤ x ∧ 2 ≤ y) ∧ b.getCached (.and x y) = none) :
    Post b (· && ·) x y (b.pushGate (.and x y)) := by
  have hg : opsLt (.and x y) b.counter := ⟨hx, hy⟩
  obtain ⟨hwf, hw, hsem⟩ := pushGate_spec hb (.and x y) hg (fun x' y' h => by
    simp only [BGate.and.injEq] at h
    obtain ⟨rfl, rfl⟩ := h
    exact hn.1)
    (fun hc x' y' h i x2 y2 hi => by
      simp only [BGate.and.injEq] at h
      obtain ⟨rfl, rfl⟩ := h
      exact fresh_pair hb hc hn.2 i x2 y2 hi)
  refine ⟨hwf, pushGate_ext b _, by rw [hw, pushGate_counter]; omega, fun inp hi => ?_⟩
  rw [hw, hsem inp hi, gateVal_and]

theorem andRule1_post {rec : Rec} (hrec : RecOk (· && ·) rec) {b : Builder} (hb : WF b) (x y : Nat)
    (hx : x < b.counter) (hy : y < b.counter) (r : Nat × Builder)
    (h : andRule1 rec b x y = some r) : Post b (· && ·) x y r := by
  simp only [andRule1] at h
  split at h
  · rename_i x1 x2 y1 y2 hgx hgy
    have sx := fun inp hi => (sem_gate hb inp hi x _ hgx).2.2
    have sy := fun inp hi => (sem_gate hb inp hi y _ hgy).2.2
    obtain ⟨_, hx1, hx2⟩ := gate_bounds hb hgx
    obtain ⟨_, hy1, hy2⟩ := gate_bounds hb hgy
    have by1 : y1 < b.counter := by omega
    have by2 : y2 < b.counter := by omega
    split at h
    · rename_i e; simp at h; subst h
      refine (hrec b x y2 hb hx by2).mono (fun inp hi => ?_)
      rw [sy inp hi, gateVal_and]
      rw [sx inp hi, gateVal_and]
      rcases e with e | e <;> rw [e] <;>
        cases b.sem inp y1 <;> cases b.sem inp y2 <;> cases b.sem inp x1 <;> cases b.sem inp x2 <;> rfl
    split at h
    · rename_i e; simp at h; subst h
      refine (hrec b x y1 hb hx by1).mono (fun inp hi => ?_)
      rw [sy inp hi, gateVal_and]
      rw [sx inp hi, gateVal_and]
      rcases e with e | e <;> rw [e] <;>
        cases b.sem inp y1 <;> cases b.sem inp y2 <;> cases b.sem inp x1 <;> cases b.sem inp x2 <;> rfl
    · simp at h
  · simp at h

theorem andRule2_post {xrec : Rec} (hrec : RecOk (· ^^ ·) xrec) {b : Builder} (hb : WF b) (x y : Nat)
    (hx : x < b.counter) (hy : y < b.counter) (r : Nat × Builder)
    (h : andRule2 xrec b x y = some r) : Post b (· && ·) x y r := by
  have hc2 := c2 hb
  simp only [andRule2] at h
  split at h
  · rename_i x1 x2 hgx
    have sx := fun inp hi => (sem_gate hb inp hi x _ hgx).2.2
    split at h
    · rename_i e; simp at h; subst h
      refine Post.of_same hb hx (fun inp hi => ?_)
      rw [sx inp hi, gateVal_and]
      rcases e with e | e <;> rw [e] <;> cases b.sem inp y <;> cases b.sem inp x1 <;> cases b.sem inp x2 <;> rfl
    split at h
    · rename_i yn hyn
      have hn := hb.negSound y yn hyn
      split at h
      · rename_i e; simp at h; subst h
        refine Post.of_same hb (by omega) (fun inp hi => ?_)
        rw [sem_zero, sx inp hi, gateVal_and]
        rcases e with e | e <;> rw [e, hn.2.2 inp hi] <;>
          cases b.sem inp y <;> cases b.sem inp x1 <;> cases b.sem inp x2 <;> rfl
      · simp at h
    · simp at h
  · rename_i x1 x2 hgx
    have sx := fun inp hi => (sem_gate hb inp hi x _ hgx).2.2
    split at h
    · rename_i p q hp hq
      simp at h; subst h
      have cp := getCached_sound hb _ p hp
      have cq := getCached_sound hb _ q hq
      refine (hrec b p q hb cp.1 cq.1).mono (fun inp hi => ?_)
      rw [cp.2 inp hi, cq.2 inp hi, gateVal_and, gateVal_and, sx inp hi, gateVal_xor]
      cases b.sem inp y <;> cases b.sem inp x1 <;> cases b.sem inp x2 <;> rfl
    · simp at h
  · simp at h

theorem andRule3_post {xrec : Rec} (hrec : RecOk (· ^^ ·) xrec) {b : Builder} (hb : WF b) (x y : Nat)
    (hx : x < b.counter) (hy : y < b.counter) (r : Nat × Builder)
    (h : andRule3 xrec b x y = some r) : Post b (· && ·) x y r := by
  have hc2 := c2 hb
  simp only [andRule3] at h
  split at h
  · rename_i y1 y2 hgy
    have sy := fun inp hi => (sem_gate hb inp hi y _ hgy).2.2
    split at h
    · rename_i e; simp at h; subst h
      refine Post.of_same hb hy (fun inp hi => ?_)
      rw [sy inp hi, gateVal_and]
      rcases e with e | e <;> rw [e] <;> cases b.sem inp y1 <;> cases b.sem inp y2 <;> rfl
    split at h
    · rename_i xn hxn
      have hn := hb.negSound x xn hxn
      split at h
      · rename_i e; simp at h; subst h
        refine Post.of_same hb (by omega) (fun inp hi => ?_)
        rw [sem_zero, sy inp hi, gateVal_and]
        rcases e with e | e <;> rw [← e, hn.2.2 inp hi] <;>
          cases b.sem inp x <;> cases b.sem inp y1 <;> cases b.sem inp y2 <;> rfl
      · simp at h
    · simp at h
  · rename_i y1 y2 hgy
    have sy := fun inp hi => (sem_gate hb inp hi y _ hgy).2.2
    split at h
    · rename_i p q hp hq
      simp at h; subst h
      have cp := getCached_sound hb _ p hp
      have cq := getCached_sound hb _ q hq
      refine (hrec b p q hb cp.1 cq.1).mono (fun inp hi => ?_)
      rw [cp.2 inp hi, cq.2 inp hi, gateVal_and, gateVal_and, sy inp hi, gateVal_xor]
      cases b.sem inp x <;> cases b.sem inp y1 <;> cases b.sem inp y2 <;> rfl
    · simp at h
  · simp at h

/-- **`push_and` is sound** for every fuel. -/
theorem pushAnd_post (fuel xfuel : Nat) : RecOk (· && ·) (pushAnd fuel xfuel) := by
  induction fuel with
  | zero =>
    intro b x y hb hx hy
    unfold pushAnd
    split
    · rename_i w hw
      have := optimizeAnd_sound hb x y w hx hy hw
      exact Post.of_same hb this.1 this.2
    · rename_i hnone
      exact pushAndRaw_post hb x y hx hy (optimizeAnd_none hnone)
  | succ fuel ih =>
    intro b x y hb hx hy
    unfold pushAnd
    split
    · rename_i w hw
      have := optimizeAnd_sound hb x y w hx hy hw
      exact Post.of_same hb this.1 this.2
    · rename_i hnone
      simp only
      split
      · rename_i r hr; exact andRule1_post ih hb x y hx hy r hr
      · split
        · rename_i r hr; exact andRule2_post (pushXor_post xfuel) hb x y hx hy r hr
        · split
          · rename_i r hr; exact andRule3_post (pushXor_post xfuel) hb x y hx hy r hr
          · exact pushAndRaw_post hb x y hx hy (optimizeAnd_none hnone)


end Builder
end GV
