import GarbleVerif.Proofs.ArithLen
import GarbleVerif.Proofs.BitIndex
import GarbleVerif.Proofs.BitShape
/-!
# Widths: the compiled code of an expression of type `T` has exactly `size(T)` output wires

Whatever the inputs carry (also when the execution panics): if every variable in scope has as many wires as its type
has bits, so has the result of every expression of the fragment, and so have all variables afterwards.
-/
namespace GV
namespace Bit
open Src Arith

/-- every variable has as many wires as its type has bits -/
def WFB (b : BEnv) : Prop := ∀ e, e ∈ b → e.2.2.length = e.2.1.toTy.size

def ArgsWF (l : List (VTy × List Bool)) : Prop := ∀ a, a ∈ l → a.2.length = a.1.toTy.size

/-- what is assumed of calls: well-sized arguments give a well-sized result -/
def CallWF (call : Ctx) : Prop :=
  ∀ fn args t bs p, call.fn fn args = some (t, bs, p) → ArgsWF args → bs.length = t.toTy.size

theorem WFB.nil : WFB [] := by intro e h; simp at h

theorem WFB.cons {x : String} {t : VTy} {bs : List Bool} {b : BEnv} (h1 : bs.length = t.toTy.size) (h2 : WFB b) :
    WFB ((x, t, bs) :: b) := by
  intro e he
  simp only [List.mem_cons] at he
  rcases he with rfl | he
  · exact h1
  · exact h2 e he

theorem WFB.append {a b : BEnv} (h1 : WFB a) (h2 : WFB b) : WFB (a ++ b) := by
  intro e he
  simp only [List.mem_append] at he
  rcases he with he | he
  · exact h1 e he
  · exact h2 e he

theorem WFB.drop {b : BEnv} (h : WFB b) (n : Nat) : WFB (b.drop n) :=
  fun e he => h e (List.mem_of_mem_drop he)

theorem WFB.restore {outer inner : BEnv} (h : WFB inner) : WFB (restoreB outer inner) := h.drop _

theorem WFB.get {b : BEnv} (h : WFB b) {x : String} {t : VTy} {bs : List Bool} (hg : b.get? x = some (t, bs)) :
    bs.length = t.toTy.size := by
  induction b with
  | nil => simp [BEnv.get?] at hg
  | cons hd tl ih =>
    obtain ⟨n, t', bs'⟩ := hd
    simp only [BEnv.get?] at hg
    split at hg
    · simp only [Option.some.injEq, Prod.mk.injEq] at hg
      obtain ⟨rfl, rfl⟩ := hg
      exact h (n, t', bs') (by simp)
    · exact ih (fun e he => h e (by simp [he])) hg

theorem WFB.set {b : BEnv} (h : WFB b) (x : String) (t : VTy) (old w : List Bool) (hg : b.get? x = some (t, old))
    (hw : w.length = t.toTy.size) : WFB (b.set x w) := by
  induction b with
  | nil => simp [BEnv.get?] at hg
  | cons hd tl ih =>
    obtain ⟨n, t', bs'⟩ := hd
    simp only [BEnv.get?] at hg
    simp only [BEnv.set]
    split at hg
    · rename_i hx
      simp only [Option.some.injEq, Prod.mk.injEq] at hg
      obtain ⟨rfl, rfl⟩ := hg
      simp only [hx, if_true]
      exact WFB.cons hw (fun e he => h e (by simp [he]))
    · rename_i hx
      simp only [hx, if_false]
      exact WFB.cons (h (n, t', bs') (by simp)) (ih (fun e he => h e (by simp [he])) hg)

/-- merging two well-sized environments of the same shape -/
theorem WFB.mux (c : Bool) (a b : BEnv) (hs : shape a = shape b) (ha : WFB a) (hb : WFB b) : WFB (muxEnv c a b) := by
  rw [muxEnv_eq c a b hs]
  cases c <;> assumption

/-! ### operators -/

theorem IntTy.bits_pos (k : IntTy) : 0 < k.bits := by cases k <;> decide

theorem ne_nil_of_length {x : List Bool} {n : Nat} (h : x.length = n) (hn : 0 < n) : x ≠ [] := by
  intro he; subst he; simp at h; omega

theorem binop_operands' (x y : List Bool) (s1 s2 : Bool) (h : x.length = y.length) (hx : x ≠ []) :
    extendToBits x s1 (max x.length y.length) = x ∧ extendToBits y s2 (max x.length y.length) = y := by
  have hy : y ≠ [] := by intro he; subst he; simp at h; exact hx h
  have h1 : max x.length y.length = x.length := by rw [h]; simp
  have h2 : max x.length y.length = y.length := by rw [h]; simp
  exact ⟨by rw [h1]; exact extendToBits_self _ _ hx, by rw [h2]; exact extendToBits_self _ _ hy⟩

theorem mul_length (x y : List Bool) (s : Bool) (h : x.length = y.length) (hn : 0 < x.length) :
    (mul x y s).1.length = x.length := by
  cases s
  · exact mul_unsigned_length x y h hn
  · cases x with
    | nil => simp at hn
    | cons a x =>
      cases y with
      | nil => simp at h
      | cons b y =>
        simp only [List.length_cons, Nat.add_right_cancel_iff] at h
        simpa using mul_signed_length a b x y h

/-- the arithmetic, bitwise and comparison circuits: as wide as the result type -/
theorem binop_width (op : Arith.BinOp) (sx sy sr : Bool) (x y : List Bool) (h : x.length = y.length) (hn : 0 < x.length) :
    (Arith.binop op sx sy sr x y).1.length =
      match op with
      | .gt | .lt | .eq | .ne => 1
      | _ => x.length := by
  have hops := binop_operands' x y sx sy h (ne_nil_of_length rfl hn)
  cases op <;> unfold Arith.binop <;> simp only [hops.1, hops.2]
  case add => exact add_length x y h
  case sub => exact sub_length x y sr h
  case mul => exact mul_length x y sr h hn
  case div => cases sr <;> simp [(sdiv_len x y h).1, (udiv_len x y h).1]
  case mod => cases sr <;> simp [(sdiv_len x y h).2, (udiv_len x y h).2]
  case bitAnd => simp [h]
  case bitXor => simp [h]
  case bitOr => simp [h]
  case shl => exact shift_length _ _ _ _
  case shr => exact shift_length _ _ _ _
  all_goals rfl

theorem binBits_width (op : Src.BinOp) (t : STy) (x y : List Bool) (tr : STy) (r : List Bool)
    (panics : List (Bool × Arith.PanicKind)) (hx : x.length = t.toTy.size) (hy : y.length = t.toTy.size)
    (h : binBits op t x y = some (tr, r, panics)) : r.length = tr.toTy.size := by
  have hxy : x.length = y.length := by rw [hx, hy]
  have hn : 0 < x.length := by
    rw [hx]; cases t <;> simp [STy.toTy, Ty.size, IntTy.bits_pos]
  have hw := fun o a b c => binop_width o a b c x y hxy hn
  cases t with
  | bool =>
    have h1 : x.length = 1 := by simpa [STy.toTy, Ty.size] using hx
    cases op <;> simp only [binBits] at h
    case eq => simp only [Option.some.injEq, Prod.mk.injEq] at h; obtain ⟨rfl, rfl, _⟩ := h; simpa [STy.toTy, Ty.size] using hw .eq false false false
    case ne => simp only [Option.some.injEq, Prod.mk.injEq] at h; obtain ⟨rfl, rfl, _⟩ := h; simpa [STy.toTy, Ty.size] using hw .ne false false false
    case band => simp only [Option.some.injEq, Prod.mk.injEq] at h; obtain ⟨rfl, rfl, _⟩ := h; simpa [STy.toTy, Ty.size, h1] using hw .bitAnd false false false
    case bor => simp only [Option.some.injEq, Prod.mk.injEq] at h; obtain ⟨rfl, rfl, _⟩ := h; simpa [STy.toTy, Ty.size, h1] using hw .bitOr false false false
    case bxor => simp only [Option.some.injEq, Prod.mk.injEq] at h; obtain ⟨rfl, rfl, _⟩ := h; simpa [STy.toTy, Ty.size, h1] using hw .bitXor false false false
    all_goals (simp at h)
  | int k =>
    have h1 : x.length = k.bits := by simpa [STy.toTy, Ty.size] using hx
    cases op <;> simp only [binBits] at h
    case add => simp only [Option.some.injEq, Prod.mk.injEq] at h; obtain ⟨rfl, rfl, _⟩ := h; simpa [STy.toTy, Ty.size, h1] using hw .add k.signed k.signed k.signed
    case sub => simp only [Option.some.injEq, Prod.mk.injEq] at h; obtain ⟨rfl, rfl, _⟩ := h; simpa [STy.toTy, Ty.size, h1] using hw .sub k.signed k.signed k.signed
    case mul => simp only [Option.some.injEq, Prod.mk.injEq] at h; obtain ⟨rfl, rfl, _⟩ := h; simpa [STy.toTy, Ty.size, h1] using hw .mul k.signed k.signed k.signed
    case div => simp only [Option.some.injEq, Prod.mk.injEq] at h; obtain ⟨rfl, rfl, _⟩ := h; simpa [STy.toTy, Ty.size, h1] using hw .div k.signed k.signed k.signed
    case rem => simp only [Option.some.injEq, Prod.mk.injEq] at h; obtain ⟨rfl, rfl, _⟩ := h; simpa [STy.toTy, Ty.size, h1] using hw .mod k.signed k.signed k.signed
    case band => simp only [Option.some.injEq, Prod.mk.injEq] at h; obtain ⟨rfl, rfl, _⟩ := h; simpa [STy.toTy, Ty.size, h1] using hw .bitAnd k.signed k.signed k.signed
    case bor => simp only [Option.some.injEq, Prod.mk.injEq] at h; obtain ⟨rfl, rfl, _⟩ := h; simpa [STy.toTy, Ty.size, h1] using hw .bitOr k.signed k.signed k.signed
    case bxor => simp only [Option.some.injEq, Prod.mk.injEq] at h; obtain ⟨rfl, rfl, _⟩ := h; simpa [STy.toTy, Ty.size, h1] using hw .bitXor k.signed k.signed k.signed
    case lt => simp only [Option.some.injEq, Prod.mk.injEq] at h; obtain ⟨rfl, rfl, _⟩ := h; simpa [STy.toTy, Ty.size] using hw .lt k.signed k.signed false
    case gt => simp only [Option.some.injEq, Prod.mk.injEq] at h; obtain ⟨rfl, rfl, _⟩ := h; simpa [STy.toTy, Ty.size] using hw .gt k.signed k.signed false
    case le => simp only [Option.some.injEq, Prod.mk.injEq] at h; obtain ⟨rfl, rfl, _⟩ := h; simp [STy.toTy, Ty.size]
    case ge => simp only [Option.some.injEq, Prod.mk.injEq] at h; obtain ⟨rfl, rfl, _⟩ := h; simp [STy.toTy, Ty.size]
    case eq => simp only [Option.some.injEq, Prod.mk.injEq] at h; obtain ⟨rfl, rfl, _⟩ := h; simpa [STy.toTy, Ty.size] using hw .eq false false false
    case ne => simp only [Option.some.injEq, Prod.mk.injEq] at h; obtain ⟨rfl, rfl, _⟩ := h; simpa [STy.toTy, Ty.size] using hw .ne false false false
    all_goals (simp at h)

/-! ### aggregates -/

theorem nth?_bound : ∀ (ts : TyList) (i off : Nat) (ti : Ty), TyList.nth? ts i = some (off, ti) → off + ti.size ≤ ts.size
  | .nil, _, _, _, h => by simp [TyList.nth?] at h
  | .cons t ts, 0, off, ti, h => by
    simp only [TyList.nth?, Option.some.injEq, Prod.mk.injEq] at h
    obtain ⟨rfl, rfl⟩ := h
    simp [TyList.size]
  | .cons t ts, i + 1, off, ti, h => by
    simp only [TyList.nth?] at h
    split at h
    · rename_i o' t' h'
      simp only [Option.some.injEq, Prod.mk.injEq] at h
      obtain ⟨rfl, rfl⟩ := h
      have := nth?_bound ts i o' t' h'
      simp only [TyList.size]; omega
    · simp at h

theorem fields_nth?_bound : ∀ (fs : Fields) (x : String) (off : Nat) (ti : Ty), Fields.nth? fs x = some (off, ti) →
    off + ti.size ≤ fs.size
  | .nil, _, _, _, h => by simp [Fields.nth?] at h
  | .cons n t fs, x, off, ti, h => by
    simp only [Fields.nth?] at h
    split at h
    · simp only [Option.some.injEq, Prod.mk.injEq] at h
      obtain ⟨rfl, rfl⟩ := h
      simp [Fields.size]
    · split at h
      · rename_i o' t' h'
        simp only [Option.some.injEq, Prod.mk.injEq] at h
        obtain ⟨rfl, rfl⟩ := h
        have := fields_nth?_bound fs x o' t' h'
        simp only [Fields.size]; omega
      · simp at h

theorem slice_length (bs : List Bool) (off sz : Nat) (h : off + sz ≤ bs.length) : ((bs.drop off).take sz).length = sz := by
  rw [List.length_take, List.length_drop]; omega

theorem splice_length (bs sub : List Bool) (off sz : Nat) (h : off + sz ≤ bs.length) (hs : sub.length = sz) :
    (bs.take off ++ sub ++ bs.drop (off + sz)).length = bs.length := by
  simp only [List.length_append, List.length_take, List.length_drop, hs]; omega

theorem args_flat_length : ∀ (vs : List (VTy × List Bool)), ArgsWF vs →
    (vs.flatMap (·.2)).length = (TyList.ofList (vs.map (·.1.toTy))).size
  | [], _ => rfl
  | (t, bs) :: vs, h => by
    simp only [List.flatMap_cons, List.length_append, List.map_cons, TyList.ofList, TyList.size,
      args_flat_length vs (fun a ha => h a (by simp [ha])), h (t, bs) (by simp)]

theorem args_flat_length_typed : ∀ (vs : List (VTy × List Bool)) (ts : TyList), ArgsWF vs →
    vs.map (·.1) = ts.toList.map VTy.ofTy → (vs.flatMap (·.2)).length = ts.size
  | [], .nil, _, _ => rfl
  | [], .cons _ _, _, h => by simp [TyList.toList] at h
  | _ :: _, .nil, _, h => by simp [TyList.toList] at h
  | (t, bs) :: vs, .cons t' ts, hw, h => by
    simp only [List.map_cons, TyList.toList, List.cons.injEq] at h
    obtain ⟨rfl, h2⟩ := h
    have := hw (VTy.ofTy t', bs) (by simp)
    simp only [VTy.toTy_ofTy] at this
    simp only [List.flatMap_cons, List.length_append, TyList.size, this,
      args_flat_length_typed vs ts (fun a ha => hw a (by simp [ha])) h2]

theorem fields_flat_length : ∀ (vs : List (String × VTy × List Bool)), (∀ a, a ∈ vs → a.2.2.length = a.2.1.toTy.size) →
    (vs.flatMap (·.2.2)).length = (Fields.ofList (vs.map fun x => (x.1, x.2.1.toTy))).size
  | [], _ => rfl
  | (n, t, bs) :: vs, h => by
    simp only [List.flatMap_cons, List.length_append, List.map_cons, Fields.ofList, Fields.size,
      fields_flat_length vs (fun a ha => h a (by simp [ha])), h (n, t, bs) (by simp)]

theorem array_flat_length (t : VTy) : ∀ (vs : List (VTy × List Bool)), ArgsWF vs → (∀ x, x ∈ vs → x.1 = t) →
    (vs.flatMap (·.2)).length = t.toTy.size * vs.length
  | [], _, _ => by simp
  | (t', bs) :: vs, h, ht => by
    have e : t' = t := ht (t', bs) (by simp)
    subst e
    simp only [List.flatMap_cons, List.length_append, List.length_cons, h (t', bs) (by simp),
      array_flat_length t' vs (fun a ha => h a (by simp [ha])) (fun x hx => ht x (by simp [hx])), Nat.mul_succ]
    omega

theorem replicate_flat_length (n : Nat) (bs : List Bool) : (List.replicate n bs).flatten.length = bs.length * n := by
  induction n with
  | zero => simp
  | succ n ih => simp [List.replicate_succ, ih, Nat.mul_succ]; omega

theorem range_flat_length (k : IntTy) (lo : Nat) : ∀ n,
    ((List.range n).map fun j => intToBits ((lo + j : Nat) : Int) k.bits).flatten.length = k.bits * n := by
  intro n
  induction n with
  | zero => simp
  | succ n ih =>
    rw [List.range_succ, List.map_append, List.flatten_append, List.length_append, ih]
    simp [intToBits_length, Nat.mul_succ]

theorem writeAll_flat_length (idx sub : List Bool) (sz : Nat) (hs : sub.length = sz) : ∀ (elems : List (List Bool)) (i : Nat),
    (∀ a, a ∈ elems → a.length = sz) → (writeAll idx sub i elems).flatten.length = elems.length * sz
  | [], _, _ => by simp [writeAll]
  | old :: rest, i, h => by
    simp only [writeAll, List.flatten_cons, List.length_append, List.length_zipWith, h old (by simp), hs,
      writeAll_flat_length idx sub sz hs rest (i + 1) (fun a ha => h a (by simp [ha])), List.length_cons, Nat.succ_mul]
    omega

/-! ### patterns -/

mutual
theorem patG_wf : ∀ (p : Pat) (t : Ty) (bs : List Bool) (m : Bool) (bb : BEnv), bs.length = t.size →
    patG p t bs = some (m, bb) → WFB bb
  | .ident x, t, bs, m, bb, hl, h => by
    simp only [patG, Option.some.injEq, Prod.mk.injEq] at h
    obtain ⟨_, rfl⟩ := h
    exact WFB.cons (by rw [VTy.toTy_ofTy]; exact hl) WFB.nil
  | .tuple ps, .tuple ts, bs, m, bb, hl, h => by
    simp only [patG] at h
    exact patsG_wf ps ts bs m bb (by simpa [Ty.size] using Nat.le_of_eq hl.symm) h
  | .struct _ fps, .struct _ fs, bs, m, bb, hl, h => by
    simp only [patG] at h
    exact fieldsG_wf fps fs bs m bb (by simpa [Ty.size] using hl) h
  | .enumTuple _ v ps, .enum _ variants, bs, m, bb, hl, h => by
    simp only [patG] at h
    split at h
    · rename_i i u fts hf
      split at h
      · rename_i m2 bb2 hp
        simp only [Option.some.injEq, Prod.mk.injEq] at h
        obtain ⟨_, rfl⟩ := h
        have hle := Variants.find?_size_le variants v i u fts hf
        exact patsG_wf ps fts _ m2 bb2 (by rw [List.length_drop, hl]; simp only [Ty.size]; omega) hp
      · simp at h
    · simp at h
  | .enumUnit _ v, .enum _ variants, bs, m, bb, _, h => by
    simp only [patG] at h
    split at h
    · simp only [Option.some.injEq, Prod.mk.injEq] at h; obtain ⟨_, rfl⟩ := h; exact WFB.nil
    · simp at h
  | .bool b, .bool, bs, m, bb, _, h => by
    simp only [patG] at h
    split at h
    · simp only [Option.some.injEq, Prod.mk.injEq] at h; obtain ⟨_, rfl⟩ := h; exact WFB.nil
    · simp at h
  | .int n, .int k, bs, m, bb, _, h => by
    simp only [patG] at h
    split at h
    · simp only [Option.some.injEq, Prod.mk.injEq] at h; obtain ⟨_, rfl⟩ := h; exact WFB.nil
    · simp at h
  | .range lo hi, .int k, bs, m, bb, _, h => by
    simp only [patG] at h
    split at h
    · simp only [Option.some.injEq, Prod.mk.injEq] at h; obtain ⟨_, rfl⟩ := h; exact WFB.nil
    · simp at h
  | .tuple _, .bool, _, _, _, _, h | .tuple _, .int _, _, _, _, _, h | .tuple _, .array _ _, _, _, _, _, h
  | .tuple _, .struct _ _, _, _, _, _, h | .tuple _, .enum _ _, _, _, _, _, h => by simp [patG] at h
  | .struct _ _, .bool, _, _, _, _, h | .struct _ _, .int _, _, _, _, _, h | .struct _ _, .array _ _, _, _, _, _, h
  | .struct _ _, .tuple _, _, _, _, _, h | .struct _ _, .enum _ _, _, _, _, _, h => by simp [patG] at h
  | .enumTuple _ _ _, .bool, _, _, _, _, h | .enumTuple _ _ _, .int _, _, _, _, _, h
  | .enumTuple _ _ _, .array _ _, _, _, _, _, h | .enumTuple _ _ _, .tuple _, _, _, _, _, h
  | .enumTuple _ _ _, .struct _ _, _, _, _, _, h => by simp [patG] at h
  | .enumUnit _ _, .bool, _, _, _, _, h | .enumUnit _ _, .int _, _, _, _, _, h | .enumUnit _ _, .array _ _, _, _, _, _, h
  | .enumUnit _ _, .tuple _, _, _, _, _, h | .enumUnit _ _, .struct _ _, _, _, _, _, h => by simp [patG] at h
  | .bool _, .int _, _, _, _, _, h | .bool _, .array _ _, _, _, _, _, h | .bool _, .tuple _, _, _, _, _, h
  | .bool _, .struct _ _, _, _, _, _, h | .bool _, .enum _ _, _, _, _, _, h => by simp [patG] at h
  | .int _, .bool, _, _, _, _, h | .int _, .array _ _, _, _, _, _, h | .int _, .tuple _, _, _, _, _, h
  | .int _, .struct _ _, _, _, _, _, h | .int _, .enum _ _, _, _, _, _, h => by simp [patG] at h
  | .range _ _, .bool, _, _, _, _, h | .range _ _, .array _ _, _, _, _, _, h | .range _ _, .tuple _, _, _, _, _, h
  | .range _ _, .struct _ _, _, _, _, _, h | .range _ _, .enum _ _, _, _, _, _, h => by simp [patG] at h
theorem patsG_wf : ∀ (ps : PatList) (ts : TyList) (bs : List Bool) (m : Bool) (bb : BEnv), ts.size ≤ bs.length →
    patsG ps ts bs = some (m, bb) → WFB bb
  | .nil, .nil, _, m, bb, _, h => by
    simp only [patsG, Option.some.injEq, Prod.mk.injEq] at h; obtain ⟨_, rfl⟩ := h; exact WFB.nil
  | .nil, .cons _ _, _, _, _, _, h => by simp [patsG] at h
  | .cons _ _, .nil, _, _, _, _, h => by simp [patsG] at h
  | .cons p ps, .cons t ts, bs, m, bb, hl, h => by
    simp only [TyList.size] at hl
    simp only [patsG] at h
    split at h
    · rename_i m1 b1 m2 b2 h1 h2
      simp only [Option.some.injEq, Prod.mk.injEq] at h
      obtain ⟨_, rfl⟩ := h
      exact (patsG_wf ps ts _ m2 b2 (by rw [List.length_drop]; omega) h2).append
        (patG_wf p t _ m1 b1 (by rw [List.length_take]; omega) h1)
    · simp at h
theorem fieldsG_wf : ∀ (fps : FieldPats) (fs : Fields) (bs : List Bool) (m : Bool) (bb : BEnv), bs.length = fs.size →
    fieldsG fps fs bs = some (m, bb) → WFB bb
  | .nil, _, _, m, bb, _, h => by
    simp only [fieldsG, Option.some.injEq, Prod.mk.injEq] at h; obtain ⟨_, rfl⟩ := h; exact WFB.nil
  | .cons n p r, fs, bs, m, bb, hl, h => by
    simp only [fieldsG] at h
    split at h
    · rename_i off ti hn
      split at h
      · rename_i m1 b1 m2 b2 h1 h2
        simp only [Option.some.injEq, Prod.mk.injEq] at h
        obtain ⟨_, rfl⟩ := h
        have hb := fields_nth?_bound fs n off ti hn
        exact (fieldsG_wf r fs bs m2 b2 hl h2).append
          (patG_wf p ti _ m1 b1 (slice_length bs off ti.size (by omega)) h1)
      · simp at h
    · simp at h
end

theorem get?_of_shape' {b1 b2 : BEnv} {x : String} {t : VTy} {bs : List Bool} (hs : shape b2 = shape b1)
    (hg : b1.get? x = some (t, bs)) : ∃ bs2, b2.get? x = some (t, bs2) := by
  induction b1 generalizing b2 with
  | nil => simp [BEnv.get?] at hg
  | cons hd tl ih =>
    obtain ⟨n, t1, bs1⟩ := hd
    cases b2 with
    | nil => simp [shape] at hs
    | cons hd2 tl2 =>
      obtain ⟨n2, t2, bs2⟩ := hd2
      simp only [shape_cons, List.cons.injEq, Prod.mk.injEq] at hs
      obtain ⟨⟨rfl, rfl⟩, hs'⟩ := hs
      simp only [BEnv.get?] at hg ⊢
      split at hg
      · rename_i hx
        simp only [Option.some.injEq, Prod.mk.injEq] at hg
        obtain ⟨rfl, _⟩ := hg
        exact ⟨bs2, by simp [hx]⟩
      · rename_i hx
        simp only [hx]
        exact ih hs' hg

theorem bindParams_wf : ∀ (ps : List (String × Ty)) (args : List (VTy × List Bool)) (callee : BEnv),
    bindParams ps args = some callee → ArgsWF args → WFB callee
  | [], [], callee, h, _ => by simp only [bindParams, Option.some.injEq] at h; subst h; exact WFB.nil
  | [], _ :: _, _, h, _ => by simp [bindParams] at h
  | _ :: _, [], _, h, _ => by simp [bindParams] at h
  | (x, ty) :: ps, (t, bs) :: as, callee, h, ha => by
    simp only [bindParams] at h
    split at h
    · split at h
      · rename_i env henv
        simp only [Option.some.injEq] at h; subst h
        exact (bindParams_wf ps as env henv (fun a h' => ha a (by simp [h']))).append
          (WFB.cons (ha (t, bs) (by simp)) WFB.nil)
      · simp at h
    · simp at h

/-! ### the compiled code -/

theorem aggEq_width {op : Src.BinOp} {ty : Ty} {ra : Option (VTy × List Bool × P × BEnv)}
    {rb : BEnv → Option (VTy × List Bool × P × BEnv)} {t : VTy} {bs : List Bool} {p : P} {benv' : BEnv}
    (h : aggEq op ty ra rb = some (t, bs, p, benv'))
    (ha : ∀ t x p e, ra = some (t, x, p, e) → WFB e)
    (hb : ∀ e0 t x p e, WFB e0 → rb e0 = some (t, x, p, e) → WFB e) : bs.length = t.toTy.size ∧ WFB benv' := by
  unfold aggEq at h
  split at h
  · split at h
    · rename_i ta x p1 env1
      split at h
      · rename_i tb y p2 env2 hrb
        split at h
        · simp only [Option.some.injEq, Prod.mk.injEq] at h
          obtain ⟨rfl, rfl, _, rfl⟩ := h
          exact ⟨by simp [VTy.toTy, STy.toTy, Ty.size], hb _ _ _ _ _ (ha _ _ _ _ rfl) hrb⟩
        · simp at h
      · simp at h
    · simp at h
  · simp at h

theorem foldLoop_wf (f : List Bool → BEnv → Option (P × BEnv))
    (hf : ∀ el env pb envb, WFB env → f el env = some (pb, envb) → WFB envb) :
    ∀ (els : List (List Bool)) (p0 : P) (e0 : BEnv) (p2 : P) (env2 : BEnv), WFB e0 →
      foldLoop f els (p0, e0) = some (p2, env2) → WFB env2
  | [], p0, e0, p2, env2, h0, h => by
    simp only [foldLoop, Option.some.injEq, Prod.mk.injEq] at h; obtain ⟨_, rfl⟩ := h; exact h0
  | el :: rest, p0, e0, p2, env2, h0, h => by
    simp only [foldLoop] at h
    split at h
    · rename_i pb envb hfe
      exact foldLoop_wf f hf rest _ _ _ _ (hf el e0 pb envb h0 hfe).restore h
    · simp at h

mutual
theorem widthE (call : Ctx) (hc : CallWF call) : (e : Expr) → ∀ (benv : BEnv) (t : VTy) (bs : List Bool) (p : P) (benv' : BEnv),
    bitExpr call benv e = some (t, bs, p, benv') → WFB benv → bs.length = t.toTy.size ∧ WFB benv'
  | .bool b, benv, t, bs, p, benv', h, hw => by
    simp only [bitExpr, Option.some.injEq, Prod.mk.injEq] at h; obtain ⟨rfl, rfl, _, rfl⟩ := h
    exact ⟨rfl, hw⟩
  | .int n k, benv, t, bs, p, benv', h, hw => by
    simp only [bitExpr] at h
    split at h
    · simp only [Option.some.injEq, Prod.mk.injEq] at h; obtain ⟨rfl, rfl, _, rfl⟩ := h
      exact ⟨by simp [intToBits_length, VTy.toTy, STy.toTy, Ty.size], hw⟩
    · simp at h
  | .var x, benv, t, bs, p, benv', h, hw => by
    simp only [bitExpr] at h
    split at h
    · rename_i t' bs' hg
      simp only [Option.some.injEq, Prod.mk.injEq] at h; obtain ⟨rfl, rfl, _, rfl⟩ := h
      exact ⟨hw.get hg, hw⟩
    · simp at h
  | .un op ty a, benv, t, bs, p, benv', h, hw => by
    cases op with
    | not =>
      cases ty <;> simp only [bitExpr] at h
      case bool =>
        split at h
        · rename_i b p1 env1 ha
          simp only [Option.some.injEq, Prod.mk.injEq] at h; obtain ⟨rfl, rfl, _, rfl⟩ := h
          exact ⟨rfl, (widthE call hc a _ _ _ _ _ ha hw).2⟩
        · simp at h
      case int k =>
        split at h
        · rename_i k' bs' p1 env1 ha
          split at h
          · rename_i hk
            subst hk
            simp only [Option.some.injEq, Prod.mk.injEq] at h; obtain ⟨rfl, rfl, _, rfl⟩ := h
            have iha := widthE call hc a _ _ _ _ _ ha hw
            exact ⟨by rw [List.length_map]; exact iha.1, iha.2⟩
          · simp at h
        · simp at h
      all_goals (simp at h)
    | neg =>
      cases ty <;> simp only [bitExpr] at h
      case int k =>
        split at h
        · split at h
          · rename_i k' bs' p1 env1 ha
            split at h
            · rename_i hk
              subst hk
              simp only [Option.some.injEq, Prod.mk.injEq] at h; obtain ⟨rfl, rfl, _, rfl⟩ := h
              have iha := widthE call hc a _ _ _ _ _ ha hw
              exact ⟨by rw [negChecked_length]; exact iha.1, iha.2⟩
            · simp at h
          · simp at h
        · simp at h
      all_goals (simp at h)
  | .cast src dst a, benv, t, bs, p, benv', h, hw => by
    simp only [bitExpr] at h
    split at h
    · rename_i ts td hs hd
      split at h
      · rename_i ta x p1 env1 ha
        split at h
        · rename_i hta
          subst hta
          simp only [Option.some.injEq, Prod.mk.injEq] at h; obtain ⟨rfl, rfl, _, rfl⟩ := h
          have iha := widthE call hc a _ _ _ _ _ ha hw
          have hx : x ≠ [] := ne_nil_of_length iha.1 (by cases ta <;> simp [VTy.toTy, STy.toTy, Ty.size, IntTy.bits_pos])
          exact ⟨by rw [cast_length _ _ _ hx]; cases td <;> simp [VTy.toTy, STy.toTy, Ty.size, STy.bits], iha.2⟩
        · simp at h
      · simp at h
    · simp at h
  | .ite c tb fb, benv, t, bs, p, benv', h, hw => by
    simp only [bitExpr] at h
    split at h
    · rename_i cb pc env1 hcnd
      split at h
      · rename_i tt tbits pt envT tf fbits pf envF hT hF
        split at h
        · rename_i htt
          subst htt
          simp only [Option.some.injEq, Prod.mk.injEq] at h; obtain ⟨rfl, rfl, _, rfl⟩ := h
          have h1 := widthE call hc c _ _ _ _ _ hcnd hw
          have h2 := widthE call hc tb _ _ _ _ _ hT h1.2
          have h3 := widthE call hc fb _ _ _ _ _ hF h1.2
          refine ⟨by cases cb <;> simp [h2.1, h3.1], ?_⟩
          exact WFB.mux _ _ _ (by rw [shapeE call tb _ _ _ _ _ hT, shapeE call fb _ _ _ _ _ hF]) h2.2 h3.2
        · simp at h
      · simp at h
    · simp at h
  | .block ss, benv, t, bs, p, benv', h, hw => by
    simp only [bitExpr] at h
    split at h
    · rename_i t' bs' p' env1 hs
      simp only [Option.some.injEq, Prod.mk.injEq] at h; obtain ⟨rfl, rfl, _, rfl⟩ := h
      have := widthSS call hc ss _ _ _ _ _ hs hw
      exact ⟨this.1, this.2.restore⟩
    · simp at h
  | .bin op ty a b, benv, t, bs, p, benv', h, hw => by
    cases op
    case land =>
      simp only [bitExpr] at h
      split at h
      · rename_i x p1 env1 ha
        split at h
        · rename_i y p2 env2 hb
          simp only [Option.some.injEq, Prod.mk.injEq] at h; obtain ⟨rfl, rfl, _, rfl⟩ := h
          have h1 := widthE call hc a _ _ _ _ _ ha hw
          have h2 := widthE call hc b _ _ _ _ _ hb h1.2
          exact ⟨rfl, WFB.mux _ _ _ (shapeE call b _ _ _ _ _ hb) h2.2 h1.2⟩
        · simp at h
      · simp at h
    case lor =>
      simp only [bitExpr] at h
      split at h
      · rename_i x p1 env1 ha
        split at h
        · rename_i y p2 env2 hb
          simp only [Option.some.injEq, Prod.mk.injEq] at h; obtain ⟨rfl, rfl, _, rfl⟩ := h
          have h1 := widthE call hc a _ _ _ _ _ ha hw
          have h2 := widthE call hc b _ _ _ _ _ hb h1.2
          exact ⟨rfl, WFB.mux _ _ _ (shapeE call b _ _ _ _ _ hb).symm h1.2 h2.2⟩
        · simp at h
      · simp at h
    case shl =>
      simp only [bitExpr] at h
      split at h
      · split at h
        · rename_i k' x p1 env1 ha
          split at h
          · rename_i y p2 env2 hb
            split at h
            · rename_i hk
              subst hk
              simp only [Option.some.injEq, Prod.mk.injEq] at h; obtain ⟨rfl, rfl, _, rfl⟩ := h
              have h1 := widthE call hc a _ _ _ _ _ ha hw
              have h2 := widthE call hc b _ _ _ _ _ hb h1.2
              refine ⟨?_, h2.2⟩
              unfold Arith.binop
              simp only [shift_length]
              exact h1.1
            · simp at h
          · simp at h
        · simp at h
      · simp at h
    case shr =>
      simp only [bitExpr] at h
      split at h
      · split at h
        · rename_i k' x p1 env1 ha
          split at h
          · rename_i y p2 env2 hb
            split at h
            · rename_i hk
              subst hk
              simp only [Option.some.injEq, Prod.mk.injEq] at h; obtain ⟨rfl, rfl, _, rfl⟩ := h
              have h1 := widthE call hc a _ _ _ _ _ ha hw
              have h2 := widthE call hc b _ _ _ _ _ hb h1.2
              refine ⟨?_, h2.2⟩
              unfold Arith.binop
              simp only [shift_length]
              exact h1.1
            · simp at h
          · simp at h
        · simp at h
      · simp at h
    case mul =>
      simp only [bitExpr, if_true] at h
      split at h
      · obtain ⟨_, _, y, p2, ho, rfl, rfl, _⟩ := litMul_some h
        have h1 := widthE call hc b _ _ _ _ _ ho hw
        exact ⟨by rw [constMul_length]; exact h1.1, h1.2⟩
      · obtain ⟨_, _, y, p2, ho, rfl, rfl, _⟩ := litMul_some h
        have h1 := widthE call hc a _ _ _ _ _ ho hw
        exact ⟨by rw [constMul_length]; exact h1.1, h1.2⟩
      · split at h
        · exact aggEq_width h (fun _ _ _ _ hh => (widthE call hc a _ _ _ _ _ hh hw).2)
            (fun _ _ _ _ _ hw0 hh => (widthE call hc b _ _ _ _ _ hh hw0).2)
        · split at h
          · rename_i ta x p1 env1 ha
            split at h
            · rename_i tb y p2 env2 hb
              split at h
              · rename_i hts
                obtain ⟨rfl, rfl⟩ := hts
                split at h
                · rename_i tr r panics hbin
                  simp only [Option.some.injEq, Prod.mk.injEq] at h; obtain ⟨rfl, rfl, _, rfl⟩ := h
                  have h1 := widthE call hc a _ _ _ _ _ ha hw
                  have h2 := widthE call hc b _ _ _ _ _ hb h1.2
                  exact ⟨binBits_width _ _ x y tr r panics h1.1 h2.1 hbin, h2.2⟩
                · simp at h
              · simp at h
            · simp at h
          · simp at h
    all_goals
      simp only [bitExpr] at h
      split at h
      · rename_i heq; simp at heq
      · rename_i heq; simp at heq
      split at h
      · exact aggEq_width h (fun _ _ _ _ hh => (widthE call hc a _ _ _ _ _ hh hw).2)
          (fun _ _ _ _ _ hw0 hh => (widthE call hc b _ _ _ _ _ hh hw0).2)
      · split at h
        · rename_i ta x p1 env1 ha
          split at h
          · rename_i tb y p2 env2 hb
            split at h
            · rename_i hts
              obtain ⟨rfl, rfl⟩ := hts
              split at h
              · rename_i tr r panics hbin
                simp only [Option.some.injEq, Prod.mk.injEq] at h; obtain ⟨rfl, rfl, _, rfl⟩ := h
                have h1 := widthE call hc a _ _ _ _ _ ha hw
                have h2 := widthE call hc b _ _ _ _ _ hb h1.2
                exact ⟨binBits_width _ _ x y tr r panics h1.1 h2.1 hbin, h2.2⟩
              · simp at h
            · simp at h
          · simp at h
        · simp at h
  | .tuple es, benv, t, bs, p, benv', h, hw => by
    cases es with
    | nil =>
      simp only [bitExpr, Option.some.injEq, Prod.mk.injEq] at h; obtain ⟨rfl, rfl, _, rfl⟩ := h
      exact ⟨by simp [VTy.toTy, Ty.size, TyList.size], hw⟩
    | cons e es =>
      simp only [bitExpr] at h
      split at h
      · rename_i vs p1 env1 hl
        simp only [Option.some.injEq, Prod.mk.injEq] at h; obtain ⟨rfl, rfl, _, rfl⟩ := h
        have := widthL call hc (.cons e es) _ _ _ _ hl hw
        exact ⟨by simpa [VTy.toTy, Ty.size] using args_flat_length vs this.1, this.2⟩
      · simp at h
  | .tupleGet a i, benv, t, bs, p, benv', h, hw => by
    simp only [bitExpr] at h
    split at h
    · rename_i ts bs1 p1 env1 ha
      split at h
      · rename_i off ti hn
        simp only [Option.some.injEq, Prod.mk.injEq] at h; obtain ⟨rfl, rfl, _, rfl⟩ := h
        have h1 := widthE call hc a _ _ _ _ _ ha hw
        have hb := nth?_bound ts i off ti hn
        refine ⟨?_, h1.2⟩
        rw [VTy.toTy_ofTy]
        exact slice_length bs1 off ti.size (by have := h1.1; simp only [VTy.toTy, Ty.size] at this; omega)
      · simp at h
    · simp at h
  | .array es, benv, t, bs, p, benv', h, hw => by
    cases es with
    | nil => simp [bitExpr] at h
    | cons e es =>
      simp only [bitExpr] at h
      split at h
      · rename_i t0 b0 vs p1 env1 hl
        split at h
        · rename_i hall
          simp only [Option.some.injEq, Prod.mk.injEq] at h; obtain ⟨rfl, rfl, _, rfl⟩ := h
          have := widthL call hc (.cons e es) _ _ _ _ hl hw
          refine ⟨?_, this.2⟩
          have hfl := array_flat_length t0 ((t0, b0) :: vs) this.1 (by
            intro x hx
            simp only [List.mem_cons] at hx
            rcases hx with rfl | hx
            · rfl
            · simpa using (List.all_eq_true.mp hall) x hx)
          simpa [VTy.toTy, Ty.size] using hfl
        · simp at h
      · simp at h
  | .repeat_ a n, benv, t, bs, p, benv', h, hw => by
    simp only [bitExpr] at h
    split at h
    · rename_i t1 bs1 p1 env1 ha
      simp only [Option.some.injEq, Prod.mk.injEq] at h; obtain ⟨rfl, rfl, _, rfl⟩ := h
      have h1 := widthE call hc a _ _ _ _ _ ha hw
      exact ⟨by rw [replicate_flat_length, h1.1]; simp [VTy.toTy, Ty.size], h1.2⟩
    · simp at h
  | .index a i, benv, t, bs, p, benv', h, hw => by
    simp only [bitExpr] at h
    split at h
    · rename_i te n abits pa env1 ha
      split at h
      · rename_i ibits pi env2 hi
        split at h
        · simp only [Option.some.injEq, Prod.mk.injEq] at h; obtain ⟨rfl, rfl, _, rfl⟩ := h
          have h1 := widthE call hc a _ _ _ _ _ ha hw
          have h2 := widthE call hc i _ _ _ _ _ hi h1.2
          refine ⟨?_, h2.2⟩
          rw [VTy.toTy_ofTy]
          exact index_sel_length te.size n abits ibits (by
            have := h1.1; simpa [VTy.toTy, Ty.size, Nat.mul_comm] using this)
        · simp at h
      · simp at h
    · simp at h
  | .range lo hi k, benv, t, bs, p, benv', h, hw => by
    simp only [bitExpr] at h
    split at h
    · simp only [Option.some.injEq, Prod.mk.injEq] at h; obtain ⟨rfl, rfl, _, rfl⟩ := h
      exact ⟨by rw [range_flat_length]; simp [VTy.toTy, Ty.size], hw⟩
    · simp at h
  | .struct name fs, benv, t, bs, p, benv', h, hw => by
    simp only [bitExpr] at h
    split at h
    · rename_i vs p1 env1 hf
      simp only [Option.some.injEq, Prod.mk.injEq] at h; obtain ⟨rfl, rfl, _, rfl⟩ := h
      have := widthF call hc fs _ _ _ _ hf hw
      exact ⟨by simpa [VTy.toTy, Ty.size] using fields_flat_length vs this.1, this.2⟩
    · simp at h
  | .field a fname, benv, t, bs, p, benv', h, hw => by
    simp only [bitExpr] at h
    split at h
    · rename_i sn fs bs1 p1 env1 ha
      split at h
      · rename_i off ti hn
        simp only [Option.some.injEq, Prod.mk.injEq] at h; obtain ⟨rfl, rfl, _, rfl⟩ := h
        have h1 := widthE call hc a _ _ _ _ _ ha hw
        have hb := fields_nth?_bound fs fname off ti hn
        refine ⟨?_, h1.2⟩
        rw [VTy.toTy_ofTy]
        exact slice_length bs1 off ti.size (by have := h1.1; simp only [VTy.toTy, Ty.size] at this; omega)
      · simp at h
    · simp at h
  | .enumLit ename variant isUnit es, benv, t, bs, p, benv', h, hw => by
    simp only [bitExpr] at h
    split at h
    · rename_i variants hdef
      split at h
      · rename_i i u fts hf
        split at h
        · rename_i vs p1 env1 hl
          split at h
          · rename_i hty
            simp only [Option.some.injEq, Prod.mk.injEq] at h; obtain ⟨rfl, rfl, _, rfl⟩ := h
            have := widthL call hc es _ _ _ _ hl hw
            have hpl := args_flat_length_typed vs fts this.1 hty.2
            have hle := Variants.find?_size_le variants variant i u fts hf
            refine ⟨?_, this.2⟩
            simp only [List.length_append, natToBits_length, List.length_replicate, hpl, VTy.toTy, Ty.size]
            omega
          · simp at h
        · simp at h
      · simp at h
    · simp at h
  | .match_ scrut arms, benv, t, bs, p, benv', h, hw => by
    simp only [bitExpr] at h
    split at h
    · rename_i ts sb ps env1 hs
      split at h
      · split at h
        · rename_i hp t' bs' pa envF ha
          simp only [Option.some.injEq, Prod.mk.injEq] at h; obtain ⟨rfl, rfl, _, rfl⟩ := h
          have h1 := widthE call hc scrut _ _ _ _ _ hs hw
          have := widthArms call hc arms env1 ts.toTy sb _ _ ha h1.2 h1.1 (by intro tr rb hh; simp at hh) h1.2 rfl
          exact ⟨this.1 _ _ rfl, this.2⟩
        · simp at h
      · simp at h
    · simp at h
  | .call fn args, benv, t, bs, p, benv', h, hw => by
    simp only [bitExpr] at h
    split at h
    · rename_i vs pargs env1 hl
      split at h
      · rename_i t' bs' pb hcall
        simp only [Option.some.injEq, Prod.mk.injEq] at h; obtain ⟨rfl, rfl, _, rfl⟩ := h
        have := widthL call hc args _ _ _ _ hl hw
        exact ⟨hc fn vs _ _ _ hcall this.1, this.2⟩
      · simp at h
    · simp at h
theorem widthL (call : Ctx) (hc : CallWF call) : (es : ExprList) → ∀ (benv : BEnv) (vs : List (VTy × List Bool)) (p : P) (benv' : BEnv),
    bitList call benv es = some (vs, p, benv') → WFB benv → ArgsWF vs ∧ WFB benv'
  | .nil, benv, vs, p, benv', h, hw => by
    simp only [bitList, Option.some.injEq, Prod.mk.injEq] at h; obtain ⟨rfl, _, rfl⟩ := h
    exact ⟨by intro a ha; simp at ha, hw⟩
  | .cons e rest, benv, vs, p, benv', h, hw => by
    simp only [bitList] at h
    split at h
    · rename_i t bs p1 env1 he
      split at h
      · rename_i vs2 p2 env2 hr
        simp only [Option.some.injEq, Prod.mk.injEq] at h; obtain ⟨rfl, _, rfl⟩ := h
        have h1 := widthE call hc e _ _ _ _ _ he hw
        have h2 := widthL call hc rest _ _ _ _ hr h1.2
        refine ⟨?_, h2.2⟩
        intro a ha
        simp only [List.mem_cons] at ha
        rcases ha with rfl | ha
        · exact h1.1
        · exact h2.1 a ha
      · simp at h
    · simp at h
theorem widthF (call : Ctx) (hc : CallWF call) : (fs : FieldExprs) → ∀ (benv : BEnv) (vs : List (String × VTy × List Bool)) (p : P)
    (benv' : BEnv), bitFields call benv fs = some (vs, p, benv') → WFB benv →
      (∀ a, a ∈ vs → a.2.2.length = a.2.1.toTy.size) ∧ WFB benv'
  | .nil, benv, vs, p, benv', h, hw => by
    simp only [bitFields, Option.some.injEq, Prod.mk.injEq] at h; obtain ⟨rfl, _, rfl⟩ := h
    exact ⟨by intro a ha; simp at ha, hw⟩
  | .cons n e rest, benv, vs, p, benv', h, hw => by
    simp only [bitFields] at h
    split at h
    · rename_i t bs p1 env1 he
      split at h
      · rename_i vs2 p2 env2 hr
        simp only [Option.some.injEq, Prod.mk.injEq] at h; obtain ⟨rfl, _, rfl⟩ := h
        have h1 := widthE call hc e _ _ _ _ _ he hw
        have h2 := widthF call hc rest _ _ _ _ hr h1.2
        refine ⟨?_, h2.2⟩
        intro a ha
        simp only [List.mem_cons] at ha
        rcases ha with rfl | ha
        · exact h1.1
        · exact h2.1 a ha
      · simp at h
    · simp at h
theorem widthArms (call : Ctx) (hc : CallWF call) : (arms : Arms) → ∀ (benv1 : BEnv) (ts : Ty) (sb : List Bool) (st st' : ArmSt),
    bitArms call benv1 ts sb arms st = some st' → WFB benv1 → sb.length = ts.size →
    (∀ tr rb, st.2.1 = some (tr, rb) → rb.length = tr.toTy.size) → WFB st.2.2.2 → shape st.2.2.2 = shape benv1 →
    (∀ tr rb, st'.2.1 = some (tr, rb) → rb.length = tr.toTy.size) ∧ WFB st'.2.2.2
  | .nil, benv1, ts, sb, st, st', h, _, _, hr, hwa, _ => by
    simp only [bitArms, Option.some.injEq] at h; subst h; exact ⟨hr, hwa⟩
  | .cons p e rest, benv1, ts, sb, (hasPrev, ret, pacc, envAcc), st', h, hw1, hsb, hr, hwa, hs => by
    simp only [bitArms] at h
    split at h
    · simp at h
    · rename_i m bb hpb
      split at h
      · simp at h
      · rename_i te be pe enve he
        have hbb := patG_wf p ts sb m bb hsb hpb
        have h1 := widthE call hc e _ _ _ _ _ he (hbb.append hw1)
        have hse := shapeE call e _ _ _ _ _ he
        have hout : shape (armOut bb enve) = shape benv1 := shape_armOut bb benv1 enve hse
        have hwout : WFB (armOut bb enve) := h1.2.drop _
        have hmuxw : WFB (muxEnv (!hasPrev && m) (armOut bb enve) envAcc) :=
          WFB.mux _ _ _ (by rw [hout]; exact hs.symm) hwout hwa
        have hmuxs : shape (muxEnv (!hasPrev && m) (armOut bb enve) envAcc) = shape benv1 := by
          rw [shape_muxEnv _ _ _ (by rw [hout]; exact hs.symm), hout]
        split at h
        · rename_i tr rbits
          split at h
          · rename_i htr
            subst htr
            refine widthArms call hc rest benv1 ts sb _ st' h hw1 hsb ?_ hmuxw hmuxs
            intro tr' rb' hh
            simp only [Option.some.injEq, Prod.mk.injEq] at hh
            obtain ⟨rfl, rfl⟩ := hh
            have := hr tr rbits rfl
            split <;> simp_all
          · simp at h
        · refine widthArms call hc rest benv1 ts sb _ st' h hw1 hsb ?_ hmuxw hmuxs
          intro tr' rb' hh
          simp only [Option.some.injEq, Prod.mk.injEq] at hh
          obtain ⟨rfl, rfl⟩ := hh
          split <;> simp [h1.1]
theorem widthSS (call : Ctx) (hc : CallWF call) : (ss : StmtList) → ∀ (benv : BEnv) (t : VTy) (bs : List Bool) (p : P) (benv' : BEnv),
    bitStmts call benv ss = some (t, bs, p, benv') → WFB benv → bs.length = t.toTy.size ∧ WFB benv'
  | .nil, benv, t, bs, p, benv', h, hw => by
    simp only [bitStmts, Option.some.injEq, Prod.mk.injEq] at h; obtain ⟨rfl, rfl, _, rfl⟩ := h
    exact ⟨by simp [VTy.toTy, Ty.size, TyList.size], hw⟩
  | .cons s .nil, benv, t, bs, p, benv', h, hw => by
    simp only [bitStmts] at h
    exact widthS call hc s _ _ _ _ _ h hw
  | .cons s (.cons s2 rest), benv, t, bs, p, benv', h, hw => by
    simp only [bitStmts] at h
    split at h
    · rename_i t1 bs1 p1 env1 hs
      split at h
      · rename_i t2 bs2 p2 env2 hr
        simp only [Option.some.injEq, Prod.mk.injEq] at h; obtain ⟨rfl, rfl, _, rfl⟩ := h
        have h1 := widthS call hc s _ _ _ _ _ hs hw
        exact widthSS call hc (.cons s2 rest) _ _ _ _ _ hr h1.2
      · simp at h
    · simp at h
theorem widthS (call : Ctx) (hc : CallWF call) : (s : Stmt) → ∀ (benv : BEnv) (t : VTy) (bs : List Bool) (p : P) (benv' : BEnv),
    bitStmt call benv s = some (t, bs, p, benv') → WFB benv → bs.length = t.toTy.size ∧ WFB benv'
  | .let_ pat e, benv, t, bs, p, benv', h, hw => by
    have hunit : ([] : List Bool).length = VTy.unit.toTy.size := by simp [VTy.toTy, Ty.size, TyList.size]
    cases pat <;> simp only [bitStmt] at h
    case ident x =>
      split at h
      · rename_i t1 bs1 p1 env1 he
        simp only [Option.some.injEq, Prod.mk.injEq] at h; obtain ⟨rfl, rfl, _, rfl⟩ := h
        have h1 := widthE call hc e _ _ _ _ _ he hw
        exact ⟨hunit, WFB.cons h1.1 h1.2⟩
      · simp at h
    case tuple ps =>
      split at h
      · rename_i t1 bs1 p1 env1 he
        split at h
        · split at h
          · rename_i m bb hp
            simp only [Option.some.injEq, Prod.mk.injEq] at h; obtain ⟨rfl, rfl, _, rfl⟩ := h
            have h1 := widthE call hc e _ _ _ _ _ he hw
            exact ⟨hunit, (patG_wf _ _ _ m bb h1.1 hp).append h1.2⟩
          · simp at h
        · simp at h
      · simp at h
    case struct sn fps =>
      split at h
      · rename_i t1 bs1 p1 env1 he
        split at h
        · split at h
          · rename_i m bb hp
            simp only [Option.some.injEq, Prod.mk.injEq] at h; obtain ⟨rfl, rfl, _, rfl⟩ := h
            have h1 := widthE call hc e _ _ _ _ _ he hw
            exact ⟨hunit, (patG_wf _ _ _ m bb h1.1 hp).append h1.2⟩
          · simp at h
        · simp at h
      · simp at h
    case enumTuple en vn ps =>
      split at h
      · rename_i t1 bs1 p1 env1 he
        split at h
        · split at h
          · rename_i m bb hp
            simp only [Option.some.injEq, Prod.mk.injEq] at h; obtain ⟨rfl, rfl, _, rfl⟩ := h
            have h1 := widthE call hc e _ _ _ _ _ he hw
            exact ⟨hunit, (patG_wf _ _ _ m bb h1.1 hp).append h1.2⟩
          · simp at h
        · simp at h
      · simp at h
    all_goals (simp at h)
  | .letMut x e, benv, t, bs, p, benv', h, hw => by
    simp only [bitStmt] at h
    split at h
    · rename_i t1 bs1 p1 env1 he
      simp only [Option.some.injEq, Prod.mk.injEq] at h; obtain ⟨rfl, rfl, _, rfl⟩ := h
      have h1 := widthE call hc e _ _ _ _ _ he hw
      exact ⟨by simp [VTy.toTy, Ty.size, TyList.size], WFB.cons h1.1 h1.2⟩
    · simp at h
  | .assign x path e, benv, t, bs, p, benv', h, hw => by
    have hunit : ([] : List Bool).length = VTy.unit.toTy.size := by simp [VTy.toTy, Ty.size, TyList.size]
    cases path <;> simp only [bitStmt] at h
    case nil =>
      split at h
      · rename_i t1 bs1 p1 env1 he
        split at h
        · rename_i t' old hg
          split at h
          · rename_i htt
            subst htt
            simp only [Option.some.injEq, Prod.mk.injEq] at h; obtain ⟨rfl, rfl, _, rfl⟩ := h
            have h1 := widthE call hc e _ _ _ _ _ he hw
            exact ⟨hunit, h1.2.set x _ old bs1 hg h1.1⟩
          · simp at h
        · simp at h
      · simp at h
    case index i rest =>
      split at h
      · rename_i t1 bs1 p1 env1 he
        split at h
        · rename_i tx xbits hg
          split at h
          · rename_i xb' p2 env2 hu
            simp only [Option.some.injEq, Prod.mk.injEq] at h; obtain ⟨rfl, rfl, _, rfl⟩ := h
            have h1 := widthE call hc e _ _ _ _ _ he hw
            have h2 := widthU call hc (.index i rest) _ _ _ _ _ _ _ _ hu h1.2 (h1.2.get hg) h1.1
            obtain ⟨xb2, hgx⟩ := get?_of_shape' (shapeU call (.index i rest) _ _ _ _ _ _ _ _ hu) hg
            exact ⟨hunit, h2.2.set x tx xb2 xb' hgx h2.1⟩
          · simp at h
        · simp at h
      · simp at h
    case tup i rest =>
      split at h
      · rename_i t1 bs1 p1 env1 he
        split at h
        · rename_i tx xbits hg
          split at h
          · rename_i xb' p2 env2 hu
            simp only [Option.some.injEq, Prod.mk.injEq] at h; obtain ⟨rfl, rfl, _, rfl⟩ := h
            have h1 := widthE call hc e _ _ _ _ _ he hw
            have h2 := widthU call hc (.tup i rest) _ _ _ _ _ _ _ _ hu h1.2 (h1.2.get hg) h1.1
            obtain ⟨xb2, hgx⟩ := get?_of_shape' (shapeU call (.tup i rest) _ _ _ _ _ _ _ _ hu) hg
            exact ⟨hunit, h2.2.set x tx xb2 xb' hgx h2.1⟩
          · simp at h
        · simp at h
      · simp at h
    case fld i rest =>
      split at h
      · rename_i t1 bs1 p1 env1 he
        split at h
        · rename_i tx xbits hg
          split at h
          · rename_i xb' p2 env2 hu
            simp only [Option.some.injEq, Prod.mk.injEq] at h; obtain ⟨rfl, rfl, _, rfl⟩ := h
            have h1 := widthE call hc e _ _ _ _ _ he hw
            have h2 := widthU call hc (.fld i rest) _ _ _ _ _ _ _ _ hu h1.2 (h1.2.get hg) h1.1
            obtain ⟨xb2, hgx⟩ := get?_of_shape' (shapeU call (.fld i rest) _ _ _ _ _ _ _ _ hu) hg
            exact ⟨hunit, h2.2.set x tx xb2 xb' hgx h2.1⟩
          · simp at h
        · simp at h
      · simp at h
  | .expr e, benv, t, bs, p, benv', h, hw => by
    simp only [bitStmt] at h
    exact widthE call hc e _ _ _ _ _ h hw
  | .for_ pat arr body, benv, t, bs, p, benv', h, hw => by
    simp only [bitStmt] at h
    split at h
    · rename_i te n abits pa env1 ha
      split at h
      · split at h
        · rename_i p2 env2 hl
          simp only [Option.some.injEq, Prod.mk.injEq] at h; obtain ⟨rfl, rfl, _, rfl⟩ := h
          have h1 := widthE call hc arr _ _ _ _ _ ha hw
          have hal : abits.length = n * te.size := by
            have := h1.1; simpa [VTy.toTy, Ty.size, Nat.mul_comm] using this
          refine ⟨by simp [VTy.toTy, Ty.size, TyList.size], ?_⟩
          -- every element has `te.size` wires; the body keeps the variables well-sized
          have key : ∀ (els : List (List Bool)), (∀ a, a ∈ els → a.length = te.size) → ∀ (p0 : P) (e0 : BEnv) (p3 : P) (e3 : BEnv),
              WFB e0 → foldLoop (fun el env =>
                match patG pat te el with
                | some (_, bb) =>
                  match bitStmts call (bb ++ env) body with
                  | some (_, _, pb, envb) => some (pb, envb)
                  | none => none
                | none => none) els (p0, e0) = some (p3, e3) → WFB e3 := by
            intro els
            induction els with
            | nil =>
              intro _ p0 e0 p3 e3 h0 hh
              simp only [foldLoop, Option.some.injEq, Prod.mk.injEq] at hh; obtain ⟨_, rfl⟩ := hh; exact h0
            | cons el rest ih =>
              intro hsz p0 e0 p3 e3 h0 hh
              simp only [foldLoop] at hh
              split at hh
              · rename_i pb envb hstep
                split at hstep
                · rename_i m bb hpat
                  split at hstep
                  · rename_i t1 b1 pb1 envb1 hbody
                    simp only [Option.some.injEq, Prod.mk.injEq] at hstep
                    obtain ⟨_, rfl⟩ := hstep
                    have hbb := patG_wf pat te el m bb (hsz el (by simp)) hpat
                    have hb := widthSS call hc body _ _ _ _ _ hbody (hbb.append h0)
                    exact ih (fun a ha => hsz a (by simp [ha])) _ _ _ _ hb.2.restore hh
                  · simp at hstep
                · simp at hstep
              · simp at hh
          exact key _ (chunks_sizes te.size n abits hal) _ _ _ _ h1.2 hl
        · simp at h
      · simp at h
    · simp at h
  | .forJoin _ _ _ _, _, _, _, _, _, h, _ => by simp [bitStmt] at h
theorem widthU (call : Ctx) (hc : CallWF call) : (path : Path) → ∀ (benv : BEnv) (t : Ty) (cur : List Bool) (vt : VTy) (vb out : List Bool)
    (p : P) (benv' : BEnv), bitUpd call benv t cur vt vb path = some (out, p, benv') → WFB benv → cur.length = t.size →
    vb.length = vt.toTy.size → out.length = t.size ∧ WFB benv'
  | .nil, benv, t, cur, vt, vb, out, p, benv', h, hw, _, hvb => by
    simp only [bitUpd] at h
    split at h
    · rename_i hvt
      simp only [Option.some.injEq, Prod.mk.injEq] at h; obtain ⟨rfl, _, rfl⟩ := h
      subst hvt
      exact ⟨by rw [hvb, VTy.toTy_ofTy], hw⟩
    · simp at h
  | .tup i rest, benv, t, cur, vt, vb, out, p, benv', h, hw, hcur, hvb => by
    simp only [bitUpd] at h
    split at h
    · rename_i ts
      split at h
      · rename_i off ti hn
        split at h
        · rename_i sub p1 env1 hu
          simp only [Option.some.injEq, Prod.mk.injEq] at h; obtain ⟨rfl, _, rfl⟩ := h
          have hb := nth?_bound ts i off ti hn
          simp only [Ty.size] at hcur
          have h1 := widthU call hc rest _ _ _ _ _ _ _ _ hu hw (slice_length cur off ti.size (by omega)) hvb
          exact ⟨by rw [splice_length cur sub off ti.size (by omega) h1.1]; simpa [Ty.size] using hcur, h1.2⟩
        · simp at h
      · simp at h
    · simp at h
  | .fld f rest, benv, t, cur, vt, vb, out, p, benv', h, hw, hcur, hvb => by
    simp only [bitUpd] at h
    split at h
    · rename_i sn fs
      split at h
      · rename_i off ti hn
        split at h
        · rename_i sub p1 env1 hu
          simp only [Option.some.injEq, Prod.mk.injEq] at h; obtain ⟨rfl, _, rfl⟩ := h
          have hb := fields_nth?_bound fs f off ti hn
          simp only [Ty.size] at hcur
          have h1 := widthU call hc rest _ _ _ _ _ _ _ _ hu hw (slice_length cur off ti.size (by omega)) hvb
          exact ⟨by rw [splice_length cur sub off ti.size (by omega) h1.1]; simpa [Ty.size] using hcur, h1.2⟩
        · simp at h
      · simp at h
    · simp at h
  | .index ie rest, benv, t, cur, vt, vb, out, p, benv', h, hw, hcur, hvb => by
    simp only [bitUpd] at h
    split at h
    · rename_i te n
      split at h
      · rename_i ibits pi env1 hi
        split at h
        · split at h
          · rename_i sub p1 env2 hu
            simp only [Option.some.injEq, Prod.mk.injEq] at h; obtain ⟨rfl, _, rfl⟩ := h
            have hal : cur.length = n * te.size := by simpa [Ty.size, Nat.mul_comm] using hcur
            have h0 := widthE call hc ie _ _ _ _ _ hi hw
            have h1 := widthU call hc rest _ _ _ _ _ _ _ _ hu h0.2 (index_sel_length te.size n cur ibits hal) hvb
            refine ⟨?_, h1.2⟩
            rw [writeAll_flat_length ibits sub te.size h1.1 _ 0 (chunks_sizes te.size n cur hal), chunks_length]
            simp [Ty.size, Nat.mul_comm]
          · simp at h
        · simp at h
      · simp at h
    · simp at h
end

/-- calls inlined to any depth keep the widths -/
theorem callAt_wf (prog : Prog) (hcb : ∀ cb, constEnv prog = some cb → WFB cb) : ∀ n, CallWF ⟨callAt prog n, prog.enum?⟩
  | 0 => by intro fn args t bs p h; simp [callAt] at h
  | n + 1 => by
    intro fn args t bs p h hargs
    simp only [callAt] at h
    split at h
    · simp at h
    · rename_i d hfn
      split at h
      · rename_i cb callee hcbe hbp
        split at h
        · rename_i t' bs' p' envB hbody
          simp only [Option.some.injEq, Prod.mk.injEq] at h
          obtain ⟨rfl, rfl, _⟩ := h
          have hcallee : WFB callee := bindParams_wf d.params args callee hbp hargs
          exact (widthSS ⟨callAt prog n, prog.enum?⟩ (callAt_wf prog hcb n) d.body _ _ _ _ _ hbody
            (hcallee.append (hcb cb hcbe))).1
        · simp at h
      · simp at h

theorem constEnvOf_wf (tys : List (String × Ty)) : ∀ (cs : List (String × Val)) (cb : BEnv), constEnvOf tys cs = some cb → WFB cb
  | [], cb, h => by simp only [constEnvOf, Option.some.injEq] at h; subst h; exact WFB.nil
  | (x, v) :: rest, cb, h => by
    simp only [constEnvOf] at h
    split at h
    · rename_i y ty cb' hfind hrest
      split at h
      · rename_i hv
        simp only [Option.some.injEq] at h; subst h
        exact WFB.cons (by rw [VTy.toTy_ofTy]; exact Val.encode_length v ty hv) (constEnvOf_wf tys rest cb' hrest)
      · simp at h
    · simp at h

/-- **widths, whole programs**: with calls inlined to any depth -/
theorem width_program (prog : Prog) (depth : Nat) (benv benv' : BEnv) (body : StmtList) (t : VTy) (bits : List Bool) (p : P)
    (hw : WFB benv) (h : bitStmts ⟨callAt prog depth, prog.enum?⟩ benv body = some (t, bits, p, benv')) :
    bits.length = t.toTy.size ∧ WFB benv' :=
  widthSS ⟨callAt prog depth, prog.enum?⟩ (callAt_wf prog (fun cb hcb => constEnvOf_wf _ _ cb hcb) depth) body _ _ _ _ _ h hw

end Bit
end GV
