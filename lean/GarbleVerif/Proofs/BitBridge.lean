import GarbleVerif.Proofs.ArithCmp
import GarbleVerif.Proofs.Encoding
/-! Bridges between the value encoding (`natToBits` / `intToBits`, Model/Types.lean) and the
big-endian bit-list arithmetic of the compiler model (`Arith.toNat` / `Arith.toInt`). -/
namespace GV
open Arith

theorem toNat_natToBits (n w : Nat) : toNat (natToBits n w) = n % 2 ^ w := by
  induction w with
  | zero => simp [natToBits, toNat_nil, Nat.mod_one]
  | succ w ih =>
    simp only [natToBits, toNat_cons, natToBits_length, ih]
    rw [Nat.pow_succ, Nat.mod_mul]
    have hr : n / 2 ^ w % 2 < 2 := Nat.mod_lt _ (by decide)
    rcases Nat.lt_or_ge (n / 2 ^ w % 2) 1 with h | h
    · have h0 : n / 2 ^ w % 2 = 0 := by omega
      simp [h0]
    · have h1 : n / 2 ^ w % 2 = 1 := by omega
      simp [h1]; omega

theorem toNat_inj : ∀ (xs ys : List Bool), xs.length = ys.length → toNat xs = toNat ys → xs = ys
  | [], [], _, _ => rfl
  | [], _ :: _, h, _ => by simp at h
  | _ :: _, [], h, _ => by simp at h
  | a :: xs, b :: ys, h, ht => by
    simp only [List.length_cons, Nat.add_right_cancel_iff] at h
    rw [toNat_cons, toNat_cons, h] at ht
    have hx := toNat_lt xs
    have hy := toNat_lt ys
    rw [h] at hx
    have hab : a = b ∧ toNat xs = toNat ys := by
      generalize (2 : Nat) ^ ys.length = P at *
      cases a <;> cases b <;> simp at ht ⊢ <;> omega
    rw [hab.1, toNat_inj xs ys h hab.2]

/-- a list of `w` bits whose unsigned value is congruent to `V` is the encoding of `V` -/
theorem eq_intToBits_of_emod (r : List Bool) (w : Nat) (V : Int) (hl : r.length = w)
    (h : (toNat r : Int) % (2 : Int) ^ w = V % (2 : Int) ^ w) : r = intToBits V w := by
  apply toNat_inj
  · rw [hl]; simp [intToBits, natToBits_length]
  · unfold intToBits
    rw [toNat_natToBits]
    have hlt := toNat_lt r
    rw [hl] at hlt
    have hpos : (0 : Int) < (2 : Int) ^ w := Int.pow_pos (by decide)
    have hP : ((2 ^ w : Nat) : Int) = (2 : Int) ^ w := by push_cast; rfl
    have h1 : (toNat r : Int) % (2 : Int) ^ w = toNat r := by
      apply Int.emod_eq_of_lt (by omega)
      rw [← hP]; exact_mod_cast hlt
    rw [h1] at h
    have h0 := Int.emod_nonneg V (Int.ne_of_gt hpos)
    have h2 := Int.emod_lt_of_pos V hpos
    have : (V % (2 : Int) ^ w).toNat < 2 ^ w := by
      have : ((V % (2 : Int) ^ w).toNat : Int) < ((2 ^ w : Nat) : Int) := by
        rw [Int.toNat_of_nonneg h0, hP]; exact h2
      exact_mod_cast this
    rw [Nat.mod_eq_of_lt this]
    have : ((toNat r : Nat) : Int) = ((V % (2 : Int) ^ w).toNat : Int) := by
      rw [Int.toNat_of_nonneg h0]; exact h
    exact_mod_cast this

theorem toNat_intToBits (V : Int) (w : Nat) : (toNat (intToBits V w) : Int) = V % (2 : Int) ^ w := by
  unfold intToBits
  rw [toNat_natToBits]
  have hpos : (0 : Int) < (2 : Int) ^ w := Int.pow_pos (by decide)
  have hP : ((2 ^ w : Nat) : Int) = (2 : Int) ^ w := by push_cast; rfl
  have h0 := Int.emod_nonneg V (Int.ne_of_gt hpos)
  have h2 := Int.emod_lt_of_pos V hpos
  have : (V % (2 : Int) ^ w).toNat < 2 ^ w := by
    have : ((V % (2 : Int) ^ w).toNat : Int) < ((2 ^ w : Nat) : Int) := by
      rw [Int.toNat_of_nonneg h0, hP]; exact h2
    exact_mod_cast this
  rw [Nat.mod_eq_of_lt this, Int.toNat_of_nonneg h0]

end GV
