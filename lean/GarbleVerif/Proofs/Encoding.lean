import GarbleVerif.Model.Value
/-! The documented layout: every well-typed value encodes to exactly `size(T)` bits. -/
namespace GV

theorem natToBits_length (n size : Nat) : (natToBits n size).length = size := by
  induction size with
  | zero => rfl
  | succ s ih => simp [natToBits, ih]

theorem intToBits_length (i : Int) (size : Nat) : (intToBits i size).length = size := by
  simp [intToBits, natToBits_length]

namespace Variants

theorem find?_size_le : ∀ (vs : Variants) (name : String) (i : Nat) (u : Bool) (fts : TyList),
    vs.find? name = some (i, u, fts) → fts.size ≤ vs.maxPayload
  | .nil, _, _, _, _, h => by simp [find?] at h
  | .cons n u' fs r, name, i, u, fts, h => by
    simp only [find?] at h
    split at h
    · simp only [Option.some.injEq, Prod.mk.injEq] at h
      obtain ⟨_, _, rfl⟩ := h
      simp only [maxPayload]; omega
    · split at h
      · rename_i i' u'' fts' hr
        simp only [Option.some.injEq, Prod.mk.injEq] at h
        obtain ⟨_, _, rfl⟩ := h
        have := find?_size_le r name i' u'' fts' hr
        simp only [maxPayload]; omega
      · simp at h

end Variants

mutual
/-- **C09 (size)**: a well-typed value encodes to exactly `size(T)` bits -/
theorem Val.encode_length : ∀ (v : Val) (t : Ty), v.hasType t = true → (v.encode t).length = t.size
  | .bool _, .bool, _ => by simp [Val.encode, Ty.size]
  | .int i, .int k, _ => by simp [Val.encode, Ty.size, intToBits_length]
  | .array vs, .array t n, h => by
    simp only [Val.hasType, Bool.and_eq_true, beq_iff_eq] at h
    simp only [Val.encode, Ty.size, ValList.encodeAll_length vs t h.2, h.1]
  | .tuple vs, .tuple ts, h => by
    simp only [Val.hasType] at h
    simp only [Val.encode, Ty.size, ValList.encodeEach_length vs ts h]
  | .struct _ fvs, .struct _ fs, h => by
    simp only [Val.hasType, Bool.and_eq_true] at h
    simp only [Val.encode, Ty.size, FieldVals.encodeEach_length fvs fs h.2]
  | .enum _ variant _ vs, .enum _ variants, h => by
    simp only [Val.hasType, Bool.and_eq_true] at h
    obtain ⟨_, h2⟩ := h
    simp only [Val.encode, Ty.size]
    split
    · rename_i i u fts hf
      rw [hf] at h2
      simp only [Bool.and_eq_true] at h2
      have hl := ValList.encodeEach_length vs fts h2.2
      have hle := Variants.find?_size_le variants variant i u fts hf
      simp only [List.length_append, natToBits_length, List.length_replicate, hl]
      omega
    · rename_i hf
      rw [hf] at h2
      simp at h2
  | .bool _, .int _, h | .bool _, .array _ _, h | .bool _, .tuple _, h | .bool _, .struct _ _, h
  | .bool _, .enum _ _, h => by simp [Val.hasType] at h
  | .int _, .bool, h | .int _, .array _ _, h | .int _, .tuple _, h | .int _, .struct _ _, h
  | .int _, .enum _ _, h => by simp [Val.hasType] at h
  | .array _, .bool, h | .array _, .int _, h | .array _, .tuple _, h | .array _, .struct _ _, h
  | .array _, .enum _ _, h => by simp [Val.hasType] at h
  | .tuple _, .bool, h | .tuple _, .int _, h | .tuple _, .array _ _, h | .tuple _, .struct _ _, h
  | .tuple _, .enum _ _, h => by simp [Val.hasType] at h
  | .struct _ _, .bool, h | .struct _ _, .int _, h | .struct _ _, .array _ _, h | .struct _ _, .tuple _, h
  | .struct _ _, .enum _ _, h => by simp [Val.hasType] at h
  | .enum _ _ _ _, .bool, h | .enum _ _ _ _, .int _, h | .enum _ _ _ _, .array _ _, h
  | .enum _ _ _ _, .tuple _, h | .enum _ _ _ _, .struct _ _, h => by simp [Val.hasType] at h
theorem ValList.encodeAll_length : ∀ (vs : ValList) (t : Ty), vs.allHaveType t = true →
    (vs.encodeAll t).length = t.size * vs.length
  | .nil, _, _ => by simp [ValList.encodeAll, ValList.length]
  | .cons v r, t, h => by
    simp only [ValList.allHaveType, Bool.and_eq_true] at h
    simp only [ValList.encodeAll, List.length_append, Val.encode_length v t h.1,
      ValList.encodeAll_length r t h.2, ValList.length, Nat.mul_add, Nat.mul_one]
    omega
theorem ValList.encodeEach_length : ∀ (vs : ValList) (ts : TyList), vs.haveTypes ts = true →
    (vs.encodeEach ts).length = ts.size
  | .nil, .nil, _ => by simp [ValList.encodeEach, TyList.size]
  | .cons v r, .cons t ts, h => by
    simp only [ValList.haveTypes, Bool.and_eq_true] at h
    simp only [ValList.encodeEach, List.length_append, Val.encode_length v t h.1,
      ValList.encodeEach_length r ts h.2, TyList.size]
  | .nil, .cons _ _, h => by simp [ValList.haveTypes] at h
  | .cons _ _, .nil, h => by simp [ValList.haveTypes] at h
theorem FieldVals.encodeEach_length : ∀ (fvs : FieldVals) (fs : Fields), fvs.haveTypes fs = true →
    (fvs.encodeEach fs).length = fs.size
  | .nil, .nil, _ => by simp [FieldVals.encodeEach, Fields.size]
  | .cons _ v r, .cons _ t ts, h => by
    simp only [FieldVals.haveTypes, Bool.and_eq_true] at h
    simp only [FieldVals.encodeEach, List.length_append, Val.encode_length v t h.1.2,
      FieldVals.encodeEach_length r ts h.2, Fields.size]
  | .nil, .cons _ _ _, h => by simp [FieldVals.haveTypes] at h
  | .cons _ _ _, .nil, h => by simp [FieldVals.haveTypes] at h
end

/-! ### numbers round-trip -/

theorem bitsToNat_foldl (acc : Nat) (bs : List Bool) :
    bs.foldl (fun acc b => 2 * acc + b.toNat) acc =
      acc * 2 ^ bs.length + bs.foldl (fun acc b => 2 * acc + b.toNat) 0 := by
  induction bs generalizing acc with
  | nil => simp
  | cons b bs ih =>
    simp only [List.foldl_cons, List.length_cons, Nat.pow_succ, Nat.mul_zero, Nat.zero_add]
    rw [ih (2 * acc + b.toNat), ih b.toNat]
    have : (2 * acc + b.toNat) * 2 ^ bs.length = acc * (2 ^ bs.length * 2) + b.toNat * 2 ^ bs.length := by
      rw [Nat.add_mul, Nat.mul_comm 2 acc, Nat.mul_assoc, Nat.mul_comm 2]
    omega

theorem bitsToNat_cons (b : Bool) (bs : List Bool) :
    bitsToNat (b :: bs) = b.toNat * 2 ^ bs.length + bitsToNat bs := by
  simp only [bitsToNat, List.foldl_cons, Nat.mul_zero, Nat.zero_add]
  exact bitsToNat_foldl b.toNat bs

theorem bitsToNat_natToBits (n size : Nat) : bitsToNat (natToBits n size) = n % 2 ^ size := by
  induction size with
  | zero => simp [natToBits, bitsToNat, Nat.mod_one]
  | succ s ih =>
    simp only [natToBits, bitsToNat_cons, natToBits_length, ih]
    have h2 : n % 2 ^ (s + 1) = n % 2 ^ s + 2 ^ s * (n / 2 ^ s % 2) := Nat.mod_pow_succ
    rw [h2]
    rcases Nat.mod_two_eq_zero_or_one (n / 2 ^ s) with h | h
    · rw [h]; simp
    · rw [h]; simp; omega

theorem int_roundtrip (k : IntTy) (i : Int) (h : k.inRange i = true) :
    bitsToInt k.signed (intToBits i k.bits) = i := by
  simp only [IntTy.inRange, Bool.and_eq_true, decide_eq_true_eq] at h
  obtain ⟨hlo, hhi⟩ := h
  have hnat : ∀ w, (bitsToNat (intToBits i w) : Int) = i % (2 : Int) ^ w := by
    intro w
    simp only [intToBits, bitsToNat_natToBits]
    have hpos : (0 : Int) ≤ i % (2 : Int) ^ w := Int.emod_nonneg _ (Int.ne_of_gt (Int.pow_pos (by decide)))
    have hlt : i % (2 : Int) ^ w < (2 : Int) ^ w := Int.emod_lt_of_pos _ (Int.pow_pos (by decide))
    have e : ((i % (2 : Int) ^ w).toNat : Int) = i % (2 : Int) ^ w := Int.toNat_of_nonneg hpos
    have hlt' : (i % (2 : Int) ^ w).toNat < 2 ^ w := by
      have : ((i % (2 : Int) ^ w).toNat : Int) < ((2 ^ w : Nat) : Int) := by rw [e]; push_cast; exact hlt
      exact_mod_cast this
    rw [Nat.mod_eq_of_lt hlt', e]
  have hhead : ∀ w, (intToBits i (w + 1)).headD false = decide ((2 : Int) ^ w ≤ i % (2 : Int) ^ (w + 1)) := by
    intro w
    simp only [intToBits, natToBits, List.headD_cons]
    have hpos : (0 : Int) ≤ i % (2 : Int) ^ (w + 1) := Int.emod_nonneg _ (Int.ne_of_gt (Int.pow_pos (by decide)))
    have hlt : i % (2 : Int) ^ (w + 1) < (2 : Int) ^ (w + 1) := Int.emod_lt_of_pos _ (Int.pow_pos (by decide))
    generalize hm : i % (2 : Int) ^ (w + 1) = m at *
    have hmn : (m.toNat : Int) = m := Int.toNat_of_nonneg hpos
    have hP : ((2 : Int) ^ w) = (((2 : Nat) ^ w : Nat) : Int) := by push_cast; rfl
    have hlt2 : m.toNat < 2 ^ w * 2 := by
      have : (m.toNat : Int) < (((2 : Nat) ^ w * 2 : Nat) : Int) := by
        rw [hmn]; push_cast; rw [Int.pow_succ] at hlt; exact hlt
      exact_mod_cast this
    by_cases hge : 2 ^ w ≤ m.toNat
    · have : m.toNat / 2 ^ w = 1 := by
        apply Nat.div_eq_of_lt_le <;> omega
      have hdec : (2 : Int) ^ w ≤ m := by rw [hP, ← hmn]; exact_mod_cast hge
      simp [this, hdec]
    · have : m.toNat / 2 ^ w = 0 := Nat.div_eq_of_lt (by omega)
      have hdec : ¬ (2 : Int) ^ w ≤ m := by
        rw [hP, ← hmn]; intro hc; apply hge; exact_mod_cast hc
      simp [this, hdec]
  cases k <;>
    simp only [IntTy.lo, IntTy.hi, IntTy.signed, IntTy.bits, if_true, if_false, Bool.false_eq_true] at hlo hhi ⊢ <;>
    simp only [bitsToInt, Bool.false_and, Bool.true_and, Bool.false_eq_true, if_false, hnat, intToBits_length,
      hhead] <;>
    simp at hlo hhi ⊢ <;> (try split) <;> omega

/-! ### tags -/

namespace Variants

theorem tagSize_go_spec (n : Nat) : ∀ (fuel b : Nat), n ≤ 2 ^ (b + fuel) → n ≤ 2 ^ (tagSize.go n fuel b)
  | 0, b, h => by simpa [tagSize.go] using h
  | fuel + 1, b, h => by
    simp only [tagSize.go]
    split
    · exact tagSize_go_spec n fuel (b + 1) (by
        have e : b + 1 + fuel = b + (fuel + 1) := by omega
        rw [e]; exact h)
    · omega

/-- the tag is wide enough for every variant index -/
theorem length_le_pow_tagSize (vs : Variants) : vs.length ≤ 2 ^ vs.tagSize := by
  simp only [tagSize]
  apply tagSize_go_spec
  simp only [Nat.zero_add]
  exact Nat.le_of_lt Nat.lt_two_pow_self

theorem find?_lt_length : ∀ (vs : Variants) (name : String) (i : Nat) (u : Bool) (fts : TyList),
    vs.find? name = some (i, u, fts) → i < vs.length
  | .nil, _, _, _, _, h => by simp [find?] at h
  | .cons n u' fs r, name, i, u, fts, h => by
    simp only [find?] at h
    split at h
    · simp only [Option.some.injEq, Prod.mk.injEq] at h
      obtain ⟨rfl, _, _⟩ := h
      simp [length]
    · split at h
      · rename_i i' u'' fts' hr
        simp only [Option.some.injEq, Prod.mk.injEq] at h
        obtain ⟨rfl, _, _⟩ := h
        have := find?_lt_length r name i' u'' fts' hr
        simp only [length]; omega
      · simp at h

/-- decoding at the index `find?` returned decodes the fields of that very variant -/
theorem decodeAt_find? : ∀ (vs : Variants) (name : String) (i : Nat) (u : Bool) (fts : TyList)
    (bits : List Bool), vs.find? name = some (i, u, fts) →
    vs.decodeAt i bits = (fts.decodeEach bits).map fun x => (name, u, x)
  | .nil, _, _, _, _, _, h => by simp [find?] at h
  | .cons n u' fs r, name, i, u, fts, bits, h => by
    simp only [find?] at h
    split at h
    · rename_i hn
      simp only [Option.some.injEq, Prod.mk.injEq] at h
      obtain ⟨rfl, rfl, rfl⟩ := h
      have : n = name := by simpa using hn
      subst this
      simp only [decodeAt]
      cases fs.decodeEach bits <;> rfl
    · split at h
      · rename_i i' u'' fts' hr
        simp only [Option.some.injEq, Prod.mk.injEq] at h
        obtain ⟨rfl, rfl, rfl⟩ := h
        simp only [decodeAt]
        exact decodeAt_find? r name i' u'' fts' bits hr
      · simp at h

end Variants

/-! ### the round trip -/

theorem take_append_len {α} (a b : List α) (n : Nat) (h : a.length = n) : (a ++ b).take n = a := by
  subst h; simp

theorem drop_append_len {α} (a b : List α) (n : Nat) (h : a.length = n) : (a ++ b).drop n = b := by
  subst h; simp

mutual
/-- **C09 (round trip)**: decoding the encoding of a well-typed value yields the value -/
theorem Val.decode_encode : ∀ (v : Val) (t : Ty), v.hasType t = true → t.decode (v.encode t) = some v
  | .bool b, .bool, _ => by simp [Val.encode, Ty.decode]
  | .int i, .int k, h => by
    simp only [Val.hasType] at h
    simp [Val.encode, Ty.decode, intToBits_length, int_roundtrip k i h]
  | .array vs, .array t n, h => by
    simp only [Val.hasType, Bool.and_eq_true, beq_iff_eq] at h
    have := ValList.decodeN_encodeAll vs t h.2
    simp only [Val.encode, Ty.decode, ← h.1, this]
  | .tuple vs, .tuple ts, h => by
    simp only [Val.hasType] at h
    have := ValList.decodeEach_encodeEach vs ts [] h
    simp only [List.append_nil] at this
    simp only [Val.encode, Ty.decode, this]
  | .struct name fvs, .struct name' fs, h => by
    simp only [Val.hasType, Bool.and_eq_true, beq_iff_eq] at h
    have := FieldVals.decodeEach_encodeEach fvs fs [] h.2
    simp only [List.append_nil] at this
    simp only [Val.encode, Ty.decode, this, h.1]
  | .enum name variant isUnit vs, .enum name' variants, h => by
    simp only [Val.hasType, Bool.and_eq_true, beq_iff_eq] at h
    obtain ⟨hname, h2⟩ := h
    cases hf : variants.find? variant with
    | none => rw [hf] at h2; simp at h2
    | some r =>
      obtain ⟨i, u, fts⟩ := r
      rw [hf] at h2
      simp only [Bool.and_eq_true, beq_iff_eq] at h2
      have hlt := Variants.find?_lt_length variants variant i u fts hf
      have hpow := Variants.length_le_pow_tagSize variants
      simp only [Val.encode, Ty.decode, hf]
      rw [List.append_assoc, take_append_len _ _ _ (natToBits_length _ _),
        drop_append_len _ _ _ (natToBits_length _ _), bitsToNat_natToBits,
        Nat.mod_eq_of_lt (by omega), Variants.decodeAt_find? variants variant i u fts _ hf,
        ValList.decodeEach_encodeEach vs fts _ h2.2]
      simp [hname, h2.1]
  | .bool _, .int _, h | .bool _, .array _ _, h | .bool _, .tuple _, h | .bool _, .struct _ _, h
  | .bool _, .enum _ _, h => by simp [Val.hasType] at h
  | .int _, .bool, h | .int _, .array _ _, h | .int _, .tuple _, h | .int _, .struct _ _, h
  | .int _, .enum _ _, h => by simp [Val.hasType] at h
  | .array _, .bool, h | .array _, .int _, h | .array _, .tuple _, h | .array _, .struct _ _, h
  | .array _, .enum _ _, h => by simp [Val.hasType] at h
  | .tuple _, .bool, h | .tuple _, .int _, h | .tuple _, .array _ _, h | .tuple _, .struct _ _, h
  | .tuple _, .enum _ _, h => by simp [Val.hasType] at h
  | .struct _ _, .bool, h | .struct _ _, .int _, h | .struct _ _, .array _ _, h | .struct _ _, .tuple _, h
  | .struct _ _, .enum _ _, h => by simp [Val.hasType] at h
  | .enum _ _ _ _, .bool, h | .enum _ _ _ _, .int _, h | .enum _ _ _ _, .array _ _, h
  | .enum _ _ _ _, .tuple _, h | .enum _ _ _ _, .struct _ _, h => by simp [Val.hasType] at h
theorem ValList.decodeN_encodeAll : ∀ (vs : ValList) (t : Ty), vs.allHaveType t = true →
    decodeN t.decode t.size vs.length (vs.encodeAll t) = some vs
  | .nil, _, _ => by simp [ValList.encodeAll, ValList.length, decodeN]
  | .cons v r, t, h => by
    simp only [ValList.allHaveType, Bool.and_eq_true] at h
    have hl := Val.encode_length v t h.1
    simp only [ValList.encodeAll, ValList.length, decodeN, take_append_len _ _ _ hl,
      drop_append_len _ _ _ hl, Val.decode_encode v t h.1, ValList.decodeN_encodeAll r t h.2]
theorem ValList.decodeEach_encodeEach : ∀ (vs : ValList) (ts : TyList) (extra : List Bool),
    vs.haveTypes ts = true → ts.decodeEach (vs.encodeEach ts ++ extra) = some vs
  | .nil, .nil, _, _ => by simp [TyList.decodeEach]
  | .cons v r, .cons t ts, extra, h => by
    simp only [ValList.haveTypes, Bool.and_eq_true] at h
    have hl := Val.encode_length v t h.1
    simp only [ValList.encodeEach, TyList.decodeEach, List.append_assoc, take_append_len _ _ _ hl,
      drop_append_len _ _ _ hl, Val.decode_encode v t h.1, ValList.decodeEach_encodeEach r ts extra h.2]
  | .nil, .cons _ _, _, h => by simp [ValList.haveTypes] at h
  | .cons _ _, .nil, _, h => by simp [ValList.haveTypes] at h
theorem FieldVals.decodeEach_encodeEach : ∀ (fvs : FieldVals) (fs : Fields) (extra : List Bool),
    fvs.haveTypes fs = true → fs.decodeEach (fvs.encodeEach fs ++ extra) = some fvs
  | .nil, .nil, _, _ => by simp [Fields.decodeEach]
  | .cons n v r, .cons n' t ts, extra, h => by
    simp only [FieldVals.haveTypes, Bool.and_eq_true, beq_iff_eq] at h
    have hl := Val.encode_length v t h.1.2
    simp only [FieldVals.encodeEach, Fields.decodeEach, List.append_assoc, take_append_len _ _ _ hl,
      drop_append_len _ _ _ hl, Val.decode_encode v t h.1.2, FieldVals.decodeEach_encodeEach r ts extra h.2,
      h.1.1]
  | .nil, .cons _ _ _, _, h => by simp [FieldVals.haveTypes] at h
  | .cons _ _ _, .nil, _, h => by simp [FieldVals.haveTypes] at h
end

end GV
