import GarbleVerif.Proofs.LastUse
/-! Specification of `find_out_reg`: the returned register is not in use by any wire that is
still mapped, nor in the free list, and the bookkeeping invariants are kept. -/
namespace GV
namespace Reg

/-- `wire_map.get(w)` -/
def regOf (st : Alloc) (w : Nat) : Option Nat := st.wireMap.getD w none

theorem regOf_lt_length {st : Alloc} {w r : Nat} (h : regOf st w = some r) : w < st.wireMap.length := by
  rcases Nat.lt_or_ge w st.wireMap.length with hlt | hge
  · exact hlt
  · simp [regOf, List.getD_eq_getElem?_getD, List.getElem?_eq_none hge] at h

/-- bookkeeping part of the allocator invariant -/
structure Pre (st : Alloc) : Prop where
  mappedLt : ∀ w r, regOf st w = some r → r < st.next
  inj : ∀ w w' r, regOf st w = some r → regOf st w' = some r → w = w'
  freeNodup : st.free.Nodup
  freeOk : ∀ r, r ∈ st.free → r < st.next ∧ ∀ w, regOf st w ≠ some r

/-- what `find_out_reg` guarantees -/
structure FSpec (last : List LastUse) (g : Nat) (st : Alloc) (out : Nat) (st1 : Alloc) : Prop where
  shrink : ∀ w r, regOf st1 w = some r → regOf st w = some r
  keep : ∀ w r, regOf st w = some r → last.getD w .never ≠ .at g → regOf st1 w = some r
  fresh : ∀ w r, regOf st1 w = some r → r ≠ out
  outLt : out < st1.next
  nextMono : st.next ≤ st1.next
  nextLe : st1.next ≤ st.next + 1
  freeNodup : st1.free.Nodup
  freeOk : ∀ r, r ∈ st1.free → r < st1.next ∧ r ≠ out ∧ ∀ w, regOf st1 w ≠ some r
  mapLen : st1.wireMap.length = st.wireMap.length
  insts : st1.insts = st.insts
  andOps : st1.andOps = st.andOps

def unmap (st : Alloc) (a : Nat) : Alloc := { st with wireMap := st.wireMap.set a none }

theorem regOf_unmap (st : Alloc) (a w : Nat) (h : a < st.wireMap.length) :
    regOf (unmap st a) w = if a = w then none else regOf st w := by
  simp only [regOf, unmap, getD_set, h, and_true]

/-- release one dying operand and reuse its register -/
theorem fspec_reuse1 {last : List LastUse} {g : Nat} {st : Alloc} (hp : Pre st) {a ra : Nat}
    (ha : regOf st a = some ra) (hla : last.getD a .never = .at g) :
    FSpec last g st ra (unmap st a) := by
  have hal := regOf_lt_length ha
  refine ⟨?_, ?_, ?_, hp.mappedLt a ra ha, Nat.le_refl _, Nat.le_succ _, hp.freeNodup, ?_, by simp [unmap], rfl, rfl⟩
  · intro w r h
    rw [regOf_unmap _ _ _ hal] at h
    split at h
    · simp at h
    · exact h
  · intro w r h hl
    rw [regOf_unmap _ _ _ hal]
    have : a ≠ w := by intro e; subst e; exact hl hla
    simp [this, h]
  · intro w r h
    rw [regOf_unmap _ _ _ hal] at h
    split at h
    · simp at h
    · rename_i hne
      intro e; subst e
      exact hne (hp.inj a w r ha h)
  · intro r hr
    obtain ⟨h1, h2⟩ := hp.freeOk r hr
    refine ⟨h1, ?_, ?_⟩
    · intro e; subst e; exact h2 a ha
    · intro w h
      rw [regOf_unmap _ _ _ hal] at h
      split at h
      · simp at h
      · exact h2 w h

/-- release both operands: reuse the first register, push the second on the free list -/
theorem fspec_reuse2 {last : List LastUse} {g : Nat} {st : Alloc} (hp : Pre st) {a b ra rb : Nat}
    (ha : regOf st a = some ra) (hla : last.getD a .never = .at g)
    (hb : regOf (unmap st a) b = some rb) (hlb : last.getD b .never = .at g) :
    FSpec last g st ra { unmap (unmap st a) b with free := rb :: st.free } := by
  have hal := regOf_lt_length ha
  have hbl : b < (unmap st a).wireMap.length := regOf_lt_length hb
  have hbl' : b < st.wireMap.length := by simpa [unmap] using hbl
  have hab : a ≠ b := by
    intro e; subst e
    rw [regOf_unmap _ _ _ hal] at hb; simp at hb
  have hb0 : regOf st b = some rb := by
    rw [regOf_unmap _ _ _ hal] at hb; simpa [hab] using hb
  have hrab : ra ≠ rb := by intro e; subst e; exact hab (hp.inj a b ra ha hb0)
  have key : ∀ w, regOf { unmap (unmap st a) b with free := rb :: st.free } w =
      if b = w then none else if a = w then none else regOf st w := by
    intro w
    show regOf (unmap (unmap st a) b) w = _
    rw [regOf_unmap _ _ _ hbl, regOf_unmap _ _ _ hal]
  refine ⟨?_, ?_, ?_, hp.mappedLt a ra ha, Nat.le_refl _, Nat.le_succ _, ?_, ?_, by simp [unmap], rfl, rfl⟩
  · intro w r h
    rw [key] at h
    split at h
    · simp at h
    · split at h
      · simp at h
      · exact h
  · intro w r h hl
    rw [key]
    have h1 : a ≠ w := by intro e; subst e; exact hl hla
    have h2 : b ≠ w := by intro e; subst e; exact hl hlb
    simp [h1, h2, h]
  · intro w r h
    rw [key] at h
    split at h
    · simp at h
    · split at h
      · simp at h
      · rename_i _ hne
        intro e; subst e
        exact hne (hp.inj a w r ha h)
  · show (rb :: st.free).Nodup
    refine List.nodup_cons.mpr ⟨?_, hp.freeNodup⟩
    intro hm
    exact (hp.freeOk rb hm).2 b hb0
  · intro r hr
    have hr' : r = rb ∨ r ∈ st.free := by simpa using hr
    rcases hr' with rfl | hr'
    · refine ⟨hp.mappedLt b r hb0, Ne.symm hrab, ?_⟩
      intro w h
      rw [key] at h
      split at h
      · simp at h
      · rename_i hne
        split at h
        · simp at h
        · exact hne (hp.inj b w r hb0 h)
    · obtain ⟨h1, h2⟩ := hp.freeOk r hr'
      refine ⟨h1, ?_, ?_⟩
      · intro e; subst e; exact h2 a ha
      · intro w h
        rw [key] at h
        split at h
        · simp at h
        · split at h
          · simp at h
          · exact h2 w h

/-- nothing dies: pop a free register -/
theorem fspec_pop {last : List LastUse} {g : Nat} {st : Alloc} (hp : Pre st) {reg : Nat} {rest : List Nat}
    (hf : st.free = reg :: rest) : FSpec last g st reg { st with free := rest } := by
  have hnd : (reg :: rest).Nodup := hf ▸ hp.freeNodup
  have hmem : reg ∈ st.free := by rw [hf]; simp
  obtain ⟨h1, h2⟩ := hp.freeOk reg hmem
  refine ⟨fun _ _ h => h, fun _ _ h _ => h, ?_, h1, Nat.le_refl _, Nat.le_succ _, (List.nodup_cons.mp hnd).2, ?_, rfl, rfl, rfl⟩
  · intro w r h e; subst e; exact h2 w h
  · intro r hr
    have hr' : r ∈ st.free := by rw [hf]; simp [hr]
    obtain ⟨h3, h4⟩ := hp.freeOk r hr'
    refine ⟨h3, ?_, h4⟩
    intro e; subst e
    exact (List.nodup_cons.mp hnd).1 hr

/-- nothing dies and nothing is free: allocate the next register -/
theorem fspec_fresh {last : List LastUse} {g : Nat} {st : Alloc} (hp : Pre st) (hf : st.free = []) :
    FSpec last g st st.next { st with next := st.next + 1 } := by
  refine ⟨fun _ _ h => h, fun _ _ h _ => h, ?_, Nat.lt_succ_self _, Nat.le_succ _, Nat.le_refl _, by simp [hf], ?_, rfl, rfl, rfl⟩
  · intro w r h e; subst e
    exact Nat.lt_irrefl _ (hp.mappedLt w _ h)
  · intro r hr
    simp [hf] at hr

theorem fspec_none {last : List LastUse} {g : Nat} {st : Alloc} (hp : Pre st) :
    ∃ out st1, (match st.free with
      | reg :: rest => some (reg, { st with free := rest })
      | [] => some (st.next, { st with next := st.next + 1 })) = some (out, st1) ∧
      FSpec last g st out st1 := by
  split
  · rename_i reg rest hf; exact ⟨_, _, rfl, fspec_pop hp hf⟩
  · rename_i hf; exact ⟨_, _, rfl, fspec_fresh hp hf⟩

/-- **`find_out_reg` never panics on a mapped first operand and satisfies `FSpec`.** -/
theorem findOutReg_spec (last : List LastUse) (st : Alloc) (g a : Nat) (b : Option Nat) (hp : Pre st)
    {ra : Nat} (ha : regOf st a = some ra) :
    ∃ out st1, findOutReg last st g a b = some (out, st1) ∧ FSpec last g st out st1 := by
  have ha' : st.wireMap.getD a none = some ra := ha
  by_cases hla : last.getD a .never = .at g
  · -- the first operand dies here
    cases b with
    | none =>
      exact ⟨ra, unmap st a, by simp only [findOutReg, hla, ha', unmap, ↓reduceIte], fspec_reuse1 hp ha hla⟩
    | some b =>
      by_cases hlb : last.getD b .never = .at g
      · cases hb : regOf (unmap st a) b with
        | none =>
          have hb' : (st.wireMap.set a none).getD b none = none := hb
          exact ⟨ra, unmap st a, by simp only [findOutReg, hla, ha', hlb, hb', unmap, ↓reduceIte], fspec_reuse1 hp ha hla⟩
        | some rb =>
          have hb' : (st.wireMap.set a none).getD b none = some rb := hb
          exact ⟨ra, _, by simp only [findOutReg, hla, ha', hlb, hb', unmap, ↓reduceIte], fspec_reuse2 hp ha hla hb hlb⟩
      · exact ⟨ra, unmap st a, by simp only [findOutReg, hla, ha', hlb, unmap, ↓reduceIte], fspec_reuse1 hp ha hla⟩
  · -- the first operand stays alive
    cases b with
    | none =>
      obtain ⟨out, st1, h1, h2⟩ := fspec_none (last := last) (g := g) hp
      exact ⟨out, st1, by simp only [findOutReg, hla, ↓reduceIte]; exact h1, h2⟩
    | some b =>
      by_cases hlb : last.getD b .never = .at g
      · cases hb : regOf st b with
        | none =>
          have hb' : st.wireMap.getD b none = none := hb
          obtain ⟨out, st1, h1, h2⟩ := fspec_none (last := last) (g := g) hp
          exact ⟨out, st1, by simp only [findOutReg, hla, hlb, hb', ↓reduceIte]; exact h1, h2⟩
        | some rb =>
          have hb' : st.wireMap.getD b none = some rb := hb
          exact ⟨rb, unmap st b, by simp only [findOutReg, hla, hlb, hb', unmap, ↓reduceIte], fspec_reuse1 hp hb hlb⟩
      · obtain ⟨out, st1, h1, h2⟩ := fspec_none (last := last) (g := g) hp
        exact ⟨out, st1, by simp only [findOutReg, hla, hlb, ↓reduceIte]; exact h1, h2⟩

end Reg
end GV
