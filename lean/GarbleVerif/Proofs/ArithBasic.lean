import GarbleVerif.Model.Arith
/-! Ripple adder, negation: arithmetic meaning for every width. LSB-first numerals. -/
namespace GV
namespace Arith

def toNatLE : List Bool → Nat
  | [] => 0
  | b :: bs => b.toNat + 2 * toNatLE bs

/-- value of a big-endian bit list -/
def toNat (bs : List Bool) : Nat := toNatLE bs.reverse

theorem bOr_eq (x y : Bool) : bOr x y = (x || y) := by cases x <;> cases y <;> rfl

theorem mux_eq (s x0 x1 : Bool) : mux s x0 x1 = if s then x0 else x1 := by
  cases s <;> cases x0 <;> cases x1 <;> rfl

theorem fullAdder_spec (x y c : Bool) :
    (fullAdder x y c).1.toNat + 2 * (fullAdder x y c).2.toNat = x.toNat + y.toNat + c.toNat := by
  cases x <;> cases y <;> cases c <;> decide

theorem addLE_length (xs ys : List Bool) (c : Bool) (h : xs.length = ys.length) :
    (addLE xs ys c).1.length = xs.length := by
  induction xs generalizing ys c with
  | nil => cases ys <;> simp [addLE]
  | cons x xs ih =>
    cases ys with
    | nil => simp at h
    | cons y ys =>
      simp only [List.length_cons, Nat.add_right_cancel_iff] at h
      simp [addLE, ih ys _ h]

/-- **the ripple adder adds**: `sum + 2^n·carry = x + y + cin` -/
theorem addLE_spec (xs ys : List Bool) (c : Bool) (h : xs.length = ys.length) :
    toNatLE (addLE xs ys c).1 + 2 ^ xs.length * (addLE xs ys c).2.toNat
      = toNatLE xs + toNatLE ys + c.toNat := by
  induction xs generalizing ys c with
  | nil =>
    cases ys with
    | nil => simp [addLE, toNatLE]
    | cons _ _ => simp at h
  | cons x xs ih =>
    cases ys with
    | nil => simp at h
    | cons y ys =>
      simp only [List.length_cons, Nat.add_right_cancel_iff] at h
      have := ih ys (fullAdder x y c).2 h
      have fa := fullAdder_spec x y c
      simp only [addLE, toNatLE, List.length_cons, Nat.pow_succ, Nat.mul_right_comm _ 2 _]
      generalize addLE xs ys (fullAdder x y c).2 = r at this ⊢
      obtain ⟨rest, cf⟩ := r
      simp only at this ⊢
      omega

theorem toNatLE_lt (xs : List Bool) : toNatLE xs < 2 ^ xs.length := by
  induction xs with
  | nil => simp [toNatLE]
  | cons x xs ih => simp only [toNatLE, List.length_cons, Nat.pow_succ]; cases x <;> simp <;> omega

theorem toNatLE_zeros (ys : List Bool) : toNatLE (ys.map (fun _ => false)) = 0 := by
  induction ys with
  | nil => rfl
  | cons y ys ih => simp [toNatLE, ih]

theorem toNatLE_map_and (xb : Bool) (ys : List Bool) :
    toNatLE (ys.map (xb && ·)) = xb.toNat * toNatLE ys := by
  induction ys with
  | nil => simp [toNatLE]
  | cons y ys ih => cases xb <;> simp [toNatLE, ih, toNatLE_zeros]

theorem toNatLE_append (a b : List Bool) : toNatLE (a ++ b) = toNatLE a + 2 ^ a.length * toNatLE b := by
  induction a with
  | nil => simp [toNatLE]
  | cons x a ih =>
    simp only [List.cons_append, toNatLE, ih, List.length_cons, Nat.pow_succ, Nat.mul_right_comm _ 2 _]
    omega

/-- `negLE` with incoming carry: `~x + carry` modulo `2^n` -/
theorem negLE_length (xs : List Bool) (c : Bool) : (negLE xs c).length = xs.length := by
  induction xs generalizing c with
  | nil => rfl
  | cons x xs ih => simp [negLE, ih]

theorem negLE_spec (xs : List Bool) (c : Bool) :
    ∃ k, k ≤ 1 ∧ toNatLE (negLE xs c) + 2 ^ xs.length * k + toNatLE xs + 1 = 2 ^ xs.length + c.toNat := by
  induction xs generalizing c with
  | nil => exact ⟨c.toNat, by cases c <;> simp, by simp [negLE, toNatLE]; omega⟩
  | cons x xs ih =>
    obtain ⟨k, hk, h⟩ := ih (c && !x)
    refine ⟨k, hk, ?_⟩
    simp only [negLE, toNatLE, List.length_cons, Nat.pow_succ]
    have hk' : k = 0 ∨ k = 1 := by omega
    rcases hk' with rfl | rfl <;> cases x <;> cases c <;> simp at h ⊢ <;> omega

/-- **negation**: `neg x = 2^n - x` (mod `2^n`) -/
theorem negLE_true (xs : List Bool) :
    toNatLE (negLE xs true) = (2 ^ xs.length - toNatLE xs) % 2 ^ xs.length := by
  obtain ⟨k, hk, h⟩ := negLE_spec xs true
  have hlt := toNatLE_lt xs
  have hlt2 := toNatLE_lt (negLE xs true)
  rw [negLE_length] at hlt2
  simp only [Bool.toNat_true] at h
  rcases Nat.eq_zero_or_pos (toNatLE xs) with h0 | hpos
  · rw [h0] at h ⊢
    simp only [Nat.sub_zero, Nat.mod_self]
    have : k = 1 := by
      rcases Nat.lt_or_ge k 1 with hk0 | hk1
      · have : k = 0 := by omega
        subst this; omega
      · omega
    subst this; omega
  · have : k = 0 := by
      rcases Nat.lt_or_ge k 1 with hk0 | hk1
      · omega
      · have : k = 1 := by omega
        subst this; omega
    subst this
    rw [Nat.mod_eq_of_lt (by omega)]
    omega

end Arith
end GV
